package main

import (
	"fmt"
	"go/ast"
	"go/build"
	"go/constant"
	"go/importer"
	"go/parser"
	"go/token"
	"go/types"
	"path/filepath"
	"sort"
	"strconv"
	"strings"
)

// nf*: the NORMAL-FORM skeleton engine used by the C20 translator (c20skel.go).
//
// A target function is symbolically executed over go/ast + go/types and printed as a list
// of canonical lines.  What the normal form RECORDS, in program order, on every control
// path of the target:
//
//   - pool operations: `obj<T> := get recv.<Pool[T]>` / `put recv.<Pool[T]> obj<T>`
//     (Get/Put of a syncutil.Pool; the object is named after the pool's element type);
//   - every store into memory (fields, elements, pointees): `LOC := VALUE`; a run of stores
//     that sets all n elements of a pooled slice of pool length n is one `fill` line;
//   - every call that is not inlined and not provably pure: `[%k :=] call F(args)` —
//     calls through interfaces and function values, calls of the pinned (target)
//     functions of the package, calls of other packages that are statements or receive a
//     pointer/slice/map/chan/func/interface that reaches a parameter, the receiver, a
//     pooled object or the result of an earlier event; nested calls are flattened in Go's
//     evaluation order (results are numbered %1, %2, …);
//   - assignments to local variables that are assigned in loops/branches/closures
//     (`res0`, `var1`, …), `return`, `panic`, `break`;
//   - branching (`if C {`, `} else {`, `}`; `if not C {`) and loops (`for elem of S
//     last-to-first {`);
//   - the deferred calls: before every event that can panic or leave the function, the
//     calls that would run at that point, in the order in which they would run (LIFO),
//     inlined — `on-exit {` … `}` — printed whenever that list differs from the one printed
//     last; `run on-exit` marks the normal end.
//
// What is NORMALISED AWAY:
//
//   - names of locals, parameters, receivers (`recv`, `p0`, `c0`, …) and of fields of the
//     package's own structs whose type is unique in the struct (`recv.<slog.Level>`);
//     single-assignment locals are replaced by their defining expression;
//   - calls of functions and methods of the same package that are not targets are INLINED
//     (non-recursive; a helper's `return` ends the helper only), as are function literals
//     called or deferred in place and struct values built from a composite literal
//     (a struct grouping pooled objects is followed field by field);
//   - early `return`/`continue`/`panic` vs. else-branch, `!c`/`!=` vs. swapped branches,
//     `switch` vs. if-chain, `x = cmp.Or(x, c)` vs. `if x == 0 { x = c }`;
//   - the three spellings of a slice walk (index up/down, `i-1` indexing, range,
//     slices.Backward/All/Values): only the DIRECTION is recorded;
//   - pure computation: expressions that contain a call but reach no parameter, receiver,
//     pooled object or event result are printed as `_:T` where they are used and not at
//     all where they are only bound; blank assignments of call-free expressions (bounds
//     check hints) are dropped;
//   - the position of a pool Get between the previous event and its first use (a Get is
//     moved down to its first use — holding an unused object longer is unobservable under
//     the sync.Pool contract MEM-1, and a Put of an object that was not used is cancelled
//     against its Get); the position of a `defer` statement between two events that can
//     panic; `defer a(); defer b()` vs. one deferred function doing `b(); a()`.
//
// Everything else FAILS LOUDLY (nfFail): goroutines, channel operations, select, labels,
// goto, type switches, defers in branches or loops, helpers with defers in non-tail
// position, recursion, early exits nested more than one level below the statements they
// skip, locals holding a value read from a pooled object across a store to it, pool
// fields used in functions the skeleton does not reach.

type nfErr struct{ msg string }

func nfFail(format string, a ...any) { panic(nfErr{fmt.Sprintf(format, a...)}) }

// ---------------------------------------------------------------- package loading

type nfPkg struct {
	dir     string
	fset    *token.FileSet
	info    *types.Info
	pkg     *types.Package
	files   []*ast.File
	decls   map[*types.Func]*ast.FuncDecl
	mutable map[types.Object]bool
	visited map[*ast.FuncDecl]bool
	targets map[*types.Func]bool
}

func nfLoad(dir string) (*nfPkg, error) {
	fset := token.NewFileSet()
	matches, _ := filepath.Glob(filepath.Join(dir, "*.go"))
	sort.Strings(matches)
	var files []*ast.File
	for _, m := range matches {
		if strings.HasSuffix(m, "_test.go") || strings.HasSuffix(m, "_verif.go") ||
			strings.HasSuffix(m, "_windows.go") || strings.HasSuffix(m, "_darwin.go") {
			continue
		}
		// comments are not parsed, so they cannot leak into the skeleton
		f, err := parser.ParseFile(fset, m, nil, parser.SkipObjectResolution)
		if err != nil {
			return nil, err
		}
		files = append(files, f)
	}
	info := &types.Info{
		Defs: map[*ast.Ident]types.Object{}, Uses: map[*ast.Ident]types.Object{},
		Types: map[ast.Expr]types.TypeAndValue{}, Selections: map[*ast.SelectorExpr]*types.Selection{},
		Instances: map[*ast.Ident]types.Instance{}, Implicits: map[ast.Node]types.Object{},
	}
	var errs []string
	// the source importer resolves the module's own packages with `go list`, which go/build
	// runs in build.Default.Dir (the process's directory if empty): point it at the package
	// for the duration of the type check only (other translators are not affected)
	oldDir := build.Default.Dir
	build.Default.Dir = dir
	defer func() { build.Default.Dir = oldDir }()
	conf := types.Config{
		Importer: importer.ForCompiler(fset, "source", nil),
		Error:    func(e error) { errs = append(errs, e.Error()) },
	}
	pkg, _ := conf.Check(filepath.Base(dir), fset, files, info)
	if len(errs) > 0 || pkg == nil {
		if len(errs) > 5 {
			errs = errs[:5]
		}
		return nil, fmt.Errorf("package %s does not type-check: %s", dir, strings.Join(errs, "; "))
	}
	p := &nfPkg{dir: dir, fset: fset, info: info, pkg: pkg, files: files,
		decls: map[*types.Func]*ast.FuncDecl{}, mutable: map[types.Object]bool{},
		visited: map[*ast.FuncDecl]bool{}, targets: map[*types.Func]bool{}}
	for _, f := range files {
		for _, d := range f.Decls {
			if fd, ok := d.(*ast.FuncDecl); ok {
				if fn, ok := info.Defs[fd.Name].(*types.Func); ok {
					p.decls[fn] = fd
				}
			}
		}
	}
	p.analyze()
	return p, nil
}

// analyze finds the local variables that cannot be treated as single-assignment names:
// assigned outside the block that declares them (loops, branches, closures), assigned
// more than once while captured by a function literal, or address-taken.
func (p *nfPkg) analyze() {
	declScope := map[types.Object]ast.Node{}
	owner := map[types.Object]ast.Node{}
	cnt := map[types.Object]int{}
	captured := map[types.Object]bool{}
	var stack []ast.Node
	scopeOf := func() ast.Node {
		for i := len(stack) - 1; i >= 0; i-- {
			switch n := stack[i].(type) {
			case *ast.BlockStmt, *ast.CaseClause, *ast.CommClause:
				// the Init statement of if/for/switch belongs to that statement's scope
				return n
			case *ast.IfStmt, *ast.ForStmt, *ast.SwitchStmt, *ast.TypeSwitchStmt, *ast.RangeStmt:
				return n
			}
		}
		return nil
	}
	funcOf := func() ast.Node {
		for i := len(stack) - 1; i >= 0; i-- {
			switch n := stack[i].(type) {
			case *ast.FuncLit, *ast.FuncDecl:
				return n
			}
		}
		return nil
	}
	declParams := func(ft *ast.FuncType, recv *ast.FieldList, body *ast.BlockStmt, fn ast.Node) {
		for _, fl := range []*ast.FieldList{recv, ft.Params, ft.Results} {
			if fl == nil {
				continue
			}
			for _, f := range fl.List {
				for _, id := range f.Names {
					if o := p.info.Defs[id]; o != nil {
						declScope[o], owner[o], cnt[o] = body, fn, 1
					}
				}
			}
		}
	}
	assign := func(e ast.Expr, scope ast.Node) {
		id, ok := ast.Unparen(e).(*ast.Ident)
		if !ok {
			return
		}
		o, ok := p.info.Uses[id].(*types.Var)
		if !ok || o.IsField() || o.Parent() == p.pkg.Scope() {
			return
		}
		cnt[o]++
		if declScope[o] != scope {
			p.mutable[o] = true
		}
	}
	for _, f := range p.files {
		ast.Inspect(f, func(n ast.Node) bool {
			if n == nil {
				stack = stack[:len(stack)-1]
				return true
			}
			switch x := n.(type) {
			case *ast.FuncDecl:
				if x.Body != nil {
					declParams(x.Type, x.Recv, x.Body, x)
				}
			case *ast.FuncLit:
				declParams(x.Type, nil, x.Body, x)
			case *ast.AssignStmt:
				sc := scopeOf()
				for _, l := range x.Lhs {
					if id, ok := l.(*ast.Ident); ok && x.Tok == token.DEFINE {
						if o := p.info.Defs[id]; o != nil {
							declScope[o], owner[o], cnt[o] = sc, funcOf(), 1
							continue
						}
					}
					assign(l, sc)
				}
			case *ast.IncDecStmt:
				assign(x.X, scopeOf())
			case *ast.RangeStmt:
				for _, e := range []ast.Expr{x.Key, x.Value} {
					if e == nil {
						continue
					}
					if id, ok := e.(*ast.Ident); ok && x.Tok == token.DEFINE {
						if o := p.info.Defs[id]; o != nil {
							declScope[o], owner[o], cnt[o] = x, funcOf(), 1
							continue
						}
					}
					if id, ok := e.(*ast.Ident); ok && id.Name == "_" {
						continue
					}
					// `for k, v = range` assigns on every iteration
					if id, ok := ast.Unparen(e).(*ast.Ident); ok {
						if o, ok := p.info.Uses[id].(*types.Var); ok {
							p.mutable[o] = true
						}
					}
				}
			case *ast.ValueSpec:
				sc := scopeOf()
				for _, id := range x.Names {
					if o := p.info.Defs[id]; o != nil && sc != nil {
						declScope[o], owner[o], cnt[o] = sc, funcOf(), 1
					}
				}
			case *ast.UnaryExpr:
				if x.Op == token.AND {
					if id, ok := ast.Unparen(x.X).(*ast.Ident); ok {
						if o, ok := p.info.Uses[id].(*types.Var); ok && !o.IsField() && o.Parent() != p.pkg.Scope() {
							p.mutable[o] = true
						}
					}
				}
			case *ast.Ident:
				if o, ok := p.info.Uses[x].(*types.Var); ok && !o.IsField() {
					if fn, has := owner[o]; has && fn != funcOf() {
						captured[o] = true
					}
				}
			}
			stack = append(stack, n)
			return true
		})
	}
	for o := range captured {
		if cnt[o] > 1 {
			p.mutable[o] = true
		}
	}
}

func (p *nfPkg) qual(q *types.Package) string {
	if q == p.pkg {
		return ""
	}
	return q.Name()
}

func (p *nfPkg) typeStr(t types.Type) string {
	if t == nil {
		return "?"
	}
	return types.TypeString(t, p.qual)
}

func (p *nfPkg) pos(n ast.Node) string {
	ps := p.fset.Position(n.Pos())
	return fmt.Sprintf("%s:%d", filepath.Base(ps.Filename), ps.Line)
}

// ---------------------------------------------------------------- values

type nfRead struct{ loc, obj string }

type nfClosure struct {
	lit *ast.FuncLit
	env *nfEnv
}

type nfVal struct {
	s       string
	typ     types.Type
	prec    int // 3 primary, 2 unary, 1 binary
	ment    map[string]bool
	tracked bool // reaches a parameter, receiver, pooled object, event result, mutable variable or global
	opq     bool // pure computation that starts from calls without (non-opaque) arguments: its value is irrelevant to the model
	konst   bool
	reads   []nfRead
	root    string            // the parameter, receiver, object or result a location starts from
	rec     map[string]*nfVal // struct of this package built from a composite literal (or its zero value)
	recKeys []string
	recT    *types.Struct
	recPtr  bool // the value is the address of the record: bindings share it
	isZero  bool
	fn      *nfClosure
	pool    *types.Var // the value is a pool field of the receiver
	poolRcv string
	event   bool // (direct mode only) the text is an event call that has not been emitted
	user    bool // (event) a call of a parameter of the translated function or closure
	// structure kept for the slice-fill rule
	sliceOf *nfVal // v = sliceOf[lo:hi]
	lo, hi  string
	appBase *nfVal // v = append(appBase, appElems...)
	appEl   []*nfVal
	zeroOK  bool
}

func (v *nfVal) text(parentPrec int) string {
	if v.prec < parentPrec {
		return "(" + v.s + ")"
	}
	return v.s
}

type nfBinding struct {
	v     *nfVal
	stale string
}

type nfEnv struct {
	vars   map[types.Object]*nfBinding
	parent *nfEnv
}

func (e *nfEnv) lookup(o types.Object) *nfBinding {
	for x := e; x != nil; x = x.parent {
		if b, ok := x.vars[o]; ok {
			return b
		}
	}
	return nil
}

func nfNewEnv(parent *nfEnv) *nfEnv {
	return &nfEnv{vars: map[types.Object]*nfBinding{}, parent: parent}
}

// ---------------------------------------------------------------- items

const (
	nfLine = iota
	nfGet
	nfDefer
	nfIf
	nfLoop
	nfExit // normal end of the frame: the deferred calls run
)

type nfItem struct {
	kind    int
	text    string
	ment    map[string]bool
	panicPt bool
	userPt  bool   // a panic the model has a transition for: call of a handler/callback parameter, panic(), return
	obj     string // nfGet: the object; nfLine: the object of a top-level `put`
	isPut   bool
	body    []*nfItem
	els     []*nfItem
	// store metadata (invalidation of stale locals, fill rule)
	isSt     bool
	stLoc    string
	stRoot   string
	fillBase string   // the slice whose element fillIdx is stored / which is re-built by append(base[:0], …)
	fillIdx  int      // -1: not an element store with a constant index
	fillAll  []string // append form: all the elements
	stVal    string
}

func nfMentions(it *nfItem, obj string) bool {
	if it.ment[obj] {
		return true
	}
	for _, b := range it.body {
		if nfMentions(b, obj) {
			return true
		}
	}
	for _, b := range it.els {
		if nfMentions(b, obj) {
			return true
		}
	}
	return false
}

// ---------------------------------------------------------------- state

type nfFrame struct {
	printed bool // target function or function literal printed as a value: `return` is a line
	sig     *types.Signature
	results []types.Object
	rets    [][]*nfVal
	loops   int
	defers  int
}

type nfState struct {
	p        *nfPkg
	cnt      int
	dcnt     int
	varcnt   int
	inDefer  bool
	bindings []*nfBinding
	inl      []*types.Func
	depth    int
	cur      *[]*nfItem
	frame    *nfFrame
	lits     *[][]string
	poolLen  map[string]int // object name -> slice length of its pool (from the constructor)
	objSeq   map[string]int
	tailCall *ast.CallExpr       // the call statement in tail position of the frame's top-level list
	pre      map[ast.Expr]*nfVal // operands of a deferred call, evaluated at the defer statement
	params   map[string]bool     // names of the parameters of the translated function and of the enclosing closures
}

func (st *nfState) emit(it *nfItem) {
	*st.cur = append(*st.cur, it)
	// a binding that holds a value read from an object is stale once the object may change
	if it.kind == nfLine && it.isSt {
		st.invalidate(it.stLoc, map[string]bool{it.stRoot: true}, false)
	} else if it.kind == nfLine && it.panicPt {
		st.invalidate("", it.ment, true)
	}
}

func (st *nfState) invalidate(storeLoc string, objs map[string]bool, all bool) {
	for _, b := range st.bindings {
		if b.stale != "" {
			continue
		}
		for _, r := range b.v.reads {
			if !objs[r.obj] {
				continue
			}
			if all || nfMayAlias(r.loc, storeLoc) {
				b.stale = r.loc
			}
		}
	}
}

// nfMayAlias: may a store to storeLoc change what a read of readLoc returned?  Element
// stores do not change a slice header; stores to different fields do not interfere.
func nfMayAlias(readLoc, storeLoc string) bool {
	if readLoc == storeLoc {
		return true
	}
	isElem := func(s string) (string, bool) {
		if strings.HasSuffix(s, "]") {
			if i := strings.LastIndex(s, "["); i > 0 {
				return s[:i], true
			}
		}
		return "", false
	}
	isField := func(s string) (string, bool) {
		if i := strings.LastIndex(s, "."); i > 0 && !strings.HasSuffix(s, "]") && !strings.HasSuffix(s, ")") {
			return s[:i], true
		}
		return "", false
	}
	if sb, ok := isElem(storeLoc); ok {
		if strings.TrimSuffix(strings.TrimPrefix(sb, "("), ")") == readLoc {
			return false // header read, element store
		}
		if rb, ok2 := isElem(readLoc); ok2 && rb != sb {
			return true
		}
	}
	if sb, ok := isField(storeLoc); ok {
		if rb, ok2 := isField(readLoc); ok2 && rb == sb {
			return false // different fields of the same object (equal locations were handled above)
		}
	}
	return true
}

func (st *nfState) sub(f func()) []*nfItem {
	var l []*nfItem
	old := st.cur
	st.cur = &l
	f()
	st.cur = old
	return l
}

func (st *nfState) fresh() string {
	if st.inDefer {
		st.dcnt++
		return fmt.Sprintf("%%d%d", st.dcnt)
	}
	st.cnt++
	return fmt.Sprintf("%%%d", st.cnt)
}

func nfUnion(ms ...map[string]bool) map[string]bool {
	r := map[string]bool{}
	for _, m := range ms {
		for k := range m {
			r[k] = true
		}
	}
	return r
}

// display text of a sub-value inside a tracked parent or an event: pure computation that
// reaches nothing the model talks about is printed as its type only
func (st *nfState) disp(v *nfVal, prec int) string {
	if v.pool != nil {
		nfFail("the pool field %s is used other than as the receiver of Get/Put", v.s)
	}
	if v.opq && !v.tracked && v.fn == nil {
		return "_:" + st.p.typeStr(v.typ)
	}
	return v.text(prec)
}

func (st *nfState) compose(typ types.Type, prec int, ownTracked, ownCall bool, kids []*nfVal, build func(ks []string) string, precs ...int) *nfVal {
	r := &nfVal{typ: typ, prec: prec, tracked: ownTracked, ment: map[string]bool{}}
	anyOpq, allOpq, allOpqOrConst := false, true, true
	for _, k := range kids {
		if k.pool != nil {
			nfFail("the pool field %s is used other than as the receiver of Get/Put", k.s)
		}
		r.tracked = r.tracked || k.tracked
		anyOpq = anyOpq || k.opq
		allOpq = allOpq && k.opq
		allOpqOrConst = allOpqOrConst && (k.opq || k.konst)
		for m := range k.ment {
			r.ment[m] = true
		}
		r.reads = append(r.reads, k.reads...)
	}
	if ownCall {
		r.opq = allOpq
	} else {
		r.opq = anyOpq && allOpqOrConst
	}
	if r.tracked {
		r.opq = false
	}
	ks := make([]string, len(kids))
	for i, k := range kids {
		pr := 0
		if i < len(precs) {
			pr = precs[i]
		}
		if r.tracked {
			ks[i] = st.disp(k, pr)
		} else {
			ks[i] = k.text(pr)
		}
	}
	r.s = build(ks)
	return r
}

// nfRefLike: can a callee reach memory of the caller through a value of this type?
func nfRefLike(t types.Type) bool { return nfRefLikeDepth(t, 0) }

func nfRefLikeDepth(t types.Type, depth int) bool {
	if t == nil || depth > 6 {
		return true
	}
	switch u := t.Underlying().(type) {
	case *types.Pointer, *types.Slice, *types.Map, *types.Chan, *types.Signature, *types.Interface:
		return true
	case *types.Tuple:
		for i := 0; i < u.Len(); i++ {
			if nfRefLikeDepth(u.At(i).Type(), depth+1) {
				return true
			}
		}
	case *types.Struct:
		for i := 0; i < u.NumFields(); i++ {
			if nfRefLikeDepth(u.Field(i).Type(), depth+1) {
				return true
			}
		}
	case *types.Array:
		return nfRefLikeDepth(u.Elem(), depth+1)
	case *types.TypeParam:
		return true
	}
	return false
}

func (st *nfState) zero(t types.Type) *nfVal {
	s := "zero:" + st.p.typeStr(t)
	switch u := t.Underlying().(type) {
	case *types.Basic:
		switch {
		case u.Info()&types.IsString != 0:
			s = `""`
		case u.Info()&types.IsBoolean != 0:
			s = "false"
		case u.Info()&types.IsNumeric != 0:
			s = "0"
		}
	case *types.Pointer, *types.Slice, *types.Map, *types.Chan, *types.Signature, *types.Interface:
		s = "nil"
	case *types.Struct:
		if named, ok := types.Unalias(t).(*types.Named); ok && named.Obj().Pkg() == st.p.pkg {
			return st.newRec(t, u, false)
		}
	}
	return &nfVal{s: s, typ: t, prec: 3, konst: true}
}

// ---------------------------------------------------------------- expressions

func (st *nfState) constText(tv types.TypeAndValue) string {
	if tv.Value.Kind() == constant.String {
		return strconv.Quote(constant.StringVal(tv.Value))
	}
	return tv.Value.ExactString()
}

func (st *nfState) fieldName(sel *types.Selection, id *ast.Ident) string {
	f, ok := sel.Obj().(*types.Var)
	if !ok || len(sel.Index()) != 1 || f.Pkg() != st.p.pkg {
		return id.Name
	}
	rt := sel.Recv()
	if pt, ok := rt.Underlying().(*types.Pointer); ok {
		rt = pt.Elem()
	}
	s, ok := rt.Underlying().(*types.Struct)
	if !ok {
		return id.Name
	}
	n := 0
	for i := 0; i < s.NumFields(); i++ {
		if types.Identical(s.Field(i).Type(), f.Type()) {
			n++
		}
	}
	if n != 1 {
		return id.Name
	}
	return "<" + st.p.typeStr(f.Type()) + ">"
}

func nfIsPoolType(t types.Type) (elem types.Type, ok bool) {
	if pt, isPtr := t.Underlying().(*types.Pointer); isPtr {
		t = pt.Elem()
	}
	n, isNamed := types.Unalias(t).(*types.Named)
	if !isNamed || n.Obj().Name() != "Pool" || n.Obj().Pkg() == nil {
		return nil, false
	}
	if path := n.Obj().Pkg().Path(); path != "syncutil" && !strings.HasSuffix(path, "/syncutil") {
		return nil, false
	}
	if n.TypeArgs() == nil || n.TypeArgs().Len() != 1 {
		return nil, false
	}
	return n.TypeArgs().At(0), true
}

func (st *nfState) eval(env *nfEnv, e ast.Expr) *nfVal { return st.evalMode(env, e, false) }

// evalMode evaluates e, emitting the events of its calls.  With direct set and e itself an
// event call, the call is NOT emitted: the returned value has event=true and s="call …",
// and the caller prints it as part of its own line.
func (st *nfState) evalMode(env *nfEnv, e ast.Expr, direct bool) *nfVal {
	p := st.p
	if v, ok := st.pre[e]; ok {
		return v
	}
	e = ast.Unparen(e)
	if v, ok := st.pre[e]; ok {
		return v
	}
	if tv, ok := p.info.Types[e]; ok && tv.Value != nil {
		return &nfVal{s: st.constText(tv), typ: tv.Type, prec: 3, konst: true}
	}
	typ := p.info.TypeOf(e)
	switch x := e.(type) {
	case *ast.Ident:
		return st.ident(env, x)
	case *ast.BasicLit:
		return &nfVal{s: x.Value, typ: typ, prec: 3, konst: true}
	case *ast.FuncLit:
		return st.funcLit(env, x)
	case *ast.CallExpr:
		return st.call(env, x, direct, false)
	case *ast.SelectorExpr:
		if sel := p.info.Selections[x]; sel != nil {
			base := st.eval(env, x.X)
			switch sel.Kind() {
			case types.FieldVal:
				if base.rec != nil {
					if fv, ok := base.rec[x.Sel.Name]; ok {
						return fv
					}
					nfFail("%s: field %s of a struct value is not set", p.pos(x), x.Sel.Name)
				}
				name := st.fieldName(sel, x.Sel)
				r := st.compose(typ, 3, false, false, []*nfVal{base}, func(ks []string) string { return ks[0] + "." + name }, 3)
				if r.root = base.root; r.root != "" {
					r.reads = append(r.reads, nfRead{r.s, r.root})
				}
				if _, isPool := nfIsPoolType(typ); isPool {
					if f, ok := sel.Obj().(*types.Var); ok {
						r.pool, r.poolRcv = f, base.s
					}
				}
				return r
			default:
				// method value
				return st.compose(typ, 3, false, false, []*nfVal{base}, func(ks []string) string { return ks[0] + "." + x.Sel.Name }, 3)
			}
		}
		// qualified identifier
		if o := p.info.Uses[x.Sel]; o != nil {
			if _, isVar := o.(*types.Var); isVar {
				return &nfVal{s: o.Pkg().Name() + "." + o.Name(), typ: typ, prec: 3, tracked: true}
			}
			if o.Pkg() != nil {
				return &nfVal{s: o.Pkg().Name() + "." + o.Name() + st.instArgs(x.Sel), typ: typ, prec: 3}
			}
		}
		nfFail("%s: unresolved selector", p.pos(x))
	case *ast.StarExpr:
		if tv := p.info.Types[x]; tv.IsType() {
			return &nfVal{s: p.typeStr(tv.Type), typ: tv.Type, prec: 3}
		}
		base := st.eval(env, x.X)
		if strings.HasPrefix(base.s, "&") && base.prec == 2 {
			// *&x = x
			inner := *base
			inner.s, inner.prec, inner.typ = strings.TrimPrefix(base.s, "&"), 2, typ
			if base.zeroOK {
				inner.prec = 3
			}
			return &inner
		}
		r := st.compose(typ, 2, false, false, []*nfVal{base}, func(ks []string) string { return "*" + ks[0] }, 3)
		if r.root = base.root; r.root != "" {
			r.reads = append(r.reads, nfRead{r.s, r.root})
		}
		return r
	case *ast.UnaryExpr:
		switch x.Op {
		case token.ARROW:
			nfFail("%s: channel receive is outside the skeleton subset", p.pos(x))
		case token.AND:
			if cl, ok := ast.Unparen(x.X).(*ast.CompositeLit); ok {
				v := st.composite(env, cl, true)
				return v
			}
			base := st.eval(env, x.X)
			r := st.compose(typ, 2, false, false, []*nfVal{base}, func(ks []string) string { return "&" + ks[0] }, 3)
			r.reads = nil // taking an address reads nothing
			r.root = base.root
			r.zeroOK = base.prec == 3
			return r
		}
		base := st.eval(env, x.X)
		return st.compose(typ, 2, false, false, []*nfVal{base}, func(ks []string) string { return x.Op.String() + ks[0] }, 2)
	case *ast.BinaryExpr:
		a := st.eval(env, x.X)
		if x.Op == token.LAND || x.Op == token.LOR {
			var b *nfVal
			side := st.sub(func() { b = st.eval(env, x.Y) })
			if len(side) > 0 {
				nfFail("%s: an event in the right operand of %s is evaluated conditionally: outside the skeleton subset", p.pos(x), x.Op)
			}
			return st.compose(typ, 1, false, false, []*nfVal{a, b}, func(ks []string) string { return ks[0] + " " + x.Op.String() + " " + ks[1] }, 2, 2)
		}
		b := st.eval(env, x.Y)
		// index arithmetic of the `for i := len(s); i > 0; i--` walk
		if a.s == "#i+1" && x.Op == token.SUB && b.s == "1" {
			return &nfVal{s: "#i", typ: typ, prec: 3, tracked: true}
		}
		return st.compose(typ, 1, false, false, []*nfVal{a, b}, func(ks []string) string { return ks[0] + " " + x.Op.String() + " " + ks[1] }, 2, 2)
	case *ast.IndexExpr:
		if tv := p.info.Types[x.Index]; tv.IsType() {
			// explicit instantiation
			return st.eval(env, x.X)
		}
		base := st.eval(env, x.X)
		idx := st.eval(env, x.Index)
		if idx.s == "#i" && base.s == st.loopSlice(env) && base.s != "" {
			return &nfVal{s: "elem", typ: typ, prec: 3, tracked: true}
		}
		r := st.compose(typ, 3, false, false, []*nfVal{base, idx}, func(ks []string) string { return ks[0] + "[" + ks[1] + "]" }, 3, 0)
		if r.root = base.root; r.root != "" {
			r.reads = append(r.reads, nfRead{r.s, r.root})
		}
		return r
	case *ast.IndexListExpr:
		return st.eval(env, x.X)
	case *ast.SliceExpr:
		base := st.eval(env, x.X)
		kids := []*nfVal{base}
		part := func(e ast.Expr) string {
			if e == nil {
				return ""
			}
			v := st.eval(env, e)
			kids = append(kids, v)
			return v.text(0)
		}
		lo, hi, mx := part(x.Low), part(x.High), part(x.Max)
		r := st.compose(typ, 3, false, false, kids, func(ks []string) string {
			s := ks[0] + "[" + lo + ":" + hi
			if x.Slice3 {
				s += ":" + mx
			}
			return s + "]"
		}, 3)
		r.sliceOf, r.lo, r.hi, r.root = base, lo, hi, base.root
		if x.Slice3 {
			r.sliceOf = nil
		}
		return r
	case *ast.CompositeLit:
		return st.composite(env, x, false)
	case *ast.TypeAssertExpr:
		base := st.eval(env, x.X)
		t := "type"
		if x.Type != nil {
			t = p.typeStr(p.info.TypeOf(x.Type))
		}
		return st.compose(typ, 3, false, false, []*nfVal{base}, func(ks []string) string { return ks[0] + ".(" + t + ")" }, 3)
	case *ast.KeyValueExpr:
		nfFail("%s: key-value outside a composite literal", p.pos(x))
	case *ast.ArrayType, *ast.MapType, *ast.ChanType, *ast.FuncType, *ast.InterfaceType, *ast.StructType:
		return &nfVal{s: p.typeStr(typ), typ: typ, prec: 3}
	}
	nfFail("%s: expression kind %T is outside the skeleton subset", p.pos(e), e)
	return nil
}

func (st *nfState) instArgs(id *ast.Ident) string {
	inst, ok := st.p.info.Instances[id]
	if !ok || inst.TypeArgs == nil || inst.TypeArgs.Len() == 0 {
		return ""
	}
	var ts []string
	for i := 0; i < inst.TypeArgs.Len(); i++ {
		ts = append(ts, st.p.typeStr(inst.TypeArgs.At(i)))
	}
	return "[" + strings.Join(ts, ", ") + "]"
}

var nfLoopSliceKey = types.NewVar(token.NoPos, nil, "#loopslice", types.Typ[types.Int])

func (st *nfState) loopSlice(env *nfEnv) string {
	if b := env.lookup(nfLoopSliceKey); b != nil {
		return b.v.s
	}
	return ""
}

func (st *nfState) ident(env *nfEnv, id *ast.Ident) *nfVal {
	p := st.p
	if id.Name == "_" {
		nfFail("%s: blank identifier used as a value", p.pos(id))
	}
	o := p.info.Uses[id]
	if o == nil {
		o = p.info.Defs[id]
	}
	typ := p.info.TypeOf(id)
	switch o := o.(type) {
	case *types.Nil:
		return &nfVal{s: "nil", typ: typ, prec: 3}
	case *types.Const:
		if tv, ok := p.info.Types[id]; ok && tv.Value != nil {
			return &nfVal{s: st.constText(tv), typ: typ, prec: 3}
		}
		return &nfVal{s: o.Name(), typ: typ, prec: 3}
	case *types.TypeName:
		return &nfVal{s: p.typeStr(o.Type()), typ: o.Type(), prec: 3}
	case *types.Func:
		return &nfVal{s: o.Name() + st.instArgs(id), typ: typ, prec: 3}
	case *types.Builtin:
		return &nfVal{s: o.Name(), typ: typ, prec: 3}
	case *types.Var:
		if o.Parent() == p.pkg.Scope() {
			return &nfVal{s: o.Name(), typ: typ, prec: 3, tracked: true}
		}
		b := env.lookup(o)
		if b == nil {
			nfFail("%s: local %s has no value here", p.pos(id), id.Name)
		}
		if b.stale != "" {
			nfFail("%s: local %s holds a value read from %s before that location was (possibly) modified: outside the skeleton subset", p.pos(id), id.Name, b.stale)
		}
		return b.v
	}
	nfFail("%s: identifier %s is not resolved", p.pos(id), id.Name)
	return nil
}

func (st *nfState) composite(env *nfEnv, cl *ast.CompositeLit, addr bool) *nfVal {
	p := st.p
	typ := p.info.TypeOf(cl)
	tname := p.typeStr(typ)
	var kids []*nfVal
	var keys []string
	strct, isStruct := typ.Underlying().(*types.Struct)
	for i, el := range cl.Elts {
		if kv, ok := el.(*ast.KeyValueExpr); ok {
			if isStruct {
				k := kv.Key.(*ast.Ident).Name
				keys = append(keys, k)
			} else {
				kv0 := st.eval(env, kv.Key)
				keys = append(keys, kv0.text(0))
			}
			kids = append(kids, st.eval(env, kv.Value))
			continue
		}
		if isStruct {
			keys = append(keys, strct.Field(i).Name())
		} else {
			keys = append(keys, "")
		}
		kids = append(kids, st.eval(env, el))
	}
	// a struct of this package built from a literal is followed field by field (by value, or
	// through the pointer the literal's address is bound to)
	if named, ok := types.Unalias(typ).(*types.Named); ok && isStruct && named.Obj().Pkg() == p.pkg {
		r := st.newRec(typ, strct, addr)
		for i, k := range keys {
			r.rec[k] = kids[i]
		}
		st.recText(r)
		return r
	}
	pre := ""
	prec := 3
	if addr {
		pre, prec = "&", 2
		typ = types.NewPointer(typ)
	}
	// keyed struct literals: the order of the keys carries no meaning unless the values have events
	return st.compose(typ, prec, false, false, kids, func(ks []string) string {
		var parts []string
		for i := range ks {
			if keys[i] != "" {
				parts = append(parts, keys[i]+": "+ks[i])
			} else {
				parts = append(parts, ks[i])
			}
		}
		return pre + tname + "{" + strings.Join(parts, ", ") + "}"
	})
}

// ---------------------------------------------------------------- function literals

const nfLitMark = "\x00"

func (st *nfState) funcLit(env *nfEnv, lit *ast.FuncLit) *nfVal {
	p := st.p
	sig := p.info.TypeOf(lit).(*types.Signature)
	sub := &nfState{p: p, depth: st.depth + 1, lits: st.lits, poolLen: st.poolLen, objSeq: map[string]int{},
		inl: st.inl, pre: st.pre, params: map[string]bool{}}
	for k := range st.params {
		sub.params[k] = true
	}
	fenv := nfNewEnv(env)
	prefix := string(rune('c' + st.depth))
	var ps []string
	i := 0
	for _, f := range lit.Type.Params.List {
		t := p.typeStr(p.info.TypeOf(f.Type))
		if _, ok := f.Type.(*ast.Ellipsis); ok {
			t = "..." + p.typeStr(p.info.TypeOf(f.Type).(*types.Slice).Elem())
		}
		if len(f.Names) == 0 {
			ps = append(ps, t)
			i++
		}
		for _, id := range f.Names {
			name := fmt.Sprintf("%s%d", prefix, i)
			i++
			ps = append(ps, name+" "+t)
			if o := p.info.Defs[id]; o != nil {
				sub.params[name] = true
				sub.bindParam(fenv, o, &nfVal{s: name, typ: o.Type(), prec: 3, tracked: true, root: name})
			}
		}
	}
	hdr := "func(" + strings.Join(ps, ", ") + ")"
	fr := &nfFrame{printed: true, sig: sig}
	if lit.Type.Results != nil {
		var rs []string
		k := 0
		for _, f := range lit.Type.Results.List {
			t := p.typeStr(p.info.TypeOf(f.Type))
			n := len(f.Names)
			if n == 0 {
				n = 1
			}
			for j := 0; j < n; j++ {
				rs = append(rs, t)
			}
			for _, id := range f.Names {
				if o := p.info.Defs[id]; o != nil && id.Name != "_" {
					fr.results = append(fr.results, o)
					sub.bindResult(fenv, o, k)
				}
				k++
			}
		}
		hdr += " (" + strings.Join(rs, ", ") + ")"
	}
	sub.frame = fr
	items := sub.sub(func() {
		fl := sub.block(fenv, lit.Body.List, true)
		if fl.term == 0 || fl.partial {
			sub.emit(&nfItem{kind: nfExit})
		}
	})
	lines := nfRenderFrame(sub, items)
	*st.lits = append(*st.lits, lines)
	idx := len(*st.lits) - 1
	v := &nfVal{s: hdr + " {" + nfLitMark + strconv.Itoa(idx) + nfLitMark + "}", typ: sig, prec: 3,
		fn: &nfClosure{lit: lit, env: env}, ment: map[string]bool{}}
	return v
}

func (st *nfState) bindParam(env *nfEnv, o types.Object, v *nfVal) {
	if st.p.mutable[o] {
		st.varcnt++
		name := fmt.Sprintf("var%d", st.varcnt)
		st.emitAssignVar(name, v)
		v = &nfVal{s: name, typ: o.Type(), prec: 3, tracked: true, root: name}
	}
	v = nfCopyRec(v)
	b := &nfBinding{v: v}
	env.vars[o] = b
	st.bindings = append(st.bindings, b)
}

func (st *nfState) bindResult(env *nfEnv, o types.Object, k int) {
	if st.p.mutable[o] {
		env.vars[o] = &nfBinding{v: &nfVal{s: fmt.Sprintf("res%d", k), typ: o.Type(), prec: 3, tracked: true}}
		return
	}
	env.vars[o] = &nfBinding{v: st.zero(o.Type())}
}

func (st *nfState) emitAssignVar(name string, v *nfVal) {
	if v.event {
		st.emit(&nfItem{kind: nfLine, text: name + " := " + v.s, ment: v.ment, panicPt: true, userPt: v.user})
		return
	}
	st.emit(&nfItem{kind: nfLine, text: name + " := " + st.disp(v, 0), ment: v.ment})
}

// ---------------------------------------------------------------- calls

func (st *nfState) args(env *nfEnv, call *ast.CallExpr) []*nfVal {
	var vs []*nfVal
	for _, a := range call.Args {
		vs = append(vs, st.eval(env, a))
	}
	return vs
}

func (st *nfState) argList(call *ast.CallExpr, vs []*nfVal) string {
	var ss []string
	for _, v := range vs {
		ss = append(ss, st.disp(v, 0))
	}
	s := strings.Join(ss, ", ")
	if call.Ellipsis.IsValid() {
		s += "..."
	}
	return s
}

// event emits (or, in direct mode, returns) the event `call text`.
// user: the callee is a parameter of the function or closure being translated (a handler,
// a callback): the model has a transition for its panic.
func (st *nfState) event(typ types.Type, text string, ment map[string]bool, direct, stmt, user bool) *nfVal {
	if direct {
		return &nfVal{s: "call " + text, typ: typ, prec: 0, tracked: true, event: true, user: user, ment: ment}
	}
	if stmt {
		st.emit(&nfItem{kind: nfLine, text: "call " + text, ment: ment, panicPt: true, userPt: user})
		return &nfVal{s: "?", typ: typ, prec: 3, tracked: true}
	}
	if tup, ok := typ.(*types.Tuple); ok && tup.Len() == 0 {
		nfFail("a call without a result is used as a value: %s", text)
	}
	n := st.fresh()
	st.emit(&nfItem{kind: nfLine, text: n + " := call " + text, ment: ment, panicPt: true, userPt: user})
	return &nfVal{s: n, typ: typ, prec: 3, tracked: true, root: n, ment: nfUnion(ment)}
}

func (st *nfState) call(env *nfEnv, call *ast.CallExpr, direct, stmt bool) *nfVal {
	p := st.p
	typ := p.info.TypeOf(call)
	fun := ast.Unparen(call.Fun)
	// conversion
	if tv, ok := p.info.Types[fun]; ok && tv.IsType() {
		if len(call.Args) != 1 {
			nfFail("%s: malformed conversion", p.pos(call))
		}
		a := st.eval(env, call.Args[0])
		tn := p.typeStr(tv.Type)
		if strings.ContainsAny(tn, "*( ") {
			tn = "(" + tn + ")"
		}
		r := st.compose(typ, 3, false, false, []*nfVal{a}, func(ks []string) string { return tn + "(" + ks[0] + ")" }, 0)
		return r
	}
	inner := fun
	switch x := inner.(type) {
	case *ast.IndexExpr:
		if tv := p.info.Types[x.Index]; tv.IsType() {
			inner = ast.Unparen(x.X)
		}
	case *ast.IndexListExpr:
		inner = ast.Unparen(x.X)
	}
	var id *ast.Ident
	var selX ast.Expr
	switch x := inner.(type) {
	case *ast.Ident:
		id = x
	case *ast.SelectorExpr:
		id = x.Sel
		if p.info.Selections[x] != nil {
			selX = x.X
		}
	case *ast.FuncLit:
		v := st.eval(env, x)
		return st.inlineLit(v.fn, st.args(env, call), call)
	}
	if id != nil {
		switch o := p.info.Uses[id].(type) {
		case *types.Builtin:
			return st.builtin(env, call, o.Name(), typ, direct, stmt)
		case *types.Func:
			return st.callFunc(env, call, o, id, selX, typ, direct, stmt)
		case *types.Var:
			if selX == nil && !o.IsField() {
				fv := st.eval(env, inner)
				if fv.fn != nil {
					return st.inlineLit(fv.fn, st.args(env, call), call)
				}
			}
		}
	}
	// a call through a function value: always an event
	fv := st.eval(env, fun)
	vs := st.args(env, call)
	ment := nfUnion(fv.ment)
	for _, v := range vs {
		ment = nfUnion(ment, v.ment)
	}
	return st.event(typ, st.disp(fv, 3)+"("+st.argList(call, vs)+")", ment, direct, stmt, st.params[fv.root])
}

func (st *nfState) builtin(env *nfEnv, call *ast.CallExpr, name string, typ types.Type, direct, stmt bool) *nfVal {
	p := st.p
	switch name {
	case "panic":
		vs := st.args(env, call)
		st.emit(&nfItem{kind: nfLine, text: "panic(" + st.argList(call, vs) + ")", ment: nfUnion(vs[0].ment), panicPt: true, userPt: true})
		return &nfVal{s: "?", typ: typ, prec: 3}
	case "len", "cap", "min", "max", "new", "make", "complex", "real", "imag":
		var vs []*nfVal
		for i, a := range call.Args {
			if i == 0 && (name == "make" || name == "new") {
				vs = append(vs, &nfVal{s: p.typeStr(p.info.TypeOf(a)), typ: p.info.TypeOf(a), prec: 3})
				continue
			}
			vs = append(vs, st.eval(env, a))
		}
		if name == "make" {
			if _, isChan := p.info.TypeOf(call.Args[0]).Underlying().(*types.Chan); isChan {
				nfFail("%s: make(chan) is outside the skeleton subset", p.pos(call))
			}
		}
		return st.compose(typ, 3, false, name == "make" || name == "new", vs, func(ks []string) string { return name + "(" + strings.Join(ks, ", ") + ")" })
	case "append":
		vs := st.args(env, call)
		r := st.compose(typ, 3, false, false, vs, func(ks []string) string {
			s := strings.Join(ks, ", ")
			if call.Ellipsis.IsValid() {
				s += "..."
			}
			return "append(" + s + ")"
		})
		if !call.Ellipsis.IsValid() && len(vs) >= 1 {
			r.appBase, r.appEl = vs[0], vs[1:]
		}
		return r
	case "copy", "delete", "clear", "print", "println":
		vs := st.args(env, call)
		ment := map[string]bool{}
		for _, v := range vs {
			ment = nfUnion(ment, v.ment)
		}
		return st.event(typ, name+"("+st.argList(call, vs)+")", ment, direct, stmt, false)
	case "recover":
		return st.event(typ, "recover()", nil, direct, stmt, false)
	}
	nfFail("%s: builtin %s is outside the skeleton subset", p.pos(call), name)
	return nil
}

func (st *nfState) callFunc(env *nfEnv, call *ast.CallExpr, fn *types.Func, id *ast.Ident, selX ast.Expr, typ types.Type, direct, stmt bool) *nfVal {
	p := st.p
	sig := fn.Type().(*types.Signature)
	var recv *nfVal
	if selX != nil {
		recv = st.eval(env, selX)
	}
	// pool operations
	if recv != nil && recv.pool != nil && (fn.Name() == "Get" || fn.Name() == "Put") {
		elem, _ := nfIsPoolType(recv.typ)
		poolText := recv.poolRcv + ".<Pool[" + p.typeStr(elem) + "]>"
		if recv.root != "" && p.poolElemUnique(elem) {
			// wrappers around the pool field do not matter when the element type identifies it
			poolText = recv.root + ".<Pool[" + p.typeStr(elem) + "]>"
		}
		if fn.Name() == "Get" {
			obj := "obj<" + p.typeStr(elem) + ">"
			st.objSeq[obj]++
			if st.objSeq[obj] > 1 {
				obj += "#" + strconv.Itoa(st.objSeq[obj])
			}
			st.notePool(obj, recv.pool)
			st.emit(&nfItem{kind: nfGet, obj: obj, text: obj + " := get " + poolText, ment: map[string]bool{obj: true}})
			return &nfVal{s: obj, typ: typ, prec: 3, tracked: true, root: obj, ment: map[string]bool{obj: true}}
		}
		vs := st.args(env, call)
		it := &nfItem{kind: nfLine, text: "put " + poolText + " " + st.argList(call, vs), ment: nfUnion(vs[0].ment)}
		if len(vs[0].ment) == 1 && vs[0].ment[vs[0].s] {
			it.isPut, it.obj = true, vs[0].s
		}
		st.emit(it)
		return &nfVal{s: "?", typ: typ, prec: 3}
	}
	isIface := false
	if sig.Recv() != nil {
		_, isIface = sig.Recv().Type().Underlying().(*types.Interface)
	}
	origin := fn.Origin()
	decl := p.decls[origin]
	if !isIface && fn.Pkg() == p.pkg && decl != nil && decl.Body != nil && !p.targets[origin] {
		vs := st.args(env, call)
		return st.inlineDecl(origin, decl, recv, vs, call)
	}
	vs := st.args(env, call)
	name := ""
	ment := map[string]bool{}
	kids := append([]*nfVal{}, vs...)
	if recv != nil {
		name = st.disp(recv, 3) + "." + fn.Name()
		ment = nfUnion(ment, recv.ment)
		kids = append(kids, recv)
	} else {
		name = fn.Name() + st.instArgs(id)
		if fn.Pkg() != nil && fn.Pkg() != p.pkg {
			name = fn.Pkg().Name() + "." + name
		}
	}
	for _, v := range vs {
		ment = nfUnion(ment, v.ment)
	}
	samePkg := fn.Pkg() == p.pkg
	isSync := fn.Pkg() != nil && (fn.Pkg().Path() == "sync" || fn.Pkg().Path() == "sync/atomic")
	ev := stmt || isIface || samePkg || isSync
	if !ev {
		for _, k := range kids {
			if (k.tracked || k.fn != nil) && nfRefLike(k.typ) {
				ev = true
			}
		}
	}
	if !ev {
		// pure as far as the model is concerned: no event
		return st.compose(typ, 3, false, true, kids[:len(vs)], func(ks []string) string {
			s := strings.Join(ks, ", ")
			if call.Ellipsis.IsValid() {
				s += "..."
			}
			return name + "(" + s + ")"
		})
	}
	// cmp.Or(x, c) is rewritten by the assignment that uses it; elsewhere it is pure
	return st.event(typ, name+"("+st.argList(call, vs)+")", ment, direct, stmt, isIface && recv != nil && st.params[recv.root])
}

func (st *nfState) notePool(obj string, f *types.Var) {
	if _, done := st.poolLen[obj]; done {
		return
	}
	st.poolLen[obj] = st.p.poolSliceLen(f)
}

// poolSliceLen finds the length the slices of a pool are created with: the pool field must
// be set in exactly one composite literal of the package, by syncutil.NewSlicePool(n) with
// a constant n.  -1 if that is not the case.
func (p *nfPkg) poolSliceLen(f *types.Var) int {
	n, found := -1, 0
	for _, file := range p.files {
		ast.Inspect(file, func(x ast.Node) bool {
			cl, ok := x.(*ast.CompositeLit)
			if !ok {
				return true
			}
			for _, el := range cl.Elts {
				kv, ok := el.(*ast.KeyValueExpr)
				if !ok {
					continue
				}
				k, ok := kv.Key.(*ast.Ident)
				if !ok || p.info.Uses[k] != f {
					continue
				}
				found++
				c, ok := ast.Unparen(kv.Value).(*ast.CallExpr)
				if !ok || len(c.Args) != 1 {
					continue
				}
				fun := ast.Unparen(c.Fun)
				if ix, ok := fun.(*ast.IndexExpr); ok {
					fun = ix.X
				}
				se, ok := fun.(*ast.SelectorExpr)
				if !ok {
					continue
				}
				fo, ok := p.info.Uses[se.Sel].(*types.Func)
				if !ok || fo.Name() != "NewSlicePool" || fo.Pkg() == nil || !strings.HasSuffix(fo.Pkg().Path(), "syncutil") {
					continue
				}
				if tv, ok := p.info.Types[c.Args[0]]; ok && tv.Value != nil {
					if v, exact := constant.Int64Val(tv.Value); exact {
						n = int(v)
					}
				}
			}
			return true
		})
	}
	if found != 1 {
		return -1
	}
	return n
}

// ---------------------------------------------------------------- inlining

func (st *nfState) inlineDecl(fn *types.Func, decl *ast.FuncDecl, recv *nfVal, args []*nfVal, call *ast.CallExpr) *nfVal {
	p := st.p
	for _, f := range st.inl {
		if f == fn {
			nfFail("%s: %s is recursive: outside the skeleton subset", p.pos(call), fn.Name())
		}
	}
	if len(st.inl) > 16 {
		nfFail("%s: inlining too deep", p.pos(call))
	}
	p.visited[decl] = true
	st.inl = append(st.inl, fn)
	defer func() { st.inl = st.inl[:len(st.inl)-1] }()
	env := nfNewEnv(nil)
	if decl.Recv != nil && len(decl.Recv.List) == 1 && len(decl.Recv.List[0].Names) == 1 {
		if o := p.info.Defs[decl.Recv.List[0].Names[0]]; o != nil && recv != nil {
			st.bindParam(env, o, recv)
		}
	}
	sig := fn.Type().(*types.Signature)
	st.bindArgs(env, decl.Type, sig, args, call)
	fr := &nfFrame{sig: sig}
	k := 0
	if decl.Type.Results != nil {
		for _, f := range decl.Type.Results.List {
			for _, id := range f.Names {
				if o := p.info.Defs[id]; o != nil && id.Name != "_" {
					fr.results = append(fr.results, o)
					if p.mutable[o] {
						st.varcnt++
						env.vars[o] = &nfBinding{v: &nfVal{s: fmt.Sprintf("var%d", st.varcnt), typ: o.Type(), prec: 3, tracked: true}}
						st.emitAssignVar(env.vars[o].v.s, st.zero(o.Type()))
					} else {
						env.vars[o] = &nfBinding{v: st.zero(o.Type())}
					}
				}
				k++
			}
		}
	}
	return st.runInlined(env, fr, decl.Body.List, sig, call)
}

func (st *nfState) bindArgs(env *nfEnv, ft *ast.FuncType, sig *types.Signature, args []*nfVal, call *ast.CallExpr) {
	p := st.p
	i := 0
	np := sig.Params().Len()
	for _, f := range ft.Params.List {
		names := f.Names
		if len(names) == 0 {
			i++
			continue
		}
		for _, id := range names {
			var v *nfVal
			if sig.Variadic() && i == np-1 && !call.Ellipsis.IsValid() {
				rest := args[min(i, len(args)):]
				t := sig.Params().At(i).Type()
				if len(rest) == 0 {
					v = &nfVal{s: "nil", typ: t, prec: 3}
				} else {
					v = st.compose(t, 3, false, false, rest, func(ks []string) string {
						return p.typeStr(t) + "{" + strings.Join(ks, ", ") + "}"
					})
				}
			} else {
				if i >= len(args) {
					nfFail("%s: argument count mismatch", p.pos(call))
				}
				v = args[i]
			}
			if o := p.info.Defs[id]; o != nil && id.Name != "_" {
				st.bindParam(env, o, v)
			}
			i++
		}
	}
}

func (st *nfState) inlineLit(cl *nfClosure, args []*nfVal, call *ast.CallExpr) *nfVal {
	p := st.p
	sig := p.info.TypeOf(cl.lit).(*types.Signature)
	env := nfNewEnv(cl.env)
	st.bindArgs(env, cl.lit.Type, sig, args, call)
	fr := &nfFrame{sig: sig}
	if cl.lit.Type.Results != nil {
		for _, f := range cl.lit.Type.Results.List {
			for _, id := range f.Names {
				if o := p.info.Defs[id]; o != nil && id.Name != "_" {
					fr.results = append(fr.results, o)
					env.vars[o] = &nfBinding{v: st.zero(o.Type())}
					if p.mutable[o] {
						nfFail("%s: a named result of an inlined function literal is assigned in a branch or loop: outside the skeleton subset", p.pos(id))
					}
				}
			}
		}
	}
	if len(st.inl) > 16 {
		nfFail("%s: inlining too deep", p.pos(call))
	}
	return st.runInlined(env, fr, cl.lit.Body.List, sig, call)
}

// runInlined executes the body of an inlined callee in the caller's item list.
func (st *nfState) runInlined(env *nfEnv, fr *nfFrame, body []ast.Stmt, sig *types.Signature, call *ast.CallExpr) *nfVal {
	p := st.p
	old := st.frame
	fr.loops = 0
	st.frame = fr
	tailOK := st.tailCall == call
	if tailOK {
		st.tailCall = nil
	}
	fl := st.block(env, body, tailOK)
	st.frame = old
	if fr.defers > 0 {
		if !tailOK {
			nfFail("%s: the inlined callee defers calls but is not the last statement of the function that calls it: outside the skeleton subset", p.pos(call))
		}
		if old != nil {
			old.defers += fr.defers
		}
	}
	if fl.partial && sig.Results().Len() > 0 {
		nfFail("%s: inlined callee does not return on every path", p.pos(call))
	}
	if sig.Results().Len() == 0 {
		return &nfVal{s: "?", typ: sig.Results(), prec: 3}
	}
	if len(fr.rets) == 0 {
		nfFail("%s: inlined callee never returns a value", p.pos(call))
	}
	first := fr.rets[0]
	for _, r := range fr.rets[1:] {
		for i := range r {
			if r[i].s != first[i].s {
				nfFail("%s: the inlined callee returns different values on different paths (%s / %s): outside the skeleton subset", p.pos(call), first[i].s, r[i].s)
			}
		}
	}
	if len(first) == 1 {
		return first[0]
	}
	tup := &nfVal{s: "tuple", typ: sig.Results(), prec: 3}
	for i, r := range first {
		if tup.rec == nil {
			tup.rec = map[string]*nfVal{}
		}
		tup.rec[strconv.Itoa(i)] = r
		tup.tracked = tup.tracked || r.tracked
	}
	return tup
}

// newRec makes the zero value of a struct of this package as a record.
func (st *nfState) newRec(typ types.Type, strct *types.Struct, addr bool) *nfVal {
	r := &nfVal{typ: typ, prec: 3, rec: map[string]*nfVal{}, ment: map[string]bool{}, recPtr: addr, recT: strct}
	if addr {
		r.typ, r.prec = types.NewPointer(typ), 2
	}
	for i := 0; i < strct.NumFields(); i++ {
		f := strct.Field(i)
		z := st.zero(f.Type())
		z.isZero = true
		r.rec[f.Name()] = z
		r.recKeys = append(r.recKeys, f.Name())
	}
	st.recText(r)
	return r
}

// recText (re)computes the canonical text of a record: the non-zero fields in declaration
// order, keyed by type where the type is unique in the struct.
func (st *nfState) recText(r *nfVal) {
	p := st.p
	t := r.typ
	if pt, ok := t.Underlying().(*types.Pointer); ok && r.recPtr {
		t = pt.Elem()
	}
	var parts []string
	r.tracked, r.opq = false, false
	r.ment = map[string]bool{}
	for i, k := range r.recKeys {
		v := r.rec[k]
		if v.isZero {
			continue
		}
		if v.pool != nil {
			nfFail("the pool field %s is used other than as the receiver of Get/Put", v.s)
		}
		key := k
		ft := r.recT.Field(i).Type()
		n := 0
		for j := 0; j < r.recT.NumFields(); j++ {
			if types.Identical(r.recT.Field(j).Type(), ft) {
				n++
			}
		}
		if n == 1 {
			key = "<" + p.typeStr(ft) + ">"
		}
		r.tracked = r.tracked || v.tracked
		for m := range v.ment {
			r.ment[m] = true
		}
		if v.rec != nil && v.recT != nil && !v.recPtr {
			// a struct of this package held by value: its fields count as fields of the holder
			inner := strings.TrimSuffix(v.s[strings.Index(v.s, "{")+1:], "}")
			if inner != "" {
				parts = append(parts, inner)
			}
			continue
		}
		parts = append(parts, key+": "+st.disp(v, 0))
	}
	r.s = p.typeStr(t) + "{" + strings.Join(parts, ", ") + "}"
	if r.recPtr {
		r.s = "&" + r.s
	}
}

// nfCopyRec: assigning a struct value copies it; a pointer to a struct is shared.
func nfCopyRec(v *nfVal) *nfVal {
	if v.rec == nil || v.recPtr || v.s == "tuple" {
		return v
	}
	c := *v
	c.rec = map[string]*nfVal{}
	for k, f := range v.rec {
		c.rec[k] = f
	}
	return &c
}

// poolElemUnique: is there exactly one pool field with this element type in the package?
func (p *nfPkg) poolElemUnique(elem types.Type) bool {
	n := 0
	for _, o := range p.info.Defs {
		if f, ok := o.(*types.Var); ok && f.IsField() {
			if e, isPool := nfIsPoolType(f.Type()); isPool && types.Identical(e, elem) {
				n++
			}
		}
	}
	return n == 1
}
