package main

import (
	"bytes"
	"fmt"
	"go/ast"
	"go/importer"
	"go/parser"
	"go/printer"
	"go/token"
	"go/types"
	"path/filepath"
	"sort"
	"strings"
)

// CacheLockIR (C10, package L): every method of `cache` in /repo/cache is re-emitted as a term
// of the lock-discipline IR of lean/GolibsVerif/Model/C10IR.lean: the accesses to the fields
// of the shared cache object in Go evaluation order, Lock/Unlock on c.lock, the OnDelete
// callback, returns, and the if/for structure.  `theorem lock_discipline` (Theorems/C10Lock.lean)
// runs the Lean checker `analyse` on the regenerated term.
//
// The translator is total on a small subset of Go and FAILS LOUDLY (error naming the construct
// and its position) on everything else; it never skips a statement or an expression.  What it
// relies on (trusted base, see REPORT): go/types resolves every identifier and selector; the
// list functions of list.go touch nothing but listItem links (checked syntactically below);
// accesses are emitted in Go's evaluation order (operands left to right, index/selector
// operands of the left-hand side, then the right-hand side, then the stores).
//
// Supported statements: expression statement (call), assignment (=, :=, op=), ++/--, var
// declaration, return, if / else / else-if (with init), for (init; cond; post), range, block,
// empty statement, `continue` in tail position of a loop body (see stmts), and
// `defer c.lock.Unlock()` / `defer c.lock.Lock()` as direct children of a function body (the
// deferred calls registered so far are emitted, last first, before every later return of that
// function and at the end of its body).
// Everything else (go, other defers, switch, select, break/goto, labels, send, function
// literals, type assertions, pointer dereference, address-of outside the forms below, calls
// of unknown functions) is an error.
//
// ENTRY POINTS are the exported methods of *cache (Clear, Set, Get, Del, Stats must be among
// them).  A call of another method of cache (`c.helper(…)`, c the receiver), of a method of
// *item, or of an unexported package-level function declared in cache/*.go is INLINED: the
// accesses of the receiver/argument expressions in order, then `call name <translated body of
// the callee>` (see inline).  Inside the callee its receiver / *cache parameter denotes the
// same shared cache (the argument must be the caller's receiver itself), a *item parameter
// denotes the caller's fresh item iff the argument is the variable holding it (`it` after
// `it := &item{…}`, or `&it` for `it := item{}`) and a published item otherwise.  Recursion
// (direct or mutual) is an error.  Unexported helpers are analysed only through their call
// sites (a helper that expects the lock to be held would be rejected on its own); a helper
// touching cache or item fields that no entry point reaches is an error unless it is only
// reachable from newCache (which runs before the object is shared).
//
// Address-of is only allowed as: `&c.usage`, `&x.used` (arguments of list functions),
// `&c.hit|miss|size` (first argument of a sync/atomic function), `&it` in `c.items[k] = &it`
// or as a *item argument of an inlined helper (it a local variable of struct type item),
// and `p := &item{…}` (p becomes THE variable holding the fresh item: it may be used as
// `p.f`, `&p.used` (list-function argument: publication), `c.items[k] = p` (publication),
// `p == x`, and as receiver/argument of an inlined helper; any other use — copy, re-assignment,
// return, argument of anything else — is an error, so no alias of the fresh item exists).
// `c.items` is only allowed as `c.items[k]`, `len(c.items)`, `delete(c.items, k)`,
// `clear(c.items)`, `range c.items` and as the left-hand side of an assignment, so no alias of
// the map, of the list or of a counter can be created inside the subset.

type clKind int

const (
	clLock clKind = iota
	clUnlock
	clAcc
	clPublish
	clCallOnDelete
	clRet
	clIte
	clLoop
	clCall
)

type clStmt struct {
	kind      clKind
	acc, loc  string // for clAcc
	cond      []clStmt
	thn, els  []clStmt // loop: thn = body; call: thn = body of the callee
	name      string   // call: name of the callee
	pos       token.Pos
	src       string
	synthetic string // note for statements not written at this position (deferred unlock)
}

type clErr struct{ msg string }

type clTr struct {
	fset      *token.FileSet
	info      *types.Info
	pkg       *types.Package
	cacheT    *types.Named
	itemT     *types.Named
	listItemT *types.Named
	listFns   map[*types.Func]bool // list function -> writes links
	structPtr *types.Func
	decls     map[*types.Func]*ast.FuncDecl // every function/method declared in the package (non-test, non-verif files)
	cacheVars map[*types.Var]bool           // variables that denote THE shared cache: the receiver of the entry point, receivers / *cache parameters of the active inlined callees
	fresh     map[*types.Var]bool           // pointer variables that denote the fresh (not yet published) item of the call
	stack     []*types.Func                 // entry point + active inlined callees (recursion check, diagnostics)
	reached   map[*types.Func]bool          // everything translated: entry points and inlined callees
	deferred  []clStmt                      // the active top-level `defer c.lock.Unlock()` / `defer c.lock.Lock()` calls of the function being translated, in the order of the defer statements
}

func (t *clTr) text(n ast.Node) string {
	var b bytes.Buffer
	_ = printer.Fprint(&b, t.fset, n)
	s := strings.Join(strings.Fields(b.String()), " ")
	if len(s) > 70 {
		s = s[:67] + "..."
	}
	return s
}

func (t *clTr) where(n ast.Node) string {
	p := t.fset.Position(n.Pos())
	return fmt.Sprintf("%s:%d:%d", filepath.Base(p.Filename), p.Line, p.Column)
}

func (t *clTr) fail(n ast.Node, format string, a ...any) {
	panic(clErr{fmt.Sprintf("%s: %s: `%s` (%T)", t.where(n), fmt.Sprintf(format, a...), t.text(n), n)})
}

func (t *clTr) prim(k clKind, n ast.Node) clStmt {
	return clStmt{kind: k, pos: n.Pos(), src: t.text(n)}
}

func (t *clTr) access(acc, loc string, n ast.Node) clStmt {
	return clStmt{kind: clAcc, acc: acc, loc: loc, pos: n.Pos(), src: t.text(n)}
}

func clUnparen(e ast.Expr) ast.Expr {
	for {
		p, ok := e.(*ast.ParenExpr)
		if !ok {
			return e
		}
		e = p.X
	}
}

// namedOf returns the named type of typ (through at most one pointer) and whether it was a pointer.
func clNamedOf(typ types.Type) (*types.Named, bool) {
	if typ == nil {
		return nil, false
	}
	typ = types.Unalias(typ)
	ptr := false
	if p, ok := typ.(*types.Pointer); ok {
		ptr = true
		typ = types.Unalias(p.Elem())
	}
	n, _ := typ.(*types.Named)
	return n, ptr
}

func (t *clTr) typeOf(e ast.Expr) types.Type {
	tv, ok := t.info.Types[e]
	if !ok || tv.Type == nil {
		if id, isID := e.(*ast.Ident); isID {
			if o := t.info.ObjectOf(id); o != nil {
				return o.Type()
			}
		}
		t.fail(e, "expression has no type (go/types could not resolve it)")
	}
	return tv.Type
}

// objOf returns the object an identifier denotes (use or definition).
func (t *clTr) objOf(id *ast.Ident) types.Object {
	if o := t.info.Uses[id]; o != nil {
		return o
	}
	return t.info.Defs[id]
}

// isLocalVar: a variable declared inside a function (parameter, result or local), not a
// variable denoting the shared cache, not a field, not package level.
func (t *clTr) isLocalVar(o types.Object) bool {
	v, ok := o.(*types.Var)
	if !ok || v.IsField() || t.cacheVars[v] {
		return false
	}
	return v.Parent() != nil && v.Parent() != t.pkg.Scope() && v.Parent() != types.Universe
}

// cacheField: if e is `c.<f>` with c the receiver of the current method and f a field of
// cache, returns f's name.
func (t *clTr) cacheField(e ast.Expr) (string, bool) {
	se, ok := clUnparen(e).(*ast.SelectorExpr)
	if !ok {
		return "", false
	}
	sel := t.info.Selections[se]
	if sel == nil || sel.Kind() != types.FieldVal {
		return "", false
	}
	n, _ := clNamedOf(sel.Recv())
	if n != t.cacheT {
		return "", false
	}
	if len(sel.Index()) != 1 {
		t.fail(se, "promoted field of cache is outside the subset")
	}
	if !t.isCacheVar(se.X) {
		t.fail(se, "field of a cache object other than the method receiver")
	}
	return sel.Obj().Name(), true
}

// isCacheVar: e is an identifier denoting the shared cache (the receiver of the entry point
// or the receiver / *cache parameter of an inlined callee bound to it).
func (t *clTr) isCacheVar(e ast.Expr) bool {
	id, ok := clUnparen(e).(*ast.Ident)
	if !ok {
		return false
	}
	v, _ := t.objOf(id).(*types.Var)
	return v != nil && t.cacheVars[v]
}

// freshPtr: e is an identifier denoting THE pointer variable that holds the fresh item.
func (t *clTr) freshPtr(e ast.Expr) bool {
	id, ok := clUnparen(e).(*ast.Ident)
	if !ok {
		return false
	}
	v, _ := t.objOf(id).(*types.Var)
	return v != nil && t.fresh[v]
}

// freshItemLit: e is `&item{…}`; returns the composite literal.
func (t *clTr) freshItemLit(e ast.Expr) *ast.CompositeLit {
	ad, ok := clUnparen(e).(*ast.UnaryExpr)
	if !ok || ad.Op != token.AND {
		return nil
	}
	cl, ok := clUnparen(ad.X).(*ast.CompositeLit)
	if !ok {
		return nil
	}
	if n, ptr := clNamedOf(t.typeOf(cl)); n != t.itemT || ptr {
		return nil
	}
	return cl
}

// localItem: e is an identifier denoting a local variable of struct type item.
func (t *clTr) localItem(e ast.Expr) bool {
	id, ok := clUnparen(e).(*ast.Ident)
	if !ok {
		return false
	}
	o := t.objOf(id)
	if o == nil || !t.isLocalVar(o) {
		return false
	}
	n, ptr := clNamedOf(o.Type())
	return n == t.itemT && !ptr
}

// ---------------------------------------------------------------- expressions (rvalues)

func (t *clTr) exprs(es []ast.Expr) []clStmt {
	var out []clStmt
	for _, e := range es {
		out = append(out, t.expr(e)...)
	}
	return out
}

func (t *clTr) expr(e ast.Expr) []clStmt {
	switch e := e.(type) {
	case nil:
		return nil
	case *ast.BasicLit:
		return nil
	case *ast.ParenExpr:
		return t.expr(e.X)
	case *ast.Ident:
		return t.ident(e)
	case *ast.SelectorExpr:
		return t.selector(e)
	case *ast.IndexExpr:
		if f, ok := t.cacheField(e.X); ok {
			if f != "items" {
				t.fail(e, "index of cache field %s", f)
			}
			return append(t.expr(e.Index), t.access("read", "items", e))
		}
		tv := t.info.Types[e.X]
		if !tv.IsValue() {
			t.fail(e, "index expression on a non-value (generic instantiation?)")
		}
		switch types.Unalias(tv.Type).Underlying().(type) {
		case *types.Slice, *types.Array, *types.Basic, *types.Map:
		default:
			t.fail(e, "index expression on type %s", tv.Type)
		}
		return append(t.expr(e.X), t.expr(e.Index)...)
	case *ast.SliceExpr:
		out := t.expr(e.X)
		out = append(out, t.expr(e.Low)...)
		out = append(out, t.expr(e.High)...)
		return append(out, t.expr(e.Max)...)
	case *ast.UnaryExpr:
		switch e.Op {
		case token.AND:
			t.fail(e, "address-of outside the supported forms (&c.usage / &x.used as list-function argument, &c.hit|miss as sync/atomic argument, c.items[k] = &localItem)")
		case token.ARROW:
			t.fail(e, "channel receive")
		}
		return t.expr(e.X)
	case *ast.BinaryExpr:
		if e.Op == token.EQL || e.Op == token.NEQ {
			// comparing the ADDRESS of a link with a pointer touches no memory; neither does
			// comparing the pointer to the fresh item with anything (no alias is created)
			l, lok := t.linkAddr(e.X)
			r, rok := t.linkAddr(e.Y)
			if !lok && t.freshPtr(e.X) {
				l, lok = nil, true
			}
			if !rok && t.freshPtr(e.Y) {
				r, rok = nil, true
			}
			if lok || rok {
				if !lok {
					l = t.expr(e.X)
				}
				if !rok {
					r = t.expr(e.Y)
				}
				return append(l, r...)
			}
		}
		l := t.expr(e.X)
		r := t.expr(e.Y)
		if e.Op == token.LAND || e.Op == token.LOR {
			// short circuit: the right operand is evaluated on some paths only
			if len(r) > 0 {
				l = append(l, clStmt{kind: clIte, thn: r, pos: e.Y.Pos(), src: "short-circuit " + e.Op.String() + " " + t.text(e.Y)})
			}
			return l
		}
		return append(l, r...)
	case *ast.CallExpr:
		return t.call(e)
	case *ast.CompositeLit:
		typ := types.Unalias(t.typeOf(e)).Underlying()
		_, isStruct := typ.(*types.Struct)
		var out []clStmt
		if n, _ := clNamedOf(t.typeOf(e)); n != nil && (n == t.cacheT || n == t.listItemT) {
			t.fail(e, "composite literal of type %s", n.Obj().Name())
		} else if n != nil && n == t.itemT {
			// a new item: its fields other than `used` are written while nothing else can see it
			st := typ.(*types.Struct)
			for i, el := range e.Elts {
				fname, val := "", el
				if kv, ok := el.(*ast.KeyValueExpr); ok {
					if id, isID := kv.Key.(*ast.Ident); isID {
						fname = id.Name
					}
					val = kv.Value
				} else if i < st.NumFields() {
					fname = st.Field(i).Name()
				}
				if fname == "" || fname == "used" {
					t.fail(el, "item literal sets the list link (or an unknown field)")
				}
				out = append(out, t.expr(val)...)
				out = append(out, t.access("write", "itemKV true", el))
			}
			return out
		}
		for _, el := range e.Elts {
			if kv, ok := el.(*ast.KeyValueExpr); ok {
				if !isStruct {
					out = append(out, t.expr(kv.Key)...)
				}
				out = append(out, t.expr(kv.Value)...)
			} else {
				out = append(out, t.expr(el)...)
			}
		}
		return out
	}
	t.fail(e, "expression kind outside the subset")
	return nil
}

func (t *clTr) ident(id *ast.Ident) []clStmt {
	if id.Name == "_" {
		return nil
	}
	o := t.objOf(id)
	switch o := o.(type) {
	case nil:
		t.fail(id, "unresolved identifier")
	case *types.Nil, *types.Const:
		return nil
	case *types.Var:
		if t.cacheVars[o] {
			t.fail(id, "the receiver is used as a value (the cache object escapes or is aliased)")
		}
		if t.fresh[o] {
			t.fail(id, "the pointer to the fresh item is used as a value (the item would be aliased or escape; supported: p.f, &p.used as list-function argument, c.items[k] = p, p == x, receiver/argument of an inlined helper)")
		}
		if !t.isLocalVar(o) {
			t.fail(id, "package-level variable")
		}
		n, ptr := clNamedOf(o.Type())
		if !ptr && (n == t.itemT || n == t.cacheT || n == t.listItemT) && n != nil {
			t.fail(id, "a whole %s value is copied", n.Obj().Name())
		}
		return nil
	}
	t.fail(id, "identifier denotes %T, which is not a value of the subset", o)
	return nil
}

func (t *clTr) selector(e *ast.SelectorExpr) []clStmt {
	sel := t.info.Selections[e]
	if sel == nil {
		// qualified identifier pkg.Name
		switch t.info.Uses[e.Sel].(type) {
		case *types.Const:
			return nil
		}
		t.fail(e, "qualified identifier that is not a constant")
	}
	if sel.Kind() != types.FieldVal {
		t.fail(e, "method value / method expression")
	}
	if f, ok := t.cacheField(e); ok {
		switch f {
		case "size", "hit", "miss", "conf":
			return []clStmt{t.access("read", f, e)}
		case "items":
			t.fail(e, "c.items used as a value (only c.items[k], len(c.items), delete/clear(c.items, …), range c.items and assignment are supported)")
		case "usage":
			t.fail(e, "c.usage outside &c.usage as list-function argument")
		case "lock":
			t.fail(e, "c.lock outside c.lock.Lock() / c.lock.Unlock()")
		}
		t.fail(e, "cache field %s is not in the location table", f)
	}
	if len(sel.Index()) != 1 {
		t.fail(e, "promoted field")
	}
	n, ptr := clNamedOf(sel.Recv())
	switch {
	case n != nil && n == t.itemT:
		if sel.Obj().Name() == "used" {
			t.fail(e, "item field used outside &x.used as list-function argument")
		}
		// every other field of item is key/value-like: written only while the item is fresh
		if ptr {
			if t.freshPtr(e.X) {
				return []clStmt{t.access("read", "itemKV true", e)}
			}
			return append(t.expr(e.X), t.access("read", "itemKV false", e))
		}
		if t.localItem(e.X) {
			return []clStmt{t.access("read", "itemKV true", e)}
		}
		t.fail(e, "field of an item value that is not a local variable")
	case n != nil && n == t.listItemT:
		t.fail(e, "direct access to a listItem link (only the list functions may touch links)")
	case n != nil && n == t.cacheT:
		t.fail(e, "cache field through something that is not the receiver")
	case ptr:
		t.fail(e, "field through a pointer to %s", sel.Recv())
	}
	// field of a plain struct value: the accesses are those of the base
	return t.expr(e.X)
}

// linkAddr: e is `&c.usage` or `&x.used`; returns the accesses of evaluating the address
// (those of x when x is a pointer expression; none otherwise).  Only used for operands of
// == / != (no alias is created, no memory behind the address is touched).
func (t *clTr) linkAddr(e ast.Expr) ([]clStmt, bool) {
	ad, ok := clUnparen(e).(*ast.UnaryExpr)
	if !ok || ad.Op != token.AND {
		return nil, false
	}
	if f, isF := t.cacheField(ad.X); isF {
		return nil, f == "usage"
	}
	se, ok := clUnparen(ad.X).(*ast.SelectorExpr)
	if !ok {
		return nil, false
	}
	sel := t.info.Selections[se]
	if sel == nil || sel.Kind() != types.FieldVal || len(sel.Index()) != 1 || sel.Obj().Name() != "used" {
		return nil, false
	}
	n, ptr := clNamedOf(sel.Recv())
	if n != t.itemT {
		return nil, false
	}
	if ptr {
		if t.freshPtr(se.X) {
			return nil, true
		}
		return t.expr(se.X), true
	}
	return nil, t.localItem(se.X)
}

// listArg: an argument of a list function.  Returns the accesses of evaluating it and
// whether it is the link of a local item (publication).
func (t *clTr) listArg(a ast.Expr) ([]clStmt, bool) {
	a = clUnparen(a)
	switch x := a.(type) {
	case *ast.UnaryExpr:
		if x.Op != token.AND {
			break
		}
		if f, ok := t.cacheField(x.X); ok {
			if f == "usage" {
				return nil, false
			}
			t.fail(a, "address of cache field %s passed to a list function", f)
		}
		se, ok := clUnparen(x.X).(*ast.SelectorExpr)
		if !ok {
			break
		}
		sel := t.info.Selections[se]
		if sel == nil || sel.Kind() != types.FieldVal || len(sel.Index()) != 1 {
			break
		}
		n, ptr := clNamedOf(sel.Recv())
		if n != t.itemT || sel.Obj().Name() != "used" {
			break
		}
		if ptr {
			if t.freshPtr(se.X) {
				return nil, true
			}
			return t.expr(se.X), false
		}
		if t.localItem(se.X) {
			return nil, true
		}
	case *ast.Ident:
		o := t.objOf(x)
		if o != nil && t.isLocalVar(o) {
			if n, ptr := clNamedOf(o.Type()); n == t.listItemT && ptr {
				return nil, false
			}
		}
	case *ast.CallExpr:
		// a list function, or an inlined helper returning a *listItem
		if n, ptr := clNamedOf(t.typeOf(x)); n == t.listItemT && ptr {
			return t.call(x), false
		}
	}
	t.fail(a, "list-function argument outside the supported forms (&c.usage, &x.used, a local *listItem, a call returning *listItem)")
	return nil, false
}

// calleeFunc: the *types.Func a call's Fun denotes (plain or qualified identifier), if any.
func (t *clTr) calleeFunc(c *ast.CallExpr) *types.Func {
	switch f := clUnparen(c.Fun).(type) {
	case *ast.Ident:
		fn, _ := t.objOf(f).(*types.Func)
		return fn
	case *ast.SelectorExpr:
		if t.info.Selections[f] == nil {
			fn, _ := t.info.Uses[f.Sel].(*types.Func)
			return fn
		}
	}
	return nil
}

func (t *clTr) call(c *ast.CallExpr) []clStmt {
	if c.Ellipsis.IsValid() {
		t.fail(c, "variadic spread call")
	}
	fun := clUnparen(c.Fun)
	// conversion
	if tv, ok := t.info.Types[c.Fun]; ok && tv.IsType() {
		return t.exprs(c.Args)
	}
	// builtins (including package unsafe)
	var bi *types.Builtin
	switch f := fun.(type) {
	case *ast.Ident:
		bi, _ = t.objOf(f).(*types.Builtin)
	case *ast.SelectorExpr:
		if t.info.Selections[f] == nil {
			bi, _ = t.info.Uses[f.Sel].(*types.Builtin)
		}
	}
	if bi != nil {
		switch bi.Name() {
		case "Offsetof", "Sizeof", "Alignof":
			return nil // the operand is not evaluated
		case "len", "cap":
			if f, ok := t.cacheField(c.Args[0]); ok {
				if f != "items" {
					t.fail(c, "%s of cache field %s", bi.Name(), f)
				}
				return []clStmt{t.access("read", "items", c)}
			}
			return t.exprs(c.Args)
		case "min", "max":
			return t.exprs(c.Args)
		case "make":
			return t.exprs(c.Args[1:])
		case "delete", "clear":
			f, ok := t.cacheField(c.Args[0])
			if !ok || f != "items" {
				t.fail(c, "%s on something other than c.items", bi.Name())
			}
			return append(t.exprs(c.Args[1:]), t.access("write", "items", c))
		}
		t.fail(c, "builtin %s is outside the subset", bi.Name())
	}
	if fn := t.calleeFunc(c); fn != nil {
		if writes, ok := t.listFns[fn]; ok {
			var out []clStmt
			publish := false
			for _, a := range c.Args {
				s, p := t.listArg(a)
				out = append(out, s...)
				publish = publish || p
			}
			if publish {
				out = append(out, t.prim(clPublish, c))
			}
			if writes {
				return append(out, t.access("write", "usage", c))
			}
			return append(out, t.access("read", "usage", c))
		}
		if fn == t.structPtr {
			return t.exprs(c.Args)
		}
		if fn.Pkg() != nil && fn.Pkg().Path() == "sync/atomic" {
			if len(c.Args) == 0 {
				t.fail(c, "sync/atomic call without arguments")
			}
			ad, ok := clUnparen(c.Args[0]).(*ast.UnaryExpr)
			if !ok || ad.Op != token.AND {
				t.fail(c, "sync/atomic call whose first argument is not &c.<field>")
			}
			f, ok := t.cacheField(ad.X)
			if !ok || (f != "hit" && f != "miss" && f != "size") {
				t.fail(c, "sync/atomic call whose first argument is not &c.hit / &c.miss / &c.size")
			}
			return append(t.exprs(c.Args[1:]), t.access("atomic", f, c))
		}
		if fd := t.decls[fn]; fd != nil && fd.Recv == nil {
			if fn.Exported() || fn.Name() == "newCache" {
				t.fail(c, "call of the package-level function %s (only unexported helpers are inlined)", fn.Name())
			}
			return t.inline(fn, nil, c)
		}
		t.fail(c, "call of function %s, which is not in the allow-list (list functions, structPtr, sync/atomic, len/cap/make/delete/clear/min/max, conversions, unsafe.Offsetof/Sizeof, helpers declared in package cache)", fn.FullName())
	}
	if se, ok := fun.(*ast.SelectorExpr); ok {
		sel := t.info.Selections[se]
		if sel != nil && sel.Kind() == types.MethodVal {
			if f, isF := t.cacheField(se.X); isF && f == "lock" {
				m, _ := sel.Obj().(*types.Func)
				if m != nil && m.Pkg() != nil && m.Pkg().Path() == "sync" && len(c.Args) == 0 {
					switch m.Name() {
					case "Lock":
						return []clStmt{t.prim(clLock, c)}
					case "Unlock":
						return []clStmt{t.prim(clUnlock, c)}
					}
				}
				t.fail(c, "method of c.lock other than Lock/Unlock")
			}
			m, _ := sel.Obj().(*types.Func)
			if f, isF := t.cacheField(se.X); isF && (f == "hit" || f == "miss") && m != nil && m.Pkg() != nil && m.Pkg().Path() == "sync/atomic" {
				// c.hit.Add(1) / .Load() / .Store(0) / … on an atomic.Int32 counter
				return append(t.exprs(c.Args), t.access("atomic", f, c))
			}
			if m != nil && t.decls[m] != nil {
				rn, _ := clNamedOf(m.Type().(*types.Signature).Recv().Type())
				if rn == t.cacheT || rn == t.itemT {
					if len(sel.Index()) != 1 {
						t.fail(c, "promoted method")
					}
					return t.inline(m, se.X, c)
				}
			}
			t.fail(c, "method call (only c.lock.Lock/Unlock, the sync/atomic methods of c.hit / c.miss, and methods of cache / item declared in package cache are supported)")
		}
		if sel != nil && sel.Kind() == types.FieldVal && sel.Obj().Name() == "OnDelete" {
			if f, isF := t.cacheField(se.X); isF && f == "conf" {
				out := t.selector(se)
				out = append(out, t.exprs(c.Args)...)
				return append(out, t.prim(clCallOnDelete, c))
			}
		}
	}
	t.fail(c, "call of something that is not a known function (closure, function-valued field or variable)")
	return nil
}

// ---------------------------------------------------------------- statements

// lhs: one left-hand side of an assignment.  pre = accesses of evaluating its operands,
// post = the store itself (preceded by a load for op= / ++ / --).
func (t *clTr) lhs(l ast.Expr, rmw bool, rhs ast.Expr) (pre, post []clStmt) {
	store := func(loc string) []clStmt {
		if rmw {
			pre = append(pre, t.access("read", loc, l))
		}
		return []clStmt{t.access("write", loc, l)}
	}
	switch x := clUnparen(l).(type) {
	case *ast.Ident:
		if x.Name == "_" {
			return nil, nil
		}
		o := t.objOf(x)
		if o == nil || !t.isLocalVar(o) {
			t.fail(l, "assignment to something that is not a local variable")
		}
		if v, isV := o.(*types.Var); isV && t.fresh[v] {
			t.fail(l, "assignment to the variable that holds the fresh item (it would then denote another item)")
		}
		if n, ptr := clNamedOf(o.Type()); !ptr && n != nil && (n == t.itemT || n == t.cacheT || n == t.listItemT) {
			t.fail(l, "assignment of a whole %s value", n.Obj().Name())
		}
		return nil, nil
	case *ast.SelectorExpr:
		sel := t.info.Selections[x]
		if sel == nil || sel.Kind() != types.FieldVal {
			t.fail(l, "assignment to a non-field selector")
		}
		if f, ok := t.cacheField(x); ok {
			switch f {
			case "items", "size", "hit", "miss", "conf":
				return pre, store(f)
			}
			t.fail(l, "assignment to cache field %s", f)
		}
		if len(sel.Index()) != 1 {
			t.fail(l, "promoted field")
		}
		n, ptr := clNamedOf(sel.Recv())
		switch {
		case n != nil && n == t.itemT:
			if sel.Obj().Name() != "used" {
				if ptr {
					if t.freshPtr(x.X) {
						return pre, store("itemKV true")
					}
					pre = append(pre, t.expr(x.X)...)
					return pre, store("itemKV false")
				}
				if t.localItem(x.X) {
					return pre, store("itemKV true")
				}
			}
			t.fail(l, "assignment to item field %s", sel.Obj().Name())
		case n != nil && (n == t.listItemT || n == t.cacheT):
			t.fail(l, "assignment to a field of %s", n.Obj().Name())
		case ptr:
			t.fail(l, "assignment through a pointer to %s", sel.Recv())
		}
		// field of a plain struct value: c.conf.X = … is a store to conf, s.X = … a local store
		return t.lhs(x.X, rmw, nil)
	case *ast.IndexExpr:
		if f, ok := t.cacheField(x.X); ok {
			if f != "items" {
				t.fail(l, "index of cache field %s", f)
			}
			pre = append(pre, t.expr(x.Index)...)
			if rhs != nil && t.freshRef(rhs) {
				post = append(post, t.prim(clPublish, rhs))
			}
			return pre, append(post, store("items")...)
		}
		id, isID := clUnparen(x.X).(*ast.Ident)
		if !isID || t.objOf(id) == nil || !t.isLocalVar(t.objOf(id)) {
			t.fail(l, "element assignment whose base is not a local variable")
		}
		pre = append(pre, t.expr(x.X)...)
		pre = append(pre, t.expr(x.Index)...)
		return pre, nil
	}
	t.fail(l, "left-hand side outside the subset")
	return nil, nil
}

// freshRef: e denotes the fresh item by reference: `&it` (it a local variable of struct type
// item) or the pointer variable that holds the fresh item.
func (t *clTr) freshRef(e ast.Expr) bool {
	if rhs := clUnparen(e); rhs != nil {
		if ad, isAd := rhs.(*ast.UnaryExpr); isAd && ad.Op == token.AND && t.localItem(ad.X) {
			return true
		}
	}
	return e != nil && t.freshPtr(e)
}

func (t *clTr) assign(s *ast.AssignStmt) []clStmt {
	if s.Tok == token.DEFINE {
		var out []clStmt
		for i, l := range s.Lhs {
			id, ok := l.(*ast.Ident)
			if !ok {
				t.fail(l, "non-identifier on the left of :=")
			}
			if t.info.Defs[id] == nil && id.Name != "_" {
				// re-assignment of an existing variable inside :=
				t.lhs(l, false, nil)
			}
			if len(s.Lhs) != len(s.Rhs) {
				continue
			}
			// `p := &item{…}`: p becomes the variable that holds the fresh item
			if cl := t.freshItemLit(s.Rhs[i]); cl != nil {
				v, _ := t.info.Defs[id].(*types.Var)
				if v == nil {
					t.fail(s, "&item{…} assigned to something that is not a new variable")
				}
				t.fresh[v] = true
				out = append(out, t.expr(cl)...)
			} else {
				out = append(out, t.expr(s.Rhs[i])...)
			}
		}
		if len(s.Lhs) != len(s.Rhs) {
			return t.exprs(s.Rhs)
		}
		return out
	}
	rmw := s.Tok != token.ASSIGN
	var pre, mid, post []clStmt
	for i, l := range s.Lhs {
		var rhs ast.Expr
		if len(s.Lhs) == len(s.Rhs) {
			rhs = s.Rhs[i]
		}
		p, q := t.lhs(l, rmw, rhs)
		pre = append(pre, p...)
		post = append(post, q...)
	}
	for i, r := range s.Rhs {
		// `c.items[k] = &it` / `c.items[k] = p`: publication, handled by lhs
		if len(s.Lhs) == len(s.Rhs) && s.Tok == token.ASSIGN {
			if ix, ok := clUnparen(s.Lhs[i]).(*ast.IndexExpr); ok {
				if f, isF := t.cacheField(ix.X); isF && f == "items" && t.freshRef(r) {
					continue
				}
			}
		}
		mid = append(mid, t.expr(r)...)
	}
	return append(append(pre, mid...), post...)
}

func (t *clTr) block(b *ast.BlockStmt, top bool) []clStmt {
	if b == nil {
		return nil
	}
	return t.stmts(b.List, top, false)
}

// clHasContinue: the statement contains a `continue` that belongs to the enclosing loop.
func clHasContinue(s ast.Stmt) bool {
	found := false
	ast.Inspect(s, func(n ast.Node) bool {
		switch x := n.(type) {
		case *ast.ForStmt, *ast.RangeStmt, *ast.FuncLit:
			return false
		case *ast.BranchStmt:
			if x.Tok == token.CONTINUE {
				found = true
			}
		}
		return !found
	})
	return found
}

// stmts translates a statement list.  tail = the list is in tail position of the body of the
// innermost loop: control reaching its end goes to the end of the loop body (then the post
// statement and the condition).  Only there `continue` is supported, by the structured
// rewriting
//     if c { A; continue }; R      ==>   if c { A } else { R }
//     if c { A } else { B; continue }; R   ==>   if c { A; R } else { B }
// (R = the rest of the list; a trailing `continue` of the list itself is dropped).
func (t *clTr) stmts(list []ast.Stmt, top, tail bool) []clStmt {
	var out []clStmt
	for i, s := range list {
		rest := list[i+1:]
		if br, ok := s.(*ast.BranchStmt); ok && br.Tok == token.CONTINUE {
			if br.Label != nil || !tail {
				t.fail(s, "continue outside the tail position of the innermost loop body (or with a label)")
			}
			if len(rest) > 0 {
				t.fail(rest[0], "unreachable statement after continue")
			}
			return out
		}
		if is, ok := s.(*ast.IfStmt); ok && clHasContinue(s) {
			if !tail {
				t.fail(s, "continue outside the tail position of the innermost loop body")
			}
			out = append(out, t.stmt(is.Init, false)...)
			ite := clStmt{kind: clIte, pos: is.Pos(), src: "if " + t.text(is.Cond) + "  [rest of the loop body moved into the branches: continue]"}
			ite.cond = t.cond(is.Cond)
			branch := func(b []ast.Stmt) []clStmt {
				if n := len(b); n > 0 {
					if br, isBr := b[n-1].(*ast.BranchStmt); isBr && br.Tok == token.CONTINUE && br.Label == nil {
						return t.stmts(b, false, true) // ends in continue: the rest is not reached from here
					}
				}
				if clHasContinue(&ast.BlockStmt{List: b}) {
					// a branch that may `continue`: it gets its own copy of the rest, in tail position
					return t.stmts(append(append([]ast.Stmt{}, b...), rest...), false, true)
				}
				return append(t.stmts(b, false, false), t.stmts(rest, false, true)...)
			}
			ite.thn = branch(is.Body.List)
			switch el := is.Else.(type) {
			case nil:
				ite.els = branch(nil)
			case *ast.BlockStmt:
				ite.els = branch(el.List)
			case *ast.IfStmt:
				ite.els = branch([]ast.Stmt{el})
			default:
				t.fail(is.Else, "else branch")
			}
			return append(out, ite)
		}
		out = append(out, t.stmt(s, top)...)
	}
	return out
}

// clSyncInside: the statements contain Lock / Unlock / OnDelete / publication (also inside
// inlined callees).
func clSyncInside(ss []clStmt) bool {
	for _, s := range ss {
		switch s.kind {
		case clLock, clUnlock, clCallOnDelete, clPublish:
			return true
		case clIte, clLoop, clCall:
			if clSyncInside(s.cond) || clSyncInside(s.thn) || clSyncInside(s.els) {
				return true
			}
		}
	}
	return false
}

// unit checks one evaluation unit (the accesses of one simple statement or one condition):
// Go fixes the order of function calls among themselves, but not the order of a call
// relative to the other operand evaluations of the same expression.  So an inlined helper that
// changes the lock / publication state must not share a unit with accesses outside calls.
func (t *clTr) unit(n ast.Node, ss []clStmt) []clStmt {
	var syncCall, topAcc bool
	var walk func(ss []clStmt)
	walk = func(ss []clStmt) {
		for _, s := range ss {
			switch s.kind {
			case clCall:
				if clSyncInside(s.thn) {
					syncCall = true
				}
			case clIte, clLoop:
				walk(s.cond)
				walk(s.thn)
				walk(s.els)
			case clAcc:
				topAcc = true
			}
		}
	}
	walk(ss)
	if syncCall && topAcc {
		t.fail(n, "a helper that locks / unlocks / publishes / calls OnDelete is called inside an expression that also touches memory outside calls: Go does not specify the evaluation order")
	}
	return ss
}

func (t *clTr) cond(e ast.Expr) []clStmt {
	if e == nil {
		return nil
	}
	return t.unit(e, t.expr(e))
}

// deferredUnlock: the deferred calls registered so far, run in reverse order (at a return, or at
// the end of the body).
func (t *clTr) deferredUnlock(where string) []clStmt {
	var out []clStmt
	for i := len(t.deferred) - 1; i >= 0; i-- {
		u := t.deferred[i]
		u.synthetic = "deferred call run at " + where
		out = append(out, u)
	}
	return out
}

func (t *clTr) stmt(s ast.Stmt, top bool) []clStmt {
	switch s := s.(type) {
	case nil:
		return nil
	case *ast.EmptyStmt:
		return nil
	case *ast.ExprStmt:
		c, ok := clUnparen(s.X).(*ast.CallExpr)
		if !ok {
			t.fail(s, "expression statement that is not a call")
		}
		return t.unit(s, t.call(c))
	case *ast.AssignStmt:
		return t.unit(s, t.assign(s))
	case *ast.IncDecStmt:
		pre, post := t.lhs(s.X, true, nil)
		return append(pre, post...)
	case *ast.DeclStmt:
		gd, ok := s.Decl.(*ast.GenDecl)
		if !ok {
			t.fail(s, "declaration statement")
		}
		var out []clStmt
		for _, sp := range gd.Specs {
			if vs, isV := sp.(*ast.ValueSpec); isV {
				out = append(out, t.exprs(vs.Values)...)
			}
		}
		return t.unit(s, out)
	case *ast.ReturnStmt:
		out := t.unit(s, t.exprs(s.Results))
		out = append(out, t.deferredUnlock(t.where(s))...)
		return append(out, t.prim(clRet, s))
	case *ast.BlockStmt:
		return t.block(s, false)
	case *ast.IfStmt:
		out := t.stmt(s.Init, false)
		ite := clStmt{kind: clIte, pos: s.Pos(), src: "if " + t.text(s.Cond)}
		ite.cond = t.cond(s.Cond)
		ite.thn = t.block(s.Body, false)
		switch el := s.Else.(type) {
		case nil:
		case *ast.BlockStmt:
			ite.els = t.block(el, false)
		case *ast.IfStmt:
			ite.els = t.stmt(el, false)
		default:
			t.fail(s.Else, "else branch")
		}
		return append(out, ite)
	case *ast.ForStmt:
		out := t.stmt(s.Init, false)
		lp := clStmt{kind: clLoop, pos: s.Pos(), src: "for " + t.text(s.Cond)}
		lp.cond = t.cond(s.Cond)
		lp.thn = append(t.stmts(s.Body.List, false, true), t.stmt(s.Post, false)...)
		return append(out, lp)
	case *ast.RangeStmt:
		for _, kv := range []ast.Expr{s.Key, s.Value} {
			if kv == nil {
				continue
			}
			if s.Tok == token.DEFINE {
				if _, ok := kv.(*ast.Ident); !ok {
					t.fail(kv, "range variable")
				}
			} else if pre, post := t.lhs(kv, false, nil); len(pre)+len(post) > 0 {
				t.fail(kv, "range assigns to a shared location")
			}
		}
		var out []clStmt
		lp := clStmt{kind: clLoop, pos: s.Pos(), src: "for … range " + t.text(s.X)}
		if f, ok := t.cacheField(s.X); ok {
			if f != "items" {
				t.fail(s.X, "range over cache field %s", f)
			}
			lp.cond = []clStmt{t.access("read", "items", s.X)} // the map is read at every iteration step
		} else {
			out = t.cond(s.X)
		}
		lp.thn = t.stmts(s.Body.List, false, true)
		return append(out, lp)
	case *ast.DeferStmt:
		if !top {
			t.fail(s, "defer that is not a direct child of the method body (it would run conditionally)")
		}
		k := t.call(s.Call)
		if len(k) != 1 || (k[0].kind != clUnlock && k[0].kind != clLock) {
			t.fail(s, "defer of anything but c.lock.Unlock() / c.lock.Lock()")
		}
		t.deferred = append(t.deferred, k[0])
		return nil
	}
	t.fail(s, "statement kind outside the subset")
	return nil
}

// ---------------------------------------------------------------- function bodies, inlining

// funcBody translates the body of a function (entry point or inlined callee): its own
// `defer c.lock.Unlock()` is run at each of its returns and at the end of its body.
func (t *clTr) funcBody(fd *ast.FuncDecl) []clStmt {
	saved := t.deferred
	t.deferred = nil
	defer func() { t.deferred = saved }()
	body := t.block(fd.Body, true)
	endsInReturn := false
	if n := len(fd.Body.List); n > 0 {
		_, endsInReturn = fd.Body.List[n-1].(*ast.ReturnStmt)
	}
	if !endsInReturn {
		body = append(body, t.deferredUnlock("the end of the body of "+fd.Name.Name)...)
	}
	return body
}

func (t *clTr) chain() string {
	var names []string
	for _, f := range t.stack {
		names = append(names, f.Name())
	}
	return strings.Join(names, " -> ")
}

// inline translates a call of a method of cache / of *item (recv = the receiver expression)
// or of an unexported package-level function (recv = nil) declared in the package:
// the accesses of evaluating the receiver and the arguments, in order, then a `call` node
// with the translated body of the callee.  Bindings: the callee's receiver / a *cache
// parameter must be given the caller's cache variable itself (then it denotes the same shared
// object inside the callee); a *item receiver / parameter given the fresh item (`p`, `&it`)
// denotes the fresh item inside the callee, given anything else a published item; a
// *listItem parameter is a local *listItem of the callee (if it is given the link of the
// fresh item, the item counts as published from the call on: the callee may link it).
func (t *clTr) inline(fn *types.Func, recv ast.Expr, c *ast.CallExpr) []clStmt {
	fd := t.decls[fn]
	if fd == nil || fd.Body == nil {
		t.fail(c, "call of %s, whose body is not available", fn.FullName())
	}
	for _, f := range t.stack {
		if f == fn {
			t.fail(c, "recursive call (%s -> %s): recursion cannot be inlined", t.chain(), fn.Name())
		}
	}
	if len(t.stack) > 16 {
		t.fail(c, "helper calls nested deeper than 16")
	}
	sig := fn.Type().(*types.Signature)
	if sig.Variadic() {
		t.fail(c, "call of the variadic helper %s", fn.Name())
	}
	if sig.TypeParams().Len() > 0 || sig.RecvTypeParams().Len() > 0 {
		t.fail(c, "call of the generic helper %s", fn.Name())
	}
	var out []clStmt
	var bindCache, bindFresh []*types.Var
	bind := func(v *types.Var, arg ast.Expr, isRecv bool) {
		n, ptr := clNamedOf(v.Type())
		switch {
		case n != nil && n == t.cacheT:
			if !ptr {
				t.fail(arg, "helper %s takes a cache by value (copies the mutex)", fn.Name())
			}
			if !t.isCacheVar(arg) {
				t.fail(arg, "helper %s is given a cache other than the receiver itself", fn.Name())
			}
			bindCache = append(bindCache, v)
		case n != nil && n == t.itemT:
			if !ptr {
				t.fail(arg, "helper %s takes an item by value (a whole item is copied)", fn.Name())
			}
			if t.freshRef(arg) || (isRecv && t.localItem(arg)) {
				bindFresh = append(bindFresh, v)
				return
			}
			out = append(out, t.expr(arg)...)
		case n != nil && n == t.listItemT:
			if !ptr {
				t.fail(arg, "helper %s takes a listItem by value", fn.Name())
			}
			acc, pub := t.listArg(arg)
			out = append(out, acc...)
			if pub {
				p := t.prim(clPublish, arg)
				p.synthetic = "the link of the fresh item is handed to helper " + fn.Name()
				out = append(out, p)
			}
		default:
			out = append(out, t.expr(arg)...)
		}
	}
	if rv := sig.Recv(); rv != nil {
		if recv == nil {
			t.fail(c, "method expression")
		}
		bind(rv, recv, true)
	}
	if sig.Params().Len() != len(c.Args) {
		t.fail(c, "helper %s called with a multi-value argument", fn.Name())
	}
	for i, a := range c.Args {
		bind(sig.Params().At(i), a, false)
	}
	// the frame of the callee
	type savedB struct {
		v    *types.Var
		c, f bool
	}
	var restore []savedB
	for _, v := range append(append([]*types.Var{}, bindCache...), bindFresh...) {
		restore = append(restore, savedB{v, t.cacheVars[v], t.fresh[v]})
	}
	// parameters not bound to the cache / the fresh item must not inherit a binding of an
	// earlier inlining of the same callee
	clearB := func(v *types.Var) {
		if v != nil {
			restore = append(restore, savedB{v, t.cacheVars[v], t.fresh[v]})
			delete(t.cacheVars, v)
			delete(t.fresh, v)
		}
	}
	clearB(sig.Recv())
	for i := 0; i < sig.Params().Len(); i++ {
		clearB(sig.Params().At(i))
	}
	for _, v := range bindCache {
		t.cacheVars[v] = true
	}
	for _, v := range bindFresh {
		t.fresh[v] = true
	}
	t.stack = append(t.stack, fn)
	t.reached[fn] = true
	body := t.funcBody(fd)
	t.stack = t.stack[:len(t.stack)-1]
	for i := len(restore) - 1; i >= 0; i-- {
		r := restore[i]
		delete(t.cacheVars, r.v)
		delete(t.fresh, r.v)
		if r.c {
			t.cacheVars[r.v] = true
		}
		if r.f {
			t.fresh[r.v] = true
		}
	}
	name := fn.Name()
	if rv := sig.Recv(); rv != nil {
		if n, _ := clNamedOf(rv.Type()); n == t.itemT {
			name = "item." + name
		}
	}
	return append(out, clStmt{kind: clCall, name: name, thn: body, pos: c.Pos(), src: t.text(c)})
}

// ---------------------------------------------------------------- the list functions

// tryListFn runs checkListFn and reports a failure instead of aborting the translation.
func (t *clTr) tryListFn(fd *ast.FuncDecl) (ok, writes bool, calls []*types.Func, why string) {
	defer func() {
		if r := recover(); r != nil {
			ce, isCl := r.(clErr)
			if !isCl {
				panic(r)
			}
			ok, why = false, ce.msg
		}
	}()
	writes, calls = t.checkListFn(fd)
	return true, writes, calls, ""
}

// checkListFn: the body of a list function touches only listItem links and calls only list
// functions; returns whether it (directly) assigns to a link.
func (t *clTr) checkListFn(fd *ast.FuncDecl) (writes bool, calls []*types.Func) {
	ast.Inspect(fd.Body, func(n ast.Node) bool {
		switch x := n.(type) {
		case *ast.SelectorExpr:
			sel := t.info.Selections[x]
			if sel == nil || sel.Kind() != types.FieldVal {
				t.fail(x, "list function %s: selector that is not a field", fd.Name.Name)
			}
			if nm, _ := clNamedOf(sel.Recv()); nm != t.listItemT {
				t.fail(x, "list function %s touches a field of something that is not a listItem", fd.Name.Name)
			}
		case *ast.CallExpr:
			fn := t.calleeFunc(x)
			if fn == nil {
				t.fail(x, "list function %s: call of something that is not a function", fd.Name.Name)
			}
			calls = append(calls, fn)
		case *ast.AssignStmt:
			for _, l := range x.Lhs {
				// an assignment to a plain identifier stores into a local variable
				// (package-level variables are rejected below), not into a link
				if _, isID := clUnparen(l).(*ast.Ident); !isID {
					writes = true
				}
			}
		case *ast.IncDecStmt:
			if _, isID := clUnparen(x.X).(*ast.Ident); !isID {
				writes = true
			}
		case *ast.Ident:
			if v, ok := t.objOf(x).(*types.Var); ok && !v.IsField() && v.Parent() == t.pkg.Scope() {
				t.fail(x, "list function %s uses a package-level variable", fd.Name.Name)
			}
		case *ast.GoStmt, *ast.DeferStmt, *ast.FuncLit, *ast.StarExpr:
			t.fail(x, "list function %s: construct outside the subset", fd.Name.Name)
		}
		return true
	})
	return writes, calls
}

// ---------------------------------------------------------------- driver

func clLoad(dir string) (*types.Package, *types.Info, *token.FileSet, []*ast.File, error) {
	fset := token.NewFileSet()
	matches, _ := filepath.Glob(filepath.Join(dir, "*.go"))
	sort.Strings(matches)
	var files []*ast.File
	for _, m := range matches {
		if strings.HasSuffix(m, "_test.go") || strings.HasSuffix(m, "_verif.go") {
			continue
		}
		f, err := parser.ParseFile(fset, m, nil, 0)
		if err != nil {
			return nil, nil, nil, nil, err
		}
		files = append(files, f)
	}
	info := &types.Info{Defs: map[*ast.Ident]types.Object{}, Types: map[ast.Expr]types.TypeAndValue{}, Uses: map[*ast.Ident]types.Object{},
		Selections: map[*ast.SelectorExpr]*types.Selection{}}
	var errs []string
	conf := types.Config{Importer: importer.Default(), Error: func(e error) { errs = append(errs, e.Error()) }}
	pkg, _ := conf.Check("cache", fset, files, info)
	if len(errs) > 0 {
		if len(errs) > 5 {
			errs = errs[:5]
		}
		return nil, nil, nil, nil, fmt.Errorf("package %s does not type-check: %s", dir, strings.Join(errs, "; "))
	}
	return pkg, info, fset, files, nil
}

func genCacheLockIR(repo string) (src string, err error) {
	pkg, info, fset, files, err := clLoad(filepath.Join(repo, "cache"))
	if err != nil {
		return "", err
	}
	t := &clTr{fset: fset, info: info, pkg: pkg, listFns: map[*types.Func]bool{}, cacheVars: map[*types.Var]bool{},
		fresh: map[*types.Var]bool{}, reached: map[*types.Func]bool{}}
	defer func() {
		if r := recover(); r != nil {
			ce, ok := r.(clErr)
			if !ok {
				panic(r)
			}
			src, err = "", fmt.Errorf("cache/%s", ce.msg)
		}
	}()
	named := func(name string) *types.Named {
		tn, _ := pkg.Scope().Lookup(name).(*types.TypeName)
		if tn == nil {
			panic(clErr{"type " + name + " not found in package cache"})
		}
		n, _ := types.Unalias(tn.Type()).(*types.Named)
		if n == nil {
			panic(clErr{"type " + name + " is not a defined type"})
		}
		if _, isStruct := n.Underlying().(*types.Struct); !isStruct {
			panic(clErr{"type " + name + " is not a struct"})
		}
		return n
	}
	t.cacheT, t.itemT, t.listItemT = named("cache"), named("item"), named("listItem")

	// the field table of cache and item must be the one the location table was written for
	typeStr := func(ty types.Type) string {
		return types.TypeString(ty, func(p *types.Package) string {
			if p == pkg {
				return ""
			}
			return p.Path()
		})
	}
	wantFields := func(n *types.Named, want map[string][]string) {
		st := n.Underlying().(*types.Struct)
		if st.NumFields() != len(want) {
			panic(clErr{fmt.Sprintf("struct %s has %d fields, the location table knows %d", n.Obj().Name(), st.NumFields(), len(want))})
		}
		for i := 0; i < st.NumFields(); i++ {
			f := st.Field(i)
			w, ok := want[f.Name()]
			if !ok || f.Embedded() {
				panic(clErr{fmt.Sprintf("struct %s: field %s is not in the location table", n.Obj().Name(), f.Name())})
			}
			got, found := typeStr(f.Type()), false
			for _, x := range w {
				found = found || x == got
			}
			if !found {
				panic(clErr{fmt.Sprintf("struct %s: field %s has type %s, the location table expects %s", n.Obj().Name(), f.Name(), got, strings.Join(w, " or "))})
			}
		}
	}
	// hit/miss: plain int32 touched through sync/atomic functions, or atomic.Int32 touched
	// through its methods; both are `acc atomic`
	wantFields(t.cacheT, map[string][]string{"items": {"map[string]*item"}, "usage": {"listItem"}, "lock": {"sync.Mutex"}, "size": {"uint"},
		"conf": {"Config"}, "miss": {"int32", "sync/atomic.Int32"}, "hit": {"int32", "sync/atomic.Int32"}})
	wantFields(t.listItemT, map[string][]string{"next": {"*listItem"}, "prev": {"*listItem"}})
	// item: the link `used listItem`, the slices key and value, and any further field of a
	// plain value type (e.g. a cached `size uint`): every field but `used` is location itemKV
	// (written only while the item is fresh, read anywhere)
	{
		st := t.itemT.Underlying().(*types.Struct)
		seen := map[string]bool{}
		for i := 0; i < st.NumFields(); i++ {
			f := st.Field(i)
			if f.Embedded() {
				panic(clErr{"struct item: embedded field " + f.Name()})
			}
			seen[f.Name()] = true
			got := typeStr(f.Type())
			switch f.Name() {
			case "used":
				if got != "listItem" {
					panic(clErr{"struct item: field used has type " + got + ", the location table expects listItem"})
				}
			case "key", "value":
				if got != "[]byte" {
					panic(clErr{"struct item: field " + f.Name() + " has type " + got + ", the location table expects []byte"})
				}
			default:
				ok := false
				switch u := types.Unalias(f.Type()).Underlying().(type) {
				case *types.Basic:
					ok = u.Kind() != types.UnsafePointer
				case *types.Slice:
					_, ok = types.Unalias(u.Elem()).Underlying().(*types.Basic)
				}
				if !ok {
					panic(clErr{"struct item: field " + f.Name() + " has type " + got + "; only fields of a basic type or a slice of a basic type are classified as key/value-like"})
				}
			}
		}
		for _, w := range []string{"key", "value", "used"} {
			if !seen[w] {
				panic(clErr{"struct item has no field " + w})
			}
		}
	}

	// collect declarations
	type decl struct {
		fd   *ast.FuncDecl
		fo   *types.Func
		file string
	}
	var entries []decl
	var all []decl
	t.decls = map[*types.Func]*ast.FuncDecl{}
	funcs := map[string]*ast.FuncDecl{}
	for _, f := range files {
		for _, d := range f.Decls {
			fd, ok := d.(*ast.FuncDecl)
			if !ok || fd.Body == nil {
				continue
			}
			fo, _ := info.Defs[fd.Name].(*types.Func)
			if fo == nil {
				panic(clErr{"function " + fd.Name.Name + " has no type information"})
			}
			t.decls[fo] = fd
			dc := decl{fd, fo, filepath.Base(fset.Position(fd.Pos()).Filename)}
			all = append(all, dc)
			if fd.Recv == nil {
				funcs[fd.Name.Name] = fd
				continue
			}
			rv := fo.Type().(*types.Signature).Recv()
			n, ptr := clNamedOf(rv.Type())
			if n == t.cacheT {
				if !ptr {
					t.fail(fd, "method of cache with a value receiver (copies the mutex)")
				}
				if fo.Exported() {
					entries = append(entries, dc)
				}
			} else if n == t.itemT {
				if !ptr {
					t.fail(fd, "method of item with a value receiver (copies a whole item)")
				}
			} else if n == t.listItemT {
				t.fail(fd, "method on listItem (the translator knows only list FUNCTIONS)")
			}
		}
	}
	sort.Slice(all, func(i, j int) bool { return all[i].fd.Pos() < all[j].fd.Pos() })
	// package-level variable initialisers (e.g. a function literal stored in a variable) must
	// not touch the cache or an item: they could not be analysed at a call site
	for _, f := range files {
		for _, d := range f.Decls {
			gd, ok := d.(*ast.GenDecl)
			if !ok || gd.Tok != token.VAR {
				continue
			}
			ast.Inspect(gd, func(n ast.Node) bool {
				if se, isSel := n.(*ast.SelectorExpr); isSel {
					if sel := info.Selections[se]; sel != nil {
						if nm, _ := clNamedOf(sel.Recv()); nm == t.cacheT || nm == t.itemT {
							t.fail(se, "package-level variable initialiser touches the cache or an item")
						}
					}
				}
				return true
			})
		}
	}

	// list functions: every package-level function whose name starts with `list` or whose
	// parameters are all *listItem, and whose body touches only listItem links and calls only
	// list functions (checked here, on every run); read/write classification computed.  A
	// candidate that does not pass the check is an ordinary helper (inlined at its call sites,
	// where a direct access to a link is an error).
	direct := map[*types.Func]bool{}
	callees := map[*types.Func][]*types.Func{}
	notList := map[string]string{}
	for _, dc := range all {
		fd, fo := dc.fd, dc.fo
		if fd.Recv != nil || fd.Name.Name == "newCache" {
			continue
		}
		sig := fo.Type().(*types.Signature)
		allLinks := sig.Params().Len() > 0
		for i := 0; i < sig.Params().Len(); i++ {
			n, ptr := clNamedOf(sig.Params().At(i).Type())
			allLinks = allLinks && n == t.listItemT && ptr
		}
		if !strings.HasPrefix(fd.Name.Name, "list") && !allLinks {
			continue
		}
		ok, w, cs, why := t.tryListFn(fd)
		if !ok {
			notList[fd.Name.Name] = why
			continue
		}
		direct[fo], callees[fo] = w, cs
		t.listFns[fo] = false
	}
	for changed := true; changed; {
		changed = false
		for fo, cs := range callees {
			if _, still := t.listFns[fo]; !still {
				continue
			}
			for _, c := range cs {
				if _, ok := t.listFns[c]; !ok {
					notList[fo.Name()] = "it calls " + c.FullName() + ", which is not a list function"
					delete(t.listFns, fo)
					changed = true
					break
				}
			}
		}
	}
	for changed := true; changed; {
		changed = false
		for fo := range t.listFns {
			w := direct[fo]
			for _, c := range callees[fo] {
				w = w || t.listFns[c]
			}
			if w != t.listFns[fo] {
				t.listFns[fo], changed = w, true
			}
		}
	}
	if fd := funcs["structPtr"]; fd != nil {
		t.structPtr = info.Defs[fd.Name].(*types.Func)
		delete(t.listFns, t.structPtr)
		ast.Inspect(fd.Body, func(n ast.Node) bool {
			switch x := n.(type) {
			case *ast.SelectorExpr:
				if info.Selections[x] != nil {
					t.fail(x, "structPtr touches a field")
				}
			case *ast.CallExpr:
				if tv, ok := info.Types[x.Fun]; !ok || !tv.IsType() {
					t.fail(x, "structPtr calls a function")
				}
			case *ast.StarExpr, *ast.AssignStmt, *ast.IncDecStmt:
				t.fail(n, "structPtr: construct outside pointer arithmetic")
			}
			return true
		})
	}

	sort.Slice(entries, func(i, j int) bool { return entries[i].fd.Pos() < entries[j].fd.Pos() })
	var body strings.Builder
	var leanNames []string
	seen := map[string]bool{}
	for _, m := range entries {
		fd, fo := m.fd, m.fo
		if seen[fd.Name.Name] {
			t.fail(fd, "method declared twice")
		}
		seen[fd.Name.Name] = true
		t.cacheVars = map[*types.Var]bool{}
		t.fresh = map[*types.Var]bool{}
		if rv := fo.Type().(*types.Signature).Recv(); rv.Name() != "" && rv.Name() != "_" {
			t.cacheVars[rv] = true
		}
		t.stack = []*types.Func{fo}
		t.reached[fo] = true
		stmts := t.funcBody(fd)
		ln := "m" + fd.Name.Name
		leanNames = append(leanNames, ln)
		fmt.Fprintf(&body, "/-- `func (%s *cache) %s` — %s:%d -/\n", fo.Type().(*types.Signature).Recv().Name(), fd.Name.Name, m.file, fset.Position(fd.Pos()).Line)
		fmt.Fprintf(&body, "def %s : Method := { name := %s, body := [\n", ln, c20LeanStrLit(fd.Name.Name))
		t.emit(&body, stmts, 1)
		body.WriteString("] }\n\n")
	}
	t.cacheVars, t.fresh, t.stack = map[*types.Var]bool{}, map[*types.Var]bool{}, nil
	for _, want := range []string{"Clear", "Set", "Get", "Del", "Stats"} {
		if !seen[want] {
			panic(clErr{"method cache." + want + " not found"})
		}
	}

	// Every function that touches a field of cache or of item must have been translated:
	// as an entry point, or inlined at a call site reachable from one.  Exceptions: newCache
	// and what only newCache reaches (the object is not shared yet), and the list functions /
	// structPtr (checked above to touch nothing but links).
	fromNew := map[*types.Func]bool{}
	var mark func(fd *ast.FuncDecl)
	mark = func(fd *ast.FuncDecl) {
		ast.Inspect(fd.Body, func(n ast.Node) bool {
			var id *ast.Ident
			switch x := n.(type) {
			case *ast.Ident:
				id = x
			case *ast.SelectorExpr:
				id = x.Sel
			}
			if id != nil {
				if fn, ok := info.Uses[id].(*types.Func); ok && t.decls[fn] != nil && !fromNew[fn] {
					fromNew[fn] = true
					mark(t.decls[fn])
				}
			}
			return true
		})
	}
	if fd := funcs["newCache"]; fd != nil {
		mark(fd)
	}
	var inlined, preShare []string
	for _, dc := range all {
		fd, fo := dc.fd, dc.fo
		_, isList := t.listFns[fo]
		if isList || fo == t.structPtr || (fd.Recv == nil && fd.Name.Name == "newCache") {
			continue
		}
		if t.reached[fo] {
			if !(fd.Recv != nil && fo.Exported() && seen[fd.Name.Name]) {
				inlined = append(inlined, fd.Name.Name)
			}
			continue
		}
		var touched ast.Node
		offsetof := map[ast.Node]bool{}
		ast.Inspect(fd.Body, func(n ast.Node) bool {
			if ce, ok := n.(*ast.CallExpr); ok {
				if se, isSel := ce.Fun.(*ast.SelectorExpr); isSel && info.Selections[se] == nil {
					if bi, isB := info.Uses[se.Sel].(*types.Builtin); isB && (bi.Name() == "Offsetof" || bi.Name() == "Sizeof" || bi.Name() == "Alignof") {
						offsetof[ce] = true
						return false // operand not evaluated
					}
				}
			}
			if se, ok := n.(*ast.SelectorExpr); ok && touched == nil {
				if sel := info.Selections[se]; sel != nil && sel.Kind() == types.FieldVal {
					if nm, _ := clNamedOf(sel.Recv()); nm == t.cacheT || nm == t.itemT {
						touched = se
					}
				}
			}
			return true
		})
		isMethod := false
		if fd.Recv != nil {
			n, _ := clNamedOf(fo.Type().(*types.Signature).Recv().Type())
			isMethod = n == t.cacheT || n == t.itemT
		}
		if touched == nil && !isMethod {
			continue
		}
		if fromNew[fo] {
			preShare = append(preShare, fd.Name.Name)
			continue
		}
		at := ast.Node(fd)
		if touched != nil {
			at = touched
		}
		t.fail(at, "%s touches the cache or an item but is not reachable from any exported method of cache (nor only from newCache): it cannot be analysed at a call site; remove it or call it", fd.Name.Name)
	}

	var b strings.Builder
	b.WriteString("import GolibsVerif.Model.C10IR\n\n")
	b.WriteString("/-! Lock-discipline IR of every exported method of `cache` (cache/*.go), regenerated by gen/cachelock.go.\n")
	b.WriteString("List functions (bodies checked to touch only listItem links): ")
	var lnames []string
	for fo, w := range t.listFns {
		rw := "read"
		if w {
			rw = "write"
		}
		lnames = append(lnames, fo.Name()+"="+rw)
	}
	sort.Strings(lnames)
	b.WriteString(strings.Join(lnames, ", "))
	if len(inlined) == 0 {
		inlined = []string{"none"}
	}
	b.WriteString(".\nHelpers inlined at their call sites (`.call`): " + strings.Join(inlined, ", "))
	if len(preShare) > 0 {
		b.WriteString(".\nHelpers reachable only from newCache (run before the object is shared; not analysed): " + strings.Join(preShare, ", "))
	}
	var nl []string
	for n, why := range notList {
		nl = append(nl, n+" ("+strings.ReplaceAll(strings.ReplaceAll(why, "-/", "- /"), "/-", "/ -")+")")
	}
	sort.Strings(nl)
	if len(nl) > 0 {
		b.WriteString(".\nCandidates that are NOT list functions (ordinary helpers): " + strings.Join(nl, "; "))
	}
	b.WriteString(".\nThe trailing comments give the source position and text each statement was translated from. -/\n\n")
	b.WriteString("namespace GolibsVerif.Gen.CacheLockIR\nopen GolibsVerif.C10.Lock\n\n")
	b.WriteString(body.String())
	fmt.Fprintf(&b, "/-- the exported methods of `cache` (the entry points), in source order -/\ndef methods : List Method := [%s]\n\n", strings.Join(leanNames, ", "))
	b.WriteString("/-- the critical-section profile of every method -/\ndef sections : List Profile := methods.map sectionsOf\n\n")
	b.WriteString("-- diagnostics only: name the offending method, helper chain and event when `lock_discipline` is going to fail,\n")
	b.WriteString("-- and what differs when `sections_expected` is going to fail\n")
	b.WriteString("#eval (report methods).forM (m := IO) IO.println\n")
	b.WriteString("#eval (profileReport sections Expected.sections).forM (m := IO) IO.println\n\n")
	b.WriteString("end GolibsVerif.Gen.CacheLockIR\n")
	return b.String(), nil
}

func (t *clTr) note(s clStmt) string {
	p := t.fset.Position(s.pos)
	n := fmt.Sprintf("  -- %s:%d:%d  %s", filepath.Base(p.Filename), p.Line, p.Column, strings.ReplaceAll(s.src, "\n", " "))
	if s.synthetic != "" {
		n += "  [" + s.synthetic + "]"
	}
	return n
}

func (t *clTr) emit(b *strings.Builder, ss []clStmt, depth int) {
	ind := strings.Repeat("  ", depth)
	for i, s := range ss {
		sep := ","
		if i == len(ss)-1 {
			sep = ""
		}
		switch s.kind {
		case clLock:
			fmt.Fprintf(b, "%s.lock%s%s\n", ind, sep, t.note(s))
		case clUnlock:
			fmt.Fprintf(b, "%s.unlock%s%s\n", ind, sep, t.note(s))
		case clAcc:
			loc := "." + s.loc
			if strings.Contains(s.loc, " ") {
				loc = "(." + s.loc + ")"
			}
			fmt.Fprintf(b, "%s.acc .%s %s%s%s\n", ind, s.acc, loc, sep, t.note(s))
		case clPublish:
			fmt.Fprintf(b, "%s.publish%s%s\n", ind, sep, t.note(s))
		case clCallOnDelete:
			fmt.Fprintf(b, "%s.callOnDelete%s%s\n", ind, sep, t.note(s))
		case clRet:
			fmt.Fprintf(b, "%s.ret%s%s\n", ind, sep, t.note(s))
		case clCall:
			fmt.Fprintf(b, "%s.call %s [%s\n", ind, c20LeanStrLit(s.name), t.note(s))
			t.emit(b, s.thn, depth+2)
			fmt.Fprintf(b, "%s  ]%s\n", ind, sep)
		case clIte, clLoop:
			kw := ".ite"
			if s.kind == clLoop {
				kw = ".loop"
			}
			fmt.Fprintf(b, "%s%s [%s\n", ind, kw, t.note(s))
			t.emit(b, s.cond, depth+2)
			fmt.Fprintf(b, "%s  ] [\n", ind)
			t.emit(b, s.thn, depth+2)
			if s.kind == clIte {
				fmt.Fprintf(b, "%s  ] [\n", ind)
				t.emit(b, s.els, depth+2)
			}
			fmt.Fprintf(b, "%s  ]%s\n", ind, sep)
		}
	}
}

func init() { translators["CacheLockIR"] = genCacheLockIR }
