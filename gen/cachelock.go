package main

import (
	"bytes"
	"fmt"
	"go/ast"
	"go/importer"
	"go/parser"
	"go/printer"
	"go/token"
	"go/types"
	"path/filepath"
	"sort"
	"strings"
)

// CacheLockIR (C10, package L): every method of `cache` in /repo/cache is re-emitted as a term
// of the lock-discipline IR of lean/GolibsVerif/Model/C10IR.lean: the accesses to the fields
// of the shared cache object in Go evaluation order, Lock/Unlock on c.lock, the OnDelete
// callback, returns, and the if/for structure.  `theorem lock_discipline` (Theorems/C10Lock.lean)
// runs the Lean checker `analyse` on the regenerated term.
//
// The translator is total on a small subset of Go and FAILS LOUDLY (error naming the construct
// and its position) on everything else; it never skips a statement or an expression.  What it
// relies on (trusted base, see REPORT): go/types resolves every identifier and selector; the
// list functions of list.go touch nothing but listItem links (checked syntactically below);
// accesses are emitted in Go's evaluation order (operands left to right, index/selector
// operands of the left-hand side, then the right-hand side, then the stores).
//
// Supported statements: expression statement (call), assignment (=, :=, op=), ++/--, var
// declaration, return, if / else / else-if (with init), for (init; cond; post), range, block,
// empty statement, and `defer c.lock.Unlock()` as a direct child of the method body (the
// unlock is then emitted before every later return and at the end of the body).
// Everything else (go, other defers, switch, select, break/continue/goto, labels, send,
// function literals, type assertions, pointer dereference, address-of outside the forms
// below, calls of unknown functions, method calls on the cache) is an error.
//
// Address-of is only allowed as: `&c.usage`, `&x.used` (arguments of list functions),
// `&c.hit|miss|size` (first argument of a sync/atomic function), `&it` in `c.items[k] = &it`
// (it a local variable of struct type item: publication).  `c.items` is only allowed as
// `c.items[k]`, `len(c.items)`, `delete(c.items, k)`, `clear(c.items)`, `range c.items` and
// as the left-hand side of an assignment, so no alias of the map, of the list or of a
// counter can be created inside the subset.

type clKind int

const (
	clLock clKind = iota
	clUnlock
	clAcc
	clPublish
	clCallOnDelete
	clRet
	clIte
	clLoop
)

type clStmt struct {
	kind      clKind
	acc, loc  string // for clAcc
	cond      []clStmt
	thn, els  []clStmt // loop: thn = body
	pos       token.Pos
	src       string
	synthetic string // note for statements not written at this position (deferred unlock)
}

type clErr struct{ msg string }

type clTr struct {
	fset      *token.FileSet
	info      *types.Info
	pkg       *types.Package
	cacheT    *types.Named
	itemT     *types.Named
	listItemT *types.Named
	listFns   map[*types.Func]bool // list function -> writes links
	structPtr *types.Func
	recv      *types.Var
	deferred  ast.Node // the active top-level `defer c.lock.Unlock()`, if any
}

func (t *clTr) text(n ast.Node) string {
	var b bytes.Buffer
	_ = printer.Fprint(&b, t.fset, n)
	s := strings.Join(strings.Fields(b.String()), " ")
	if len(s) > 70 {
		s = s[:67] + "..."
	}
	return s
}

func (t *clTr) where(n ast.Node) string {
	p := t.fset.Position(n.Pos())
	return fmt.Sprintf("%s:%d:%d", filepath.Base(p.Filename), p.Line, p.Column)
}

func (t *clTr) fail(n ast.Node, format string, a ...any) {
	panic(clErr{fmt.Sprintf("%s: %s: `%s` (%T)", t.where(n), fmt.Sprintf(format, a...), t.text(n), n)})
}

func (t *clTr) prim(k clKind, n ast.Node) clStmt {
	return clStmt{kind: k, pos: n.Pos(), src: t.text(n)}
}

func (t *clTr) access(acc, loc string, n ast.Node) clStmt {
	return clStmt{kind: clAcc, acc: acc, loc: loc, pos: n.Pos(), src: t.text(n)}
}

func clUnparen(e ast.Expr) ast.Expr {
	for {
		p, ok := e.(*ast.ParenExpr)
		if !ok {
			return e
		}
		e = p.X
	}
}

// namedOf returns the named type of typ (through at most one pointer) and whether it was a pointer.
func clNamedOf(typ types.Type) (*types.Named, bool) {
	if typ == nil {
		return nil, false
	}
	typ = types.Unalias(typ)
	ptr := false
	if p, ok := typ.(*types.Pointer); ok {
		ptr = true
		typ = types.Unalias(p.Elem())
	}
	n, _ := typ.(*types.Named)
	return n, ptr
}

func (t *clTr) typeOf(e ast.Expr) types.Type {
	tv, ok := t.info.Types[e]
	if !ok || tv.Type == nil {
		if id, isID := e.(*ast.Ident); isID {
			if o := t.info.ObjectOf(id); o != nil {
				return o.Type()
			}
		}
		t.fail(e, "expression has no type (go/types could not resolve it)")
	}
	return tv.Type
}

// objOf returns the object an identifier denotes (use or definition).
func (t *clTr) objOf(id *ast.Ident) types.Object {
	if o := t.info.Uses[id]; o != nil {
		return o
	}
	return t.info.Defs[id]
}

// isLocalVar: a variable declared inside the current function (parameter, result or local),
// not the receiver, not a field, not package level.
func (t *clTr) isLocalVar(o types.Object) bool {
	v, ok := o.(*types.Var)
	if !ok || v.IsField() || v == t.recv {
		return false
	}
	return v.Parent() != nil && v.Parent() != t.pkg.Scope() && v.Parent() != types.Universe
}

// cacheField: if e is `c.<f>` with c the receiver of the current method and f a field of
// cache, returns f's name.
func (t *clTr) cacheField(e ast.Expr) (string, bool) {
	se, ok := clUnparen(e).(*ast.SelectorExpr)
	if !ok {
		return "", false
	}
	sel := t.info.Selections[se]
	if sel == nil || sel.Kind() != types.FieldVal {
		return "", false
	}
	n, _ := clNamedOf(sel.Recv())
	if n != t.cacheT {
		return "", false
	}
	if len(sel.Index()) != 1 {
		t.fail(se, "promoted field of cache is outside the subset")
	}
	id, isID := clUnparen(se.X).(*ast.Ident)
	if !isID || t.objOf(id) != t.recv {
		t.fail(se, "field of a cache object other than the method receiver")
	}
	return sel.Obj().Name(), true
}

// localItem: e is an identifier denoting a local variable of struct type item.
func (t *clTr) localItem(e ast.Expr) bool {
	id, ok := clUnparen(e).(*ast.Ident)
	if !ok {
		return false
	}
	o := t.objOf(id)
	if o == nil || !t.isLocalVar(o) {
		return false
	}
	n, ptr := clNamedOf(o.Type())
	return n == t.itemT && !ptr
}

// ---------------------------------------------------------------- expressions (rvalues)

func (t *clTr) exprs(es []ast.Expr) []clStmt {
	var out []clStmt
	for _, e := range es {
		out = append(out, t.expr(e)...)
	}
	return out
}

func (t *clTr) expr(e ast.Expr) []clStmt {
	switch e := e.(type) {
	case nil:
		return nil
	case *ast.BasicLit:
		return nil
	case *ast.ParenExpr:
		return t.expr(e.X)
	case *ast.Ident:
		return t.ident(e)
	case *ast.SelectorExpr:
		return t.selector(e)
	case *ast.IndexExpr:
		if f, ok := t.cacheField(e.X); ok {
			if f != "items" {
				t.fail(e, "index of cache field %s", f)
			}
			return append(t.expr(e.Index), t.access("read", "items", e))
		}
		tv := t.info.Types[e.X]
		if !tv.IsValue() {
			t.fail(e, "index expression on a non-value (generic instantiation?)")
		}
		switch types.Unalias(tv.Type).Underlying().(type) {
		case *types.Slice, *types.Array, *types.Basic, *types.Map:
		default:
			t.fail(e, "index expression on type %s", tv.Type)
		}
		return append(t.expr(e.X), t.expr(e.Index)...)
	case *ast.SliceExpr:
		out := t.expr(e.X)
		out = append(out, t.expr(e.Low)...)
		out = append(out, t.expr(e.High)...)
		return append(out, t.expr(e.Max)...)
	case *ast.UnaryExpr:
		switch e.Op {
		case token.AND:
			t.fail(e, "address-of outside the supported forms (&c.usage / &x.used as list-function argument, &c.hit|miss as sync/atomic argument, c.items[k] = &localItem)")
		case token.ARROW:
			t.fail(e, "channel receive")
		}
		return t.expr(e.X)
	case *ast.BinaryExpr:
		if e.Op == token.EQL || e.Op == token.NEQ {
			// comparing the ADDRESS of a link with a pointer touches no memory
			l, lok := t.linkAddr(e.X)
			r, rok := t.linkAddr(e.Y)
			if lok || rok {
				if !lok {
					l = t.expr(e.X)
				}
				if !rok {
					r = t.expr(e.Y)
				}
				return append(l, r...)
			}
		}
		l := t.expr(e.X)
		r := t.expr(e.Y)
		if e.Op == token.LAND || e.Op == token.LOR {
			// short circuit: the right operand is evaluated on some paths only
			if len(r) > 0 {
				l = append(l, clStmt{kind: clIte, thn: r, pos: e.Y.Pos(), src: "short-circuit " + e.Op.String() + " " + t.text(e.Y)})
			}
			return l
		}
		return append(l, r...)
	case *ast.CallExpr:
		return t.call(e)
	case *ast.CompositeLit:
		typ := types.Unalias(t.typeOf(e)).Underlying()
		_, isStruct := typ.(*types.Struct)
		var out []clStmt
		for _, el := range e.Elts {
			if kv, ok := el.(*ast.KeyValueExpr); ok {
				if !isStruct {
					out = append(out, t.expr(kv.Key)...)
				}
				out = append(out, t.expr(kv.Value)...)
			} else {
				out = append(out, t.expr(el)...)
			}
		}
		return out
	}
	t.fail(e, "expression kind outside the subset")
	return nil
}

func (t *clTr) ident(id *ast.Ident) []clStmt {
	if id.Name == "_" {
		return nil
	}
	o := t.objOf(id)
	switch o := o.(type) {
	case nil:
		t.fail(id, "unresolved identifier")
	case *types.Nil, *types.Const:
		return nil
	case *types.Var:
		if o == t.recv {
			t.fail(id, "the receiver is used as a value (the cache object escapes or is aliased)")
		}
		if !t.isLocalVar(o) {
			t.fail(id, "package-level variable")
		}
		n, ptr := clNamedOf(o.Type())
		if !ptr && (n == t.itemT || n == t.cacheT || n == t.listItemT) && n != nil {
			t.fail(id, "a whole %s value is copied", n.Obj().Name())
		}
		return nil
	}
	t.fail(id, "identifier denotes %T, which is not a value of the subset", o)
	return nil
}

func (t *clTr) selector(e *ast.SelectorExpr) []clStmt {
	sel := t.info.Selections[e]
	if sel == nil {
		// qualified identifier pkg.Name
		switch t.info.Uses[e.Sel].(type) {
		case *types.Const:
			return nil
		}
		t.fail(e, "qualified identifier that is not a constant")
	}
	if sel.Kind() != types.FieldVal {
		t.fail(e, "method value / method expression")
	}
	if f, ok := t.cacheField(e); ok {
		switch f {
		case "size", "hit", "miss", "conf":
			return []clStmt{t.access("read", f, e)}
		case "items":
			t.fail(e, "c.items used as a value (only c.items[k], len(c.items), delete/clear(c.items, …), range c.items and assignment are supported)")
		case "usage":
			t.fail(e, "c.usage outside &c.usage as list-function argument")
		case "lock":
			t.fail(e, "c.lock outside c.lock.Lock() / c.lock.Unlock()")
		}
		t.fail(e, "cache field %s is not in the location table", f)
	}
	if len(sel.Index()) != 1 {
		t.fail(e, "promoted field")
	}
	n, ptr := clNamedOf(sel.Recv())
	switch {
	case n != nil && n == t.itemT:
		switch sel.Obj().Name() {
		case "key", "value":
			if ptr {
				return append(t.expr(e.X), t.access("read", "itemKV false", e))
			}
			if t.localItem(e.X) {
				return []clStmt{t.access("read", "itemKV true", e)}
			}
			t.fail(e, "field of an item value that is not a local variable")
		}
		t.fail(e, "item field %s outside &x.used as list-function argument", sel.Obj().Name())
	case n != nil && n == t.listItemT:
		t.fail(e, "direct access to a listItem link (only the list functions may touch links)")
	case n != nil && n == t.cacheT:
		t.fail(e, "cache field through something that is not the receiver")
	case ptr:
		t.fail(e, "field through a pointer to %s", sel.Recv())
	}
	// field of a plain struct value: the accesses are those of the base
	return t.expr(e.X)
}

// linkAddr: e is `&c.usage` or `&x.used`; returns the accesses of evaluating the address
// (those of x when x is a pointer expression; none otherwise).  Only used for operands of
// == / != (no alias is created, no memory behind the address is touched).
func (t *clTr) linkAddr(e ast.Expr) ([]clStmt, bool) {
	ad, ok := clUnparen(e).(*ast.UnaryExpr)
	if !ok || ad.Op != token.AND {
		return nil, false
	}
	if f, isF := t.cacheField(ad.X); isF {
		return nil, f == "usage"
	}
	se, ok := clUnparen(ad.X).(*ast.SelectorExpr)
	if !ok {
		return nil, false
	}
	sel := t.info.Selections[se]
	if sel == nil || sel.Kind() != types.FieldVal || len(sel.Index()) != 1 || sel.Obj().Name() != "used" {
		return nil, false
	}
	n, ptr := clNamedOf(sel.Recv())
	if n != t.itemT {
		return nil, false
	}
	if ptr {
		return t.expr(se.X), true
	}
	return nil, t.localItem(se.X)
}

// listArg: an argument of a list function.  Returns the accesses of evaluating it and
// whether it is the link of a local item (publication).
func (t *clTr) listArg(a ast.Expr) ([]clStmt, bool) {
	a = clUnparen(a)
	switch x := a.(type) {
	case *ast.UnaryExpr:
		if x.Op != token.AND {
			break
		}
		if f, ok := t.cacheField(x.X); ok {
			if f == "usage" {
				return nil, false
			}
			t.fail(a, "address of cache field %s passed to a list function", f)
		}
		se, ok := clUnparen(x.X).(*ast.SelectorExpr)
		if !ok {
			break
		}
		sel := t.info.Selections[se]
		if sel == nil || sel.Kind() != types.FieldVal || len(sel.Index()) != 1 {
			break
		}
		n, ptr := clNamedOf(sel.Recv())
		if n != t.itemT || sel.Obj().Name() != "used" {
			break
		}
		if ptr {
			return t.expr(se.X), false
		}
		if t.localItem(se.X) {
			return nil, true
		}
	case *ast.Ident:
		o := t.objOf(x)
		if o != nil && t.isLocalVar(o) {
			if n, ptr := clNamedOf(o.Type()); n == t.listItemT && ptr {
				return nil, false
			}
		}
	case *ast.CallExpr:
		if fn := t.calleeFunc(x); fn != nil {
			if _, ok := t.listFns[fn]; ok {
				return t.call(x), false
			}
		}
	}
	t.fail(a, "list-function argument outside the supported forms (&c.usage, &x.used, a local *listItem, listFirst/listLast(…))")
	return nil, false
}

// calleeFunc: the *types.Func a call's Fun denotes (plain or qualified identifier), if any.
func (t *clTr) calleeFunc(c *ast.CallExpr) *types.Func {
	switch f := clUnparen(c.Fun).(type) {
	case *ast.Ident:
		fn, _ := t.objOf(f).(*types.Func)
		return fn
	case *ast.SelectorExpr:
		if t.info.Selections[f] == nil {
			fn, _ := t.info.Uses[f.Sel].(*types.Func)
			return fn
		}
	}
	return nil
}

func (t *clTr) call(c *ast.CallExpr) []clStmt {
	if c.Ellipsis.IsValid() {
		t.fail(c, "variadic spread call")
	}
	fun := clUnparen(c.Fun)
	// conversion
	if tv, ok := t.info.Types[c.Fun]; ok && tv.IsType() {
		return t.exprs(c.Args)
	}
	// builtins (including package unsafe)
	var bi *types.Builtin
	switch f := fun.(type) {
	case *ast.Ident:
		bi, _ = t.objOf(f).(*types.Builtin)
	case *ast.SelectorExpr:
		if t.info.Selections[f] == nil {
			bi, _ = t.info.Uses[f.Sel].(*types.Builtin)
		}
	}
	if bi != nil {
		switch bi.Name() {
		case "Offsetof", "Sizeof", "Alignof":
			return nil // the operand is not evaluated
		case "len", "cap":
			if f, ok := t.cacheField(c.Args[0]); ok {
				if f != "items" {
					t.fail(c, "%s of cache field %s", bi.Name(), f)
				}
				return []clStmt{t.access("read", "items", c)}
			}
			return t.exprs(c.Args)
		case "min", "max":
			return t.exprs(c.Args)
		case "make":
			return t.exprs(c.Args[1:])
		case "delete", "clear":
			f, ok := t.cacheField(c.Args[0])
			if !ok || f != "items" {
				t.fail(c, "%s on something other than c.items", bi.Name())
			}
			return append(t.exprs(c.Args[1:]), t.access("write", "items", c))
		}
		t.fail(c, "builtin %s is outside the subset", bi.Name())
	}
	if fn := t.calleeFunc(c); fn != nil {
		if writes, ok := t.listFns[fn]; ok {
			var out []clStmt
			publish := false
			for _, a := range c.Args {
				s, p := t.listArg(a)
				out = append(out, s...)
				publish = publish || p
			}
			if publish {
				out = append(out, t.prim(clPublish, c))
			}
			if writes {
				return append(out, t.access("write", "usage", c))
			}
			return append(out, t.access("read", "usage", c))
		}
		if fn == t.structPtr {
			return t.exprs(c.Args)
		}
		if fn.Pkg() != nil && fn.Pkg().Path() == "sync/atomic" {
			if len(c.Args) == 0 {
				t.fail(c, "sync/atomic call without arguments")
			}
			ad, ok := clUnparen(c.Args[0]).(*ast.UnaryExpr)
			if !ok || ad.Op != token.AND {
				t.fail(c, "sync/atomic call whose first argument is not &c.<field>")
			}
			f, ok := t.cacheField(ad.X)
			if !ok || (f != "hit" && f != "miss" && f != "size") {
				t.fail(c, "sync/atomic call whose first argument is not &c.hit / &c.miss / &c.size")
			}
			return append(t.exprs(c.Args[1:]), t.access("atomic", f, c))
		}
		t.fail(c, "call of function %s, which is not in the allow-list (list functions, structPtr, sync/atomic, len/cap/make/delete/clear/min/max, conversions, unsafe.Offsetof/Sizeof)", fn.FullName())
	}
	if se, ok := fun.(*ast.SelectorExpr); ok {
		sel := t.info.Selections[se]
		if sel != nil && sel.Kind() == types.MethodVal {
			if f, isF := t.cacheField(se.X); isF && f == "lock" {
				m, _ := sel.Obj().(*types.Func)
				if m != nil && m.Pkg() != nil && m.Pkg().Path() == "sync" && len(c.Args) == 0 {
					switch m.Name() {
					case "Lock":
						return []clStmt{t.prim(clLock, c)}
					case "Unlock":
						return []clStmt{t.prim(clUnlock, c)}
					}
				}
				t.fail(c, "method of c.lock other than Lock/Unlock")
			}
			if id, isID := clUnparen(se.X).(*ast.Ident); isID && t.objOf(id) == t.recv {
				t.fail(c, "call of another method of the cache (not inlined by this translator)")
			}
			t.fail(c, "method call")
		}
		if sel != nil && sel.Kind() == types.FieldVal && sel.Obj().Name() == "OnDelete" {
			if f, isF := t.cacheField(se.X); isF && f == "conf" {
				out := t.selector(se)
				out = append(out, t.exprs(c.Args)...)
				return append(out, t.prim(clCallOnDelete, c))
			}
		}
	}
	t.fail(c, "call of something that is not a known function (closure, function-valued field or variable)")
	return nil
}

// ---------------------------------------------------------------- statements

// lhs: one left-hand side of an assignment.  pre = accesses of evaluating its operands,
// post = the store itself (preceded by a load for op= / ++ / --).
func (t *clTr) lhs(l ast.Expr, rmw bool, rhs ast.Expr) (pre, post []clStmt) {
	store := func(loc string) []clStmt {
		if rmw {
			pre = append(pre, t.access("read", loc, l))
		}
		return []clStmt{t.access("write", loc, l)}
	}
	switch x := clUnparen(l).(type) {
	case *ast.Ident:
		if x.Name == "_" {
			return nil, nil
		}
		o := t.objOf(x)
		if o == nil || !t.isLocalVar(o) {
			t.fail(l, "assignment to something that is not a local variable")
		}
		if n, ptr := clNamedOf(o.Type()); !ptr && n != nil && (n == t.itemT || n == t.cacheT || n == t.listItemT) {
			t.fail(l, "assignment of a whole %s value", n.Obj().Name())
		}
		return nil, nil
	case *ast.SelectorExpr:
		sel := t.info.Selections[x]
		if sel == nil || sel.Kind() != types.FieldVal {
			t.fail(l, "assignment to a non-field selector")
		}
		if f, ok := t.cacheField(x); ok {
			switch f {
			case "items", "size", "hit", "miss", "conf":
				return pre, store(f)
			}
			t.fail(l, "assignment to cache field %s", f)
		}
		if len(sel.Index()) != 1 {
			t.fail(l, "promoted field")
		}
		n, ptr := clNamedOf(sel.Recv())
		switch {
		case n != nil && n == t.itemT:
			switch sel.Obj().Name() {
			case "key", "value":
				if ptr {
					pre = append(pre, t.expr(x.X)...)
					return pre, store("itemKV false")
				}
				if t.localItem(x.X) {
					return pre, store("itemKV true")
				}
			}
			t.fail(l, "assignment to item field %s", sel.Obj().Name())
		case n != nil && (n == t.listItemT || n == t.cacheT):
			t.fail(l, "assignment to a field of %s", n.Obj().Name())
		case ptr:
			t.fail(l, "assignment through a pointer to %s", sel.Recv())
		}
		// field of a plain struct value: c.conf.X = … is a store to conf, s.X = … a local store
		return t.lhs(x.X, rmw, nil)
	case *ast.IndexExpr:
		if f, ok := t.cacheField(x.X); ok {
			if f != "items" {
				t.fail(l, "index of cache field %s", f)
			}
			pre = append(pre, t.expr(x.Index)...)
			if ad, isAd := clUnparen(rhs).(*ast.UnaryExpr); rhs != nil && isAd && ad.Op == token.AND && t.localItem(ad.X) {
				post = append(post, t.prim(clPublish, rhs))
			}
			return pre, append(post, store("items")...)
		}
		id, isID := clUnparen(x.X).(*ast.Ident)
		if !isID || t.objOf(id) == nil || !t.isLocalVar(t.objOf(id)) {
			t.fail(l, "element assignment whose base is not a local variable")
		}
		pre = append(pre, t.expr(x.X)...)
		pre = append(pre, t.expr(x.Index)...)
		return pre, nil
	}
	t.fail(l, "left-hand side outside the subset")
	return nil, nil
}

func (t *clTr) assign(s *ast.AssignStmt) []clStmt {
	if s.Tok == token.DEFINE {
		for _, l := range s.Lhs {
			id, ok := l.(*ast.Ident)
			if !ok {
				t.fail(l, "non-identifier on the left of :=")
			}
			if t.info.Defs[id] == nil && id.Name != "_" {
				// re-assignment of an existing variable inside :=
				t.lhs(l, false, nil)
			}
		}
		return t.exprs(s.Rhs)
	}
	rmw := s.Tok != token.ASSIGN
	var pre, mid, post []clStmt
	for i, l := range s.Lhs {
		var rhs ast.Expr
		if len(s.Lhs) == len(s.Rhs) {
			rhs = s.Rhs[i]
		}
		p, q := t.lhs(l, rmw, rhs)
		pre = append(pre, p...)
		post = append(post, q...)
	}
	for i, r := range s.Rhs {
		// `c.items[k] = &it`: publication, handled by lhs
		if len(s.Lhs) == len(s.Rhs) && s.Tok == token.ASSIGN {
			if ix, ok := clUnparen(s.Lhs[i]).(*ast.IndexExpr); ok {
				if f, isF := t.cacheField(ix.X); isF && f == "items" {
					if ad, isAd := clUnparen(r).(*ast.UnaryExpr); isAd && ad.Op == token.AND && t.localItem(ad.X) {
						continue
					}
				}
			}
		}
		mid = append(mid, t.expr(r)...)
	}
	return append(append(pre, mid...), post...)
}

func (t *clTr) block(b *ast.BlockStmt, top bool) []clStmt {
	var out []clStmt
	if b == nil {
		return nil
	}
	for _, s := range b.List {
		out = append(out, t.stmt(s, top)...)
	}
	return out
}

func (t *clTr) deferredUnlock(at ast.Node) []clStmt {
	if t.deferred == nil {
		return nil
	}
	u := t.prim(clUnlock, t.deferred)
	u.synthetic = "deferred call run at " + t.where(at)
	return []clStmt{u}
}

func (t *clTr) stmt(s ast.Stmt, top bool) []clStmt {
	switch s := s.(type) {
	case nil:
		return nil
	case *ast.EmptyStmt:
		return nil
	case *ast.ExprStmt:
		c, ok := clUnparen(s.X).(*ast.CallExpr)
		if !ok {
			t.fail(s, "expression statement that is not a call")
		}
		return t.call(c)
	case *ast.AssignStmt:
		return t.assign(s)
	case *ast.IncDecStmt:
		pre, post := t.lhs(s.X, true, nil)
		return append(pre, post...)
	case *ast.DeclStmt:
		gd, ok := s.Decl.(*ast.GenDecl)
		if !ok {
			t.fail(s, "declaration statement")
		}
		var out []clStmt
		for _, sp := range gd.Specs {
			if vs, isV := sp.(*ast.ValueSpec); isV {
				out = append(out, t.exprs(vs.Values)...)
			}
		}
		return out
	case *ast.ReturnStmt:
		out := t.exprs(s.Results)
		out = append(out, t.deferredUnlock(s)...)
		return append(out, t.prim(clRet, s))
	case *ast.BlockStmt:
		return t.block(s, false)
	case *ast.IfStmt:
		out := t.stmt(s.Init, false)
		ite := clStmt{kind: clIte, pos: s.Pos(), src: "if " + t.text(s.Cond)}
		ite.cond = t.expr(s.Cond)
		ite.thn = t.block(s.Body, false)
		switch el := s.Else.(type) {
		case nil:
		case *ast.BlockStmt:
			ite.els = t.block(el, false)
		case *ast.IfStmt:
			ite.els = t.stmt(el, false)
		default:
			t.fail(s.Else, "else branch")
		}
		return append(out, ite)
	case *ast.ForStmt:
		out := t.stmt(s.Init, false)
		lp := clStmt{kind: clLoop, pos: s.Pos(), src: "for " + t.text(s.Cond)}
		lp.cond = t.expr(s.Cond)
		lp.thn = append(t.block(s.Body, false), t.stmt(s.Post, false)...)
		return append(out, lp)
	case *ast.RangeStmt:
		for _, kv := range []ast.Expr{s.Key, s.Value} {
			if kv == nil {
				continue
			}
			if s.Tok == token.DEFINE {
				if _, ok := kv.(*ast.Ident); !ok {
					t.fail(kv, "range variable")
				}
			} else if pre, post := t.lhs(kv, false, nil); len(pre)+len(post) > 0 {
				t.fail(kv, "range assigns to a shared location")
			}
		}
		var out []clStmt
		lp := clStmt{kind: clLoop, pos: s.Pos(), src: "for … range " + t.text(s.X)}
		if f, ok := t.cacheField(s.X); ok {
			if f != "items" {
				t.fail(s.X, "range over cache field %s", f)
			}
			lp.cond = []clStmt{t.access("read", "items", s.X)} // the map is read at every iteration step
		} else {
			out = t.expr(s.X)
		}
		lp.thn = t.block(s.Body, false)
		return append(out, lp)
	case *ast.DeferStmt:
		if !top {
			t.fail(s, "defer that is not a direct child of the method body (it would run conditionally)")
		}
		if t.deferred != nil {
			t.fail(s, "second deferred call")
		}
		k := t.call(s.Call)
		if len(k) != 1 || k[0].kind != clUnlock {
			t.fail(s, "defer of anything but c.lock.Unlock()")
		}
		t.deferred = s.Call
		return nil
	}
	t.fail(s, "statement kind outside the subset")
	return nil
}

// ---------------------------------------------------------------- the list functions

// checkListFn: the body of a list function touches only listItem links and calls only list
// functions; returns whether it (directly) assigns.
func (t *clTr) checkListFn(fd *ast.FuncDecl) (writes bool, calls []*types.Func) {
	ast.Inspect(fd.Body, func(n ast.Node) bool {
		switch x := n.(type) {
		case *ast.SelectorExpr:
			sel := t.info.Selections[x]
			if sel == nil || sel.Kind() != types.FieldVal {
				t.fail(x, "list function %s: selector that is not a field", fd.Name.Name)
			}
			if nm, _ := clNamedOf(sel.Recv()); nm != t.listItemT {
				t.fail(x, "list function %s touches a field of something that is not a listItem", fd.Name.Name)
			}
		case *ast.CallExpr:
			fn := t.calleeFunc(x)
			if fn == nil {
				t.fail(x, "list function %s: call of something that is not a function", fd.Name.Name)
			}
			calls = append(calls, fn)
		case *ast.AssignStmt, *ast.IncDecStmt:
			writes = true
		case *ast.Ident:
			if v, ok := t.info.Uses[x].(*types.Var); ok && !v.IsField() && v.Parent() == t.pkg.Scope() {
				t.fail(x, "list function %s uses a package-level variable", fd.Name.Name)
			}
		case *ast.GoStmt, *ast.DeferStmt, *ast.FuncLit, *ast.StarExpr:
			t.fail(x, "list function %s: construct outside the subset", fd.Name.Name)
		}
		return true
	})
	return writes, calls
}

// ---------------------------------------------------------------- driver

func clLoad(dir string) (*types.Package, *types.Info, *token.FileSet, []*ast.File, error) {
	fset := token.NewFileSet()
	matches, _ := filepath.Glob(filepath.Join(dir, "*.go"))
	sort.Strings(matches)
	var files []*ast.File
	for _, m := range matches {
		if strings.HasSuffix(m, "_test.go") || strings.HasSuffix(m, "_verif.go") {
			continue
		}
		f, err := parser.ParseFile(fset, m, nil, 0)
		if err != nil {
			return nil, nil, nil, nil, err
		}
		files = append(files, f)
	}
	info := &types.Info{Defs: map[*ast.Ident]types.Object{}, Types: map[ast.Expr]types.TypeAndValue{}, Uses: map[*ast.Ident]types.Object{},
		Selections: map[*ast.SelectorExpr]*types.Selection{}}
	var errs []string
	conf := types.Config{Importer: importer.Default(), Error: func(e error) { errs = append(errs, e.Error()) }}
	pkg, _ := conf.Check("cache", fset, files, info)
	if len(errs) > 0 {
		if len(errs) > 5 {
			errs = errs[:5]
		}
		return nil, nil, nil, nil, fmt.Errorf("package %s does not type-check: %s", dir, strings.Join(errs, "; "))
	}
	return pkg, info, fset, files, nil
}

func genCacheLockIR(repo string) (src string, err error) {
	pkg, info, fset, files, err := clLoad(filepath.Join(repo, "cache"))
	if err != nil {
		return "", err
	}
	t := &clTr{fset: fset, info: info, pkg: pkg, listFns: map[*types.Func]bool{}}
	defer func() {
		if r := recover(); r != nil {
			ce, ok := r.(clErr)
			if !ok {
				panic(r)
			}
			src, err = "", fmt.Errorf("cache/%s", ce.msg)
		}
	}()
	named := func(name string) *types.Named {
		tn, _ := pkg.Scope().Lookup(name).(*types.TypeName)
		if tn == nil {
			panic(clErr{"type " + name + " not found in package cache"})
		}
		n, _ := types.Unalias(tn.Type()).(*types.Named)
		if n == nil {
			panic(clErr{"type " + name + " is not a defined type"})
		}
		if _, isStruct := n.Underlying().(*types.Struct); !isStruct {
			panic(clErr{"type " + name + " is not a struct"})
		}
		return n
	}
	t.cacheT, t.itemT, t.listItemT = named("cache"), named("item"), named("listItem")

	// the field table of cache and item must be the one the location table was written for
	wantFields := func(n *types.Named, want map[string]string) {
		st := n.Underlying().(*types.Struct)
		if st.NumFields() != len(want) {
			panic(clErr{fmt.Sprintf("struct %s has %d fields, the location table knows %d", n.Obj().Name(), st.NumFields(), len(want))})
		}
		for i := 0; i < st.NumFields(); i++ {
			f := st.Field(i)
			w, ok := want[f.Name()]
			if !ok || f.Embedded() {
				panic(clErr{fmt.Sprintf("struct %s: field %s is not in the location table", n.Obj().Name(), f.Name())})
			}
			if got := types.TypeString(f.Type(), func(p *types.Package) string {
				if p == pkg {
					return ""
				}
				return p.Path()
			}); got != w {
				panic(clErr{fmt.Sprintf("struct %s: field %s has type %s, the location table expects %s", n.Obj().Name(), f.Name(), got, w)})
			}
		}
	}
	wantFields(t.cacheT, map[string]string{"items": "map[string]*item", "usage": "listItem", "lock": "sync.Mutex", "size": "uint",
		"conf": "Config", "miss": "int32", "hit": "int32"})
	wantFields(t.itemT, map[string]string{"key": "[]byte", "value": "[]byte", "used": "listItem"})
	wantFields(t.listItemT, map[string]string{"next": "*listItem", "prev": "*listItem"})

	// collect declarations
	type decl struct {
		fd   *ast.FuncDecl
		file string
	}
	var methods []decl
	funcs := map[string]*ast.FuncDecl{}
	for _, f := range files {
		for _, d := range f.Decls {
			fd, ok := d.(*ast.FuncDecl)
			if !ok || fd.Body == nil {
				continue
			}
			if fd.Recv == nil {
				funcs[fd.Name.Name] = fd
				continue
			}
			fo, _ := info.Defs[fd.Name].(*types.Func)
			if fo == nil {
				panic(clErr{"method " + fd.Name.Name + " has no type information"})
			}
			rv := fo.Type().(*types.Signature).Recv()
			n, ptr := clNamedOf(rv.Type())
			if n == t.cacheT {
				if !ptr {
					t.fail(fd, "method of cache with a value receiver (copies the mutex)")
				}
				methods = append(methods, decl{fd, filepath.Base(fset.Position(fd.Pos()).Filename)})
			} else if n == t.itemT || n == t.listItemT {
				t.fail(fd, "method on %s (the translator knows only the list functions)", n.Obj().Name())
			}
		}
	}

	// list functions: names fixed, bodies checked; read/write classification computed
	listNames := []string{"listInit", "listFirst", "listLast", "listLink2", "listUnlink", "listAppend"}
	direct := map[*types.Func]bool{}
	callees := map[*types.Func][]*types.Func{}
	for _, n := range listNames {
		fd := funcs[n]
		if fd == nil {
			panic(clErr{"list function " + n + " not found"})
		}
		fo := info.Defs[fd.Name].(*types.Func)
		w, cs := t.checkListFn(fd)
		direct[fo], callees[fo] = w, cs
		t.listFns[fo] = false
	}
	for fo, cs := range callees {
		for _, c := range cs {
			if _, ok := t.listFns[c]; !ok {
				panic(clErr{fmt.Sprintf("list function %s calls %s, which is not a list function", fo.Name(), c.FullName())})
			}
		}
	}
	for changed := true; changed; {
		changed = false
		for fo := range t.listFns {
			w := direct[fo]
			for _, c := range callees[fo] {
				w = w || t.listFns[c]
			}
			if w != t.listFns[fo] {
				t.listFns[fo], changed = w, true
			}
		}
	}
	if fd := funcs["structPtr"]; fd != nil {
		t.structPtr = info.Defs[fd.Name].(*types.Func)
		ast.Inspect(fd.Body, func(n ast.Node) bool {
			switch x := n.(type) {
			case *ast.SelectorExpr:
				if info.Selections[x] != nil {
					t.fail(x, "structPtr touches a field")
				}
			case *ast.CallExpr:
				if tv, ok := info.Types[x.Fun]; !ok || !tv.IsType() {
					t.fail(x, "structPtr calls a function")
				}
			case *ast.StarExpr, *ast.AssignStmt, *ast.IncDecStmt:
				t.fail(n, "structPtr: construct outside pointer arithmetic")
			}
			return true
		})
	}

	// no function other than the constructor and the methods of cache may touch a cache field
	for name, fd := range funcs {
		if name == "newCache" {
			continue
		}
		ast.Inspect(fd.Body, func(n ast.Node) bool {
			if se, ok := n.(*ast.SelectorExpr); ok {
				if sel := info.Selections[se]; sel != nil && sel.Kind() == types.FieldVal {
					if nm, _ := clNamedOf(sel.Recv()); nm == t.cacheT {
						t.fail(se, "function %s touches a cache field outside the methods of cache and newCache", name)
					}
				}
			}
			return true
		})
	}

	sort.Slice(methods, func(i, j int) bool { return methods[i].fd.Pos() < methods[j].fd.Pos() })
	var b strings.Builder
	b.WriteString("import GolibsVerif.Model.C10IR\n\n")
	b.WriteString("/-! Lock-discipline IR of every method of `cache` (cache/*.go), regenerated by gen/cachelock.go.\n")
	b.WriteString("List functions (bodies checked to touch only listItem links): ")
	for i, n := range listNames {
		if i > 0 {
			b.WriteString(", ")
		}
		rw := "read"
		if t.listFns[info.Defs[funcs[n].Name].(*types.Func)] {
			rw = "write"
		}
		fmt.Fprintf(&b, "%s=%s", n, rw)
	}
	b.WriteString(".\nThe trailing comments give the source position and text each statement was translated from. -/\n\n")
	b.WriteString("namespace GolibsVerif.Gen.CacheLockIR\nopen GolibsVerif.C10.Lock\n\n")
	var leanNames []string
	seen := map[string]bool{}
	for _, m := range methods {
		fd := m.fd
		if seen[fd.Name.Name] {
			t.fail(fd, "method declared twice")
		}
		seen[fd.Name.Name] = true
		fo := info.Defs[fd.Name].(*types.Func)
		t.recv = fo.Type().(*types.Signature).Recv()
		if t.recv.Name() == "" || t.recv.Name() == "_" {
			t.recv = nil
		}
		t.deferred = nil
		body := t.block(fd.Body, true)
		endsInReturn := false
		if n := len(fd.Body.List); n > 0 {
			_, endsInReturn = fd.Body.List[n-1].(*ast.ReturnStmt)
		}
		if t.deferred != nil && !endsInReturn {
			u := t.prim(clUnlock, t.deferred)
			u.synthetic = "deferred call run at the end of the body"
			body = append(body, u)
		}
		ln := "m" + fd.Name.Name
		leanNames = append(leanNames, ln)
		fmt.Fprintf(&b, "/-- `func (%s *cache) %s` — %s:%d -/\n", fo.Type().(*types.Signature).Recv().Name(), fd.Name.Name, m.file, fset.Position(fd.Pos()).Line)
		fmt.Fprintf(&b, "def %s : Method := { name := %s, body := [\n", ln, c20LeanStrLit(fd.Name.Name))
		t.emit(&b, body, 1)
		b.WriteString("] }\n\n")
	}
	for _, want := range []string{"Clear", "Set", "Get", "Del", "Stats"} {
		if !seen[want] {
			panic(clErr{"method cache." + want + " not found"})
		}
	}
	fmt.Fprintf(&b, "/-- all methods of `cache`, in source order -/\ndef methods : List Method := [%s]\n\n", strings.Join(leanNames, ", "))
	b.WriteString("/-- the critical-section decomposition of every method -/\ndef sections : List MethodSections := methods.map sectionsOf\n\n")
	b.WriteString("-- diagnostics only: name the offending method and event when `lock_discipline` is going to fail\n")
	b.WriteString("#eval (report methods).forM (m := IO) IO.println\n\n")
	b.WriteString("end GolibsVerif.Gen.CacheLockIR\n")
	return b.String(), nil
}

func (t *clTr) note(s clStmt) string {
	p := t.fset.Position(s.pos)
	n := fmt.Sprintf("  -- %s:%d:%d  %s", filepath.Base(p.Filename), p.Line, p.Column, strings.ReplaceAll(s.src, "\n", " "))
	if s.synthetic != "" {
		n += "  [" + s.synthetic + "]"
	}
	return n
}

func (t *clTr) emit(b *strings.Builder, ss []clStmt, depth int) {
	ind := strings.Repeat("  ", depth)
	for i, s := range ss {
		sep := ","
		if i == len(ss)-1 {
			sep = ""
		}
		switch s.kind {
		case clLock:
			fmt.Fprintf(b, "%s.lock%s%s\n", ind, sep, t.note(s))
		case clUnlock:
			fmt.Fprintf(b, "%s.unlock%s%s\n", ind, sep, t.note(s))
		case clAcc:
			loc := "." + s.loc
			if strings.Contains(s.loc, " ") {
				loc = "(." + s.loc + ")"
			}
			fmt.Fprintf(b, "%s.acc .%s %s%s%s\n", ind, s.acc, loc, sep, t.note(s))
		case clPublish:
			fmt.Fprintf(b, "%s.publish%s%s\n", ind, sep, t.note(s))
		case clCallOnDelete:
			fmt.Fprintf(b, "%s.callOnDelete%s%s\n", ind, sep, t.note(s))
		case clRet:
			fmt.Fprintf(b, "%s.ret%s%s\n", ind, sep, t.note(s))
		case clIte, clLoop:
			kw := ".ite"
			if s.kind == clLoop {
				kw = ".loop"
			}
			fmt.Fprintf(b, "%s%s [%s\n", ind, kw, t.note(s))
			t.emit(b, s.cond, depth+2)
			fmt.Fprintf(b, "%s  ] [\n", ind)
			t.emit(b, s.thn, depth+2)
			if s.kind == clIte {
				fmt.Fprintf(b, "%s  ] [\n", ind)
				t.emit(b, s.els, depth+2)
			}
			fmt.Fprintf(b, "%s  ]%s\n", ind, sep)
		}
	}
}

func init() { translators["CacheLockIR"] = genCacheLockIR }
