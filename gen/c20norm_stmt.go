package main

import (
	"fmt"
	"go/ast"
	"go/token"
	"go/types"
	"sort"
	"strconv"
	"strings"
)

// nf*: statements, post-passes and rendering of the normal-form skeleton engine
// (see c20norm.go for the description of the normal form).

// nfFlow says how a statement list ends.  term: 0 falls through, 1 return, 2 continue,
// 3 break, 4 panic.  partial: only some paths terminate.  silent: a terminating path
// printed nothing (return of an inlined callee, continue), so the statements after it must
// have been moved into the other branch.
type nfFlow struct {
	term    int
	partial bool
	silent  bool
}

func (f nfFlow) full() bool { return f.term != 0 && !f.partial }

func nfCombine(a, b nfFlow) nfFlow {
	switch {
	case a.full() && b.full():
		return nfFlow{term: a.term, silent: a.silent || b.silent}
	case a.term != 0 || b.term != 0:
		t := a.term
		if t == 0 {
			t = b.term
		}
		return nfFlow{term: t, partial: true, silent: a.silent || b.silent}
	}
	return nfFlow{}
}

func (st *nfState) block(env *nfEnv, stmts []ast.Stmt, top bool) nfFlow {
	for i, s := range stmts {
		last := i == len(stmts)-1
		fl, absorbed := st.stmt(env, s, stmts[i+1:], top, last)
		if absorbed {
			return fl
		}
		if fl.full() {
			if !last {
				nfFail("%s: statements after a terminating statement", st.p.pos(stmts[i+1]))
			}
			return fl
		}
		if fl.partial {
			if last {
				return fl
			}
			if fl.silent {
				nfFail("%s: an early exit nested more than one level below the statements it skips: outside the skeleton subset", st.p.pos(s))
			}
		}
	}
	return nfFlow{}
}

// cond evaluates a condition to its positive form.
func (st *nfState) cond(env *nfEnv, e ast.Expr) (text string, neg bool, ev int, ment map[string]bool) {
	e = ast.Unparen(e)
	if u, ok := e.(*ast.UnaryExpr); ok && u.Op == token.NOT {
		t, n, v, m := st.cond(env, u.X)
		return t, !n, v, m
	}
	if b, ok := e.(*ast.BinaryExpr); ok && (b.Op == token.NEQ || b.Op == token.EQL) {
		x, y := st.eval(env, b.X), st.eval(env, b.Y)
		_, xc := st.p.info.Types[ast.Unparen(b.X)]
		xConst := xc && st.p.info.Types[ast.Unparen(b.X)].Value != nil
		yConst := st.p.info.Types[ast.Unparen(b.Y)].Value != nil
		if (xConst || x.s == "nil") && !(yConst || y.s == "nil") {
			x, y = y, x
		}
		v := st.compose(types.Typ[types.Bool], 1, false, false, []*nfVal{x, y}, func(ks []string) string { return ks[0] + " == " + ks[1] }, 2, 2)
		return st.disp(v, 0), b.Op == token.NEQ, 0, v.ment
	}
	v := st.evalMode(env, e, true)
	if v.event {
		if v.user {
			return v.s, false, 2, v.ment
		}
		return v.s, false, 1, v.ment
	}
	return st.disp(v, 0), false, 0, v.ment
}

// ev: 0 the condition has no event, 1 it is an event call, 2 it is a call of a parameter
func (st *nfState) emitIf(text string, neg bool, ev int, ment map[string]bool, thenItems, elseItems []*nfItem) {
	if neg {
		thenItems, elseItems = elseItems, thenItems
	}
	if len(thenItems) == 0 && len(elseItems) == 0 {
		if ev > 0 {
			st.emit(&nfItem{kind: nfLine, text: text, ment: ment, panicPt: true, userPt: ev == 2})
		}
		return
	}
	st.emit(&nfItem{kind: nfIf, text: text, ment: ment, panicPt: ev > 0, userPt: ev == 2, body: thenItems, els: elseItems})
}

func (st *nfState) stmt(env *nfEnv, s ast.Stmt, rest []ast.Stmt, top, last bool) (fl nfFlow, absorbed bool) {
	p := st.p
	switch x := s.(type) {
	case *ast.EmptyStmt:
		return nfFlow{}, false
	case *ast.ExprStmt:
		call, ok := ast.Unparen(x.X).(*ast.CallExpr)
		if !ok {
			nfFail("%s: expression statement %T is outside the skeleton subset", p.pos(x), x.X)
		}
		if top && last && !st.inDefer {
			st.tailCall = call
		}
		isPanic := false
		if id, ok := ast.Unparen(call.Fun).(*ast.Ident); ok {
			if b, ok := p.info.Uses[id].(*types.Builtin); ok && b.Name() == "panic" {
				isPanic = true
			}
		}
		st.call(env, call, false, true)
		st.tailCall = nil
		if isPanic {
			return nfFlow{term: 4}, false
		}
		return nfFlow{}, false
	case *ast.AssignStmt:
		st.assign(env, x)
		return nfFlow{}, false
	case *ast.IncDecStmt:
		one := &nfVal{s: "1", typ: types.Typ[types.Int], prec: 3}
		op := token.ADD
		if x.Tok == token.DEC {
			op = token.SUB
		}
		st.assignOp(env, x.X, one, op)
		return nfFlow{}, false
	case *ast.DeclStmt:
		gd, ok := x.Decl.(*ast.GenDecl)
		if !ok || gd.Tok != token.VAR {
			if ok && (gd.Tok == token.CONST || gd.Tok == token.TYPE) {
				return nfFlow{}, false
			}
			nfFail("%s: declaration outside the skeleton subset", p.pos(x))
		}
		for _, sp := range gd.Specs {
			vs := sp.(*ast.ValueSpec)
			var vals []*nfVal
			for _, e := range vs.Values {
				vals = append(vals, st.eval(env, e))
			}
			for i, id := range vs.Names {
				if id.Name == "_" {
					continue
				}
				o := p.info.Defs[id]
				var v *nfVal
				switch {
				case len(vals) == len(vs.Names):
					v = vals[i]
				case len(vals) == 0:
					v = st.zero(o.Type())
				default:
					nfFail("%s: multi-value var declaration is outside the skeleton subset", p.pos(x))
				}
				st.define(env, o, v)
			}
		}
		return nfFlow{}, false
	case *ast.BlockStmt:
		return st.block(nfNewEnv(env), x.List, false), false
	case *ast.ReturnStmt:
		st.ret(env, x)
		return nfFlow{term: 1, silent: !st.frame.printed}, false
	case *ast.BranchStmt:
		if x.Label != nil {
			nfFail("%s: labels are outside the skeleton subset", p.pos(x))
		}
		switch x.Tok {
		case token.CONTINUE:
			if st.frame.loops == 0 {
				nfFail("%s: continue outside a loop of the same function", p.pos(x))
			}
			return nfFlow{term: 2, silent: true}, false
		case token.BREAK:
			if st.frame.loops == 0 {
				nfFail("%s: break outside a loop is outside the skeleton subset", p.pos(x))
			}
			st.emit(&nfItem{kind: nfLine, text: "break"})
			return nfFlow{term: 3}, false
		}
		nfFail("%s: %s is outside the skeleton subset", p.pos(x), x.Tok)
	case *ast.DeferStmt:
		st.deferStmt(env, x, top)
		return nfFlow{}, false
	case *ast.IfStmt:
		return st.ifStmt(env, x, rest)
	case *ast.SwitchStmt:
		return st.switchStmt(env, x), false
	case *ast.ForStmt:
		return st.forStmt(env, x), false
	case *ast.RangeStmt:
		return st.rangeStmt(env, x), false
	}
	nfFail("%s: statement kind %T is outside the skeleton subset", p.pos(s), s)
	return
}

func (st *nfState) ifStmt(env *nfEnv, x *ast.IfStmt, rest []ast.Stmt) (nfFlow, bool) {
	scope := nfNewEnv(env)
	if x.Init != nil {
		st.stmt(scope, x.Init, nil, false, false)
	}
	text, neg, ev, ment := st.cond(scope, x.Cond)
	var thenFl, elseFl nfFlow
	thenItems := st.sub(func() { thenFl = st.block(nfNewEnv(scope), x.Body.List, false) })
	elseItems := st.sub(func() {
		switch el := x.Else.(type) {
		case nil:
		case *ast.BlockStmt:
			elseFl = st.block(nfNewEnv(scope), el.List, false)
		case *ast.IfStmt:
			elseFl, _ = st.ifStmt(scope, el, nil)
		default:
			nfFail("%s: malformed else", st.p.pos(x))
		}
	})
	absorbed := false
	if len(rest) > 0 {
		// `if c { …; return }; rest`  =  `if c { …; return } else { rest }`
		switch {
		case thenFl.full() && elseFl.term == 0:
			more := st.sub(func() { elseFl = st.block(env, rest, false) })
			elseItems = append(elseItems, more...)
			absorbed = true
		case elseFl.full() && thenFl.term == 0:
			more := st.sub(func() { thenFl = st.block(env, rest, false) })
			thenItems = append(thenItems, more...)
			absorbed = true
		}
	}
	st.emitIf(text, neg, ev, ment, thenItems, elseItems)
	return nfCombine(thenFl, elseFl), absorbed
}

func (st *nfState) switchStmt(env *nfEnv, x *ast.SwitchStmt) nfFlow {
	p := st.p
	scope := nfNewEnv(env)
	if x.Init != nil {
		st.stmt(scope, x.Init, nil, false, false)
	}
	var tag *nfVal
	if x.Tag != nil {
		side := st.sub(func() { tag = st.eval(scope, x.Tag) })
		if len(side) > 0 {
			nfFail("%s: a switch tag with events is outside the skeleton subset", p.pos(x))
		}
	}
	var clauses []*ast.CaseClause
	var def *ast.CaseClause
	for _, c := range x.Body.List {
		cc := c.(*ast.CaseClause)
		for _, s := range cc.Body {
			if b, ok := s.(*ast.BranchStmt); ok && (b.Tok == token.FALLTHROUGH || b.Tok == token.BREAK) {
				nfFail("%s: %s in a switch is outside the skeleton subset", p.pos(b), b.Tok)
			}
		}
		if cc.List == nil {
			def = cc
		} else {
			clauses = append(clauses, cc)
		}
	}
	flow := nfFlow{}
	first := true
	var build func(i int) []*nfItem
	build = func(i int) []*nfItem {
		return st.sub(func() {
			if i == len(clauses) {
				fl := nfFlow{}
				if def != nil {
					fl = st.block(nfNewEnv(scope), def.Body, false)
				}
				if first {
					flow, first = fl, false
				} else {
					flow = nfCombine(flow, fl)
				}
				return
			}
			cc := clauses[i]
			var conds []string
			ment := map[string]bool{}
			for _, e := range cc.List {
				var v *nfVal
				side := st.sub(func() { v = st.eval(scope, e) })
				if len(side) > 0 {
					nfFail("%s: a case expression with events is outside the skeleton subset", p.pos(e))
				}
				ment = nfUnion(ment, v.ment)
				if tag != nil {
					conds = append(conds, st.disp(tag, 2)+" == "+st.disp(v, 2))
					ment = nfUnion(ment, tag.ment)
				} else {
					conds = append(conds, st.disp(v, 1))
				}
			}
			var fl nfFlow
			thenItems := st.sub(func() { fl = st.block(nfNewEnv(scope), cc.Body, false) })
			elseItems := build(i + 1)
			if first {
				flow, first = fl, false
			} else {
				flow = nfCombine(flow, fl)
			}
			st.emitIf(strings.Join(conds, " || "), false, 0, ment, thenItems, elseItems)
		})
	}
	items := build(0)
	for _, it := range items {
		st.emit(it)
	}
	if flow.term != 0 && flow.full() && def == nil {
		flow.partial = true
	}
	return flow
}

// ---------------------------------------------------------------- loops

// sliceWalk recognises the spellings of a walk over a slice and returns the slice, the
// direction and how the body sees the index variable.
func (st *nfState) forStmt(env *nfEnv, x *ast.ForStmt) nfFlow {
	p := st.p
	scope := nfNewEnv(env)
	isLen := func(e ast.Expr) (ast.Expr, bool) {
		c, ok := ast.Unparen(e).(*ast.CallExpr)
		if !ok || len(c.Args) != 1 {
			return nil, false
		}
		id, ok := c.Fun.(*ast.Ident)
		if !ok {
			return nil, false
		}
		if b, ok := p.info.Uses[id].(*types.Builtin); !ok || b.Name() != "len" {
			return nil, false
		}
		return c.Args[0], true
	}
	isConst := func(e ast.Expr, v string) bool {
		tv, ok := p.info.Types[ast.Unparen(e)]
		return ok && tv.Value != nil && tv.Value.ExactString() == v
	}
	sameIdent := func(e ast.Expr, o types.Object) bool {
		id, ok := ast.Unparen(e).(*ast.Ident)
		return ok && (p.info.Uses[id] == o || p.info.Defs[id] == o)
	}
	// the three index walks
	if as, ok := x.Init.(*ast.AssignStmt); ok && as.Tok == token.DEFINE && len(as.Lhs) == 1 && len(as.Rhs) == 1 && x.Cond != nil && x.Post != nil {
		iv := p.info.Defs[as.Lhs[0].(*ast.Ident)]
		cond, cok := ast.Unparen(x.Cond).(*ast.BinaryExpr)
		post, pok := x.Post.(*ast.IncDecStmt)
		if iv != nil && cok && pok && sameIdent(post.X, iv) && sameIdent(cond.X, iv) && !st.assignedIn(x.Body, iv) {
			var slice ast.Expr
			dir, idx := "", ""
			init := ast.Unparen(as.Rhs[0])
			switch {
			case post.Tok == token.DEC && cond.Op == token.GEQ && isConst(cond.Y, "0"):
				// for i := len(s) - 1; i >= 0; i--
				if b, ok := init.(*ast.BinaryExpr); ok && b.Op == token.SUB && isConst(b.Y, "1") {
					if s, ok := isLen(b.X); ok {
						slice, dir, idx = s, "last-to-first", "#i"
					}
				}
			case post.Tok == token.DEC && cond.Op == token.GTR && isConst(cond.Y, "0"):
				// for i := len(s); i > 0; i--   (element i-1)
				if s, ok := isLen(init); ok {
					slice, dir, idx = s, "last-to-first", "#i+1"
				}
			case post.Tok == token.INC && cond.Op == token.LSS && isConst(init, "0"):
				// for i := 0; i < len(s); i++
				if s, ok := isLen(cond.Y); ok {
					slice, dir, idx = s, "first-to-last", "#i"
				}
			}
			if slice != nil {
				sv := st.eval(scope, slice)
				scope.vars[iv] = &nfBinding{v: &nfVal{s: idx, typ: iv.Type(), prec: 3, tracked: true}}
				return st.loopBody(scope, "for elem of "+st.disp(sv, 0)+" "+dir+" {", sv, x.Body)
			}
		}
	}
	if x.Init != nil || x.Post != nil {
		nfFail("%s: this form of for loop is outside the skeleton subset (slice walks by index, range loops and condition-only loops are supported)", p.pos(x))
	}
	hdr := "for {"
	if x.Cond != nil {
		var c *nfVal
		side := st.sub(func() { c = st.eval(scope, x.Cond) })
		if len(side) > 0 {
			nfFail("%s: a loop condition with events is outside the skeleton subset", p.pos(x))
		}
		hdr = "for " + st.disp(c, 0) + " {"
	}
	return st.loopBody(scope, hdr, nil, x.Body)
}

func (st *nfState) assignedIn(body ast.Node, o types.Object) bool {
	found := false
	ast.Inspect(body, func(n ast.Node) bool {
		switch x := n.(type) {
		case *ast.AssignStmt:
			for _, l := range x.Lhs {
				if id, ok := ast.Unparen(l).(*ast.Ident); ok && st.p.info.Uses[id] == o {
					found = true
				}
			}
		case *ast.IncDecStmt:
			if id, ok := ast.Unparen(x.X).(*ast.Ident); ok && st.p.info.Uses[id] == o {
				found = true
			}
		case *ast.UnaryExpr:
			if id, ok := ast.Unparen(x.X).(*ast.Ident); ok && x.Op == token.AND && st.p.info.Uses[id] == o {
				found = true
			}
		}
		return !found
	})
	return found
}

func (st *nfState) loopBody(scope *nfEnv, hdr string, slice *nfVal, body *ast.BlockStmt) nfFlow {
	if slice != nil {
		scope.vars[nfLoopSliceKey] = &nfBinding{v: slice}
	} else {
		scope.vars[nfLoopSliceKey] = &nfBinding{v: &nfVal{s: ""}}
	}
	st.frame.loops++
	var fl nfFlow
	items := st.sub(func() { fl = st.block(nfNewEnv(scope), body.List, false) })
	st.frame.loops--
	ment := map[string]bool{}
	if slice != nil {
		ment = slice.ment
	}
	st.emit(&nfItem{kind: nfLoop, text: hdr, body: items, ment: ment})
	if fl.term == 1 {
		// a return inside the loop (printed frames only) leaves the function on some paths
		if !st.frame.printed {
			nfFail("return inside a loop of an inlined callee: outside the skeleton subset")
		}
		return nfFlow{term: 1, partial: true}
	}
	return nfFlow{}
}

func (st *nfState) rangeStmt(env *nfEnv, x *ast.RangeStmt) nfFlow {
	p := st.p
	scope := nfNewEnv(env)
	if x.Tok == token.ASSIGN {
		nfFail("%s: range with assignment is outside the skeleton subset", p.pos(x))
	}
	dir := ""
	var slice ast.Expr
	keyIsElem := false
	xe := ast.Unparen(x.X)
	if t := p.info.TypeOf(xe); t != nil {
		switch u := t.Underlying().(type) {
		case *types.Slice, *types.Array:
			slice, dir = xe, "first-to-last"
		case *types.Pointer:
			if _, ok := u.Elem().Underlying().(*types.Array); ok {
				nfFail("%s: range over an array pointer is outside the skeleton subset", p.pos(x))
			}
		}
	}
	if c, ok := xe.(*ast.CallExpr); ok && slice == nil && len(c.Args) == 1 {
		fun := ast.Unparen(c.Fun)
		if ix, ok := fun.(*ast.IndexExpr); ok {
			fun = ix.X
		}
		if se, ok := fun.(*ast.SelectorExpr); ok {
			if fo, ok := p.info.Uses[se.Sel].(*types.Func); ok && fo.Pkg() != nil && fo.Pkg().Path() == "slices" {
				switch fo.Name() {
				case "Backward":
					slice, dir = c.Args[0], "last-to-first"
				case "All":
					slice, dir = c.Args[0], "first-to-last"
				case "Values":
					slice, dir, keyIsElem = c.Args[0], "first-to-last", true
				}
			}
		}
	}
	if slice == nil {
		nfFail("%s: range over %s is outside the skeleton subset (slices, slices.Backward/All/Values are supported)", p.pos(x), p.typeStr(p.info.TypeOf(xe)))
	}
	sv := st.eval(scope, slice)
	bind := func(e ast.Expr, s string) {
		if e == nil {
			return
		}
		id, ok := e.(*ast.Ident)
		if !ok || id.Name == "_" {
			return
		}
		if o := p.info.Defs[id]; o != nil {
			if p.mutable[o] {
				nfFail("%s: the range variable %s is assigned or address-taken: outside the skeleton subset", p.pos(id), id.Name)
			}
			scope.vars[o] = &nfBinding{v: &nfVal{s: s, typ: o.Type(), prec: 3, tracked: true}}
		}
	}
	if keyIsElem {
		bind(x.Key, "elem")
	} else {
		bind(x.Key, "#i")
		bind(x.Value, "elem")
	}
	return st.loopBody(scope, "for elem of "+st.disp(sv, 0)+" "+dir+" {", sv, x.Body)
}

// ---------------------------------------------------------------- assignments

func (st *nfState) define(env *nfEnv, o types.Object, v *nfVal) {
	v = nfCopyRec(v)
	if st.p.mutable[o] {
		st.varcnt++
		name := fmt.Sprintf("var%d", st.varcnt)
		st.emitAssignVar(name, v)
		env.vars[o] = &nfBinding{v: &nfVal{s: name, typ: o.Type(), prec: 3, tracked: true}}
		return
	}
	if v.event {
		nfFail("internal: unevaluated event bound to a local")
	}
	b := &nfBinding{v: v}
	env.vars[o] = b
	st.bindings = append(st.bindings, b)
}

func (st *nfState) isCmpOr(e ast.Expr) *ast.CallExpr {
	c, ok := ast.Unparen(e).(*ast.CallExpr)
	if !ok || len(c.Args) != 2 {
		return nil
	}
	fun := ast.Unparen(c.Fun)
	if ix, ok := fun.(*ast.IndexExpr); ok {
		fun = ix.X
	}
	se, ok := fun.(*ast.SelectorExpr)
	if !ok {
		return nil
	}
	fo, ok := st.p.info.Uses[se.Sel].(*types.Func)
	if !ok || fo.Pkg() == nil || fo.Pkg().Path() != "cmp" || fo.Name() != "Or" {
		return nil
	}
	return c
}

func (st *nfState) assign(env *nfEnv, x *ast.AssignStmt) {
	p := st.p
	if x.Tok != token.DEFINE && x.Tok != token.ASSIGN {
		if len(x.Lhs) != 1 || len(x.Rhs) != 1 {
			nfFail("%s: malformed assignment", p.pos(x))
		}
		ops := map[token.Token]token.Token{token.ADD_ASSIGN: token.ADD, token.SUB_ASSIGN: token.SUB, token.MUL_ASSIGN: token.MUL,
			token.QUO_ASSIGN: token.QUO, token.REM_ASSIGN: token.REM, token.AND_ASSIGN: token.AND, token.OR_ASSIGN: token.OR,
			token.XOR_ASSIGN: token.XOR, token.SHL_ASSIGN: token.SHL, token.SHR_ASSIGN: token.SHR, token.AND_NOT_ASSIGN: token.AND_NOT}
		st.assignOp(env, x.Lhs[0], st.eval(env, x.Rhs[0]), ops[x.Tok])
		return
	}
	if len(x.Lhs) == len(x.Rhs) {
		// x = cmp.Or(x, c)  is  if x == 0 { x = c }
		if len(x.Lhs) == 1 && x.Tok == token.ASSIGN {
			if c := st.isCmpOr(x.Rhs[0]); c != nil {
				if tv := p.info.Types[ast.Unparen(c.Args[1])]; tv.Value != nil {
					var l, a *nfVal
					side := st.sub(func() { l, a = st.evalLoc(env, x.Lhs[0]), st.eval(env, c.Args[0]) })
					if len(side) == 0 && l != nil && l.s == a.s && l.rec == nil {
						z := st.zero(l.typ)
						body := st.sub(func() { st.assignTo(env, x.Lhs[0], st.eval(env, c.Args[1]), token.ASSIGN) })
						st.emitIf(st.disp(a, 2)+" == "+z.s, false, 0, a.ment, body, nil)
						return
					}
				}
			}
		}
		var vals []*nfVal
		for i, r := range x.Rhs {
			// a call assigned to a variable that is printed can be printed with it
			direct := false
			if id, ok := ast.Unparen(x.Lhs[i]).(*ast.Ident); ok && len(x.Lhs) == 1 && id.Name != "_" {
				o := p.info.Defs[id]
				if o == nil {
					o = p.info.Uses[id]
				}
				direct = o != nil && p.mutable[o]
			}
			vals = append(vals, st.evalMode(env, r, direct))
		}
		for i, l := range x.Lhs {
			st.assignTo(env, l, vals[i], x.Tok)
		}
		return
	}
	if len(x.Rhs) != 1 {
		nfFail("%s: malformed assignment", p.pos(x))
	}
	v := st.eval(env, x.Rhs[0])
	for i, l := range x.Lhs {
		var c *nfVal
		if v.rec != nil && v.s == "tuple" {
			c = v.rec[strconv.Itoa(i)]
		} else {
			c = &nfVal{s: v.text(3) + "#" + strconv.Itoa(i), typ: p.info.TypeOf(l), prec: 3, tracked: v.tracked, opq: v.opq, ment: v.ment, reads: v.reads}
		}
		st.assignTo(env, l, c, x.Tok)
	}
}

// evalLoc evaluates an assignable expression without counting it as a read; nil for
// identifiers of locals.
func (st *nfState) evalLoc(env *nfEnv, e ast.Expr) *nfVal {
	e = ast.Unparen(e)
	if id, ok := e.(*ast.Ident); ok {
		if o, ok := st.p.info.Uses[id].(*types.Var); !ok || o.Parent() != st.p.pkg.Scope() {
			return nil
		}
	}
	v := st.eval(env, e)
	c := *v
	var rs []nfRead
	for _, r := range v.reads {
		if r.loc != v.s {
			rs = append(rs, r)
		}
	}
	c.reads = rs
	return &c
}

func (st *nfState) assignTo(env *nfEnv, l ast.Expr, v *nfVal, tok token.Token) {
	p := st.p
	l = ast.Unparen(l)
	if id, ok := l.(*ast.Ident); ok {
		if id.Name == "_" {
			if v.event {
				st.emit(&nfItem{kind: nfLine, text: v.s, ment: v.ment, panicPt: true, userPt: v.user})
			}
			return
		}
		o := p.info.Defs[id]
		isDef := o != nil
		if o == nil {
			o = p.info.Uses[id]
		}
		if ov, ok := o.(*types.Var); ok && ov.Parent() != p.pkg.Scope() {
			if isDef {
				st.define(env, o, v)
				return
			}
			b := env.lookup(o)
			if b == nil {
				nfFail("%s: assignment to unknown local %s", p.pos(id), id.Name)
			}
			if p.mutable[o] {
				st.emitAssignVar(b.v.s, v)
				return
			}
			b.v, b.stale = nfCopyRec(v), ""
			return
		}
	}
	// a field of a local struct value
	if se, ok := l.(*ast.SelectorExpr); ok {
		if sel := p.info.Selections[se]; sel != nil && sel.Kind() == types.FieldVal {
			if base, ok := ast.Unparen(se.X).(*ast.Ident); ok {
				if o, ok := p.info.Uses[base].(*types.Var); ok && o.Parent() != p.pkg.Scope() {
					if b := env.lookup(o); b != nil && b.v.rec != nil && b.v.recT != nil {
						b.v.rec[se.Sel.Name] = v
						st.recText(b.v)
						return
					}
				}
			}
		}
	}
	loc := st.evalLoc(env, l)
	if loc == nil {
		nfFail("%s: assignment target outside the skeleton subset", p.pos(l))
	}
	if v.event {
		nfFail("internal: unevaluated event stored")
	}
	it := &nfItem{kind: nfLine, isSt: true, stLoc: loc.s, stRoot: loc.root, fillIdx: -1, ment: nfUnion(loc.ment, v.ment)}
	it.stVal = st.disp(v, 0)
	it.text = loc.s + " := " + it.stVal
	if ix, ok := l.(*ast.IndexExpr); ok {
		if tv := p.info.Types[ast.Unparen(ix.Index)]; tv.Value != nil {
			if n, err := strconv.Atoi(tv.Value.ExactString()); err == nil {
				it.fillBase, it.fillIdx = st.eval(env, ix.X).s, n
			}
		}
	}
	if v.appBase != nil && v.appBase.sliceOf != nil && v.appBase.sliceOf.s == loc.s && v.appBase.lo == "" && v.appBase.hi == "0" {
		it.fillBase = loc.s
		it.fillAll = []string{}
		for _, e := range v.appEl {
			it.fillAll = append(it.fillAll, st.disp(e, 0))
		}
	}
	st.emit(it)
}

func (st *nfState) assignOp(env *nfEnv, l ast.Expr, v *nfVal, op token.Token) {
	p := st.p
	l = ast.Unparen(l)
	if id, ok := l.(*ast.Ident); ok {
		if o, ok := p.info.Uses[id].(*types.Var); ok && o.Parent() != p.pkg.Scope() {
			b := env.lookup(o)
			if b == nil {
				nfFail("%s: assignment to unknown local %s", p.pos(id), id.Name)
			}
			if p.mutable[o] {
				st.emit(&nfItem{kind: nfLine, text: b.v.s + " " + op.String() + "= " + st.disp(v, 0), ment: v.ment})
				return
			}
			old := st.ident(env, id)
			b.v = st.compose(old.typ, 1, false, false, []*nfVal{old, v}, func(ks []string) string { return ks[0] + " " + op.String() + " " + ks[1] }, 2, 2)
			return
		}
	}
	loc := st.evalLoc(env, l)
	if loc == nil {
		nfFail("%s: assignment target outside the skeleton subset", p.pos(l))
	}
	st.emit(&nfItem{kind: nfLine, isSt: true, stLoc: loc.s, stRoot: loc.root, fillIdx: -1, text: loc.s + " " + op.String() + "= " + st.disp(v, 0), ment: nfUnion(loc.ment, v.ment)})
}

// ---------------------------------------------------------------- return, defer

func (st *nfState) ret(env *nfEnv, x *ast.ReturnStmt) {
	fr := st.frame
	if fr.printed {
		if len(x.Results) == 0 {
			if len(fr.results) > 0 {
				var ss []string
				ment := map[string]bool{}
				for _, o := range fr.results {
					v := env.lookup(o).v
					ss = append(ss, st.disp(v, 0))
					ment = nfUnion(ment, v.ment)
				}
				st.emit(&nfItem{kind: nfLine, text: "return " + strings.Join(ss, ", "), ment: ment, panicPt: true, userPt: true})
			}
			st.emit(&nfItem{kind: nfExit})
			return
		}
		var ss []string
		ment := map[string]bool{}
		for _, r := range x.Results {
			v := st.evalMode(env, r, len(x.Results) == 1)
			if v.event {
				ss = append(ss, v.s)
			} else {
				ss = append(ss, st.disp(v, 0))
			}
			ment = nfUnion(ment, v.ment)
		}
		st.emit(&nfItem{kind: nfLine, text: "return " + strings.Join(ss, ", "), ment: ment, panicPt: true, userPt: true})
		st.emit(&nfItem{kind: nfExit})
		return
	}
	if fr.loops > 0 {
		nfFail("%s: return inside a loop of an inlined callee: outside the skeleton subset", st.p.pos(x))
	}
	var vs []*nfVal
	if len(x.Results) == 0 {
		for _, o := range fr.results {
			vs = append(vs, env.lookup(o).v)
		}
	} else if len(x.Results) == 1 && fr.sig.Results().Len() > 1 {
		v := st.eval(env, x.Results[0])
		for i := 0; i < fr.sig.Results().Len(); i++ {
			if v.rec != nil && v.s == "tuple" {
				vs = append(vs, v.rec[strconv.Itoa(i)])
			} else {
				vs = append(vs, &nfVal{s: v.text(3) + "#" + strconv.Itoa(i), typ: fr.sig.Results().At(i).Type(), prec: 3, tracked: v.tracked, ment: v.ment})
			}
		}
	} else {
		for _, r := range x.Results {
			vs = append(vs, st.eval(env, r))
		}
	}
	if len(vs) > 0 {
		fr.rets = append(fr.rets, vs)
	}
}

func (st *nfState) deferStmt(env *nfEnv, x *ast.DeferStmt, top bool) {
	p := st.p
	if !top || st.frame.loops > 0 || st.inDefer {
		nfFail("%s: a defer statement in a branch, in a loop or in a deferred function is outside the skeleton subset", p.pos(x))
	}
	st.frame.defers++
	call := x.Call
	// the operands are evaluated now, the call runs at exit
	pre := map[ast.Expr]*nfVal{}
	for k, v := range st.pre {
		pre[k] = v
	}
	chk := func(e ast.Expr) {
		v := st.eval(env, e)
		for _, r := range v.reads {
			if strings.HasPrefix(r.obj, "obj<") {
				nfFail("%s: an operand of a deferred call reads %s at the defer statement: outside the skeleton subset", p.pos(e), r.loc)
			}
		}
		pre[e] = v
	}
	fun := ast.Unparen(call.Fun)
	switch f := fun.(type) {
	case *ast.SelectorExpr:
		if p.info.Selections[f] != nil {
			chk(f.X)
		}
	case *ast.Ident, *ast.FuncLit:
	default:
		chk(fun)
	}
	for _, a := range call.Args {
		chk(a)
	}
	old := st.pre
	st.pre = pre
	body := st.sub(func() {
		st.inDefer = true
		st.call(env, call, false, true)
		st.inDefer = false
	})
	st.pre = old
	ment := map[string]bool{}
	for _, b := range body {
		nfCollectMent(b, ment)
	}
	st.emit(&nfItem{kind: nfDefer, body: body, ment: ment})
}

func nfCollectMent(it *nfItem, m map[string]bool) {
	for k := range it.ment {
		m[k] = true
	}
	for _, b := range it.body {
		nfCollectMent(b, m)
	}
	for _, b := range it.els {
		nfCollectMent(b, m)
	}
}

// ---------------------------------------------------------------- post-passes

// nfGroupFills turns the stores that set every element of a pooled slice into one line.
func nfGroupFills(items []*nfItem, poolLen map[string]int) []*nfItem {
	var out []*nfItem
	objOf := func(base string) (string, bool) {
		o := strings.TrimPrefix(base, "*")
		n, ok := poolLen[o]
		return o, ok && n > 0 && base == "*"+o
	}
	for i := 0; i < len(items); i++ {
		it := items[i]
		it.body = nfGroupFills(it.body, poolLen)
		it.els = nfGroupFills(it.els, poolLen)
		if it.kind == nfLine && it.isSt && it.fillAll != nil {
			if o, ok := objOf(it.fillBase); ok && poolLen[o] == len(it.fillAll) {
				out = append(out, &nfItem{kind: nfLine, isSt: true, stLoc: it.stLoc, fillIdx: -1, ment: it.ment,
					text: fmt.Sprintf("fill %s := [%s] (len %d)", it.fillBase, strings.Join(it.fillAll, ", "), len(it.fillAll))})
				continue
			}
		}
		if it.kind == nfLine && it.isSt && it.fillIdx == 0 {
			base := strings.TrimSuffix(strings.TrimPrefix(it.fillBase, "("), ")")
			if o, ok := objOf(base); ok {
				n := poolLen[o]
				run := []*nfItem{}
				for j := i; j < len(items) && len(run) < n; j++ {
					x := items[j]
					if x.kind == nfLine && x.isSt && x.fillBase == it.fillBase && x.fillIdx == len(run) {
						run = append(run, x)
					} else {
						break
					}
				}
				if len(run) == n {
					var vs []string
					ment := map[string]bool{}
					for _, x := range run {
						vs = append(vs, x.stVal)
						ment = nfUnion(ment, x.ment)
					}
					out = append(out, &nfItem{kind: nfLine, isSt: true, stLoc: base, fillIdx: -1, ment: ment,
						text: fmt.Sprintf("fill %s := [%s] (len %d)", base, strings.Join(vs, ", "), n)})
					i += n - 1
					continue
				}
			}
		}
		out = append(out, it)
	}
	return out
}

// nfSinkGets moves every pool Get down to the first item that mentions its object.
func nfSinkGets(items []*nfItem) []*nfItem {
	for _, it := range items {
		it.body = nfSinkGets(it.body)
		it.els = nfSinkGets(it.els)
	}
	canPass := func(it *nfItem, obj string) bool {
		switch it.kind {
		case nfExit:
			return false
		case nfDefer:
			for _, b := range it.body {
				if b.isPut && b.obj == obj {
					continue
				}
				if nfMentions(b, obj) {
					return false
				}
			}
			return true
		}
		return !nfMentions(it, obj)
	}
	for i := len(items) - 1; i >= 0; i-- {
		if items[i].kind != nfGet {
			continue
		}
		j := i
		for j+1 < len(items) && canPass(items[j+1], items[j].obj) {
			items[j], items[j+1] = items[j+1], items[j]
			j++
		}
	}
	// Gets that ended up next to each other: canonical order
	for i := 0; i < len(items); {
		j := i
		for j < len(items) && items[j].kind == nfGet {
			j++
		}
		if j-i > 1 {
			run := items[i:j]
			sort.SliceStable(run, func(a, b int) bool { return run[a].obj < run[b].obj })
		}
		if j == i {
			j++
		}
		i = j
	}
	return items
}

// ---------------------------------------------------------------- rendering

type nfRenderer struct {
	stack     [][]*nfItem
	gotten    map[string]bool
	getObjs   map[string]bool
	last      string // the `on-exit` block printed last (events whose panic the model follows, returns, the end)
	lastPanic string // the `on-panic` block printed last (other events that can panic)
	out       []string
}

func (r *nfRenderer) plain(items []*nfItem, skipPut func(*nfItem) bool, out *[]string) {
	for _, it := range items {
		if skipPut != nil && skipPut(it) {
			continue
		}
		switch it.kind {
		case nfLine, nfGet:
			*out = append(*out, it.text)
		case nfIf:
			var thenL, elseL []string
			r.plain(it.body, nil, &thenL)
			r.plain(it.els, nil, &elseL)
			nfIfLines(it, thenL, elseL, out)
		case nfLoop:
			*out = append(*out, it.text)
			r.plain(it.body, nil, out)
			*out = append(*out, "}")
		case nfExit:
		case nfDefer:
			nfFail("internal: defer inside a deferred call")
		}
	}
}

// ifLines prints an if item from its rendered branches; a branch that prints nothing is
// no branch.
func nfIfLines(it *nfItem, thenL, elseL []string, out *[]string) {
	switch {
	case len(thenL) == 0 && len(elseL) == 0:
		if it.panicPt {
			*out = append(*out, it.text)
		}
	case len(thenL) == 0:
		*out = append(*out, "if not ("+it.text+") {")
		*out = append(*out, elseL...)
		*out = append(*out, "}")
	default:
		*out = append(*out, "if "+it.text+" {")
		*out = append(*out, thenL...)
		if len(elseL) > 0 {
			*out = append(*out, "} else {")
			*out = append(*out, elseL...)
		}
		*out = append(*out, "}")
	}
}

// effective lists the deferred calls in running order.  A Put of an object whose Get has
// been moved below this point is cancelled against it.  If not full (the event that follows
// is not one whose panic the model has a transition for), a Put of an object that no later
// deferred call mentions is not listed either: whether an unused object is returned to its
// pool or dropped is unobservable under MEM-1 (the pool may drop idle objects at any time).
func (r *nfRenderer) effective(full bool) []string {
	var flat []*nfItem
	for i := len(r.stack) - 1; i >= 0; i-- {
		flat = append(flat, r.stack[i]...)
	}
	var lines []string
	for i, it := range flat {
		if it.isPut && r.getObjs[it.obj] && !r.gotten[it.obj] {
			continue
		}
		if it.isPut && !full {
			later := false
			for _, x := range flat[i+1:] {
				if nfMentions(x, it.obj) {
					later = true
				}
			}
			if !later {
				continue
			}
		}
		r.plain([]*nfItem{it}, nil, &lines)
	}
	return lines
}

func (r *nfRenderer) snapshot(full bool) (nonEmpty bool) {
	lines := r.effective(full)
	s := strings.Join(lines, "\n")
	last, hdr := &r.last, "on-exit {"
	if !full {
		last, hdr = &r.lastPanic, "on-panic {"
	}
	if s != *last {
		r.out = append(r.out, hdr)
		r.out = append(r.out, lines...)
		r.out = append(r.out, "}")
		*last = s
	}
	return len(lines) > 0
}

func (r *nfRenderer) list(items []*nfItem, top bool) {
	for _, it := range items {
		switch it.kind {
		case nfGet:
			r.gotten[it.obj] = true
			r.out = append(r.out, it.text)
		case nfDefer:
			if !top {
				nfFail("internal: defer below the top level")
			}
			r.stack = append(r.stack, it.body)
		case nfLine:
			if it.panicPt {
				r.snapshot(it.userPt)
			}
			r.out = append(r.out, it.text)
		case nfExit:
			if r.snapshot(true) {
				r.out = append(r.out, "run on-exit")
			}
		case nfIf:
			if it.panicPt {
				r.snapshot(it.userPt)
			}
			saved := map[string]bool{}
			for k, v := range r.gotten {
				saved[k] = v
			}
			branch := func(l []*nfItem) []string {
				keep := r.out
				r.out = nil
				r.list(l, false)
				res := r.out
				r.out = keep
				r.gotten = map[string]bool{}
				for k, v := range saved {
					r.gotten[k] = v
				}
				return res
			}
			thenL := branch(it.body)
			elseL := branch(it.els)
			nfIfLines(it, thenL, elseL, &r.out)
		case nfLoop:
			r.out = append(r.out, it.text)
			r.list(it.body, false)
			r.out = append(r.out, "}")
		}
	}
}

func nfRenderFrame(st *nfState, items []*nfItem) []string {
	items = nfGroupFills(items, st.poolLen)
	items = nfSinkGets(items)
	r := &nfRenderer{gotten: map[string]bool{}, getObjs: map[string]bool{}}
	for _, it := range items {
		if it.kind == nfGet {
			r.getObjs[it.obj] = true
		}
	}
	r.list(items, true)
	return r.out
}

func nfExpandLits(lines []string, lits [][]string) []string {
	var out []string
	for _, l := range lines {
		for {
			i := strings.Index(l, nfLitMark)
			if i < 0 {
				break
			}
			j := strings.Index(l[i+1:], nfLitMark)
			n, _ := strconv.Atoi(l[i+1 : i+1+j])
			out = append(out, l[:i])
			out = append(out, nfExpandLits(lits[n], lits)...)
			l = l[i+1+j+1:]
		}
		out = append(out, l)
	}
	return out
}

// ---------------------------------------------------------------- targets

// target produces the normal form of one function of the package.
func (p *nfPkg) target(recv, name string) (lines []string, err error) {
	defer func() {
		if r := recover(); r != nil {
			if ne, ok := r.(nfErr); ok {
				lines, err = nil, fmt.Errorf("%s", ne.msg)
			} else {
				// never take the other translators down: an internal error is a loud failure of this one
				lines, err = nil, fmt.Errorf("internal error of the normal-form engine: %v", r)
			}
		}
	}()
	var decl *ast.FuncDecl
	var fn *types.Func
	for f, d := range p.decls {
		if d.Name.Name == name && c20RecvName(d) == recv {
			if decl != nil {
				return nil, fmt.Errorf("%s.%s declared twice", recv, name)
			}
			decl, fn = d, f
		}
	}
	if decl == nil || decl.Body == nil {
		return nil, fmt.Errorf("function %s.%s not found", recv, name)
	}
	p.visited[decl] = true
	lits := [][]string{}
	st := &nfState{p: p, lits: &lits, poolLen: map[string]int{}, objSeq: map[string]int{}, inl: []*types.Func{fn}, params: map[string]bool{}}
	env := nfNewEnv(nil)
	sig := fn.Type().(*types.Signature)
	if decl.Recv != nil && len(decl.Recv.List) == 1 && len(decl.Recv.List[0].Names) == 1 {
		if o := p.info.Defs[decl.Recv.List[0].Names[0]]; o != nil {
			env.vars[o] = &nfBinding{v: &nfVal{s: "recv", typ: o.Type(), prec: 3, tracked: true, root: "recv"}}
		}
	}
	i := 0
	fr := &nfFrame{printed: true, sig: sig}
	st.frame = fr
	items := st.sub(func() {
		for _, f := range decl.Type.Params.List {
			if len(f.Names) == 0 {
				i++
			}
			for _, id := range f.Names {
				if o := p.info.Defs[id]; o != nil && id.Name != "_" {
					st.params[fmt.Sprintf("p%d", i)] = true
					st.bindParam(env, o, &nfVal{s: fmt.Sprintf("p%d", i), typ: o.Type(), prec: 3, tracked: true, root: fmt.Sprintf("p%d", i)})
				}
				i++
			}
		}
		k := 0
		if decl.Type.Results != nil {
			for _, f := range decl.Type.Results.List {
				for _, id := range f.Names {
					if o := p.info.Defs[id]; o != nil && id.Name != "_" {
						fr.results = append(fr.results, o)
						st.bindResult(env, o, k)
					}
					k++
				}
			}
		}
		fl := st.block(env, decl.Body.List, true)
		if !fl.full() {
			st.emit(&nfItem{kind: nfExit})
		}
	})
	lines = nfExpandLits(nfRenderFrame(st, items), lits)
	for _, l := range lines {
		if strings.Contains(l, nfLitMark) {
			return nil, fmt.Errorf("internal: unexpanded function literal")
		}
	}
	return lines, nil
}

// checkPoolUses: every use of a pool field of a struct of the package must lie in a
// function the skeletons cover (a target or a callee inlined into one).
func (p *nfPkg) checkPoolUses() error {
	for _, f := range p.files {
		for _, d := range f.Decls {
			fd, ok := d.(*ast.FuncDecl)
			if !ok || fd.Body == nil || p.visited[fd] {
				continue
			}
			var bad string
			ast.Inspect(fd.Body, func(n ast.Node) bool {
				se, ok := n.(*ast.SelectorExpr)
				if !ok || bad != "" {
					return bad == ""
				}
				sel := p.info.Selections[se]
				if sel == nil || sel.Kind() != types.FieldVal {
					return true
				}
				fv, ok := sel.Obj().(*types.Var)
				if !ok || fv.Pkg() != p.pkg {
					return true
				}
				if _, isPool := nfIsPoolType(fv.Type()); isPool {
					bad = fv.Name()
				}
				return true
			})
			if bad != "" {
				return fmt.Errorf("the pool field %s is used in %s.%s, which no skeleton covers", bad, c20RecvName(fd), fd.Name.Name)
			}
		}
	}
	return nil
}
