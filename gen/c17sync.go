package main

import (
	"bytes"
	"fmt"
	"go/ast"
	"go/parser"
	"go/printer"
	"go/token"
	"path/filepath"
	"strings"
)

// SyncC17: the synchronisation skeletons of syncutil.OnceConstructor.Get,
// ChanSemaphore.Acquire/Release and the two constructors (DESIGN.md §4, "gen-sync"): the
// ordered, nested list of statements of each function in a canonical textual form, with
// function literals expanded in place.  The Lean transition systems of C17 were written
// against these lists; `theorem skel_* : Gen.SyncC17.x = Expected.x` makes any edit of the
// synchronisation structure a broken proof obligation.
//
// Subset: blocks, if/else, select with send/receive/default clauses, send, assignment,
// short variable declaration, var declaration, expression statement, return.  Anything else
// (loops, go, defer, switch, labels, goto) is outside the subset and fails the translator.

type skelReqC17 struct {
	file string // path under the repo
	recv string // receiver type name, "" for a plain function
	name string
	lean string // Lean definition name
}

var skelReqsC17 = []skelReqC17{
	{"syncutil/onceconstructor.go", "", "NewOnceConstructor", "newOnceConstructor"},
	{"syncutil/onceconstructor.go", "OnceConstructor", "Get", "onceGet"},
	{"syncutil/sema.go", "", "NewChanSemaphore", "newChanSemaphore"},
	{"syncutil/sema.go", "ChanSemaphore", "Acquire", "semaAcquire"},
	{"syncutil/sema.go", "ChanSemaphore", "Release", "semaRelease"},
}

func recvTypeNameC17(fd *ast.FuncDecl) string {
	if fd.Recv == nil || len(fd.Recv.List) == 0 {
		return ""
	}
	t := fd.Recv.List[0].Type
	for {
		switch x := t.(type) {
		case *ast.StarExpr:
			t = x.X
		case *ast.IndexExpr:
			t = x.X
		case *ast.IndexListExpr:
			t = x.X
		case *ast.ParenExpr:
			t = x.X
		case *ast.Ident:
			return x.Name
		default:
			return "?"
		}
	}
}

type skelWalkerC17 struct {
	out []string
	err error
}

func (w *skelWalkerC17) emit(format string, a ...any) {
	w.out = append(w.out, fmt.Sprintf(format, a...))
}

func (w *skelWalkerC17) fail(n ast.Node, what string) {
	if w.err == nil {
		w.err = fmt.Errorf("construct outside the skeleton subset: %s (%T)", what, n)
	}
}

// exprStringC17 prints an expression in full (composite literals are not abbreviated) on one
// line, with the bodies of function literals elided (they are expanded by funcLits).
func exprStringC17(x ast.Expr) string {
	var lits []*ast.FuncLit
	var bodies []*ast.BlockStmt
	ast.Inspect(x, func(n ast.Node) bool {
		if fl, ok := n.(*ast.FuncLit); ok {
			lits = append(lits, fl)
			bodies = append(bodies, fl.Body)
			return false
		}
		return true
	})
	for _, fl := range lits {
		fl.Body = &ast.BlockStmt{}
	}
	var b bytes.Buffer
	err := printer.Fprint(&b, token.NewFileSet(), x)
	for i, fl := range lits {
		fl.Body = bodies[i]
	}
	if err != nil {
		return "<unprintable: " + err.Error() + ">"
	}
	return strings.Join(strings.Fields(b.String()), " ")
}

func exprsC17(xs []ast.Expr) string {
	ss := make([]string, len(xs))
	for i, x := range xs {
		ss[i] = exprStringC17(x)
	}
	return strings.Join(ss, ", ")
}

// funcLits expands the function literals that occur in the expressions of one statement
// (not descending into the literals themselves: their bodies are walked recursively).
func (w *skelWalkerC17) funcLits(nodes ...ast.Node) {
	for _, n := range nodes {
		if n == nil {
			continue
		}
		ast.Inspect(n, func(x ast.Node) bool {
			if fl, ok := x.(*ast.FuncLit); ok {
				w.emit("func{ %s", exprStringC17(fl.Type))
				w.block(fl.Body)
				w.emit("}func")
				return false
			}
			return true
		})
	}
}

func (w *skelWalkerC17) block(b *ast.BlockStmt) {
	for _, s := range b.List {
		w.stmt(s)
	}
}

func (w *skelWalkerC17) stmt(s ast.Stmt) {
	switch x := s.(type) {
	case *ast.BlockStmt:
		w.emit("{")
		w.block(x)
		w.emit("}")
	case *ast.IfStmt:
		if x.Init != nil {
			w.stmt(x.Init)
		}
		w.emit("if %s", exprStringC17(x.Cond))
		w.funcLits(x.Cond)
		w.block(x.Body)
		if x.Else != nil {
			w.emit("else")
			w.stmt(x.Else)
		}
		w.emit("endif")
	case *ast.SelectStmt:
		w.emit("select{")
		for _, c := range x.Body.List {
			cc := c.(*ast.CommClause)
			switch comm := cc.Comm.(type) {
			case nil:
				w.emit("default")
			case *ast.SendStmt:
				w.emit("case send %s <- %s", exprStringC17(comm.Chan), exprStringC17(comm.Value))
			case *ast.ExprStmt:
				w.emit("case recv %s", exprStringC17(comm.X))
			case *ast.AssignStmt:
				w.emit("case recv %s %s %s", exprsC17(comm.Lhs), comm.Tok, exprsC17(comm.Rhs))
			default:
				w.fail(cc, "select clause")
			}
			for _, b := range cc.Body {
				w.stmt(b)
			}
		}
		w.emit("}select")
	case *ast.SendStmt:
		w.emit("send %s <- %s", exprStringC17(x.Chan), exprStringC17(x.Value))
		w.funcLits(x.Chan, x.Value)
	case *ast.AssignStmt:
		w.emit("assign %s %s %s", exprsC17(x.Lhs), x.Tok, exprsC17(x.Rhs))
		for _, r := range x.Rhs {
			w.funcLits(r)
		}
	case *ast.DeclStmt:
		gd, ok := x.Decl.(*ast.GenDecl)
		if !ok || gd.Tok != token.VAR {
			w.fail(x, "declaration")
			return
		}
		for _, sp := range gd.Specs {
			vs := sp.(*ast.ValueSpec)
			names := make([]string, len(vs.Names))
			for i, n := range vs.Names {
				names[i] = n.Name
			}
			ty := ""
			if vs.Type != nil {
				ty = exprStringC17(vs.Type)
			}
			w.emit("var %s %s = %s", strings.Join(names, ", "), ty, exprsC17(vs.Values))
			for _, v := range vs.Values {
				w.funcLits(v)
			}
		}
	case *ast.ExprStmt:
		w.emit("expr %s", exprStringC17(x.X))
		w.funcLits(x.X)
	case *ast.ReturnStmt:
		w.emit("return %s", exprsC17(x.Results))
		for _, r := range x.Results {
			w.funcLits(r)
		}
	case *ast.EmptyStmt:
	default:
		w.fail(s, "statement")
	}
}

func leanStrLitC17(s string) (string, error) {
	var b strings.Builder
	b.WriteByte('"')
	for _, r := range s {
		switch {
		case r == '"' || r == '\\':
			b.WriteByte('\\')
			b.WriteRune(r)
		case r == '\n':
			b.WriteString("\\n")
		case r == '\t':
			b.WriteString("\\t")
		case r < 0x20 || r > 0x7e:
			return "", fmt.Errorf("non-ASCII or control character %q in skeleton text", r)
		default:
			b.WriteRune(r)
		}
	}
	b.WriteByte('"')
	return b.String(), nil
}

func genSyncC17(repo string) (string, error) {
	var b strings.Builder
	b.WriteString("namespace GolibsVerif.Gen.SyncC17\n\n")
	parsed := map[string]*ast.File{}
	fset := token.NewFileSet()
	for _, req := range skelReqsC17 {
		f, ok := parsed[req.file]
		if !ok {
			var err error
			f, err = parser.ParseFile(fset, filepath.Join(repo, req.file), nil, parser.SkipObjectResolution)
			if err != nil {
				return "", err
			}
			parsed[req.file] = f
		}
		var found *ast.FuncDecl
		for _, d := range f.Decls {
			fd, isFn := d.(*ast.FuncDecl)
			if isFn && fd.Name.Name == req.name && recvTypeNameC17(fd) == req.recv {
				if found != nil {
					return "", fmt.Errorf("%s: two declarations of %s.%s", req.file, req.recv, req.name)
				}
				found = fd
			}
		}
		if found == nil || found.Body == nil {
			return "", fmt.Errorf("%s: function %s.%s not found", req.file, req.recv, req.name)
		}
		w := &skelWalkerC17{}
		w.emit("func %s", exprStringC17(found.Type))
		w.block(found.Body)
		if w.err != nil {
			return "", fmt.Errorf("%s %s.%s: %v", req.file, req.recv, req.name, w.err)
		}
		fmt.Fprintf(&b, "/-- `%s`: %s%s -/\ndef %s : List String := [\n", req.file, map[bool]string{true: req.recv + ".", false: ""}[req.recv != ""], req.name, req.lean)
		for i, ln := range w.out {
			lit, err := leanStrLitC17(ln)
			if err != nil {
				return "", err
			}
			sep := ","
			if i == len(w.out)-1 {
				sep = ""
			}
			fmt.Fprintf(&b, "  %s%s\n", lit, sep)
		}
		b.WriteString("]\n\n")
	}
	b.WriteString("end GolibsVerif.Gen.SyncC17\n")
	return b.String(), nil
}

func init() { translators["SyncC17"] = genSyncC17 }
