package main

import (
	"fmt"
	"path/filepath"
	"strings"
)

// SyncC17: the synchronisation skeletons of syncutil.OnceConstructor.Get,
// ChanSemaphore.Acquire/Release and the two constructors (DESIGN.md §4, "gen-sync"), in the
// NORMAL FORM defined in nfskel.go: the tree of control paths of each function, each path
// being the ordered list of its synchronisation events (channel operations, sync.Map calls,
// calls of user-supplied functions and of interface methods, reads and writes of shared
// cells, return), with package-local helpers, function literals and the objects stored in
// the sync.Map inlined, operands given as symbolic values resolved through go/types, and
// the cases of a select sorted.  The Lean transition systems of C17 were written against
// these lists; `theorem skel_* : Gen.SyncC17.x = Expected.x` makes any edit of the
// synchronisation structure a broken proof obligation, while extracting or inlining
// helpers, renaming, inverting conditions with early returns, reordering select cases and
// replacing the loader closure by a struct with methods leave the lists unchanged.
//
// Outside the subset (translator fails): see the header of nfskel.go.

type skelReqC17 struct {
	file string // where the function is expected (documentation only)
	recv string // receiver type name, "" for a plain function
	name string
	lean string // Lean definition name
}

var skelReqsC17 = []skelReqC17{
	{"syncutil/onceconstructor.go", "", "NewOnceConstructor", "newOnceConstructor"},
	{"syncutil/onceconstructor.go", "OnceConstructor", "Get", "onceGet"},
	{"syncutil/sema.go", "", "NewChanSemaphore", "newChanSemaphore"},
	{"syncutil/sema.go", "ChanSemaphore", "Acquire", "semaAcquire"},
	{"syncutil/sema.go", "ChanSemaphore", "Release", "semaRelease"},
}

func leanStrLitC17(s string) (string, error) {
	var b strings.Builder
	b.WriteByte('"')
	for _, r := range s {
		switch {
		case r == '"' || r == '\\':
			b.WriteByte('\\')
			b.WriteRune(r)
		case r == '\n':
			b.WriteString("\\n")
		case r == '\t':
			b.WriteString("\\t")
		case r < 0x20 || r > 0x7e:
			return "", fmt.Errorf("non-ASCII or control character %q in skeleton text", r)
		default:
			b.WriteRune(r)
		}
	}
	b.WriteByte('"')
	return b.String(), nil
}

func genSyncC17(repo string) (string, error) {
	var b strings.Builder
	b.WriteString("namespace GolibsVerif.Gen.SyncC17\n\n")
	roots := make([]sqRoot, len(skelReqsC17))
	for i, req := range skelReqsC17 {
		roots[i] = sqRoot{recv: req.recv, name: req.name}
	}
	skels, err := sqSkeletons(filepath.Join(repo, "syncutil"), roots)
	if err != nil {
		return "", fmt.Errorf("syncutil: %v", err)
	}
	for i, req := range skelReqsC17 {
		out := skels[i]
		fmt.Fprintf(&b, "/-- `%s`: %s%s -/\ndef %s : List String := [\n", req.file, map[bool]string{true: req.recv + ".", false: ""}[req.recv != ""], req.name, req.lean)
		for j, ln := range out {
			lit, err := leanStrLitC17(ln)
			if err != nil {
				return "", err
			}
			sep := ","
			if j == len(out)-1 {
				sep = ""
			}
			fmt.Fprintf(&b, "  %s%s\n", lit, sep)
		}
		b.WriteString("]\n\n")
	}
	b.WriteString("end GolibsVerif.Gen.SyncC17\n")
	return b.String(), nil
}

func init() { translators["SyncC17"] = genSyncC17 }
