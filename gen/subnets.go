package main

import (
	"fmt"
	"go/ast"
	"go/constant"
	"go/parser"
	"go/token"
	"net/netip"
	"path/filepath"
	"regexp"
	"sort"
	"strconv"
	"strings"
)

// Subnets (property C06): reify the byte-array predicates of netutil/subnetset.go
//
//	isLocallyServedV4, isLocallyServedV6, isSpecialPurposeV4, isSpecialPurposeV6
//
// into terms of the Lean formula type GolibsVerif.C06.F, the two exported dispatchers
// IsLocallyServed / IsSpecialPurpose into the decision-tree type GolibsVerif.C06.D, and
// the networks enumerated in the two documentation comments into lists of
// GolibsVerif.C06.Pfx.  Everything is read from the current source with go/ast; any
// construct outside the small subset below is an error (a broken tie), never skipped.
//
// Subset of the [N]byte functions (param p, optional named bool result r):
//
//	stmt  ::= return bexpr | r = bexpr | if bexpr {stmt*} [else {stmt*} | else if …]
//	        | switch byteterm { case const,… : stmt* … [default: stmt*] }
//	        | switch { case bexpr,… : stmt* … }
//	bexpr ::= true | false | r | (bexpr) | !bexpr | bexpr && bexpr | bexpr || bexpr
//	        | byteterm ==,!= const | p[i] <,<=,>,>= const   (either side)
//	        | string(p[a:b]) ==,!= "literal"                (either side)
//	        | g(p)                                          (g another function of the subset)
//	byteterm ::= p[i] | p[i] & const | const & p[i]
//
// Subset of the dispatchers (param a of type netip.Addr):
//
//	stmt ::= if cond {stmt*} [else …] | return true | return false
//	       | return g(a.As4()) | return g(a.As16())
//	cond ::= a.IsValid() | a.Is4() | a.Is6() | a.Is4In6() | !cond | cond && cond | cond || cond | (cond)

const subnetsPkgDir = "netutil"

var (
	subnetByteFuncs = []string{"isLocallyServedV4", "isLocallyServedV6", "isSpecialPurposeV4", "isSpecialPurposeV6"}
	subnetDispFuncs = []string{"IsLocallyServed", "IsSpecialPurpose"}
	subnetDocNames  = map[string]string{"IsLocallyServed": "locallyServedDoc", "IsSpecialPurpose": "specialPurposeDoc"}
)

type subnetsTr struct {
	fset  *token.FileSet
	decls map[string]*ast.FuncDecl
	// translated byte functions
	done    map[string]string // name -> Lean term
	width   map[string]int
	order   []string
	pending map[string]bool
}

func (t *subnetsTr) errf(n ast.Node, format string, a ...any) error {
	pos := t.fset.Position(n.Pos())
	return fmt.Errorf("%s:%d:%d: outside the translator's subset: %s", filepath.Base(pos.Filename), pos.Line, pos.Column, fmt.Sprintf(format, a...))
}

// ---------------------------------------------------------------- formulas (as Lean text)

const (
	fTT = "F.tt"
	fFF = "F.ff"
)

func fAtom(i, m, v int64) string { return fmt.Sprintf("(F.atom %d %d %d)", i, m, v) }
func fGe(i, c int64) string      { return fmt.Sprintf("(F.ge %d %d)", i, c) }
func fAnd(a, b string) string    { return "(F.and " + a + " " + b + ")" }
func fOr(a, b string) string     { return "(F.or " + a + " " + b + ")" }
func fIte(c, a, b string) string { return "(F.ite " + c + " " + a + " " + b + ")" }
func fNot(a string) string       { return fIte(a, fFF, fTT) }

// byteFuncEnv is the state of translating one [N]byte function.
type byteFuncEnv struct {
	name   string
	param  string // the array parameter
	n      int64  // its length
	result string // named result, "" if none
}

func (t *subnetsTr) constInt(e ast.Expr) (int64, error) {
	switch x := e.(type) {
	case *ast.ParenExpr:
		return t.constInt(x.X)
	case *ast.BasicLit:
		if x.Kind != token.INT && x.Kind != token.CHAR {
			return 0, t.errf(e, "constant %s is not an integer or character literal", x.Value)
		}
		v := constant.MakeFromLiteral(x.Value, x.Kind, 0)
		n, ok := constant.Int64Val(constant.ToInt(v))
		if !ok {
			return 0, t.errf(e, "constant %s does not fit", x.Value)
		}
		return n, nil
	}
	return 0, t.errf(e, "expected an integer literal, found %T (named constants and constant expressions are not supported)", e)
}

func (t *subnetsTr) byteConst(e ast.Expr) (int64, error) {
	n, err := t.constInt(e)
	if err != nil {
		return 0, err
	}
	if n < 0 || n > 255 {
		return 0, t.errf(e, "constant %d overflows byte", n)
	}
	return n, nil
}

func isConstLit(e ast.Expr) bool {
	switch x := e.(type) {
	case *ast.ParenExpr:
		return isConstLit(x.X)
	case *ast.BasicLit:
		return x.Kind == token.INT || x.Kind == token.CHAR
	}
	return false
}

// byteTerm recognises p[i] and p[i] & m; it returns the index and the mask.
func (t *subnetsTr) byteTerm(env *byteFuncEnv, e ast.Expr) (i, m int64, err error) {
	switch x := e.(type) {
	case *ast.ParenExpr:
		return t.byteTerm(env, x.X)
	case *ast.IndexExpr:
		id, ok := x.X.(*ast.Ident)
		if !ok || id.Name != env.param {
			return 0, 0, t.errf(e, "index of something other than the parameter %s", env.param)
		}
		i, err = t.constInt(x.Index)
		if err != nil {
			return 0, 0, err
		}
		if i < 0 || i >= env.n {
			return 0, 0, t.errf(e, "index %d out of range for [%d]byte", i, env.n)
		}
		return i, 0xFF, nil
	case *ast.BinaryExpr:
		if x.Op != token.AND {
			return 0, 0, t.errf(e, "byte operator %s (only & with a constant is supported)", x.Op)
		}
		l, r := x.X, x.Y
		if isConstLit(l) {
			l, r = r, l
		}
		i, m0, err := t.byteTerm(env, l)
		if err != nil {
			return 0, 0, err
		}
		c, err := t.byteConst(r)
		if err != nil {
			return 0, 0, err
		}
		return i, m0 & c, nil
	}
	return 0, 0, t.errf(e, "expected %s[i] or %s[i] & const, found %T", env.param, env.param, e)
}

// sliceString recognises string(p[a:b]) and returns a, b.
func (t *subnetsTr) sliceString(env *byteFuncEnv, e ast.Expr) (a, b int64, ok bool, err error) {
	if p, isP := e.(*ast.ParenExpr); isP {
		return t.sliceString(env, p.X)
	}
	call, isCall := e.(*ast.CallExpr)
	if !isCall {
		return 0, 0, false, nil
	}
	fn, isId := call.Fun.(*ast.Ident)
	if !isId || fn.Name != "string" || len(call.Args) != 1 {
		return 0, 0, false, nil
	}
	arg := call.Args[0]
	for {
		p, isP := arg.(*ast.ParenExpr)
		if !isP {
			break
		}
		arg = p.X
	}
	sl, isSl := arg.(*ast.SliceExpr)
	if !isSl {
		return 0, 0, false, t.errf(e, "string(…) of something other than a slice of the parameter")
	}
	id, isId := sl.X.(*ast.Ident)
	if !isId || id.Name != env.param {
		return 0, 0, false, t.errf(e, "slice of something other than the parameter %s", env.param)
	}
	if sl.Slice3 || sl.Max != nil {
		return 0, 0, false, t.errf(e, "3-index slice")
	}
	a, b = 0, env.n
	if sl.Low != nil {
		if a, err = t.constInt(sl.Low); err != nil {
			return 0, 0, false, err
		}
	}
	if sl.High != nil {
		if b, err = t.constInt(sl.High); err != nil {
			return 0, 0, false, err
		}
	}
	if a < 0 || a > b || b > env.n {
		return 0, 0, false, t.errf(e, "slice bounds [%d:%d] invalid for [%d]byte", a, b, env.n)
	}
	return a, b, true, nil
}

func stringLit(e ast.Expr) (s string, ok bool) {
	if p, isP := e.(*ast.ParenExpr); isP {
		return stringLit(p.X)
	}
	bl, isBl := e.(*ast.BasicLit)
	if !isBl || bl.Kind != token.STRING {
		return "", false
	}
	s, err := strconv.Unquote(bl.Value)
	return s, err == nil
}

// bexpr translates a boolean expression; ok is the current formula of the named result.
func (t *subnetsTr) bexpr(env *byteFuncEnv, e ast.Expr, ok string) (string, error) {
	switch x := e.(type) {
	case *ast.ParenExpr:
		return t.bexpr(env, x.X, ok)
	case *ast.Ident:
		switch {
		case x.Name == "true":
			return fTT, nil
		case x.Name == "false":
			return fFF, nil
		case env.result != "" && x.Name == env.result:
			return ok, nil
		}
		return "", t.errf(e, "identifier %s", x.Name)
	case *ast.UnaryExpr:
		if x.Op != token.NOT {
			return "", t.errf(e, "unary operator %s", x.Op)
		}
		a, err := t.bexpr(env, x.X, ok)
		if err != nil {
			return "", err
		}
		return fNot(a), nil
	case *ast.CallExpr:
		fn, isId := x.Fun.(*ast.Ident)
		if !isId || len(x.Args) != 1 {
			return "", t.errf(e, "call of something other than a byte-array predicate of this package")
		}
		arg, isArgId := x.Args[0].(*ast.Ident)
		if !isArgId || arg.Name != env.param {
			return "", t.errf(e, "call %s(…) with an argument other than the parameter %s itself", fn.Name, env.param)
		}
		if err := t.byteFunc(fn.Name); err != nil {
			return "", err
		}
		if int64(t.width[fn.Name]) != env.n {
			return "", t.errf(e, "call %s: array length mismatch", fn.Name)
		}
		return fn.Name, nil
	case *ast.BinaryExpr:
		switch x.Op {
		case token.LAND, token.LOR:
			a, err := t.bexpr(env, x.X, ok)
			if err != nil {
				return "", err
			}
			b, err := t.bexpr(env, x.Y, ok)
			if err != nil {
				return "", err
			}
			if x.Op == token.LAND {
				return fAnd(a, b), nil
			}
			return fOr(a, b), nil
		case token.EQL, token.NEQ, token.LSS, token.LEQ, token.GTR, token.GEQ:
			return t.comparison(env, x)
		}
		return "", t.errf(e, "boolean operator %s", x.Op)
	}
	return "", t.errf(e, "expression %T", e)
}

func (t *subnetsTr) comparison(env *byteFuncEnv, x *ast.BinaryExpr) (string, error) {
	l, r, op := x.X, x.Y, x.Op
	// string(p[a:b]) ==/!= "lit", either side
	if _, isLit := stringLit(l); isLit {
		l, r = r, l
	}
	if lit, isLit := stringLit(r); isLit {
		a, b, isSl, err := t.sliceString(env, l)
		if err != nil {
			return "", err
		}
		if !isSl {
			return "", t.errf(x, "string literal compared with something other than string(%s[a:b])", env.param)
		}
		if op != token.EQL && op != token.NEQ {
			return "", t.errf(x, "ordering comparison of strings")
		}
		f := fTT
		if int64(len(lit)) != b-a {
			// strings of different lengths are never equal
			f = fFF
		} else {
			for j := len(lit) - 1; j >= 0; j-- {
				at := fAtom(a+int64(j), 0xFF, int64(lit[j]))
				if f == fTT {
					f = at
				} else {
					f = fAnd(at, f)
				}
			}
		}
		if op == token.NEQ {
			f = fNot(f)
		}
		return f, nil
	}
	// byteterm op const, either side
	if isConstLit(l) {
		l, r = r, l
		switch op {
		case token.LSS:
			op = token.GTR
		case token.LEQ:
			op = token.GEQ
		case token.GTR:
			op = token.LSS
		case token.GEQ:
			op = token.LEQ
		}
	}
	if !isConstLit(r) {
		return "", t.errf(x, "comparison whose operands are not (byte term, constant)")
	}
	i, m, err := t.byteTerm(env, l)
	if err != nil {
		return "", err
	}
	c, err := t.byteConst(r)
	if err != nil {
		return "", err
	}
	switch op {
	case token.EQL:
		return fAtom(i, m, c), nil
	case token.NEQ:
		return fNot(fAtom(i, m, c)), nil
	}
	if m != 0xFF {
		return "", t.errf(x, "ordering comparison of a masked byte")
	}
	switch op {
	case token.GEQ:
		return fGe(i, c), nil
	case token.GTR:
		return fGe(i, c+1), nil
	case token.LSS:
		return fNot(fGe(i, c)), nil
	case token.LEQ:
		return fNot(fGe(i, c+1)), nil
	}
	return "", t.errf(x, "comparison operator %s", op)
}

// stmts translates a statement list followed by the continuation rest (the statements
// that run after the enclosing construct); the result is the formula of the value the
// function returns.
func (t *subnetsTr) stmts(env *byteFuncEnv, list []ast.Stmt, rest []ast.Stmt, ok string, end ast.Node) (string, error) {
	if len(list) == 0 {
		if len(rest) == 0 {
			return "", t.errf(end, "control reaches the end of %s without a return", env.name)
		}
		return t.stmts(env, rest, nil, ok, end)
	}
	s, tail := list[0], append(append([]ast.Stmt{}, list[1:]...), rest...)
	switch x := s.(type) {
	case *ast.ReturnStmt:
		if len(x.Results) != 1 {
			return "", t.errf(s, "return with %d results", len(x.Results))
		}
		return t.bexpr(env, x.Results[0], ok)
	case *ast.AssignStmt:
		if x.Tok != token.ASSIGN || len(x.Lhs) != 1 || len(x.Rhs) != 1 {
			return "", t.errf(s, "assignment form %s", x.Tok)
		}
		id, isId := x.Lhs[0].(*ast.Ident)
		if !isId || env.result == "" || id.Name != env.result {
			return "", t.errf(s, "assignment to something other than the named result")
		}
		nv, err := t.bexpr(env, x.Rhs[0], ok)
		if err != nil {
			return "", err
		}
		return t.stmts(env, tail, nil, nv, end)
	case *ast.BlockStmt:
		return t.stmts(env, x.List, tail, ok, end)
	case *ast.IfStmt:
		if x.Init != nil {
			return "", t.errf(s, "if with an init statement")
		}
		c, err := t.bexpr(env, x.Cond, ok)
		if err != nil {
			return "", err
		}
		th, err := t.stmts(env, x.Body.List, tail, ok, end)
		if err != nil {
			return "", err
		}
		var elseList []ast.Stmt
		if x.Else != nil {
			elseList = []ast.Stmt{x.Else}
		}
		el, err := t.stmts(env, elseList, tail, ok, end)
		if err != nil {
			return "", err
		}
		return fIte(c, th, el), nil
	case *ast.SwitchStmt:
		if x.Init != nil {
			return "", t.errf(s, "switch with an init statement")
		}
		var ti, tm int64
		if x.Tag != nil {
			var err error
			if ti, tm, err = t.byteTerm(env, x.Tag); err != nil {
				return "", err
			}
		}
		type arm struct{ cond, body string }
		var arms []arm
		var deflt []ast.Stmt // statements of the default clause (nil: no default)
		haveDefault := false
		for _, cs := range x.Body.List {
			cc := cs.(*ast.CaseClause)
			for _, bs := range cc.Body {
				if br, isBr := bs.(*ast.BranchStmt); isBr {
					return "", t.errf(br, "%s in a switch", br.Tok)
				}
			}
			if cc.List == nil {
				haveDefault = true
				deflt = cc.Body
				continue
			}
			cond := ""
			for _, ce := range cc.List {
				var one string
				if x.Tag != nil {
					c, err := t.byteConst(ce)
					if err != nil {
						return "", err
					}
					one = fAtom(ti, tm, c)
				} else {
					var err error
					if one, err = t.bexpr(env, ce, ok); err != nil {
						return "", err
					}
				}
				if cond == "" {
					cond = one
				} else {
					cond = fOr(cond, one)
				}
			}
			body, err := t.stmts(env, cc.Body, tail, ok, end)
			if err != nil {
				return "", err
			}
			arms = append(arms, arm{cond, body})
		}
		_ = haveDefault
		res, err := t.stmts(env, deflt, tail, ok, end)
		if err != nil {
			return "", err
		}
		for k := len(arms) - 1; k >= 0; k-- {
			res = fIte(arms[k].cond, arms[k].body, res)
		}
		return res, nil
	}
	return "", t.errf(s, "statement %T", s)
}

// byteFunc translates the [N]byte predicate called name (memoised; callees first).
func (t *subnetsTr) byteFunc(name string) error {
	if _, ok := t.done[name]; ok {
		return nil
	}
	fd := t.decls[name]
	if fd == nil {
		return fmt.Errorf("function %s.%s not found (renamed or removed?)", subnetsPkgDir, name)
	}
	if t.pending[name] {
		return t.errf(fd, "recursive call of %s", name)
	}
	t.pending[name] = true
	defer delete(t.pending, name)
	if fd.Recv != nil || fd.Type.TypeParams != nil || fd.Body == nil {
		return t.errf(fd, "%s is a method, generic or body-less", name)
	}
	ps := fd.Type.Params.List
	if len(ps) != 1 || len(ps[0].Names) != 1 {
		return t.errf(fd, "%s must have exactly one parameter", name)
	}
	at, isArr := ps[0].Type.(*ast.ArrayType)
	if !isArr || at.Len == nil {
		return t.errf(fd, "parameter of %s is not a fixed-size array", name)
	}
	if el, isId := at.Elt.(*ast.Ident); !isId || (el.Name != "byte" && el.Name != "uint8") {
		return t.errf(fd, "parameter of %s is not an array of byte", name)
	}
	n, err := t.constInt(at.Len)
	if err != nil {
		return err
	}
	if n != 4 && n != 16 {
		return t.errf(fd, "array length %d (4 or 16 expected)", n)
	}
	env := &byteFuncEnv{name: name, param: ps[0].Names[0].Name, n: n}
	rs := fd.Type.Results
	if rs == nil || len(rs.List) != 1 || len(rs.List[0].Names) > 1 {
		return t.errf(fd, "%s must have exactly one result", name)
	}
	if rt, isId := rs.List[0].Type.(*ast.Ident); !isId || rt.Name != "bool" {
		return t.errf(fd, "result of %s is not bool", name)
	}
	if len(rs.List[0].Names) == 1 {
		env.result = rs.List[0].Names[0].Name
	}
	// the named result starts as false
	f, err := t.stmts(env, fd.Body.List, nil, fFF, fd.Body)
	if err != nil {
		return err
	}
	t.done[name] = f
	t.width[name] = int(n)
	t.order = append(t.order, name)
	return nil
}

// ---------------------------------------------------------------- dispatchers

type dispEnv struct {
	name  string
	param string
}

func (t *subnetsTr) dcond(env *dispEnv, e ast.Expr, th, el string) (string, error) {
	switch x := e.(type) {
	case *ast.ParenExpr:
		return t.dcond(env, x.X, th, el)
	case *ast.UnaryExpr:
		if x.Op != token.NOT {
			return "", t.errf(e, "unary operator %s", x.Op)
		}
		return t.dcond(env, x.X, el, th)
	case *ast.BinaryExpr:
		switch x.Op {
		case token.LAND:
			inner, err := t.dcond(env, x.Y, th, el)
			if err != nil {
				return "", err
			}
			return t.dcond(env, x.X, inner, el)
		case token.LOR:
			inner, err := t.dcond(env, x.Y, th, el)
			if err != nil {
				return "", err
			}
			return t.dcond(env, x.X, th, inner)
		}
		return "", t.errf(e, "operator %s in a dispatch condition", x.Op)
	case *ast.CallExpr:
		sel, isSel := x.Fun.(*ast.SelectorExpr)
		if !isSel || len(x.Args) != 0 {
			return "", t.errf(e, "dispatch condition is not a method call on the address")
		}
		id, isId := sel.X.(*ast.Ident)
		if !isId || id.Name != env.param {
			return "", t.errf(e, "method call on something other than the parameter %s", env.param)
		}
		conds := map[string]string{"IsValid": "Cond.isValid", "Is4": "Cond.is4", "Is6": "Cond.is6", "Is4In6": "Cond.is4In6"}
		c, known := conds[sel.Sel.Name]
		if !known {
			return "", t.errf(e, "netip.Addr method %s in a dispatch condition", sel.Sel.Name)
		}
		return "(D.ite " + c + " " + th + " " + el + ")", nil
	}
	return "", t.errf(e, "dispatch condition %T", e)
}

func (t *subnetsTr) dstmts(env *dispEnv, list []ast.Stmt, rest []ast.Stmt, end ast.Node) (string, error) {
	if len(list) == 0 {
		if len(rest) == 0 {
			return "", t.errf(end, "control reaches the end of %s without a return", env.name)
		}
		return t.dstmts(env, rest, nil, end)
	}
	s, tail := list[0], append(append([]ast.Stmt{}, list[1:]...), rest...)
	switch x := s.(type) {
	case *ast.BlockStmt:
		return t.dstmts(env, x.List, tail, end)
	case *ast.IfStmt:
		if x.Init != nil {
			return "", t.errf(s, "if with an init statement")
		}
		th, err := t.dstmts(env, x.Body.List, tail, end)
		if err != nil {
			return "", err
		}
		var elseList []ast.Stmt
		if x.Else != nil {
			elseList = []ast.Stmt{x.Else}
		}
		el, err := t.dstmts(env, elseList, tail, end)
		if err != nil {
			return "", err
		}
		return t.dcond(env, x.Cond, th, el)
	case *ast.ReturnStmt:
		if len(x.Results) != 1 {
			return "", t.errf(s, "return with %d results", len(x.Results))
		}
		r := x.Results[0]
		if id, isId := r.(*ast.Ident); isId {
			switch id.Name {
			case "true":
				return "(D.ret true)", nil
			case "false":
				return "(D.ret false)", nil
			}
			return "", t.errf(r, "return of identifier %s", id.Name)
		}
		call, isCall := r.(*ast.CallExpr)
		if !isCall || len(call.Args) != 1 {
			return "", t.errf(r, "return value is not f(%s.As4()) / f(%s.As16())", env.param, env.param)
		}
		fn, isId := call.Fun.(*ast.Ident)
		if !isId {
			return "", t.errf(r, "callee is not a function of this package")
		}
		conv, isConv := call.Args[0].(*ast.CallExpr)
		if !isConv || len(conv.Args) != 0 {
			return "", t.errf(r, "argument is not %s.As4() / %s.As16()", env.param, env.param)
		}
		sel, isSel := conv.Fun.(*ast.SelectorExpr)
		if !isSel {
			return "", t.errf(r, "argument is not %s.As4() / %s.As16()", env.param, env.param)
		}
		if id, isId := sel.X.(*ast.Ident); !isId || id.Name != env.param {
			return "", t.errf(r, "conversion of something other than the parameter %s", env.param)
		}
		if err := t.byteFunc(fn.Name); err != nil {
			return "", err
		}
		switch {
		case sel.Sel.Name == "As4" && t.width[fn.Name] == 4:
			return "(D.on4 " + fn.Name + ")", nil
		case sel.Sel.Name == "As16" && t.width[fn.Name] == 16:
			return "(D.on16 " + fn.Name + ")", nil
		}
		return "", t.errf(r, "%s(%s.%s()): unknown conversion or array length mismatch", fn.Name, env.param, sel.Sel.Name)
	}
	return "", t.errf(s, "statement %T in a dispatcher", s)
}

func (t *subnetsTr) dispFunc(name string) (string, error) {
	fd := t.decls[name]
	if fd == nil {
		return "", fmt.Errorf("function %s.%s not found (renamed or removed?)", subnetsPkgDir, name)
	}
	if fd.Recv != nil || fd.Type.TypeParams != nil || fd.Body == nil {
		return "", t.errf(fd, "%s is a method, generic or body-less", name)
	}
	ps := fd.Type.Params.List
	if len(ps) != 1 || len(ps[0].Names) != 1 {
		return "", t.errf(fd, "%s must have exactly one parameter", name)
	}
	if sel, isSel := ps[0].Type.(*ast.SelectorExpr); !isSel || sel.Sel.Name != "Addr" {
		return "", t.errf(fd, "parameter of %s is not netip.Addr", name)
	} else if pk, isId := sel.X.(*ast.Ident); !isId || pk.Name != "netip" {
		return "", t.errf(fd, "parameter of %s is not netip.Addr", name)
	}
	rs := fd.Type.Results
	if rs == nil || len(rs.List) != 1 || len(rs.List[0].Names) > 1 {
		return "", t.errf(fd, "%s must have exactly one result", name)
	}
	if rt, isId := rs.List[0].Type.(*ast.Ident); !isId || rt.Name != "bool" {
		return "", t.errf(fd, "result of %s is not bool", name)
	}
	return t.dstmts(&dispEnv{name: name, param: ps[0].Names[0].Name}, fd.Body.List, nil, fd.Body)
}

// ---------------------------------------------------------------- documentation lists

var looksLikePrefix = regexp.MustCompile(`(?:\d+\.\d+\.\d+\.\d+|[0-9A-Fa-f]*:[0-9A-Fa-f:.]*)/\d+`)

// docPrefixes extracts the enumerated networks from a doc comment: every indented
// (code-block) line must start with a network in CIDR notation; prose lines must not
// mention one.
func (t *subnetsTr) docPrefixes(fd *ast.FuncDecl) ([]netip.Prefix, []string, error) {
	if fd.Doc == nil {
		return nil, nil, t.errf(fd, "%s has no documentation comment", fd.Name.Name)
	}
	var res []netip.Prefix
	var texts []string
	for _, c := range fd.Doc.List {
		if !strings.HasPrefix(c.Text, "//") {
			return nil, nil, t.errf(c, "block comment in the documentation of %s", fd.Name.Name)
		}
		line := strings.TrimPrefix(c.Text, "//")
		indented := strings.HasPrefix(line, "\t") || strings.HasPrefix(line, "  ")
		fields := strings.Fields(line)
		if !indented || len(fields) == 0 {
			if m := looksLikePrefix.FindString(line); m != "" && !strings.Contains(line, "://") {
				return nil, nil, t.errf(c, "network %q mentioned outside the indented list", m)
			}
			continue
		}
		p, err := netip.ParsePrefix(fields[0])
		if err != nil {
			return nil, nil, t.errf(c, "indented documentation line does not start with a network: %v", err)
		}
		if p.Addr().Is4In6() || p.Addr().Zone() != "" {
			return nil, nil, t.errf(c, "network %s is 4in6 or zoned", p)
		}
		res = append(res, p)
		texts = append(texts, strings.Join(fields, " "))
	}
	if len(res) == 0 {
		return nil, nil, t.errf(fd, "the documentation of %s enumerates no networks", fd.Name.Name)
	}
	return res, texts, nil
}

// ---------------------------------------------------------------- driver

func genSubnets(repo string) (string, error) {
	t := &subnetsTr{fset: token.NewFileSet(), decls: map[string]*ast.FuncDecl{}, done: map[string]string{},
		width: map[string]int{}, pending: map[string]bool{}}
	matches, _ := filepath.Glob(filepath.Join(repo, subnetsPkgDir, "*.go"))
	sort.Strings(matches)
	for _, m := range matches {
		if strings.HasSuffix(m, "_test.go") || strings.HasSuffix(m, "_verif.go") {
			continue
		}
		f, err := parser.ParseFile(t.fset, m, nil, parser.ParseComments)
		if err != nil {
			return "", err
		}
		for _, d := range f.Decls {
			fd, ok := d.(*ast.FuncDecl)
			if !ok || fd.Recv != nil {
				continue
			}
			if prev := t.decls[fd.Name.Name]; prev != nil {
				// build-tagged variants of the functions we translate would make the
				// choice of source ambiguous
				for _, n := range append(append([]string{}, subnetByteFuncs...), subnetDispFuncs...) {
					if n == fd.Name.Name {
						return "", t.errf(fd, "%s is declared more than once", n)
					}
				}
			}
			t.decls[fd.Name.Name] = fd
		}
	}
	var b strings.Builder
	b.WriteString("import GolibsVerif.Model.C06F\n\nnamespace GolibsVerif.Gen.Subnets\nopen GolibsVerif.C06\n\n")
	for _, n := range subnetByteFuncs {
		if err := t.byteFunc(n); err != nil {
			return "", err
		}
	}
	var disp []string
	for _, n := range subnetDispFuncs {
		d, err := t.dispFunc(n)
		if err != nil {
			return "", err
		}
		disp = append(disp, d)
	}
	for _, n := range t.order {
		pos := t.fset.Position(t.decls[n].Pos())
		fmt.Fprintf(&b, "/-- `%s.%s` (%s:%d), parameter `[%d]byte` -/\ndef %s : F :=\n  %s\n\n", subnetsPkgDir, n,
			filepath.Base(pos.Filename), pos.Line, t.width[n], n, t.done[n])
		fmt.Fprintf(&b, "def %s.width : Nat := %d\n\n", n, t.width[n])
	}
	for i, n := range subnetDispFuncs {
		pos := t.fset.Position(t.decls[n].Pos())
		fmt.Fprintf(&b, "/-- `%s.%s` (%s:%d) -/\ndef %s : D :=\n  %s\n\n", subnetsPkgDir, n, filepath.Base(pos.Filename), pos.Line, n, disp[i])
	}
	for _, n := range subnetDispFuncs {
		ps, texts, err := t.docPrefixes(t.decls[n])
		if err != nil {
			return "", err
		}
		fmt.Fprintf(&b, "/-- the networks enumerated in the documentation of `%s.%s` -/\ndef %s : List Pfx := [\n", subnetsPkgDir, n, subnetDocNames[n])
		for i, p := range ps {
			var bs []string
			for _, x := range p.Addr().AsSlice() {
				bs = append(bs, strconv.Itoa(int(x)))
			}
			sep := ","
			if i == len(ps)-1 {
				sep = ""
			}
			fmt.Fprintf(&b, "  ⟨[%s], %d⟩%s  -- %s\n", strings.Join(bs, ", "), p.Bits(), sep, texts[i])
		}
		b.WriteString("]\n\n")
	}
	b.WriteString("end GolibsVerif.Gen.Subnets\n")
	return b.String(), nil
}

func init() { translators["Subnets"] = genSubnets }
