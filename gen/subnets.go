package main

import (
	"fmt"
	"go/ast"
	"go/token"
	"go/types"
	"net/netip"
	"path/filepath"
	"regexp"
	"strconv"
	"strings"
)

// Subnets (property C06): reify the byte-array predicates of netutil/subnetset.go
//
//	isLocallyServedV4, isLocallyServedV6, isSpecialPurposeV4, isSpecialPurposeV6
//
// into terms of the Lean formula type GolibsVerif.C06.F, the two exported dispatchers
// IsLocallyServed / IsSpecialPurpose into the decision-tree type GolibsVerif.C06.D, and
// the networks enumerated in the two documentation comments into lists of
// GolibsVerif.C06.Pfx.  Everything is read from the current source with go/ast; any
// construct outside the small subset below is an error (a broken tie), never skipped.
//
// The [N]byte functions (N = 4 or 16, parameter p) are run by a symbolic executor
// (symexec.go, symval.go) in which only the bytes of p are symbolic.  Subset:
//
//	stmt  ::= return e,… | return | x = e | x op= e | x := e | var x [T] [= e] | x++ | x--
//	        | s.f = e | a[i] = e (local array, constant i) | {stmt*}
//	        | if [init;] bexpr {stmt*} [else …]
//	        | switch [init;] [e] { case e,… : stmt* … [default: stmt*] }   (no break/fallthrough)
//	        | for k, v := range e {…}     (e an array/slice of known length, or an integer)
//	        | for init; cond; post {…}    (cond must not depend on p)
//	        | break | continue            (unlabelled, of the innermost loop)
//	bexpr ::= constants | variables | (e) | !e | e && e | e || e
//	        | w ==,!= w' where at most one side depends on p  → conjunction of atoms (p[i] & m) == v
//	        | w <,<=,>,>= c  (w made of whole bytes of p and constants) → F.ge, lexicographic
//	        | string(p[a:b]) ==,!= "literal", array == array, bytes.Equal, bytes.HasPrefix
//	        | pfx.Contains(addr), slices.ContainsFunc(table, f)
//	        | g(p) (another func([N]byte) bool of the package on the same array: by name)
//	w     ::= p[i] | integer constants and concrete integer arithmetic | w &,|,^,&^ w' | ^w
//	        | w <<,>> c | T(w) for integer types T
//	        | binary.BigEndian/LittleEndian.Uint16/32/64(bytes)
//	        (two different bits of p are never combined by an operator)
//	values ::= integers, booleans, strings, arrays, slices, structs of these, function
//	        literals and functions/methods (value receiver) of the package — all inlined,
//	        no recursion — and package-level variables: unexported, never written or
//	        address-taken anywhere in the package, read from their initialisers
//	        (composite literals, append, calls of the package's own constructors)
//	netip ::= netip.MustParsePrefix("…"), netip.MustParseAddr("…"), netip.PrefixFrom(addr, n),
//	        Prefix.Contains/Addr/Bits/Masked/IsValid on concrete prefixes,
//	        netip.AddrFrom4(bytes), netip.AddrFrom16(bytes) (NOT unmapped, as in net/netip),
//	        Addr.Is4/Is6/Is4In6/IsValid/Unmap/As4/As16/AsSlice.
//	        pfx.Contains(a) is F.ff when the families differ (net/netip: "an IPv4 address
//	        will not match an IPv6 prefix; a 4in6 address will not match an IPv4 prefix"),
//	        else the term prefixF ⟨bytes, bits⟩ of Model/C06F.lean (prefixFAux at an offset
//	        when a is built from p[12:16] by Unmap).
//
// Branches on p become F.ite; loops over tables are unrolled; everything else is computed.
// The statements after an if/switch are translated once per branch, as before; branches
// that both fall through are merged at the end of a loop iteration when all their variables
// can be merged (booleans: if-then-else), and otherwise stay FORKED, so that loop counters,
// search bounds and indices are concrete on every path (a binary search over a table of
// n ranges has n+1 paths).  At most 4096 forks per function.
//
// Further forms (second round):
//
//	values ::= … | T.m (method expression) | v.m (method value, receiver bound) | f
//	        (function of the package) as arguments and variables; variadic functions;
//	        `if c then a else b` of two different concrete values of one type (vCase: the
//	        -1/0/+1 of a three-way comparison, an index returned by a search): every
//	        operator, conversion, field selection, index and call is applied arm by arm,
//	        and comparisons of it with constants are formulas again
//	stdlib ::= slices, sort, cmp are EXECUTED FROM THE SOURCE of the toolchain that builds
//	        the repository (stdsrc.go): slices.BinarySearchFunc/BinarySearch/IndexFunc/
//	        ContainsFunc/Contains/Index…, sort.Search/Find, cmp.Compare/Less, generic bodies
//	        included; bytes.Compare, slices.Sort/SortFunc/SortStableFunc and
//	        sort.Slice/SliceStable are modelled (symexec.go), min/max/make/copy are built in
//	init  ::= while a package-level initialiser is evaluated nothing is symbolic and slices
//	        are references as in Go (element writes, append within the capacity, copy, in-place
//	        sorting and merging, re-slicing up to the capacity); a finished initialiser's
//	        tables are frozen.  A slice-typed table may be mentioned only in code the
//	        executor runs, or under len/cap/range/index (checkAliases).
//	paths ::= every condition is simplified under what the path already assumes (texts of
//	        earlier conditions and their and/or/not parts; per byte of p an interval and
//	        known bits derived from the assumed atoms); a branch no address can reach is
//	        not executed.
//
// Subset of the dispatchers (param a of type netip.Addr):
//
//	stmt ::= if [a = a.Unmap();] cond {stmt*} [else …] | a = a.Unmap()
//	       | switch { case cond,… : stmt* … [default: stmt*] }
//	       | return true | return false | return g(a.As4()) | return g(a.As16())
//	cond ::= a.IsValid() | a.Is4() | a.Is6() | a.Is4In6() | !cond | cond && cond | cond || cond | (cond)
//
// `a = a.Unmap()` is translated (D.unmap), not skipped: it changes which leaf a 4in6 address
// reaches, and the dispatch obligations of Theorems/C06.lean then fail.

const subnetsPkgDir = "netutil"

var (
	subnetByteFuncs = []string{"isLocallyServedV4", "isLocallyServedV6", "isSpecialPurposeV4", "isSpecialPurposeV6"}
	subnetDispFuncs = []string{"IsLocallyServed", "IsSpecialPurpose"}
	subnetDocNames  = map[string]string{"IsLocallyServed": "locallyServedDoc", "IsSpecialPurpose": "specialPurposeDoc"}
)

type subnetsTr struct {
	fset  *token.FileSet
	decls map[string]*ast.FuncDecl
	// translated byte functions
	done    map[string]string // name -> Lean term
	width   map[string]int
	order   []string
	pending map[string]bool
	sx      *sx
	repo    string
}

func (t *subnetsTr) errf(n ast.Node, format string, a ...any) error {
	pos := t.fset.Position(n.Pos())
	return fmt.Errorf("%s:%d:%d: outside the translator's subset: %s", filepath.Base(pos.Filename), pos.Line, pos.Column, fmt.Sprintf(format, a...))
}

// ---------------------------------------------------------------- formulas (as Lean text)

const (
	fTT = "F.tt"
	fFF = "F.ff"
)

func fAtom(i, m, v int64) string {
	s := fmt.Sprintf("(F.atom %d %d %d)", i, m, v)
	fstruct[s] = fnode{op: 'a', i: int(i), m: int(m), v: int(v)}
	return s
}

func fGe(i, c int64) string {
	s := fmt.Sprintf("(F.ge %d %d)", i, c)
	fstruct[s] = fnode{op: 'g', i: int(i), v: int(c)}
	return s
}

// fnode records how a formula text was built (op '&', '|', '?' with the operand texts;
// 'a' = atom i m v, 'g' = ge i v), so that path conditions can be decomposed and formulas
// pruned without parsing the text back.
type fnode struct {
	op      byte
	a, b, c string
	i, m, v int
}

var fstruct = map[string]fnode{}

func fAnd(a, b string) string {
	s := "(F.and " + a + " " + b + ")"
	fstruct[s] = fnode{op: '&', a: a, b: b}
	return s
}

func fOr(a, b string) string {
	s := "(F.or " + a + " " + b + ")"
	fstruct[s] = fnode{op: '|', a: a, b: b}
	return s
}

func fIte(c, a, b string) string {
	s := "(F.ite " + c + " " + a + " " + b + ")"
	fstruct[s] = fnode{op: '?', a: c, b: a, c: b}
	return s
}
func fNot(a string) string { return fIte(a, fFF, fTT) }

// byteFunc translates the [N]byte predicate called name with the symbolic executor of
// symexec.go (memoised; predicates it calls on the same array come first).
func (t *subnetsTr) byteFunc(name string) error {
	if _, ok := t.done[name]; ok {
		return nil
	}
	fd := t.decls[name]
	if fd == nil {
		return fmt.Errorf("function %s.%s not found (renamed or removed?)", subnetsPkgDir, name)
	}
	if t.pending[name] {
		return t.errf(fd, "recursive call of %s", name)
	}
	t.pending[name] = true
	defer delete(t.pending, name)
	x := t.sx
	if x.dupFuncs[name] {
		return t.errf(fd, "%s is declared more than once", name)
	}
	if fd.Recv != nil || fd.Type.TypeParams != nil || fd.Body == nil {
		return t.errf(fd, "%s is a method, generic or body-less", name)
	}
	n, isPred := x.bytePredicate(fd)
	if !isPred {
		return t.errf(fd, "%s is not a func([4]byte) bool or func([16]byte) bool", name)
	}
	fo := x.info.Defs[fd.Name].(*types.Func)
	sig := fo.Type().(*types.Signature)
	pt := sig.Params().At(0).Type()
	arg := vSeq{typ: pt, array: true}
	for i := 0; i < n; i++ {
		arg.elems = append(arg.elems, symByte(i, pt.Underlying().(*types.Array).Elem()))
	}
	fb, err := x.declBody(fo, fd)
	if err != nil {
		return err
	}
	// the executor's state belongs to the function being translated
	saveP, saveN, saveS := x.param, x.n, x.stack
	x.param, x.n, x.stack = sig.Params().At(0), n, nil
	x.forks = 0
	res, err := x.call(fb, nil, []value{arg}, fd, nil)
	x.param, x.n, x.stack = saveP, saveN, saveS
	if err != nil {
		return err
	}
	b, isBool := res.(vBool)
	if !isBool {
		return t.errf(fd, "%s does not return a boolean", name)
	}
	t.done[name] = b.f
	t.width[name] = n
	t.order = append(t.order, name)
	return nil
}

// ---------------------------------------------------------------- dispatchers

type dispEnv struct {
	name  string
	param string
}

func (t *subnetsTr) dcond(env *dispEnv, e ast.Expr, th, el string) (string, error) {
	switch x := e.(type) {
	case *ast.ParenExpr:
		return t.dcond(env, x.X, th, el)
	case *ast.UnaryExpr:
		if x.Op != token.NOT {
			return "", t.errf(e, "unary operator %s", x.Op)
		}
		return t.dcond(env, x.X, el, th)
	case *ast.BinaryExpr:
		switch x.Op {
		case token.LAND:
			inner, err := t.dcond(env, x.Y, th, el)
			if err != nil {
				return "", err
			}
			return t.dcond(env, x.X, inner, el)
		case token.LOR:
			inner, err := t.dcond(env, x.Y, th, el)
			if err != nil {
				return "", err
			}
			return t.dcond(env, x.X, th, inner)
		}
		return "", t.errf(e, "operator %s in a dispatch condition", x.Op)
	case *ast.CallExpr:
		sel, isSel := x.Fun.(*ast.SelectorExpr)
		if !isSel || len(x.Args) != 0 {
			return "", t.errf(e, "dispatch condition is not a method call on the address")
		}
		id, isId := sel.X.(*ast.Ident)
		if !isId || id.Name != env.param {
			return "", t.errf(e, "method call on something other than the parameter %s", env.param)
		}
		conds := map[string]string{"IsValid": "Cond.isValid", "Is4": "Cond.is4", "Is6": "Cond.is6", "Is4In6": "Cond.is4In6"}
		c, known := conds[sel.Sel.Name]
		if !known {
			return "", t.errf(e, "netip.Addr method %s in a dispatch condition", sel.Sel.Name)
		}
		return "(D.ite " + c + " " + th + " " + el + ")", nil
	}
	return "", t.errf(e, "dispatch condition %T", e)
}

// dcondList is the disjunction of the expressions of one `case` clause.
func (t *subnetsTr) dcondList(env *dispEnv, list []ast.Expr, th, el string) (string, error) {
	res := el
	for k := len(list) - 1; k >= 0; k-- {
		var err error
		if res, err = t.dcond(env, list[k], th, res); err != nil {
			return "", err
		}
	}
	return res, nil
}

// isUnmapAssign recognises `a = a.Unmap()` for the parameter a.
func (t *subnetsTr) isUnmapAssign(env *dispEnv, s ast.Stmt) bool {
	as, ok := s.(*ast.AssignStmt)
	if !ok || as.Tok != token.ASSIGN || len(as.Lhs) != 1 || len(as.Rhs) != 1 {
		return false
	}
	if id, isID := as.Lhs[0].(*ast.Ident); !isID || id.Name != env.param {
		return false
	}
	call, isCall := as.Rhs[0].(*ast.CallExpr)
	if !isCall || len(call.Args) != 0 {
		return false
	}
	sel, isSel := call.Fun.(*ast.SelectorExpr)
	if !isSel || sel.Sel.Name != "Unmap" {
		return false
	}
	id, isID := sel.X.(*ast.Ident)
	return isID && id.Name == env.param
}

func (t *subnetsTr) dstmts(env *dispEnv, list []ast.Stmt, rest []ast.Stmt, end ast.Node) (string, error) {
	if len(list) == 0 {
		if len(rest) == 0 {
			return "", t.errf(end, "control reaches the end of %s without a return", env.name)
		}
		return t.dstmts(env, rest, nil, end)
	}
	s, tail := list[0], append(append([]ast.Stmt{}, list[1:]...), rest...)
	switch x := s.(type) {
	case *ast.BlockStmt:
		return t.dstmts(env, x.List, tail, end)
	case *ast.AssignStmt:
		if !t.isUnmapAssign(env, x) {
			return "", t.errf(s, "assignment other than %s = %s.Unmap() in a dispatcher", env.param, env.param)
		}
		// everything that runs afterwards sees the unmapped address
		inner, err := t.dstmts(env, tail, nil, end)
		if err != nil {
			return "", err
		}
		return "(D.unmap " + inner + ")", nil
	case *ast.IfStmt:
		if x.Init != nil {
			if !t.isUnmapAssign(env, x.Init) {
				return "", t.errf(x.Init, "if with an init statement other than %s = %s.Unmap()", env.param, env.param)
			}
			// `if a = a.Unmap(); c {…} else {…}; tail` is `a = a.Unmap(); if c {…} else {…}; tail`:
			// the assignment is to the parameter, not to a variable scoped to the if
			cp := *x
			cp.Init = nil
			inner, err := t.dstmts(env, append([]ast.Stmt{&cp}, tail...), nil, end)
			if err != nil {
				return "", err
			}
			return "(D.unmap " + inner + ")", nil
		}
		th, err := t.dstmts(env, x.Body.List, tail, end)
		if err != nil {
			return "", err
		}
		var elseList []ast.Stmt
		if x.Else != nil {
			elseList = []ast.Stmt{x.Else}
		}
		el, err := t.dstmts(env, elseList, tail, end)
		if err != nil {
			return "", err
		}
		return t.dcond(env, x.Cond, th, el)
	case *ast.SwitchStmt:
		if x.Init != nil || x.Tag != nil {
			return "", t.errf(s, "switch with an init statement or a tag in a dispatcher")
		}
		var deflt []ast.Stmt
		type arm struct {
			conds []ast.Expr
			body  []ast.Stmt
		}
		var arms []arm
		for _, cs := range x.Body.List {
			cc := cs.(*ast.CaseClause)
			var bad *ast.BranchStmt
			for _, bs := range cc.Body {
				ast.Inspect(bs, func(n ast.Node) bool {
					if br, isBr := n.(*ast.BranchStmt); isBr && bad == nil {
						bad = br
					}
					return true
				})
			}
			if bad != nil {
				return "", t.errf(bad, "%s in a switch", bad.Tok)
			}
			if cc.List == nil {
				deflt = cc.Body
				continue
			}
			arms = append(arms, arm{cc.List, cc.Body})
		}
		res, err := t.dstmts(env, deflt, tail, end)
		if err != nil {
			return "", err
		}
		for k := len(arms) - 1; k >= 0; k-- {
			body, err := t.dstmts(env, arms[k].body, tail, end)
			if err != nil {
				return "", err
			}
			if res, err = t.dcondList(env, arms[k].conds, body, res); err != nil {
				return "", err
			}
		}
		return res, nil
	case *ast.ReturnStmt:
		if len(x.Results) != 1 {
			return "", t.errf(s, "return with %d results", len(x.Results))
		}
		r := x.Results[0]
		if id, isId := r.(*ast.Ident); isId {
			switch id.Name {
			case "true":
				return "(D.ret true)", nil
			case "false":
				return "(D.ret false)", nil
			}
			return "", t.errf(r, "return of identifier %s", id.Name)
		}
		call, isCall := r.(*ast.CallExpr)
		if !isCall || len(call.Args) != 1 {
			return "", t.errf(r, "return value is not f(%s.As4()) / f(%s.As16())", env.param, env.param)
		}
		fn, isId := call.Fun.(*ast.Ident)
		if !isId {
			return "", t.errf(r, "callee is not a function of this package")
		}
		conv, isConv := call.Args[0].(*ast.CallExpr)
		if !isConv || len(conv.Args) != 0 {
			return "", t.errf(r, "argument is not %s.As4() / %s.As16()", env.param, env.param)
		}
		sel, isSel := conv.Fun.(*ast.SelectorExpr)
		if !isSel {
			return "", t.errf(r, "argument is not %s.As4() / %s.As16()", env.param, env.param)
		}
		if id, isId := sel.X.(*ast.Ident); !isId || id.Name != env.param {
			return "", t.errf(r, "conversion of something other than the parameter %s", env.param)
		}
		if err := t.byteFunc(fn.Name); err != nil {
			return "", err
		}
		switch {
		case sel.Sel.Name == "As4" && t.width[fn.Name] == 4:
			return "(D.on4 " + fn.Name + ")", nil
		case sel.Sel.Name == "As16" && t.width[fn.Name] == 16:
			return "(D.on16 " + fn.Name + ")", nil
		}
		return "", t.errf(r, "%s(%s.%s()): unknown conversion or array length mismatch", fn.Name, env.param, sel.Sel.Name)
	}
	return "", t.errf(s, "statement %T in a dispatcher", s)
}

func (t *subnetsTr) dispFunc(name string) (string, error) {
	fd := t.decls[name]
	if fd == nil {
		return "", fmt.Errorf("function %s.%s not found (renamed or removed?)", subnetsPkgDir, name)
	}
	if fd.Recv != nil || fd.Type.TypeParams != nil || fd.Body == nil {
		return "", t.errf(fd, "%s is a method, generic or body-less", name)
	}
	ps := fd.Type.Params.List
	if len(ps) != 1 || len(ps[0].Names) != 1 {
		return "", t.errf(fd, "%s must have exactly one parameter", name)
	}
	if sel, isSel := ps[0].Type.(*ast.SelectorExpr); !isSel || sel.Sel.Name != "Addr" {
		return "", t.errf(fd, "parameter of %s is not netip.Addr", name)
	} else if pk, isId := sel.X.(*ast.Ident); !isId || pk.Name != "netip" {
		return "", t.errf(fd, "parameter of %s is not netip.Addr", name)
	}
	rs := fd.Type.Results
	if rs == nil || len(rs.List) != 1 || len(rs.List[0].Names) > 1 {
		return "", t.errf(fd, "%s must have exactly one result", name)
	}
	if rt, isId := rs.List[0].Type.(*ast.Ident); !isId || rt.Name != "bool" {
		return "", t.errf(fd, "result of %s is not bool", name)
	}
	return t.dstmts(&dispEnv{name: name, param: ps[0].Names[0].Name}, fd.Body.List, nil, fd.Body)
}

// ---------------------------------------------------------------- documentation lists

var looksLikePrefix = regexp.MustCompile(`(?:\d+\.\d+\.\d+\.\d+|[0-9A-Fa-f]*:[0-9A-Fa-f:.]*)/\d+`)

// docPrefixes extracts the enumerated networks from a doc comment: every indented
// (code-block) line must start with a network in CIDR notation; prose lines must not
// mention one.
func (t *subnetsTr) docPrefixes(fd *ast.FuncDecl) ([]netip.Prefix, []string, error) {
	if fd.Doc == nil {
		return nil, nil, t.errf(fd, "%s has no documentation comment", fd.Name.Name)
	}
	var res []netip.Prefix
	var texts []string
	for _, c := range fd.Doc.List {
		if !strings.HasPrefix(c.Text, "//") {
			return nil, nil, t.errf(c, "block comment in the documentation of %s", fd.Name.Name)
		}
		line := strings.TrimPrefix(c.Text, "//")
		indented := strings.HasPrefix(line, "\t") || strings.HasPrefix(line, "  ")
		fields := strings.Fields(line)
		if !indented || len(fields) == 0 {
			if m := looksLikePrefix.FindString(line); m != "" && !strings.Contains(line, "://") {
				return nil, nil, t.errf(c, "network %q mentioned outside the indented list", m)
			}
			continue
		}
		p, err := netip.ParsePrefix(fields[0])
		if err != nil {
			return nil, nil, t.errf(c, "indented documentation line does not start with a network: %v", err)
		}
		if p.Addr().Is4In6() || p.Addr().Zone() != "" {
			return nil, nil, t.errf(c, "network %s is 4in6 or zoned", p)
		}
		res = append(res, p)
		texts = append(texts, strings.Join(fields, " "))
	}
	if len(res) == 0 {
		return nil, nil, t.errf(fd, "the documentation of %s enumerates no networks", fd.Name.Name)
	}
	return res, texts, nil
}

// ---------------------------------------------------------------- driver

func genSubnets(repo string) (string, error) {
	pkg, info, fset, files, err := typeCheckDir(filepath.Join(repo, subnetsPkgDir))
	if err != nil {
		return "", err
	}
	t := &subnetsTr{fset: fset, decls: map[string]*ast.FuncDecl{}, done: map[string]string{},
		width: map[string]int{}, pending: map[string]bool{}, repo: repo}
	for _, f := range files {
		for _, d := range f.Decls {
			fd, ok := d.(*ast.FuncDecl)
			if !ok || fd.Recv != nil {
				continue
			}
			if prev := t.decls[fd.Name.Name]; prev != nil {
				// build-tagged variants of the functions we translate would make the
				// choice of source ambiguous
				for _, n := range append(append([]string{}, subnetByteFuncs...), subnetDispFuncs...) {
					if n == fd.Name.Name {
						return "", t.errf(fd, "%s is declared more than once", n)
					}
				}
			}
			t.decls[fd.Name.Name] = fd
		}
	}
	t.sx = newSx(t, pkg, info, files)
	var b strings.Builder
	b.WriteString("import GolibsVerif.Model.C06F\n\nnamespace GolibsVerif.Gen.Subnets\nopen GolibsVerif.C06\n\n")
	for _, n := range subnetByteFuncs {
		if err := t.byteFunc(n); err != nil {
			return "", err
		}
	}
	var disp []string
	for _, n := range subnetDispFuncs {
		d, err := t.dispFunc(n)
		if err != nil {
			return "", err
		}
		disp = append(disp, d)
	}
	if err := t.sx.checkAliases(); err != nil {
		return "", err
	}
	for _, n := range t.order {
		pos := t.fset.Position(t.decls[n].Pos())
		fmt.Fprintf(&b, "/-- `%s.%s` (%s:%d), parameter `[%d]byte` -/\ndef %s : F :=\n  %s\n\n", subnetsPkgDir, n,
			filepath.Base(pos.Filename), pos.Line, t.width[n], n, t.done[n])
		fmt.Fprintf(&b, "def %s.width : Nat := %d\n\n", n, t.width[n])
	}
	for i, n := range subnetDispFuncs {
		pos := t.fset.Position(t.decls[n].Pos())
		fmt.Fprintf(&b, "/-- `%s.%s` (%s:%d) -/\ndef %s : D :=\n  %s\n\n", subnetsPkgDir, n, filepath.Base(pos.Filename), pos.Line, n, disp[i])
	}
	for _, n := range subnetDispFuncs {
		ps, texts, err := t.docPrefixes(t.decls[n])
		if err != nil {
			return "", err
		}
		fmt.Fprintf(&b, "/-- the networks enumerated in the documentation of `%s.%s` -/\ndef %s : List Pfx := [\n", subnetsPkgDir, n, subnetDocNames[n])
		for i, p := range ps {
			var bs []string
			for _, x := range p.Addr().AsSlice() {
				bs = append(bs, strconv.Itoa(int(x)))
			}
			sep := ","
			if i == len(ps)-1 {
				sep = ""
			}
			fmt.Fprintf(&b, "  ⟨[%s], %d⟩%s  -- %s\n", strings.Join(bs, ", "), p.Bits(), sep, texts[i])
		}
		b.WriteString("]\n\n")
	}
	b.WriteString("end GolibsVerif.Gen.Subnets\n")
	return b.String(), nil
}

func init() { translators["Subnets"] = genSubnets }
