package main

import (
	"fmt"
	"go/ast"
	"go/token"
	"go/types"
	"sort"
	"strings"
)

// nfinterp.go: the symbolic interpreter of nfskel.go (continuation-passing: the code that
// follows a statement is a Go closure which is run once per control path).

// ---------------------------------------------------------------------------------------
// events

func sqList(vs []sqVal) []any {
	var out []any
	for i, v := range vs {
		if i > 0 {
			out = append(out, ", ")
		}
		out = append(out, v)
	}
	return out
}

func sqRes(id, idx, n int) sqVal { return sqResV{id, idx, n} }

func (p *sqPkg) event(st sqState, check []sqVal, k func(st sqState, id int) []*sqNode, parts ...any) []*sqNode {
	id := st.seq
	st.seq++
	n := &sqNode{kind: sqEvent, parts: append([]any{fmt.Sprintf("#%d ", id)}, parts...)}
	p.escape(n, st, check)
	return append([]*sqNode{n}, k(st, id)...)
}

func (p *sqPkg) terminal(st sqState, check []sqVal, parts ...any) []*sqNode {
	n := &sqNode{kind: sqEvent, parts: parts}
	p.escape(n, st, check)
	return []*sqNode{n}
}

// escape looks at the values that leave the interpreter's sight through an event: closures
// get their bodies attached to the event (nothing that may contain a synchronisation
// operation is skipped); loaded objects with a known shape and tracked maps must not escape.
func (p *sqPkg) escape(n *sqNode, st sqState, vals []sqVal) {
	seen := map[*sqObjV]bool{}
	var walk func(v sqVal)
	walk = func(v sqVal) {
		switch x := v.(type) {
		case *sqObjV:
			if seen[x] {
				return
			}
			seen[x] = true
			if x.lit != nil {
				n.closures = append(n.closures, p.closureBody(x, st))
				return
			}
			for _, f := range x.set {
				walk(x.fields[f])
			}
		case sqOpV:
			for _, a := range x.args {
				walk(a)
			}
		case sqFieldV:
			if p.final && p.shapes[x.fld] != nil {
				panic(sqErr{"the sync.Map field whose contents are tracked escapes into a call or result"})
			}
			walk(x.base)
		case *sqLoadedV:
			if f, ok := x.from.(sqFieldV); ok && p.final && p.shapes[f.fld] != nil {
				panic(sqErr{"an object loaded from the tracked sync.Map field escapes into a call or result"})
			}
		case sqSlotV:
			if _, isL := x.base.(*sqLoadedV); !isL {
				walk(x.base)
			}
		case *sqCellV:
			walk(x.init)
		case sqFuncV:
			if p.decls[x.fn] != nil {
				panic(sqErr{"the function " + x.fn.Name() + " of the analysed package is passed around as a value (its body would be skipped)"})
			}
		case sqStoreV:
			// the object itself is inlined where loaded values are used; what it contains
			// is looked at here
			if x.obj.lit == nil {
				for _, f := range x.obj.set {
					walk(x.obj.fields[f])
				}
			} else if sh := p.newShapes[x.fld]; sh != nil {
				for _, f := range sh.free {
					walk(sh.init[f])
				}
			}
		}
	}
	for _, v := range vals {
		walk(v)
	}
}

// closureBody interprets the body of a function literal that is handed to code the
// interpreter does not see (argument of an event, result of the analysed function).
func (p *sqPkg) closureBody(o *sqObjV, st sqState) []*sqNode {
	for _, s := range o.stack {
		if s == any(o.lit) {
			p.failf(o.lit, "recursive function literal")
		}
	}
	env := o.env.child()
	sig := p.info.Types[o.lit].Type.(*types.Signature)
	for i := 0; i < sig.Params().Len(); i++ {
		if v := sig.Params().At(i); v.Name() != "" && v.Name() != "_" {
			p.declare(env, v, sqOpV{fmt.Sprintf("cparam%d", i), nil})
		}
	}
	c := &sqCtx{stack: append(append([]any{}, o.stack...), o.lit)}
	for i := 0; i < sig.Results().Len(); i++ {
		if v := sig.Results().At(i); v.Name() != "" && v.Name() != "_" {
			p.declare(env, v, p.zero(v.Type()))
			c.named = append(c.named, v)
		}
	}
	c.ret = func(st sqState, vs []sqVal) []*sqNode {
		return p.terminal(st, vs, append([]any{"return "}, sqList(vs)...)...)
	}
	sub := sqState{env: env, seq: st.seq}
	return p.execList(o.lit.Body.List, sub, c, func(st sqState) []*sqNode { return p.fallOff(st, c) })
}

func (p *sqPkg) fallOff(st sqState, c *sqCtx) []*sqNode {
	if len(c.named) == 0 {
		return c.ret(st, nil)
	}
	return p.readVars(c.named, st, c.ret)
}

func (p *sqPkg) readVars(vars []*types.Var, st sqState, k sqVsK) []*sqNode {
	var out []sqVal
	var step func(i int, st sqState) []*sqNode
	step = func(i int, st sqState) []*sqNode {
		if i == len(vars) {
			return k(st, out[:len(vars):len(vars)])
		}
		return p.readVar(vars[i], nil, st, func(st sqState, v sqVal) []*sqNode {
			out = append(out[:i:i], v)
			return step(i+1, st)
		})
	}
	return step(0, st)
}

// ---------------------------------------------------------------------------------------
// variables

func (p *sqPkg) declare(env *sqEnv, v *types.Var, init sqVal) {
	v = v.Origin()
	if p.captured[v] && p.mutable[v] {
		env.m[v] = &sqCellV{init: init}
		return
	}
	env.m[v] = init
}

func sqIsLoc(v sqVal) bool {
	switch x := v.(type) {
	case *sqCellV:
		return true
	case sqSlotV:
		return x.cell
	}
	return false
}

func (p *sqPkg) readVar(v *types.Var, at ast.Node, st sqState, k sqVK) []*sqNode {
	v = v.Origin()
	if v.Parent() == p.pkg.Scope() || (v.Pkg() != nil && v.Pkg() != p.pkg && !v.IsField()) {
		// package-level variable: shared state
		return p.event(st, nil, func(st sqState, id int) []*sqNode { return k(st, sqRes(id, 0, 1)) },
			"loadGlobal "+sqObjName(p, v))
	}
	x, ok := st.env.get(v)
	if !ok {
		p.failf(at, "variable %s has no value (declared in code the interpreter did not run)", v.Name())
	}
	if sqIsLoc(x) {
		return p.event(st, nil, func(st sqState, id int) []*sqNode { return k(st, sqRes(id, 0, 1)) }, "load ", x)
	}
	return k(st, x)
}

func sqObjName(p *sqPkg, o types.Object) string {
	if o.Pkg() != nil && o.Pkg() != p.pkg {
		return o.Pkg().Name() + "." + o.Name()
	}
	return o.Name()
}

func (p *sqPkg) writeVar(v *types.Var, val sqVal, at ast.Node, st sqState, k sqK) []*sqNode {
	v = v.Origin()
	if v.Parent() == p.pkg.Scope() || (v.Pkg() != nil && v.Pkg() != p.pkg) {
		return p.event(st, []sqVal{val}, func(st sqState, id int) []*sqNode { return k(st) },
			"storeGlobal "+sqObjName(p, v)+" <- ", val)
	}
	x, ok := st.env.get(v)
	if ok && sqIsLoc(x) {
		return p.event(st, []sqVal{val}, func(st sqState, id int) []*sqNode { return k(st) }, "store ", x, " <- ", val)
	}
	if !ok {
		p.failf(at, "assignment to variable %s that has no value", v.Name())
	}
	st.env.m[v] = val
	return k(st)
}

// ---------------------------------------------------------------------------------------
// statements

func (p *sqPkg) execList(ss []ast.Stmt, st sqState, c *sqCtx, k sqK) []*sqNode {
	if len(ss) == 0 {
		return k(st)
	}
	return p.execStmt(ss[0], st, c, func(st sqState) []*sqNode { return p.execList(ss[1:], st, c, k) })
}

type sqTarget struct {
	blank bool
	v     *types.Var
	def   bool
	loc   sqVal // field location
	pure  bool  // field of a private, not tracked object: plain update (not used)
}

func (p *sqPkg) target(e ast.Expr, define bool, st sqState, c *sqCtx, k func(st sqState, t sqTarget) []*sqNode) []*sqNode {
	switch x := ast.Unparen(e).(type) {
	case *ast.Ident:
		if x.Name == "_" {
			return k(st, sqTarget{blank: true})
		}
		if define {
			if v, ok := p.info.Defs[x].(*types.Var); ok {
				return k(st, sqTarget{v: v, def: true})
			}
		}
		v, ok := p.info.Uses[x].(*types.Var)
		if !ok {
			p.failf(e, "assignment target")
		}
		return k(st, sqTarget{v: v})
	case *ast.SelectorExpr:
		sel := p.info.Selections[x]
		if sel == nil || sel.Kind() != types.FieldVal {
			if v, ok := p.info.Uses[x.Sel].(*types.Var); ok && sel == nil {
				return k(st, sqTarget{v: v}) // pkg.Var
			}
			p.failf(e, "assignment target")
		}
		bt := p.info.Types[x.X].Type
		if _, isPtr := types.Unalias(bt).Underlying().(*types.Pointer); !isPtr {
			p.failf(e, "assignment to a field of a struct VALUE (copy semantics are not modelled)")
		}
		return p.eval(x.X, st, c, func(st sqState, base sqVal) []*sqNode {
			return p.fieldPath(base, bt, sel.Index(), true, x, st, func(st sqState, loc sqVal) []*sqNode {
				return k(st, sqTarget{loc: loc})
			})
		})
	}
	p.failf(e, "assignment through %T", e)
	return nil
}

func (p *sqPkg) assignTo(t sqTarget, val sqVal, at ast.Node, st sqState, k sqK) []*sqNode {
	switch {
	case t.blank:
		return k(st)
	case t.loc != nil:
		return p.event(st, []sqVal{val}, func(st sqState, id int) []*sqNode { return k(st) }, "store ", t.loc, " <- ", val)
	case t.def:
		p.declare(st.env, t.v, val)
		return k(st)
	}
	return p.writeVar(t.v, val, at, st, k)
}

func (p *sqPkg) execStmt(s ast.Stmt, st sqState, c *sqCtx, k sqK) []*sqNode {
	switch x := s.(type) {
	case *ast.EmptyStmt:
		return k(st)
	case *ast.BlockStmt:
		return p.execList(x.List, st, c, k)
	case *ast.ExprStmt:
		return p.evalN(x.X, -1, st, c, func(st sqState, _ []sqVal) []*sqNode { return k(st) })
	case *ast.SendStmt:
		return p.eval(x.Chan, st, c, func(st sqState, ch sqVal) []*sqNode {
			return p.eval(x.Value, st, c, func(st sqState, v sqVal) []*sqNode {
				return p.event(st, []sqVal{v}, func(st sqState, id int) []*sqNode { return k(st) }, "send ", ch, " <- ", v)
			})
		})
	case *ast.IncDecStmt:
		op := "+"
		if x.Tok == token.DEC {
			op = "-"
		}
		return p.target(x.X, false, st, c, func(st sqState, t sqTarget) []*sqNode {
			return p.eval(x.X, st, c, func(st sqState, v sqVal) []*sqNode {
				return p.assignTo(t, sqOpV{op, []sqVal{v, sqConstV{"1"}}}, x, st, k)
			})
		})
	case *ast.AssignStmt:
		return p.execAssign(x, st, c, k)
	case *ast.DeclStmt:
		gd, ok := x.Decl.(*ast.GenDecl)
		if !ok {
			p.failf(x, "declaration")
		}
		if gd.Tok == token.TYPE || gd.Tok == token.CONST {
			return k(st)
		}
		var specs func(i int, st sqState) []*sqNode
		specs = func(i int, st sqState) []*sqNode {
			if i == len(gd.Specs) {
				return k(st)
			}
			vs := gd.Specs[i].(*ast.ValueSpec)
			bind := func(st sqState, vals []sqVal) []*sqNode {
				for j, n := range vs.Names {
					if n.Name == "_" {
						continue
					}
					v := p.info.Defs[n].(*types.Var)
					var val sqVal = p.zero(v.Type())
					if vals != nil {
						val = vals[j]
					}
					p.declare(st.env, v, val)
				}
				return specs(i+1, st)
			}
			if len(vs.Values) == 0 {
				return bind(st, nil)
			}
			if len(vs.Values) == 1 && len(vs.Names) > 1 {
				return p.evalN(vs.Values[0], len(vs.Names), st, c, bind)
			}
			return p.evalList(vs.Values, st, c, bind)
		}
		return specs(0, st)
	case *ast.ReturnStmt:
		if len(x.Results) == 0 {
			return p.fallOff(st, c)
		}
		if len(x.Results) == 1 {
			return p.evalN(x.Results[0], -2, st, c, c.ret)
		}
		return p.evalList(x.Results, st, c, c.ret)
	case *ast.IfStmt:
		run := func(st sqState) []*sqNode {
			return p.evalCond(x.Cond, st, c,
				func(st sqState) []*sqNode { return p.execList(x.Body.List, st, c, k) },
				func(st sqState) []*sqNode {
					if x.Else == nil {
						return k(st)
					}
					return p.execStmt(x.Else, st, c, k)
				})
		}
		if x.Init != nil {
			return p.execStmt(x.Init, st, c, run)
		}
		return run(st)
	case *ast.SwitchStmt:
		return p.execSwitch(x, st, c, k)
	case *ast.SelectStmt:
		return p.execSelect(x, st, c, k)
	case *ast.BranchStmt:
		if x.Tok == token.BREAK && x.Label == nil && c.brk != nil {
			return c.brk(st)
		}
		p.failf(x, "%s", x.Tok)
	}
	p.failf(s, "statement %T", s)
	return nil
}

func (p *sqPkg) execAssign(x *ast.AssignStmt, st sqState, c *sqCtx, k sqK) []*sqNode {
	define := x.Tok == token.DEFINE
	if x.Tok != token.ASSIGN && !define {
		// x op= e
		op := strings.TrimSuffix(x.Tok.String(), "=")
		return p.target(x.Lhs[0], false, st, c, func(st sqState, t sqTarget) []*sqNode {
			return p.eval(x.Lhs[0], st, c, func(st sqState, cur sqVal) []*sqNode {
				return p.eval(x.Rhs[0], st, c, func(st sqState, v sqVal) []*sqNode {
					return p.assignTo(t, sqOpV{op, []sqVal{cur, v}}, x, st, k)
				})
			})
		})
	}
	targets := make([]sqTarget, 0, len(x.Lhs))
	var lhs func(i int, st sqState) []*sqNode
	store := func(st sqState, vals []sqVal) []*sqNode {
		ts := targets[:len(x.Lhs):len(x.Lhs)]
		var step func(i int, st sqState) []*sqNode
		step = func(i int, st sqState) []*sqNode {
			if i == len(ts) {
				return k(st)
			}
			return p.assignTo(ts[i], vals[i], x, st, func(st sqState) []*sqNode { return step(i+1, st) })
		}
		return step(0, st)
	}
	lhs = func(i int, st sqState) []*sqNode {
		if i == len(x.Lhs) {
			if len(x.Rhs) == 1 && len(x.Lhs) > 1 {
				return p.evalN(x.Rhs[0], len(x.Lhs), st, c, store)
			}
			return p.evalList(x.Rhs, st, c, store)
		}
		return p.target(x.Lhs[i], define, st, c, func(st sqState, t sqTarget) []*sqNode {
			targets = append(targets[:i:i], t)
			return lhs(i+1, st)
		})
	}
	return lhs(0, st)
}

func (p *sqPkg) execSwitch(x *ast.SwitchStmt, st sqState, c *sqCtx, k sqK) []*sqNode {
	run := func(st sqState, tag sqVal) []*sqNode {
		c2 := *c
		c2.brk = k
		var deflt *ast.CaseClause
		var clauses []*ast.CaseClause
		for _, s := range x.Body.List {
			cc := s.(*ast.CaseClause)
			for _, b := range cc.Body {
				if br, ok := b.(*ast.BranchStmt); ok && br.Tok == token.FALLTHROUGH {
					p.failf(br, "fallthrough")
				}
			}
			if cc.List == nil {
				deflt = cc
			} else {
				clauses = append(clauses, cc)
			}
		}
		var try func(i, j int, st sqState) []*sqNode
		try = func(i, j int, st sqState) []*sqNode {
			if i == len(clauses) {
				if deflt != nil {
					return p.execList(deflt.Body, st, &c2, k)
				}
				return k(st)
			}
			cc := clauses[i]
			if j == len(cc.List) {
				return try(i+1, 0, st)
			}
			hit := func(st sqState) []*sqNode { return p.execList(cc.Body, st, &c2, k) }
			miss := func(st sqState) []*sqNode { return try(i, j+1, st) }
			if tag == nil {
				return p.evalCond(cc.List[j], st, c, hit, miss)
			}
			return p.eval(cc.List[j], st, c, func(st sqState, v sqVal) []*sqNode {
				return p.branch(p.mkEq(tag, v), st, hit, miss)
			})
		}
		return try(0, 0, st)
	}
	body := func(st sqState) []*sqNode {
		if x.Tag == nil {
			return run(st, nil)
		}
		return p.eval(x.Tag, st, c, run)
	}
	if x.Init != nil {
		return p.execStmt(x.Init, st, c, body)
	}
	return body(st)
}

func (p *sqPkg) execSelect(x *ast.SelectStmt, st sqState, c *sqCtx, k sqK) []*sqNode {
	type clause struct {
		cc      *ast.CommClause
		kind    string
		ch, val sqVal
		lhs     []ast.Expr
		define  bool
	}
	cls := make([]clause, 0, len(x.Body.List))
	var build func(i int, st sqState) []*sqNode
	finish := func(st sqState) []*sqNode {
		all := cls[:len(x.Body.List):len(x.Body.List)]
		id := st.seq
		st.seq++
		n := &sqNode{kind: sqSelect, parts: []any{fmt.Sprintf("#%d select{", id)}}
		c2 := *c
		c2.brk = k
		for _, cl := range all {
			cs := &sqCase{}
			sub := st.fork()
			after := func(st sqState) []*sqNode { return p.execList(cl.cc.Body, st, &c2, k) }
			switch cl.kind {
			case "default":
				cs.parts = []any{"default"}
				cs.body = after(sub)
			case "send":
				cs.parts = []any{"case send ", cl.ch, " <- ", cl.val}
				p.escape(n, st, []sqVal{cl.val})
				cs.body = after(sub)
			case "recv":
				cs.parts = []any{"case recv ", cl.ch}
				vals := []sqVal{sqRes(id, 0, 2), sqRes(id, 1, 2)}
				var bind func(j int, st sqState) []*sqNode
				bind = func(j int, st sqState) []*sqNode {
					if j == len(cl.lhs) {
						return after(st)
					}
					return p.target(cl.lhs[j], cl.define, st, c, func(st sqState, t sqTarget) []*sqNode {
						return p.assignTo(t, vals[j], cl.cc, st, func(st sqState) []*sqNode { return bind(j+1, st) })
					})
				}
				cs.body = bind(0, sub)
			}
			n.cases = append(n.cases, cs)
		}
		return []*sqNode{n}
	}
	build = func(i int, st sqState) []*sqNode {
		if i == len(x.Body.List) {
			return finish(st)
		}
		cc := x.Body.List[i].(*ast.CommClause)
		add := func(st sqState, cl clause) []*sqNode {
			cl.cc = cc
			cls = append(cls[:i:i], cl)
			return build(i+1, st)
		}
		recvOf := func(e ast.Expr) *ast.UnaryExpr {
			u, ok := ast.Unparen(e).(*ast.UnaryExpr)
			if !ok || u.Op != token.ARROW {
				p.failf(cc, "select clause")
			}
			return u
		}
		switch comm := cc.Comm.(type) {
		case nil:
			return add(st, clause{kind: "default"})
		case *ast.SendStmt:
			return p.eval(comm.Chan, st, c, func(st sqState, ch sqVal) []*sqNode {
				return p.eval(comm.Value, st, c, func(st sqState, v sqVal) []*sqNode {
					return add(st, clause{kind: "send", ch: ch, val: v})
				})
			})
		case *ast.ExprStmt:
			return p.eval(recvOf(comm.X).X, st, c, func(st sqState, ch sqVal) []*sqNode {
				return add(st, clause{kind: "recv", ch: ch})
			})
		case *ast.AssignStmt:
			if len(comm.Rhs) != 1 || len(comm.Lhs) > 2 {
				p.failf(cc, "select clause")
			}
			return p.eval(recvOf(comm.Rhs[0]).X, st, c, func(st sqState, ch sqVal) []*sqNode {
				return add(st, clause{kind: "recv", ch: ch, lhs: comm.Lhs, define: comm.Tok == token.DEFINE})
			})
		}
		p.failf(cc, "select clause")
		return nil
	}
	return build(0, st)
}

// ---------------------------------------------------------------------------------------
// conditions

func (p *sqPkg) mkEq(a, b sqVal) sqVal {
	sa, sb := p.valStr(a), p.valStr(b)
	if sa == sb {
		if _, ok := a.(sqConstV); ok {
			return sqTrue
		}
	}
	if ca, ok := a.(sqConstV); ok {
		if cb, ok := b.(sqConstV); ok && ca != cb && ca.s != "nil" && cb.s != "nil" {
			return sqFalse
		}
	}
	if sb < sa {
		a, b = b, a
	}
	return sqOpV{"==", []sqVal{a, b}}
}

func (p *sqPkg) branch(v sqVal, st sqState, kT, kF sqK) []*sqNode {
	if v == sqVal(sqTrue) {
		return kT(st)
	}
	if v == sqVal(sqFalse) {
		return kF(st)
	}
	if o, ok := v.(sqOpV); ok && o.op == "!" {
		return p.branch(o.args[0], st, kF, kT)
	}
	n := &sqNode{kind: sqIf, cond: v}
	n.thenN = kT(st.fork())
	n.elseN = kF(st.fork())
	return []*sqNode{n}
}

func (p *sqPkg) evalCond(e ast.Expr, st sqState, c *sqCtx, kT, kF sqK) []*sqNode {
	switch x := ast.Unparen(e).(type) {
	case *ast.UnaryExpr:
		if x.Op == token.NOT {
			return p.evalCond(x.X, st, c, kF, kT)
		}
	case *ast.BinaryExpr:
		if x.Op == token.LAND {
			return p.evalCond(x.X, st, c, func(st sqState) []*sqNode { return p.evalCond(x.Y, st, c, kT, kF) }, kF)
		}
		if x.Op == token.LOR {
			return p.evalCond(x.X, st, c, kT, func(st sqState) []*sqNode { return p.evalCond(x.Y, st, c, kT, kF) })
		}
	}
	return p.eval(e, st, c, func(st sqState, v sqVal) []*sqNode { return p.branch(v, st, kT, kF) })
}

// ---------------------------------------------------------------------------------------
// expressions

func (p *sqPkg) evalList(es []ast.Expr, st sqState, c *sqCtx, k sqVsK) []*sqNode {
	out := make([]sqVal, 0, len(es))
	var step func(i int, st sqState) []*sqNode
	step = func(i int, st sqState) []*sqNode {
		if i == len(es) {
			return k(st, out[:len(es):len(es)])
		}
		return p.eval(es[i], st, c, func(st sqState, v sqVal) []*sqNode {
			out = append(out[:i:i], v)
			return step(i+1, st)
		})
	}
	return step(0, st)
}

func (p *sqPkg) eval(e ast.Expr, st sqState, c *sqCtx, k sqVK) []*sqNode {
	return p.evalN(e, 1, st, c, func(st sqState, vs []sqVal) []*sqNode {
		if len(vs) != 1 {
			p.failf(e, "expression with %d values where one is needed", len(vs))
		}
		return k(st, vs[0])
	})
}

// evalN evaluates e for n values (n = 2 selects the comma-ok forms); n = -1: a statement,
// any number of values; n = -2: operand of `return`, as many values as e has.
func (p *sqPkg) evalN(e ast.Expr, n int, st sqState, c *sqCtx, k sqVsK) []*sqNode {
	one := func(st sqState, v sqVal) []*sqNode { return k(st, []sqVal{v}) }
	if tv, ok := p.info.Types[e]; ok && tv.Value != nil {
		return one(st, sqConstV{tv.Value.ExactString()})
	}
	switch x := e.(type) {
	case *ast.ParenExpr:
		return p.evalN(x.X, n, st, c, k)
	case *ast.BasicLit:
		return one(st, sqConstV{x.Value})
	case *ast.Ident:
		switch o := p.info.Uses[x].(type) {
		case *types.Nil:
			return one(st, sqConstV{"nil"})
		case *types.Var:
			return p.readVar(o, x, st, one)
		case *types.Func:
			return one(st, sqFuncV{o.Origin()})
		}
		p.failf(x, "identifier %s", x.Name)
	case *ast.FuncLit:
		return one(st, &sqObjV{lit: x, env: st.env, stack: c.stack})
	case *ast.CompositeLit:
		return p.evalComposite(x, false, st, c, one)
	case *ast.SelectorExpr:
		sel := p.info.Selections[x]
		if sel == nil { // qualified identifier
			switch o := p.info.Uses[x.Sel].(type) {
			case *types.Var:
				return p.readVar(o, x, st, one)
			case *types.Func:
				return one(st, sqFuncV{o})
			}
			p.failf(x, "qualified identifier")
		}
		if sel.Kind() != types.FieldVal {
			p.failf(x, "method value")
		}
		bt := p.info.Types[x.X].Type
		return p.eval(x.X, st, c, func(st sqState, base sqVal) []*sqNode {
			return p.fieldPath(base, bt, sel.Index(), false, x, st, one)
		})
	case *ast.StarExpr:
		p.failf(x, "pointer dereference")
	case *ast.UnaryExpr:
		switch x.Op {
		case token.AND:
			if cl, ok := ast.Unparen(x.X).(*ast.CompositeLit); ok {
				return p.evalComposite(cl, true, st, c, one)
			}
			p.failf(x, "address of a variable")
		case token.ARROW:
			return p.eval(x.X, st, c, func(st sqState, ch sqVal) []*sqNode {
				return p.event(st, nil, func(st sqState, id int) []*sqNode {
					if n == 2 {
						return k(st, []sqVal{sqRes(id, 0, 2), sqRes(id, 1, 2)})
					}
					return one(st, sqRes(id, 0, 2))
				}, "recv ", ch)
			})
		case token.NOT:
			return p.eval(x.X, st, c, func(st sqState, v sqVal) []*sqNode { return one(st, sqNot(v)) })
		}
		return p.eval(x.X, st, c, func(st sqState, v sqVal) []*sqNode { return one(st, sqOpV{x.Op.String(), []sqVal{v}}) })
	case *ast.BinaryExpr:
		if x.Op == token.LAND || x.Op == token.LOR {
			return p.evalCond(x, st, c,
				func(st sqState) []*sqNode { return one(st, sqTrue) },
				func(st sqState) []*sqNode { return one(st, sqFalse) })
		}
		return p.eval(x.X, st, c, func(st sqState, a sqVal) []*sqNode {
			return p.eval(x.Y, st, c, func(st sqState, b sqVal) []*sqNode {
				switch x.Op {
				case token.EQL:
					return one(st, p.mkEq(a, b))
				case token.NEQ:
					return one(st, sqNot(p.mkEq(a, b)))
				}
				return one(st, sqOpV{x.Op.String(), []sqVal{a, b}})
			})
		})
	case *ast.TypeAssertExpr:
		if x.Type == nil {
			p.failf(x, "type switch")
		}
		return p.eval(x.X, st, c, func(st sqState, v sqVal) []*sqNode {
			if l, ok := v.(*sqLoadedV); ok {
				if sh := p.shapeOf(l); sh != nil {
					_, isSig := types.Unalias(p.info.Types[x.Type].Type).Underlying().(*types.Signature)
					if isSig != (sh.obj.lit != nil) {
						p.failf(x, "type assertion on a loaded object does not fit what is stored")
					}
					if n == 2 {
						return k(st, []sqVal{v, sqTrue})
					}
					return one(st, v)
				}
			}
			a := sqOpV{"assert " + p.typeStr(p.info.Types[x.Type].Type), []sqVal{v}}
			if n == 2 {
				return k(st, []sqVal{a, sqOpV{"assertOk " + p.typeStr(p.info.Types[x.Type].Type), []sqVal{v}}})
			}
			return one(st, a)
		})
	case *ast.IndexExpr, *ast.IndexListExpr:
		var inner ast.Expr
		if ie, ok := x.(*ast.IndexExpr); ok {
			inner = ie.X
		} else {
			inner = x.(*ast.IndexListExpr).X
		}
		if _, isSig := p.info.Types[inner].Type.(*types.Signature); isSig {
			return p.evalN(inner, n, st, c, k) // instantiation of a generic function
		}
		ie := x.(*ast.IndexExpr)
		if _, isMap := types.Unalias(p.info.Types[ie.X].Type).Underlying().(*types.Map); isMap {
			return p.eval(ie.X, st, c, func(st sqState, m sqVal) []*sqNode {
				return p.eval(ie.Index, st, c, func(st sqState, i sqVal) []*sqNode {
					return p.event(st, []sqVal{i}, func(st sqState, id int) []*sqNode {
						if n == 2 {
							return k(st, []sqVal{sqRes(id, 0, 2), sqRes(id, 1, 2)})
						}
						return one(st, sqRes(id, 0, 2))
					}, "mapIndex ", m, "[", i, "]")
				})
			})
		}
		return p.eval(ie.X, st, c, func(st sqState, a sqVal) []*sqNode {
			return p.eval(ie.Index, st, c, func(st sqState, i sqVal) []*sqNode {
				return one(st, sqOpV{"index", []sqVal{a, i}})
			})
		})
	case *ast.SliceExpr:
		return p.evalList(sqNonNil(x.X, x.Low, x.High, x.Max), st, c, func(st sqState, vs []sqVal) []*sqNode {
			return one(st, sqOpV{"slice", vs})
		})
	case *ast.CallExpr:
		return p.evalCall(x, n, st, c, k)
	}
	p.failf(e, "expression %T", e)
	return nil
}

func sqNonNil(es ...ast.Expr) []ast.Expr {
	var out []ast.Expr
	for _, e := range es {
		if e != nil {
			out = append(out, e)
		}
	}
	return out
}

func (p *sqPkg) evalComposite(x *ast.CompositeLit, ptr bool, st sqState, c *sqCtx, k sqVK) []*sqNode {
	t := p.info.Types[x].Type
	stt, isStruct := types.Unalias(t).Underlying().(*types.Struct)
	if !isStruct {
		var es []ast.Expr
		for _, el := range x.Elts {
			if kv, ok := el.(*ast.KeyValueExpr); ok {
				if _, isLit := kv.Key.(*ast.BasicLit); !isLit {
					if _, isId := kv.Key.(*ast.Ident); !isId {
						es = append(es, kv.Key)
					}
				}
				es = append(es, kv.Value)
			} else {
				es = append(es, el)
			}
		}
		for _, e := range es {
			if _, nested := e.(*ast.CompositeLit); nested && p.info.Types[e].Type == nil {
				p.failf(e, "elided composite literal type")
			}
		}
		return p.evalList(es, st, c, func(st sqState, vs []sqVal) []*sqNode {
			return k(st, sqOpV{"lit " + p.typeStr(t), vs})
		})
	}
	if len(x.Elts) == 0 && stt.NumFields() == 0 {
		return k(st, sqZeroV{p.typeStr(t)})
	}
	flds := make([]*types.Var, 0, len(x.Elts))
	vals := make([]sqVal, 0, len(x.Elts))
	var step func(i int, st sqState) []*sqNode
	step = func(i int, st sqState) []*sqNode {
		if i == len(x.Elts) {
			o := &sqObjV{typ: p.typeStr(t), ptr: ptr, st: stt, fields: map[*types.Var]sqVal{}}
			for j, f := range flds[:i] {
				o.fields[f] = vals[j]
				o.set = append(o.set, f)
			}
			return k(st, o)
		}
		var fld *types.Var
		val := x.Elts[i]
		if kv, ok := val.(*ast.KeyValueExpr); ok {
			id := kv.Key.(*ast.Ident)
			fld = p.info.Uses[id].(*types.Var).Origin()
			p.visited[id] = true
			val = kv.Value
		} else {
			fld = stt.Field(i).Origin()
		}
		return p.eval(val, st, c, func(st sqState, v sqVal) []*sqNode {
			flds = append(flds[:i:i], fld)
			vals = append(vals[:i:i], v)
			return step(i+1, st)
		})
	}
	return step(0, st)
}

// fieldPath follows the (possibly promoted) field selection idx from base of type bt.
func (p *sqPkg) fieldPath(base sqVal, bt types.Type, idx []int, wantLoc bool, at *ast.SelectorExpr, st sqState, k sqVK) []*sqNode {
	p.visited[at.Sel] = true
	stt := sqStructDeref(bt)
	if stt == nil {
		p.failf(at, "field selection on %s", bt)
	}
	fld := stt.Field(idx[0])
	last := len(idx) == 1
	return p.field(base, stt, fld, wantLoc && last, at, st, func(st sqState, v sqVal) []*sqNode {
		if last {
			return k(st, v)
		}
		return p.fieldPath(v, fld.Type(), idx[1:], wantLoc, at, st, k)
	})
}

func (p *sqPkg) shapeOf(l *sqLoadedV) *sqShape {
	if f, ok := l.from.(sqFieldV); ok {
		return p.shapes[f.fld]
	}
	return nil
}

func (p *sqPkg) slotDesc(init sqVal, cell bool) string {
	if c, ok := init.(*sqCellV); ok {
		init, cell = c.init, true
	}
	if cell {
		if _, isZero := init.(sqZeroV); isZero {
			return "cell(init=zero)" // the type is that of the cell; not printed
		}
		return "cell(init=" + p.valStr(init) + ")"
	}
	if ch, ok := init.(*sqChanV); ok {
		return "madeChan(cap=" + p.valStr(ch.capv) + ",elem=" + ch.elem + ")"
	}
	return "copy(" + p.valStr(init) + ")"
}

// slot addresses component key of a loaded object l of shape sh.
func (p *sqPkg) slot(l *sqLoadedV, sh *sqShape, key *types.Var, at ast.Node) sqVal {
	init, ok := sh.init[key]
	if !ok {
		p.failf(at, "component %s is not part of the objects stored in the map", key.Name())
	}
	if _, isRecv := init.(sqRecvV); isRecv {
		if f, ok := l.from.(sqFieldV); ok {
			if _, ok := f.base.(sqRecvV); ok {
				return sqRecvV{} // the map belongs to the receiver (see the header of nfskel.go)
			}
		}
	}
	d := sh.desc[key]
	for k2, d2 := range sh.desc {
		if k2 != key && d2 == d {
			p.failf(at, "two components of the stored object have the same description %s", d)
		}
	}
	f := l.from.(sqFieldV).fld
	if p.accessed[f] == nil {
		p.accessed[f] = map[*types.Var]bool{}
	}
	p.accessed[f][key] = true
	_, isCell := init.(*sqCellV)
	return sqSlotV{base: l, key: key, desc: d, cell: isCell || p.mutable[key]}
}

func (p *sqPkg) field(base sqVal, stt *types.Struct, fld *types.Var, wantLoc bool, at ast.Node, st sqState, k sqVK) []*sqNode {
	fld = fld.Origin()
	var loc sqVal
	switch b := base.(type) {
	case *sqObjV:
		if b.lit != nil {
			p.failf(at, "field of a function value")
		}
		init, ok := b.fields[fld]
		if !ok {
			init = p.zero(fld.Type())
		}
		if !p.mutable[fld] && !wantLoc {
			return k(st, init)
		}
		loc = sqSlotV{base: b, key: fld, desc: p.slotDesc(init, true), cell: true}
	case *sqLoadedV:
		if sh := p.shapeOf(b); sh != nil {
			if sh.obj.lit != nil {
				p.failf(at, "field of a loaded function value")
			}
			s := p.slot(b, sh, fld, at)
			if sv, ok := s.(sqSlotV); ok && (sv.cell || wantLoc) {
				sv.cell = true
				loc = sv
			} else {
				return k(st, s)
			}
		}
	}
	if loc == nil {
		f := sqFieldV{base: base, fld: fld, desc: p.fieldDesc(stt, fld)}
		if !p.mutable[fld] && !wantLoc {
			return k(st, f)
		}
		loc = f
	}
	if wantLoc {
		return k(st, loc)
	}
	return p.event(st, nil, func(st sqState, id int) []*sqNode { return k(st, sqRes(id, 0, 1)) }, "load ", loc)
}

// ---------------------------------------------------------------------------------------
// calls

var sqPureFuncs = map[string]bool{
	"fmt.Errorf": true, "fmt.Sprintf": true, "fmt.Sprint": true, "errors.New": true, "errors.Is": true,
	"errors.Join": true, "errors.Unwrap": true,
}

// sqLogFuncs: logging.  Such a call is not an event (its arguments are still evaluated, so
// an event inside an argument is kept); function literals must not be passed to it.
var sqLogFuncs = map[string]bool{
	"log.Print": true, "log.Printf": true, "log.Println": true,
	"log/slog.Debug": true, "log/slog.Info": true, "log/slog.Warn": true, "log/slog.Error": true,
	"log/slog.DebugContext": true, "log/slog.InfoContext": true, "log/slog.WarnContext": true, "log/slog.ErrorContext": true,
	"(*log/slog.Logger).Debug": true, "(*log/slog.Logger).Info": true, "(*log/slog.Logger).Warn": true,
	"(*log/slog.Logger).Error": true, "(*log/slog.Logger).DebugContext": true, "(*log/slog.Logger).InfoContext": true,
	"(*log/slog.Logger).WarnContext": true, "(*log/slog.Logger).ErrorContext": true, "(*log/slog.Logger).Log": true,
}

func (p *sqPkg) isLogCall(name string, args []sqVal, at ast.Node) bool {
	if !sqLogFuncs[name] {
		return false
	}
	for _, a := range args {
		if o, ok := a.(*sqObjV); ok && o.lit != nil {
			p.failf(at, "function literal passed to a logging call")
		}
	}
	return true
}

func (p *sqPkg) evalCall(x *ast.CallExpr, n int, st sqState, c *sqCtx, k sqVsK) []*sqNode {
	one := func(st sqState, v sqVal) []*sqNode { return k(st, []sqVal{v}) }
	fun := ast.Unparen(x.Fun)
	// conversion
	if tv := p.info.Types[fun]; tv.IsType() {
		return p.eval(x.Args[0], st, c, func(st sqState, v sqVal) []*sqNode {
			switch types.Unalias(tv.Type).Underlying().(type) {
			case *types.Chan, *types.Pointer, *types.Signature, *types.Interface, *types.Struct:
				return one(st, v)
			}
			return one(st, sqOpV{"conv " + p.typeStr(tv.Type), []sqVal{v}})
		})
	}
	switch ie := fun.(type) { // explicit instantiation
	case *ast.IndexExpr:
		if _, isSig := p.info.Types[ie.X].Type.(*types.Signature); isSig {
			fun = ast.Unparen(ie.X)
		}
	case *ast.IndexListExpr:
		fun = ast.Unparen(ie.X)
	}
	if x.Ellipsis.IsValid() {
		p.failf(x, "call with ...")
	}
	sig, _ := types.Unalias(p.info.Types[x.Fun].Type).Underlying().(*types.Signature)
	nres := 0
	if sig != nil {
		nres = sig.Results().Len()
	}
	results := func(id int) []sqVal {
		out := make([]sqVal, nres)
		for i := range out {
			out[i] = sqRes(id, i, nres)
		}
		return out
	}
	// an event for a call the interpreter does not look into
	opaque := func(st sqState, name string, recv sqVal, args []sqVal, mapRecv bool) []*sqNode {
		parts := []any{"call " + name + " "}
		check := append([]sqVal{}, args...)
		if recv != nil {
			parts = append(parts, recv, " ")
			if !mapRecv {
				check = append(check, recv)
			}
		}
		parts = append(append(append(parts, "("), sqList(args)...), ")")
		return p.event(st, check, func(st sqState, id int) []*sqNode {
			rs := results(id)
			if mapRecv && len(rs) > 0 {
				switch name {
				case "(*sync.Map).Load", "(*sync.Map).LoadOrStore", "(*sync.Map).LoadAndDelete", "(*sync.Map).Swap":
					rs[0] = &sqLoadedV{id: id, idx: 0, n: nres, from: recv}
				}
			}
			return k(st, rs)
		}, parts...)
	}
	callValue := func(st sqState, fv sqVal, args []sqVal) []*sqNode {
		switch f := fv.(type) {
		case *sqObjV:
			if f.lit != nil {
				return p.inlineLit(f.lit, f.env, f.stack, nil, nil, args, x, st, c, k)
			}
		case sqFuncV:
			if fd := p.decls[f.fn]; fd != nil && fd.Body != nil {
				return p.inlineDecl(f.fn, fd, nil, args, x, st, c, k)
			}
			return opaque(st, f.fn.FullName(), nil, args, false)
		case *sqLoadedV:
			if sh := p.shapeOf(f); sh != nil {
				if sh.obj.lit == nil {
					p.failf(x, "call of a loaded object that is not a function")
				}
				return p.inlineLit(sh.obj.lit, nil, sh.obj.stack, f, sh, args, x, st, c, k)
			}
			// shape not (yet) known: an event; bypass the escape check for the callee
			parts := append(append([]any{"callFunc ", fv, "("}, sqList(args)...), ")")
			return p.event(st, args, func(st sqState, id int) []*sqNode { return k(st, results(id)) }, parts...)
		}
		parts := append(append([]any{"callFunc ", fv, "("}, sqList(args)...), ")")
		return p.event(st, append([]sqVal{fv}, args...), func(st sqState, id int) []*sqNode { return k(st, results(id)) }, parts...)
	}

	switch f := fun.(type) {
	case *ast.Ident:
		switch o := p.info.Uses[f].(type) {
		case *types.Builtin:
			return p.builtin(o.Name(), x, n, st, c, k)
		case *types.Func:
			return p.evalList(x.Args, st, c, func(st sqState, args []sqVal) []*sqNode {
				return callValue(st, sqFuncV{o.Origin()}, args)
			})
		}
	case *ast.SelectorExpr:
		sel := p.info.Selections[f]
		if sel == nil {
			if o, ok := p.info.Uses[f.Sel].(*types.Func); ok { // pkg.Func
				return p.evalList(x.Args, st, c, func(st sqState, args []sqVal) []*sqNode {
					if sqPureFuncs[o.FullName()] {
						return one(st, sqOpV{o.FullName(), args})
					}
					if p.isLogCall(o.FullName(), args, x) {
						return k(st, nil)
					}
					return opaque(st, o.FullName(), nil, args, false)
				})
			}
		} else if sel.Kind() == types.MethodVal {
			fn := sel.Obj().(*types.Func).Origin()
			bt := p.info.Types[f.X].Type
			return p.eval(f.X, st, c, func(st sqState, recv sqVal) []*sqNode {
				withRecv := func(st sqState, recv sqVal) []*sqNode {
					return p.evalList(x.Args, st, c, func(st sqState, args []sqVal) []*sqNode {
						if fd := p.decls[fn]; fd != nil && fd.Body != nil && !types.IsInterface(sel.Recv()) {
							return p.inlineDecl(fn, fd, recv, args, x, st, c, k)
						}
						name := fn.FullName()
						if p.isLogCall(name, args, x) {
							return k(st, nil)
						}
						if strings.HasPrefix(name, "(*sync.Map).") {
							p.mapStore(name, recv, args, x)
							return opaque(st, name, recv, args, true)
						}
						return opaque(st, name, recv, args, false)
					})
				}
				if idx := sel.Index(); len(idx) > 1 { // method promoted through embedded fields
					return p.fieldPath(recv, bt, idx[:len(idx)-1], false, f, st, withRecv)
				}
				return withRecv(st, recv)
			})
		}
	}
	// a function value: field, variable, literal, result of another expression
	return p.eval(fun, st, c, func(st sqState, fv sqVal) []*sqNode {
		return p.evalList(x.Args, st, c, func(st sqState, args []sqVal) []*sqNode { return callValue(st, fv, args) })
	})
}

// mapStore remembers the shape of what is stored into a sync.Map field.
func (p *sqPkg) mapStore(name string, recv sqVal, args []sqVal, at ast.Node) {
	var idx int
	switch name {
	case "(*sync.Map).Store", "(*sync.Map).LoadOrStore", "(*sync.Map).Swap":
		idx = 1
	case "(*sync.Map).CompareAndSwap":
		idx = 2
	default:
		return
	}
	f, ok := recv.(sqFieldV)
	if !ok {
		return
	}
	o, ok := args[idx].(*sqObjV)
	if !ok || (o.lit == nil && !o.ptr) {
		p.untracked[f.fld] = at
		return
	}
	sh := &sqShape{obj: o, where: at, init: map[*types.Var]sqVal{}, desc: map[*types.Var]string{}}
	if o.lit != nil {
		seen := map[*types.Var]bool{}
		ast.Inspect(o.lit.Body, func(n ast.Node) bool {
			id, ok := n.(*ast.Ident)
			if !ok {
				return true
			}
			v, ok := p.info.Uses[id].(*types.Var)
			if !ok || v.IsField() || v.Parent() == nil || v.Parent() == p.pkg.Scope() || v.Pkg() != p.pkg {
				return true
			}
			v = v.Origin()
			if (v.Pos() < o.lit.Pos() || v.Pos() >= o.lit.End()) && !seen[v] {
				seen[v] = true
				val, ok := o.env.get(v)
				if !ok {
					p.failf(id, "captured variable %s has no value", v.Name())
				}
				sh.free = append(sh.free, v)
				sh.init[v] = val
				sh.desc[v] = p.slotDesc(val, false)
			}
			return true
		})
	} else {
		for i := 0; i < o.st.NumFields(); i++ {
			fl := o.st.Field(i).Origin()
			val, ok := o.fields[fl]
			if !ok {
				val = p.zero(fl.Type())
			}
			sh.init[fl] = val
			sh.desc[fl] = p.slotDesc(val, p.mutable[fl])
		}
	}
	if old := p.newShapes[f.fld]; old != nil && p.shapeSig(old) != p.shapeSig(sh) {
		p.failf(at, "objects of two different shapes are stored in the same sync.Map field")
	}
	p.newShapes[f.fld] = sh
	args[idx] = sqStoreV{obj: o, fld: f.fld}
}

func (p *sqPkg) shapeSig(sh *sqShape) string {
	var ds []string
	for _, d := range sh.desc {
		ds = append(ds, d)
	}
	sort.Strings(ds)
	id := sh.obj.typ
	if sh.obj.lit != nil {
		id = fmt.Sprintf("lit@%d", sh.obj.lit.Pos())
	}
	return id + "{" + strings.Join(ds, ";") + "}"
}

func (p *sqPkg) builtin(name string, x *ast.CallExpr, n int, st sqState, c *sqCtx, k sqVsK) []*sqNode {
	one := func(st sqState, v sqVal) []*sqNode { return k(st, []sqVal{v}) }
	switch name {
	case "make":
		t := p.info.Types[x.Args[0]].Type
		return p.evalList(x.Args[1:], st, c, func(st sqState, args []sqVal) []*sqNode {
			ch, isChan := types.Unalias(t).Underlying().(*types.Chan)
			if !isChan {
				return one(st, sqOpV{"make " + p.typeStr(t), args})
			}
			var capv sqVal = sqConstV{"0"}
			if len(args) > 0 {
				capv = args[0]
			}
			elem := p.typeStr(ch.Elem())
			return p.event(st, nil, func(st sqState, id int) []*sqNode {
				return one(st, &sqChanV{id: id, capv: capv, elem: elem})
			}, "makeChan cap=", capv, " elem="+elem)
		})
	case "new":
		t := p.info.Types[x.Args[0]].Type
		stt, ok := types.Unalias(t).Underlying().(*types.Struct)
		if !ok {
			p.failf(x, "new of a non-struct type")
		}
		return one(st, &sqObjV{typ: p.typeStr(t), ptr: true, st: stt, fields: map[*types.Var]sqVal{}})
	case "close":
		return p.eval(x.Args[0], st, c, func(st sqState, ch sqVal) []*sqNode {
			return p.event(st, nil, func(st sqState, id int) []*sqNode { return k(st, nil) }, "close ", ch)
		})
	case "len", "cap":
		return p.eval(x.Args[0], st, c, func(st sqState, v sqVal) []*sqNode {
			if _, isChan := types.Unalias(p.info.Types[x.Args[0]].Type).Underlying().(*types.Chan); isChan && name == "len" {
				return p.event(st, nil, func(st sqState, id int) []*sqNode { return one(st, sqRes(id, 0, 1)) }, "chanLen ", v)
			}
			return one(st, sqOpV{name, []sqVal{v}})
		})
	case "panic":
		return p.eval(x.Args[0], st, c, func(st sqState, v sqVal) []*sqNode {
			return p.terminal(st, []sqVal{v}, "panic ", v)
		})
	case "append", "min", "max":
		return p.evalList(x.Args, st, c, func(st sqState, args []sqVal) []*sqNode { return one(st, sqOpV{name, args}) })
	}
	p.failf(x, "builtin %s", name)
	return nil
}

func (p *sqPkg) inlineDecl(fn *types.Func, fd *ast.FuncDecl, recv sqVal, args []sqVal, at ast.Node, st sqState, c *sqCtx, k sqVsK) []*sqNode {
	for _, s := range c.stack {
		if s == any(fn) {
			p.failf(at, "recursive call of %s", fn.Name())
		}
	}
	sig := fn.Type().(*types.Signature)
	if sig.Variadic() {
		p.failf(at, "inlining of the variadic function %s", fn.Name())
	}
	env := (&sqEnv{}).child()
	if r := sig.Recv(); r != nil && r.Name() != "" && r.Name() != "_" {
		p.declare(env, r, recv)
	}
	return p.inlineBody(fd.Body, sig, env, append(append([]any{}, c.stack...), fn), args, st, k)
}

// inlineLit runs the body of a function literal: either of a closure object the current
// path created (env = its environment), or of a loaded object `self` of shape sh.
func (p *sqPkg) inlineLit(lit *ast.FuncLit, env *sqEnv, stack []any, self *sqLoadedV, sh *sqShape, args []sqVal, at ast.Node, st sqState, c *sqCtx, k sqVsK) []*sqNode {
	for _, s := range c.stack {
		if s == any(lit) {
			p.failf(at, "recursive call of a function literal")
		}
	}
	if self != nil {
		env = (&sqEnv{}).child()
		for _, v := range sh.free {
			env.m[v] = p.slot(self, sh, v, at)
		}
	} else {
		env = env.child()
	}
	sig := p.info.Types[lit].Type.(*types.Signature)
	return p.inlineBody(lit.Body, sig, env, append(append([]any{}, c.stack...), lit), args, st, k)
}

func (p *sqPkg) inlineBody(body *ast.BlockStmt, sig *types.Signature, env *sqEnv, stack []any, args []sqVal, st sqState, k sqVsK) []*sqNode {
	if sig.Params().Len() != len(args) {
		panic(sqErr{"argument count mismatch while inlining"})
	}
	for i := 0; i < sig.Params().Len(); i++ {
		if v := sig.Params().At(i); v.Name() != "" && v.Name() != "_" {
			p.declare(env, v, args[i])
		}
	}
	c2 := &sqCtx{stack: stack}
	for i := 0; i < sig.Results().Len(); i++ {
		if v := sig.Results().At(i); v.Name() != "" && v.Name() != "_" {
			p.declare(env, v, p.zero(v.Type()))
			c2.named = append(c2.named, v)
		}
	}
	caller := st.env
	c2.ret = func(st sqState, vs []sqVal) []*sqNode {
		return k(sqState{env: caller.child(), seq: st.seq}, vs)
	}
	return p.execList(body.List, sqState{env: env, seq: st.seq}, c2, func(st sqState) []*sqNode { return p.fallOff(st, c2) })
}
