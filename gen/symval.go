package main

import (
	"fmt"
	"go/token"
	"go/types"
	"net/netip"
	"strconv"
	"strings"
)

// Value domain of the symbolic executor of subnets_sym.go (property C06).
//
// Exactly one thing is symbolic: the bytes of the [N]byte parameter of the function being
// translated.  Everything else (tables, masks, prefix lengths, loop counters) is concrete
// and is computed by the translator the way the Go code computes it.
//
// Integers are kept at BIT level: every bit of an integer value is either a constant or
// "bit pos of p[idx], possibly complemented".  This is closed under &, |, ^, &^, unary ^,
// shifts by concrete amounts, conversions between integer types and the big/little-endian
// loads of encoding/binary, as long as no operation combines two DIFFERENT symbolic bits
// (that is outside the subset and an error).  A comparison of such a value with a constant
// is a conjunction of atoms (p[i] & m) == v, one per byte of the parameter involved.

type value interface{}

// bit is one bit of an integer value.
type bit struct {
	sym bool
	c   bool  // the constant (if !sym)
	idx int   // byte index into the parameter (if sym)
	pos uint8 // bit position inside that byte, 0 = least significant (if sym)
	neg bool  // complemented (if sym)
}

// vWord is an integer value; bits[0] is the least significant bit, len(bits) the width.
type vWord struct {
	bits   []bit
	typ    types.Type
	signed bool
}

// vBool is a boolean value: a Lean term of type F (fTT / fFF when it is a constant).
type vBool struct{ f string }

// vStr is a string value (constant or string(p[a:b])): its bytes.
type vStr struct{ bs []vWord }

// vSeq is an array or slice value of concrete length.
type vSeq struct {
	elems []value
	typ   types.Type
	array bool
}

// vStruct is a struct value; fields by index of the underlying *types.Struct.
type vStruct struct {
	fields []value
	typ    types.Type
}

// vPrefix is a concrete netip.Prefix.
type vPrefix struct{ p netip.Prefix }

// vAddr is a netip.Addr value without zone: a leaf (w = 0 invalid, 4, 16; bs its bytes) or a
// conditional `if cond then a else b` (arises from Unmap of a symbolic IPv6 address).
type vAddr struct {
	cond string
	a, b *vAddr
	w    int
	bs   []vWord
}

// vFunc is a function value: a declared function of the package or a function literal
// with the frame it was created in.
type vFunc struct {
	body   funcBody
	closed *frame
}

// vTuple is the result of a call with several results.
type vTuple struct{ vals []value }

// vOpaque is a value the executor cannot use (nil pointers, maps, …); any use is an error.
type vOpaque struct{ what string }

// ---------------------------------------------------------------- integer types

func intKind(t types.Type) (w int, signed bool, ok bool) {
	if t == nil {
		return 0, false, false
	}
	b, isB := t.Underlying().(*types.Basic)
	if !isB {
		return 0, false, false
	}
	switch b.Kind() {
	case types.Uint8:
		return 8, false, true
	case types.Uint16:
		return 16, false, true
	case types.Uint32:
		return 32, false, true
	case types.Uint64, types.Uint, types.Uintptr:
		// uint is taken as 64 bits wide (the harness and the check run on amd64)
		return 64, false, true
	case types.Int8:
		return 8, true, true
	case types.Int16:
		return 16, true, true
	case types.Int32:
		return 32, true, true
	case types.Int64, types.Int, types.UntypedInt, types.UntypedRune:
		return 64, true, true
	}
	return 0, false, false
}

func constWord(t types.Type, v uint64) vWord {
	w, signed, ok := intKind(t)
	if !ok {
		w, signed = 64, true
	}
	bs := make([]bit, w)
	for i := range bs {
		bs[i] = bit{c: v>>uint(i)&1 == 1}
	}
	return vWord{bits: bs, typ: t, signed: signed}
}

// conc returns the value of a fully concrete word (zero-extended).
func (w vWord) conc() (uint64, bool) {
	var v uint64
	for i, b := range w.bits {
		if b.sym {
			return 0, false
		}
		if b.c {
			v |= 1 << uint(i)
		}
	}
	return v, true
}

// sconc returns the value of a concrete word as a signed number (sign-extended if signed).
func (w vWord) sconc() (int64, bool) {
	v, ok := w.conc()
	if !ok {
		return 0, false
	}
	n := len(w.bits)
	if w.signed && n < 64 && v>>(uint(n)-1)&1 == 1 {
		v |= ^uint64(0) << uint(n)
	}
	return int64(v), true
}

func symByte(idx int, t types.Type) vWord {
	bs := make([]bit, 8)
	for j := range bs {
		bs[j] = bit{sym: true, idx: idx, pos: uint8(j)}
	}
	return vWord{bits: bs, typ: t}
}

// identityByte reports whether w is exactly p[idx] (all eight bits, in place, not negated).
func (w vWord) identityByte() (idx int, ok bool) {
	if len(w.bits) != 8 {
		return 0, false
	}
	for j, b := range w.bits {
		if !b.sym || int(b.pos) != j || b.neg || (j > 0 && b.idx != w.bits[0].idx) {
			return 0, false
		}
	}
	return w.bits[0].idx, true
}

// resize converts w to an integer type of width n (Go conversion between integer types:
// truncation, or sign/zero extension according to the SOURCE type).
func (w vWord) resize(t types.Type, n int, signed bool) (vWord, error) {
	bs := make([]bit, n)
	for i := range bs {
		switch {
		case i < len(w.bits):
			bs[i] = w.bits[i]
		case w.signed:
			top := w.bits[len(w.bits)-1]
			if top.sym {
				return vWord{}, fmt.Errorf("sign extension of a symbolic value")
			}
			bs[i] = top
		default:
			bs[i] = bit{}
		}
	}
	if signed && bs[n-1].sym {
		return vWord{}, fmt.Errorf("conversion of a symbolic value to a signed type of the same or a smaller width")
	}
	return vWord{bits: bs, typ: t, signed: signed}, nil
}

// ---------------------------------------------------------------- bit operations

func bitNot(a bit) bit {
	if a.sym {
		a.neg = !a.neg
		return a
	}
	return bit{c: !a.c}
}

func sameSym(a, b bit) bool { return a.sym && b.sym && a.idx == b.idx && a.pos == b.pos }

func bitOp(op token.Token, a, b bit) (bit, error) {
	if op == token.AND_NOT {
		return bitOp(token.AND, a, bitNot(b))
	}
	if !a.sym && b.sym {
		a, b = b, a // the three remaining operators are commutative
	}
	switch {
	case !a.sym && !b.sym:
		switch op {
		case token.AND:
			return bit{c: a.c && b.c}, nil
		case token.OR:
			return bit{c: a.c || b.c}, nil
		case token.XOR:
			return bit{c: a.c != b.c}, nil
		}
	case a.sym && !b.sym:
		switch op {
		case token.AND:
			if b.c {
				return a, nil
			}
			return bit{}, nil
		case token.OR:
			if b.c {
				return bit{c: true}, nil
			}
			return a, nil
		case token.XOR:
			if b.c {
				return bitNot(a), nil
			}
			return a, nil
		}
	case sameSym(a, b):
		same := a.neg == b.neg
		switch op {
		case token.AND:
			if same {
				return a, nil
			}
			return bit{}, nil
		case token.OR:
			if same {
				return a, nil
			}
			return bit{c: true}, nil
		case token.XOR:
			return bit{c: !same}, nil
		}
	default:
		return bit{}, fmt.Errorf("operator %s combines two different bits of the parameter (p[%d] bit %d and p[%d] bit %d)", op, a.idx, a.pos, b.idx, b.pos)
	}
	return bit{}, fmt.Errorf("bit operator %s", op)
}

// ---------------------------------------------------------------- formulas of comparisons

// conj builds the right-nested conjunction of fs, folding the constants.
func conj(fs []string) string {
	var keep []string
	for _, f := range fs {
		if f == fFF {
			return fFF
		}
		if f != fTT {
			keep = append(keep, f)
		}
	}
	if len(keep) == 0 {
		return fTT
	}
	res := keep[len(keep)-1]
	for i := len(keep) - 2; i >= 0; i-- {
		res = fAnd(keep[i], res)
	}
	return res
}

// eqBits is the formula "a == b" of two bit vectors of the same width: one atom
// (p[i] & m) == v per parameter byte involved, bytes in order of first appearance from the
// most significant bit down.
func eqBits(a, b []bit) (string, error) {
	if len(a) != len(b) {
		return "", fmt.Errorf("comparison of integers of different widths (%d, %d)", len(a), len(b))
	}
	type req struct{ m, v int64 }
	reqs := map[int]*req{}
	var order []int
	for i := len(a) - 1; i >= 0; i-- {
		x, y := a[i], b[i]
		if !x.sym && y.sym {
			x, y = y, x
		}
		switch {
		case !x.sym && !y.sym:
			if x.c != y.c {
				return fFF, nil
			}
		case x.sym && !y.sym:
			r := reqs[x.idx]
			if r == nil {
				r = &req{}
				reqs[x.idx] = r
				order = append(order, x.idx)
			}
			want := y.c != x.neg
			bitm := int64(1) << x.pos
			if r.m&bitm != 0 {
				// the same parameter bit constrained twice
				if (r.v&bitm != 0) != want {
					return fFF, nil
				}
				continue
			}
			r.m |= bitm
			if want {
				r.v |= bitm
			}
		case sameSym(x, y):
			if x.neg != y.neg {
				return fFF, nil
			}
		default:
			return "", fmt.Errorf("comparison of two different bits of the parameter")
		}
	}
	var fs []string
	for _, idx := range order {
		fs = append(fs, fAtom(int64(idx), reqs[idx].m, reqs[idx].v))
	}
	return conj(fs), nil
}

// geWord is the formula "w >= c" (unsigned) for a word whose bytes are each either
// constant or exactly one byte of the parameter.
func geWord(w vWord, c uint64) (string, error) {
	n := len(w.bits)
	if n%8 != 0 {
		return "", fmt.Errorf("ordering comparison of a %d-bit value", n)
	}
	if w.signed && w.bits[n-1].sym {
		return "", fmt.Errorf("ordering comparison of a signed symbolic value")
	}
	if c == 0 {
		return fTT, nil // every unsigned value is >= 0
	}
	nb := n / 8
	var rec func(k int) (string, error)
	rec = func(k int) (string, error) {
		if k == nb {
			return fTT, nil
		}
		lo := (nb - 1 - k) * 8
		bw := vWord{bits: w.bits[lo : lo+8]}
		cb := int64(c >> uint(lo) & 0xFF)
		if v, isC := bw.conc(); isC {
			switch {
			case int64(v) > cb:
				return fTT, nil
			case int64(v) < cb:
				return fFF, nil
			}
			return rec(k + 1)
		}
		idx, isID := bw.identityByte()
		if !isID {
			return "", fmt.Errorf("ordering comparison of a masked or shifted value")
		}
		rest, err := rec(k + 1)
		if err != nil {
			return "", err
		}
		switch rest {
		case fTT:
			return fGe(int64(idx), cb), nil
		case fFF:
			return fGe(int64(idx), cb+1), nil
		}
		return fOr(fGe(int64(idx), cb+1), fAnd(fAtom(int64(idx), 0xFF, cb), rest)), nil
	}
	return rec(0)
}

// ---------------------------------------------------------------- booleans with folding

func bAnd(a, b string) string {
	switch {
	case a == fTT:
		return b
	case a == fFF || b == fFF:
		return fFF
	case b == fTT:
		return a
	}
	return fAnd(a, b)
}

func bOr(a, b string) string {
	switch {
	case a == fFF:
		return b
	case a == fTT || b == fTT:
		return fTT
	case b == fFF:
		return a
	}
	return fOr(a, b)
}

func bNot(a string) string {
	switch a {
	case fTT:
		return fFF
	case fFF:
		return fTT
	}
	return fNot(a)
}

func bIte(c, a, b string) string {
	switch {
	case c == fTT:
		return a
	case c == fFF:
		return b
	}
	return fIte(c, a, b)
}

// ---------------------------------------------------------------- addresses

func (a *vAddr) leaf() bool { return a.cond == "" }

// mapAddr applies f to every leaf and rebuilds the conditional structure.
func mapAddr(a *vAddr, f func(*vAddr) (*vAddr, error)) (*vAddr, error) {
	if a.leaf() {
		return f(a)
	}
	x, err := mapAddr(a.a, f)
	if err != nil {
		return nil, err
	}
	y, err := mapAddr(a.b, f)
	if err != nil {
		return nil, err
	}
	return &vAddr{cond: a.cond, a: x, b: y}, nil
}

// boolOfAddr applies a predicate to every leaf and combines with if-then-else.
func boolOfAddr(a *vAddr, f func(*vAddr) (string, error)) (string, error) {
	if a.leaf() {
		return f(a)
	}
	x, err := boolOfAddr(a.a, f)
	if err != nil {
		return "", err
	}
	y, err := boolOfAddr(a.b, f)
	if err != nil {
		return "", err
	}
	if x == y {
		return x, nil
	}
	return bIte(a.cond, x, y), nil
}

func concAddrLeaf(ad netip.Addr, byteT types.Type) *vAddr {
	if !ad.IsValid() {
		return &vAddr{}
	}
	raw := ad.AsSlice()
	l := &vAddr{w: len(raw)}
	for _, b := range raw {
		l.bs = append(l.bs, constWord(byteT, uint64(b)))
	}
	return l
}

// concrete returns the netip.Addr of a leaf whose bytes are all constants.
func (a *vAddr) concrete() (netip.Addr, bool) {
	if !a.leaf() {
		return netip.Addr{}, false
	}
	if a.w == 0 {
		return netip.Addr{}, true
	}
	raw := make([]byte, a.w)
	for i, b := range a.bs {
		v, ok := b.conc()
		if !ok {
			return netip.Addr{}, false
		}
		raw[i] = byte(v)
	}
	ad, ok := netip.AddrFromSlice(raw)
	return ad, ok
}

// is4In6F is the formula of Addr.Is4In6 on a 16-byte leaf: bytes 0..9 zero, 10..11 0xFF.
func is4In6F(l *vAddr) (string, error) {
	if l.w != 16 {
		return fFF, nil
	}
	var a, b []bit
	for k := 11; k >= 0; k-- {
		a = append(a, l.bs[k].bits...)
		c := uint64(0)
		if k >= 10 {
			c = 0xFF
		}
		b = append(b, constWord(nil, c).bits[:8]...)
	}
	return eqBits(a, b)
}

// containsF is the formula of netip.Prefix.Contains(addr) for a concrete prefix and a leaf
// (net/netip: false for an invalid prefix, the zero Addr and for different families — an
// IPv4 address never matches an IPv6 prefix, a 4in6 address never matches an IPv4 prefix —
// otherwise "the leading Bits() bits are equal").
func containsF(p netip.Prefix, l *vAddr) (string, error) {
	if !p.IsValid() || l.w == 0 || p.Addr().BitLen() != 8*l.w {
		return fFF, nil
	}
	raw := p.Addr().AsSlice()
	// the leaf is p[off : off+w] itself: the prefix formula of Model/C06F.lean
	off, ident := -1, true
	for j, b := range l.bs {
		idx, ok := b.identityByte()
		if !ok || (j > 0 && idx != off+j) {
			ident = false
			break
		}
		if j == 0 {
			off = idx
		}
	}
	if ident {
		var bs []string
		for _, x := range raw {
			bs = append(bs, strconv.Itoa(int(x)))
		}
		if off == 0 {
			return fmt.Sprintf("(prefixF ⟨[%s], %d⟩)", strings.Join(bs, ", "), p.Bits()), nil
		}
		return fmt.Sprintf("(prefixFAux %d [%s] %d)", off, strings.Join(bs, ", "), p.Bits()), nil
	}
	// otherwise compare the leading bits one by one
	var a, b []bit
	rem := p.Bits()
	for j := 0; j < l.w && rem > 0; j++ {
		cw := constWord(nil, uint64(raw[j]))
		for k := 7; k >= 0 && rem > 0; k-- {
			a = append([]bit{l.bs[j].bits[k]}, a...)
			b = append([]bit{cw.bits[k]}, b...)
			rem--
		}
	}
	return eqBits(a, b)
}
