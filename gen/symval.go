package main

import (
	"fmt"
	"go/ast"
	"go/token"
	"go/types"
	"net/netip"
	"strconv"
	"strings"
)

// Value domain of the symbolic executor of subnets_sym.go (property C06).
//
// Exactly one thing is symbolic: the bytes of the [N]byte parameter of the function being
// translated.  Everything else (tables, masks, prefix lengths, loop counters) is concrete
// and is computed by the translator the way the Go code computes it.
//
// Integers are kept at BIT level: every bit of an integer value is either a constant or
// "bit pos of p[idx], possibly complemented".  This is closed under &, |, ^, &^, unary ^,
// shifts by concrete amounts, conversions between integer types and the big/little-endian
// loads of encoding/binary, as long as no operation combines two DIFFERENT symbolic bits
// (that is outside the subset and an error).  A comparison of such a value with a constant
// is a conjunction of atoms (p[i] & m) == v, one per byte of the parameter involved.

type value interface{}

// bit is one bit of an integer value.
type bit struct {
	sym bool
	c   bool  // the constant (if !sym)
	idx int   // byte index into the parameter (if sym)
	pos uint8 // bit position inside that byte, 0 = least significant (if sym)
	neg bool  // complemented (if sym)
}

// vWord is an integer value; bits[0] is the least significant bit, len(bits) the width.
type vWord struct {
	bits   []bit
	typ    types.Type
	signed bool
}

// vBool is a boolean value: a Lean term of type F (fTT / fFF when it is a constant).
type vBool struct{ f string }

// vStr is a string value (constant or string(p[a:b])): its bytes.
type vStr struct{ bs []vWord }

// vSeq is an array or slice value of concrete length.
//
// While the body of a function is executed on the symbolic parameter, arrays and slices are
// immutable values (append copies).  While a package-level INITIALISER is evaluated (no
// symbolic value exists there, every branch is decided, nothing forks) slices are
// references as in Go: elems is a Go slice that shares its backing array with the slices
// it was cut from, with the same capacity Go gives it, so that s[i] = v, append within the
// capacity, copy and in-place sorting have Go's aliasing.  st is the allocation:
// exact = its capacity is what Go's would be (literals, make); an allocation made by a
// GROWING append gets exactly the needed capacity here, while Go rounds up by an unspecified
// amount, so the allocation it grew from is marked dead when THAT one was inexact too (Go
// might have appended in place), and any later use of a slice of a dead allocation is an
// error.  frozen = belongs to a finished initialiser: never written again.
type vSeq struct {
	elems []value
	typ   types.Type
	array bool
	st    *sstore
}

type sstore struct{ exact, dead, frozen bool }

// vStruct is a struct value; fields by index of the underlying *types.Struct.
type vStruct struct {
	fields []value
	typ    types.Type
}

// vPrefix is a concrete netip.Prefix.
type vPrefix struct{ p netip.Prefix }

// vAddr is a netip.Addr value without zone: a leaf (w = 0 invalid, 4, 16; bs its bytes) or a
// conditional `if cond then a else b` (arises from Unmap of a symbolic IPv6 address).
type vAddr struct {
	cond string
	a, b *vAddr
	w    int
	bs   []vWord
}

// vFunc is a function value: a declared function or method of the package (a method
// expression T.m takes the receiver as its first argument, a method value x.m has it bound),
// a function literal with the frame it was created in, or a net/netip method bound to its
// receiver (native).
type vFunc struct {
	body   funcBody
	closed *frame
	bound  []value
	native func(args []value, at ast.Node) (value, error)
}

// vCase is a value that depends on the parameter through a condition only: `if cond then a
// else b` with a, b values of the same Go type (typically the -1/0/+1 of a three-way
// comparison, or an index found by a search).  Operators are applied to the two arms
// separately (a case split on the formula that produced the value); a vCase of booleans is
// never built, it is the formula ite(cond, a, b).
type vCase struct {
	cond string
	a, b value
}

// vTuple is the result of a call with several results.
type vTuple struct{ vals []value }

// vOpaque is a value the executor cannot use (nil pointers, maps, …); any use is an error.
type vOpaque struct{ what string }

// ---------------------------------------------------------------- integer types

func intKind(t types.Type) (w int, signed bool, ok bool) {
	if t == nil {
		return 0, false, false
	}
	b, isB := t.Underlying().(*types.Basic)
	if !isB {
		return 0, false, false
	}
	switch b.Kind() {
	case types.Uint8:
		return 8, false, true
	case types.Uint16:
		return 16, false, true
	case types.Uint32:
		return 32, false, true
	case types.Uint64, types.Uint, types.Uintptr:
		// uint is taken as 64 bits wide (the harness and the check run on amd64)
		return 64, false, true
	case types.Int8:
		return 8, true, true
	case types.Int16:
		return 16, true, true
	case types.Int32:
		return 32, true, true
	case types.Int64, types.Int, types.UntypedInt, types.UntypedRune:
		return 64, true, true
	}
	return 0, false, false
}

func constWord(t types.Type, v uint64) vWord {
	w, signed, ok := intKind(t)
	if !ok {
		w, signed = 64, true
	}
	bs := make([]bit, w)
	for i := range bs {
		bs[i] = bit{c: v>>uint(i)&1 == 1}
	}
	return vWord{bits: bs, typ: t, signed: signed}
}

// conc returns the value of a fully concrete word (zero-extended).
func (w vWord) conc() (uint64, bool) {
	var v uint64
	for i, b := range w.bits {
		if b.sym {
			return 0, false
		}
		if b.c {
			v |= 1 << uint(i)
		}
	}
	return v, true
}

// sconc returns the value of a concrete word as a signed number (sign-extended if signed).
func (w vWord) sconc() (int64, bool) {
	v, ok := w.conc()
	if !ok {
		return 0, false
	}
	n := len(w.bits)
	if w.signed && n < 64 && v>>(uint(n)-1)&1 == 1 {
		v |= ^uint64(0) << uint(n)
	}
	return int64(v), true
}

func symByte(idx int, t types.Type) vWord {
	bs := make([]bit, 8)
	for j := range bs {
		bs[j] = bit{sym: true, idx: idx, pos: uint8(j)}
	}
	return vWord{bits: bs, typ: t}
}

// identityByte reports whether w is exactly p[idx] (all eight bits, in place, not negated).
func (w vWord) identityByte() (idx int, ok bool) {
	if len(w.bits) != 8 {
		return 0, false
	}
	for j, b := range w.bits {
		if !b.sym || int(b.pos) != j || b.neg || (j > 0 && b.idx != w.bits[0].idx) {
			return 0, false
		}
	}
	return w.bits[0].idx, true
}

// resize converts w to an integer type of width n (Go conversion between integer types:
// truncation, or sign/zero extension according to the SOURCE type).
func (w vWord) resize(t types.Type, n int, signed bool) (vWord, error) {
	bs := make([]bit, n)
	for i := range bs {
		switch {
		case i < len(w.bits):
			bs[i] = w.bits[i]
		case w.signed:
			top := w.bits[len(w.bits)-1]
			if top.sym {
				return vWord{}, fmt.Errorf("sign extension of a symbolic value")
			}
			bs[i] = top
		default:
			bs[i] = bit{}
		}
	}
	if signed && bs[n-1].sym {
		return vWord{}, fmt.Errorf("conversion of a symbolic value to a signed type of the same or a smaller width")
	}
	return vWord{bits: bs, typ: t, signed: signed}, nil
}

// ---------------------------------------------------------------- bit operations

func bitNot(a bit) bit {
	if a.sym {
		a.neg = !a.neg
		return a
	}
	return bit{c: !a.c}
}

func sameSym(a, b bit) bool { return a.sym && b.sym && a.idx == b.idx && a.pos == b.pos }

func bitOp(op token.Token, a, b bit) (bit, error) {
	if op == token.AND_NOT {
		return bitOp(token.AND, a, bitNot(b))
	}
	if !a.sym && b.sym {
		a, b = b, a // the three remaining operators are commutative
	}
	switch {
	case !a.sym && !b.sym:
		switch op {
		case token.AND:
			return bit{c: a.c && b.c}, nil
		case token.OR:
			return bit{c: a.c || b.c}, nil
		case token.XOR:
			return bit{c: a.c != b.c}, nil
		}
	case a.sym && !b.sym:
		switch op {
		case token.AND:
			if b.c {
				return a, nil
			}
			return bit{}, nil
		case token.OR:
			if b.c {
				return bit{c: true}, nil
			}
			return a, nil
		case token.XOR:
			if b.c {
				return bitNot(a), nil
			}
			return a, nil
		}
	case sameSym(a, b):
		same := a.neg == b.neg
		switch op {
		case token.AND:
			if same {
				return a, nil
			}
			return bit{}, nil
		case token.OR:
			if same {
				return a, nil
			}
			return bit{c: true}, nil
		case token.XOR:
			return bit{c: !same}, nil
		}
	default:
		return bit{}, fmt.Errorf("operator %s combines two different bits of the parameter (p[%d] bit %d and p[%d] bit %d)", op, a.idx, a.pos, b.idx, b.pos)
	}
	return bit{}, fmt.Errorf("bit operator %s", op)
}

// ---------------------------------------------------------------- formulas of comparisons

// conj builds the right-nested conjunction of fs, folding the constants.
func conj(fs []string) string {
	var keep []string
	for _, f := range fs {
		if f == fFF {
			return fFF
		}
		if f != fTT {
			keep = append(keep, f)
		}
	}
	if len(keep) == 0 {
		return fTT
	}
	res := keep[len(keep)-1]
	for i := len(keep) - 2; i >= 0; i-- {
		res = fAnd(keep[i], res)
	}
	return res
}

// eqBits is the formula "a == b" of two bit vectors of the same width: one atom
// (p[i] & m) == v per parameter byte involved, bytes in order of first appearance from the
// most significant bit down.
func eqBits(a, b []bit) (string, error) {
	if len(a) != len(b) {
		return "", fmt.Errorf("comparison of integers of different widths (%d, %d)", len(a), len(b))
	}
	type req struct{ m, v int64 }
	reqs := map[int]*req{}
	var order []int
	for i := len(a) - 1; i >= 0; i-- {
		x, y := a[i], b[i]
		if !x.sym && y.sym {
			x, y = y, x
		}
		switch {
		case !x.sym && !y.sym:
			if x.c != y.c {
				return fFF, nil
			}
		case x.sym && !y.sym:
			r := reqs[x.idx]
			if r == nil {
				r = &req{}
				reqs[x.idx] = r
				order = append(order, x.idx)
			}
			want := y.c != x.neg
			bitm := int64(1) << x.pos
			if r.m&bitm != 0 {
				// the same parameter bit constrained twice
				if (r.v&bitm != 0) != want {
					return fFF, nil
				}
				continue
			}
			r.m |= bitm
			if want {
				r.v |= bitm
			}
		case sameSym(x, y):
			if x.neg != y.neg {
				return fFF, nil
			}
		default:
			return "", fmt.Errorf("comparison of two different bits of the parameter")
		}
	}
	var fs []string
	for _, idx := range order {
		fs = append(fs, fAtom(int64(idx), reqs[idx].m, reqs[idx].v))
	}
	return conj(fs), nil
}

// geWord is the formula "w >= c" (unsigned) for a word whose bytes are each either
// constant or exactly one byte of the parameter.
func geWord(w vWord, c uint64) (string, error) {
	n := len(w.bits)
	if n%8 != 0 {
		return "", fmt.Errorf("ordering comparison of a %d-bit value", n)
	}
	cb := make([]int64, n/8)
	for k := range cb {
		cb[k] = int64(c >> uint((n/8-1-k)*8) & 0xFF)
	}
	return geBytes(w, cb)
}

// geBytes is geWord for a constant given by its bytes, most significant first: the
// lexicographic comparison  b0 > c0 ∨ (b0 = c0 ∧ (b1 > c1 ∨ (b1 = c1 ∧ …))).
func geBytes(w vWord, cb []int64) (string, error) {
	n := len(w.bits)
	if n%8 != 0 || len(cb) != n/8 {
		return "", fmt.Errorf("ordering comparison of a %d-bit value", n)
	}
	if w.signed && w.bits[n-1].sym {
		return "", fmt.Errorf("ordering comparison of a signed symbolic value")
	}
	zero := true
	for _, c := range cb {
		zero = zero && c == 0
	}
	if zero {
		return fTT, nil // every unsigned value is >= 0
	}
	nb := n / 8
	var rec func(k int) (string, error)
	rec = func(k int) (string, error) {
		if k == nb {
			return fTT, nil
		}
		lo := (nb - 1 - k) * 8
		bw := vWord{bits: w.bits[lo : lo+8]}
		c := cb[k]
		if v, isC := bw.conc(); isC {
			switch {
			case int64(v) > c:
				return fTT, nil
			case int64(v) < c:
				return fFF, nil
			}
			return rec(k + 1)
		}
		idx, isID := bw.identityByte()
		if !isID {
			return "", fmt.Errorf("ordering comparison of a masked or shifted value")
		}
		rest, err := rec(k + 1)
		if err != nil {
			return "", err
		}
		ge := func(c int64) string {
			switch {
			case c <= 0:
				return fTT
			case c > 255:
				return fFF
			}
			return fGe(int64(idx), c)
		}
		switch rest {
		case fTT:
			return ge(c), nil
		case fFF:
			return ge(c + 1), nil
		}
		return bOr(ge(c+1), fAnd(fAtom(int64(idx), 0xFF, c), rest)), nil
	}
	return rec(0)
}

// ---------------------------------------------------------------- booleans with folding

func bAnd(a, b string) string {
	switch {
	case a == fTT:
		return b
	case a == fFF || b == fFF:
		return fFF
	case b == fTT:
		return a
	}
	return fAnd(a, b)
}

func bOr(a, b string) string {
	switch {
	case a == fFF:
		return b
	case a == fTT || b == fTT:
		return fTT
	case b == fFF:
		return a
	}
	return fOr(a, b)
}

func bNot(a string) string {
	switch a {
	case fTT:
		return fFF
	case fFF:
		return fTT
	}
	// !!g = g
	if n, ok := fstruct[a]; ok && n.op == '?' && n.b == fFF && n.c == fTT {
		return n.a
	}
	return fNot(a)
}

func bIte(c, a, b string) string {
	switch {
	case c == fTT:
		return a
	case c == fFF:
		return b
	case a == b:
		return a
	case a == fTT && b == fFF:
		return c
	case a == fFF && b == fTT:
		return bNot(c)
	}
	return splitIte(c, a, b)
}

// splitIte is ite(c, a, b).  When the condition is itself an if-then-else (a disjunction
// p ∨ q, the "c != 0" of a three-way comparison, …) the Shannon expansion on its condition
//
//	ite(ite(p, t, e), a, b) = ite(p, ite(t, a, b), ite(e, a, b))
//
// with a and b simplified under p resp. ¬p is used instead when that is the shorter text.
func splitIte(c, a, b string) string {
	plain := fIte(c, a, b)
	n, ok := fstruct[c]
	if !ok || n.op != '?' || (n.b == fFF && n.c == fTT) {
		return plain
	}
	var nilPC *pcNode
	pt, pf := nilPC.assume(n.a, true), nilPC.assume(n.a, false)
	alt := bIte(n.a, bIte(pt.prune(n.b), pt.prune(a), pt.prune(b)), bIte(pf.prune(n.c), pf.prune(a), pf.prune(b)))
	if len(alt) < len(plain) {
		return alt
	}
	return plain
}

// ---------------------------------------------------------------- path conditions

// pcNode is a persistent list of the formulas assumed true / false on the current path.
type pcNode struct {
	f    string
	pol  bool
	next *pcNode
	dead bool // the assumptions are contradictory: no address takes this path
}

// byteSet is what is known about one byte of the parameter: lo <= p[i] <= hi and
// p[i] & mask == bits (empty when lo > hi).
type byteSet struct{ lo, hi, mask, bits int }

var fullByte = byteSet{0, 255, 0, 0}
var noByte = byteSet{1, 0, 0, 0}

func (a byteSet) empty() bool {
	if a.lo > a.hi {
		return true
	}
	// is there a value in [lo,hi] with the known bits?  (few candidates: scan)
	for x := a.lo; x <= a.hi; x++ {
		if x&a.mask == a.bits {
			return false
		}
	}
	return true
}

func (a byteSet) meet(b byteSet) byteSet {
	if a.lo > a.hi || b.lo > b.hi {
		return noByte
	}
	if (a.bits^b.bits)&a.mask&b.mask != 0 {
		return noByte
	}
	r := byteSet{max(a.lo, b.lo), min(a.hi, b.hi), a.mask | b.mask, a.bits | b.bits}
	if r.lo > r.hi {
		return noByte
	}
	return r
}

func (a byteSet) join(b byteSet) byteSet {
	switch {
	case a.lo > a.hi:
		return b
	case b.lo > b.hi:
		return a
	}
	m := a.mask & b.mask &^ (a.bits ^ b.bits)
	return byteSet{min(a.lo, b.lo), max(a.hi, b.hi), m, a.bits & m}
}

type impliedKey struct {
	f   string
	pol bool
	i   int
}

var impliedMemo = map[impliedKey]byteSet{}

// implied over-approximates the values byte i can have when formula f is pol.
func implied(f string, pol bool, i int) byteSet {
	switch f {
	case fTT:
		if pol {
			return fullByte
		}
		return noByte
	case fFF:
		if pol {
			return noByte
		}
		return fullByte
	}
	n, ok := fstruct[f]
	if !ok {
		return fullByte
	}
	k := impliedKey{f, pol, i}
	if r, done := impliedMemo[k]; done {
		return r
	}
	r := fullByte
	switch n.op {
	case 'a':
		if n.i == i {
			switch {
			case n.v&^n.m != 0: // never true
				if pol {
					r = noByte
				}
			case pol:
				r = byteSet{n.v, n.v | (255 &^ n.m), n.m, n.v}
			case n.m == 255 && n.v == 0:
				r = byteSet{1, 255, 0, 0}
			case n.m == 255 && n.v == 255:
				r = byteSet{0, 254, 0, 0}
			}
		}
	case 'g':
		if n.i == i {
			if pol {
				r = byteSet{n.v, 255, 0, 0}
			} else {
				r = byteSet{0, n.v - 1, 0, 0}
			}
			if r.lo > r.hi {
				r = noByte
			}
		}
	case '&', '|':
		a, b := implied(n.a, pol, i), implied(n.b, pol, i)
		if (n.op == '&') == pol {
			r = a.meet(b)
		} else {
			r = a.join(b)
		}
	case '?':
		r = implied(n.a, true, i).meet(implied(n.b, pol, i)).join(implied(n.a, false, i).meet(implied(n.c, pol, i)))
	}
	impliedMemo[k] = r
	return r
}

// byteInfo is what the assumptions imply about byte i.
func (pc *pcNode) byteInfo(i int) byteSet {
	r := fullByte
	for n := pc; n != nil; n = n.next {
		r = r.meet(implied(n.f, n.pol, i))
	}
	// a bound that contradicts the known bits moves inwards (e.g. p[i] != lo)
	for r.lo <= r.hi && r.lo&r.mask != r.bits {
		r.lo++
	}
	for r.lo <= r.hi && r.hi&r.mask != r.bits {
		r.hi--
	}
	return r
}

// assume adds "f is pol" to pc, together with what follows from it structurally.
func (pc *pcNode) assume(f string, pol bool) *pcNode {
	if f == fTT || f == fFF {
		if (f == fTT) != pol {
			return &pcNode{f: f, pol: pol, next: pc, dead: true}
		}
		return pc
	}
	was := pc.val(f)
	dead := pc != nil && pc.dead
	pc = &pcNode{f: f, pol: pol, next: pc, dead: dead || (was == 1 && !pol) || (was == -1 && pol)}
	if n, ok := fstruct[f]; ok {
		if !pc.dead {
			// a byte that can no longer have any value
			for _, i := range bytesOf(f) {
				if pc.byteInfo(i).empty() {
					pc.dead = true
					break
				}
			}
		}
		switch {
		case n.op == '&' && pol, n.op == '|' && !pol:
			pc = pc.assume(n.a, pol).assume(n.b, pol)
		case n.op == '?' && n.b == fFF && n.c == fTT:
			pc = pc.assume(n.a, !pol)
		case n.op == '?' && n.b == fTT && n.c == fFF:
			pc = pc.assume(n.a, pol)
		}
	}
	return pc
}

// val is the value of f under the assumptions: 1 true, -1 false, 0 unknown.
func (pc *pcNode) val(f string) int { return pc.valD(f, 0) }

func (pc *pcNode) valD(f string, depth int) int {
	switch f {
	case fTT:
		return 1
	case fFF:
		return -1
	}
	for n := pc; n != nil; n = n.next {
		if n.f == f {
			if n.pol {
				return 1
			}
			return -1
		}
	}
	// unit propagation: an assumed disjunction / conjunction / if-then-else of which f is a
	// part, the other parts being decided
	if depth < 2 {
		sign := func(p bool) int {
			if p {
				return 1
			}
			return -1
		}
		for n := pc; n != nil; n = n.next {
			m, ok := fstruct[n.f]
			if !ok {
				continue
			}
			switch {
			case m.op == '|' && n.pol, m.op == '&' && !n.pol:
				// (a ∨ b) with the other one false  /  ¬(a ∧ b) with the other one true
				other := ""
				switch f {
				case m.a:
					other = m.b
				case m.b:
					other = m.a
				default:
					continue
				}
				if pc.valD(other, depth+1) == -sign(n.pol) {
					return sign(n.pol)
				}
			case m.op == '?':
				if f != m.b && f != m.c {
					continue
				}
				switch cv := pc.valD(m.a, depth+1); {
				case cv == 1 && f == m.b, cv == -1 && f == m.c:
					return sign(n.pol)
				}
				// ite(c, t, e) = p, the branch that is not f has the constant value !p: f was taken
				if f == m.c && (m.b == fTT || m.b == fFF) && (m.b == fTT) != n.pol {
					return sign(n.pol)
				}
				if f == m.b && (m.c == fTT || m.c == fFF) && (m.c == fTT) != n.pol {
					return sign(n.pol)
				}
			}
		}
	}
	n, ok := fstruct[f]
	if !ok {
		return 0
	}
	switch n.op {
	case 'a', 'g':
		if pc == nil {
			return 0
		}
		info := pc.byteInfo(n.i)
		if info.meet(implied(f, true, n.i)).empty() {
			return -1
		}
		if info.meet(implied(f, false, n.i)).empty() {
			// p[i] is confined to values on which f holds — provided "f false" was
			// described exactly, which it is for ge and for full-mask atoms at the ends;
			// for the other atoms implied(f,false) is the full byte, never empty
			return 1
		}
		if n.op == 'a' && info.lo == info.hi && info.lo&n.m == n.v {
			return 1
		}
		if n.op == 'a' && n.m&^info.mask == 0 && info.bits&n.m == n.v {
			return 1
		}
	case '&':
		a, b := pc.valD(n.a, depth), pc.valD(n.b, depth)
		switch {
		case a == -1 || b == -1:
			return -1
		case a == 1 && b == 1:
			return 1
		}
	case '|':
		a, b := pc.valD(n.a, depth), pc.valD(n.b, depth)
		switch {
		case a == 1 || b == 1:
			return 1
		case a == -1 && b == -1:
			return -1
		}
	case '?':
		switch pc.valD(n.a, depth) {
		case 1:
			return pc.valD(n.b, depth)
		case -1:
			return pc.valD(n.c, depth)
		}
		if t, e := pc.valD(n.b, depth), pc.valD(n.c, depth); t == e {
			return t
		}
	}
	return 0
}

// prune simplifies f under the assumptions (dead branches are removed); f itself is
// returned, unchanged, when nothing is known about any part of it.
func (pc *pcNode) prune(f string) string {
	if pc == nil {
		return f
	}
	switch pc.val(f) {
	case 1:
		return fTT
	case -1:
		return fFF
	}
	n, ok := fstruct[f]
	if !ok {
		return f
	}
	switch n.op {
	case '&':
		a, b := pc.prune(n.a), pc.prune(n.b)
		if a != n.a || b != n.b {
			return bAnd(a, b)
		}
	case '|':
		a, b := pc.prune(n.a), pc.prune(n.b)
		if a != n.a || b != n.b {
			return bOr(a, b)
		}
	case '?':
		c, t, e := pc.prune(n.a), pc.assume(n.a, true).prune(n.b), pc.assume(n.a, false).prune(n.c)
		if c != n.a || t != n.b || e != n.c {
			if t == fFF && e == fTT {
				return bNot(c)
			}
			return bIte(c, t, e)
		}
	}
	return f
}

var bytesOfMemo = map[string][]int{}

// bytesOf lists the byte indices a formula mentions.
func bytesOf(f string) []int {
	if r, ok := bytesOfMemo[f]; ok {
		return r
	}
	n, ok := fstruct[f]
	if !ok {
		return nil
	}
	seen := map[int]bool{}
	var res []int
	add := func(xs []int) {
		for _, x := range xs {
			if !seen[x] {
				seen[x] = true
				res = append(res, x)
			}
		}
	}
	switch n.op {
	case 'a', 'g':
		res = []int{n.i}
	case '&', '|':
		add(bytesOf(n.a))
		add(bytesOf(n.b))
	case '?':
		add(bytesOf(n.a))
		add(bytesOf(n.b))
		add(bytesOf(n.c))
	}
	bytesOfMemo[f] = res
	return res
}

// common is the longest common tail of two path conditions (the path before they forked).
func (pc *pcNode) common(o *pcNode) *pcNode {
	la, lb := 0, 0
	for n := pc; n != nil; n = n.next {
		la++
	}
	for n := o; n != nil; n = n.next {
		lb++
	}
	a, b := pc, o
	for ; la > lb; la-- {
		a = a.next
	}
	for ; lb > la; lb-- {
		b = b.next
	}
	for a != b {
		a, b = a.next, b.next
	}
	return a
}

// ---------------------------------------------------------------- addresses

func (a *vAddr) leaf() bool { return a.cond == "" }

// mapAddr applies f to every leaf and rebuilds the conditional structure.
func mapAddr(a *vAddr, f func(*vAddr) (*vAddr, error)) (*vAddr, error) {
	if a.leaf() {
		return f(a)
	}
	x, err := mapAddr(a.a, f)
	if err != nil {
		return nil, err
	}
	y, err := mapAddr(a.b, f)
	if err != nil {
		return nil, err
	}
	return &vAddr{cond: a.cond, a: x, b: y}, nil
}

// boolOfAddr applies a predicate to every leaf and combines with if-then-else.
func boolOfAddr(a *vAddr, f func(*vAddr) (string, error)) (string, error) {
	if a.leaf() {
		return f(a)
	}
	x, err := boolOfAddr(a.a, f)
	if err != nil {
		return "", err
	}
	y, err := boolOfAddr(a.b, f)
	if err != nil {
		return "", err
	}
	if x == y {
		return x, nil
	}
	return bIte(a.cond, x, y), nil
}

func concAddrLeaf(ad netip.Addr, byteT types.Type) *vAddr {
	if !ad.IsValid() {
		return &vAddr{}
	}
	raw := ad.AsSlice()
	l := &vAddr{w: len(raw)}
	for _, b := range raw {
		l.bs = append(l.bs, constWord(byteT, uint64(b)))
	}
	return l
}

// concrete returns the netip.Addr of a leaf whose bytes are all constants.
func (a *vAddr) concrete() (netip.Addr, bool) {
	if !a.leaf() {
		return netip.Addr{}, false
	}
	if a.w == 0 {
		return netip.Addr{}, true
	}
	raw := make([]byte, a.w)
	for i, b := range a.bs {
		v, ok := b.conc()
		if !ok {
			return netip.Addr{}, false
		}
		raw[i] = byte(v)
	}
	ad, ok := netip.AddrFromSlice(raw)
	return ad, ok
}

// is4In6F is the formula of Addr.Is4In6 on a 16-byte leaf: bytes 0..9 zero, 10..11 0xFF.
func is4In6F(l *vAddr) (string, error) {
	if l.w != 16 {
		return fFF, nil
	}
	var a, b []bit
	for k := 11; k >= 0; k-- {
		a = append(a, l.bs[k].bits...)
		c := uint64(0)
		if k >= 10 {
			c = 0xFF
		}
		b = append(b, constWord(nil, c).bits[:8]...)
	}
	return eqBits(a, b)
}

// containsF is the formula of netip.Prefix.Contains(addr) for a concrete prefix and a leaf
// (net/netip: false for an invalid prefix, the zero Addr and for different families — an
// IPv4 address never matches an IPv6 prefix, a 4in6 address never matches an IPv4 prefix —
// otherwise "the leading Bits() bits are equal").
func containsF(p netip.Prefix, l *vAddr) (string, error) {
	if !p.IsValid() || l.w == 0 || p.Addr().BitLen() != 8*l.w {
		return fFF, nil
	}
	raw := p.Addr().AsSlice()
	// the leaf is p[off : off+w] itself: the prefix formula of Model/C06F.lean
	off, ident := -1, true
	for j, b := range l.bs {
		idx, ok := b.identityByte()
		if !ok || (j > 0 && idx != off+j) {
			ident = false
			break
		}
		if j == 0 {
			off = idx
		}
	}
	if ident {
		var bs []string
		for _, x := range raw {
			bs = append(bs, strconv.Itoa(int(x)))
		}
		if off == 0 {
			return fmt.Sprintf("(prefixF ⟨[%s], %d⟩)", strings.Join(bs, ", "), p.Bits()), nil
		}
		return fmt.Sprintf("(prefixFAux %d [%s] %d)", off, strings.Join(bs, ", "), p.Bits()), nil
	}
	// otherwise compare the leading bits one by one
	var a, b []bit
	rem := p.Bits()
	for j := 0; j < l.w && rem > 0; j++ {
		cw := constWord(nil, uint64(raw[j]))
		for k := 7; k >= 0 && rem > 0; k-- {
			a = append([]bit{l.bs[j].bits[k]}, a...)
			b = append([]bit{cw.bits[k]}, b...)
			rem--
		}
	}
	return eqBits(a, b)
}
