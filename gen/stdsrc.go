package main

import (
	"fmt"
	"go/ast"
	"go/build"
	"go/importer"
	"go/parser"
	"go/types"
	"path/filepath"
	"strings"
)

// Standard-library functions the Subnets executor does not model by hand are EXECUTED FROM
// THEIR SOURCE: the package is parsed and type-checked from $GOROOT/src of the toolchain
// that builds the repository (go env GOROOT, run in the repository), and the function body
// goes through the same symbolic executor as the package's own helpers (generic functions
// included: the executor is dynamically typed, integer widths come from the values).  So
// slices.BinarySearchFunc is, literally, the loop of slices/sort.go of that toolchain
//
//	for i < j { h := int(uint(i+j) >> 1); if cmp(x[h], target) < 0 { i = h + 1 } else { j = h } }
//	return i, i < n && cmp(x[i], target) == 0
//
// with the comparison function inlined at each call and the paths forked on its result.
// Only the packages below are executed this way; whatever their code does that is outside
// the executor's subset is an error, as for the package's own code.
var stdSourcePkgs = map[string]bool{"slices": true, "sort": true, "cmp": true}

type stdPkg struct {
	pkg *types.Package
	dir string
}

func (x *sx) loadStd(path string, at ast.Node) (*stdPkg, error) {
	if sp, ok := x.std[path]; ok {
		return sp, nil
	}
	if !stdSourcePkgs[path] {
		return nil, x.errf(at, "package %s is not one the executor models or executes from source", path)
	}
	root, err := goroot(x.t.repo)
	if err != nil {
		return nil, err
	}
	dir := filepath.Join(root, "src", filepath.FromSlash(path))
	ctx := build.Default
	ctx.GOROOT = root
	bp, err := ctx.ImportDir(dir, 0)
	if err != nil {
		return nil, fmt.Errorf("standard library source of %s: %v", path, err)
	}
	var files []*ast.File
	for _, name := range bp.GoFiles {
		f, err := parser.ParseFile(x.t.fset, filepath.Join(dir, name), nil, 0)
		if err != nil {
			return nil, err
		}
		files = append(files, f)
	}
	info := &types.Info{Defs: map[*ast.Ident]types.Object{}, Types: map[ast.Expr]types.TypeAndValue{}, Uses: map[*ast.Ident]types.Object{},
		Selections: map[*ast.SelectorExpr]*types.Selection{}}
	var terrs []string
	conf := types.Config{Importer: importer.Default(), Error: func(e error) { terrs = append(terrs, e.Error()) }, FakeImportC: true}
	pkg, _ := conf.Check(path, x.t.fset, files, info)
	if pkg == nil || len(terrs) > 0 {
		return nil, fmt.Errorf("cannot type-check the standard library source %s: %s", dir, strings.Join(terrs, "; "))
	}
	// the executor looks everything up in one Info: the maps are keyed by distinct AST nodes
	for k, v := range info.Defs {
		x.info.Defs[k] = v
	}
	for k, v := range info.Uses {
		x.info.Uses[k] = v
	}
	for k, v := range info.Types {
		x.info.Types[k] = v
	}
	for k, v := range info.Selections {
		x.info.Selections[k] = v
	}
	for _, f := range files {
		for _, d := range f.Decls {
			if fd, ok := d.(*ast.FuncDecl); ok {
				if fo, ok := info.Defs[fd.Name].(*types.Func); ok {
					x.funcs[fo] = fd
				}
			}
		}
	}
	sp := &stdPkg{pkg: pkg, dir: dir}
	if x.std == nil {
		x.std, x.stdPkgs = map[string]*stdPkg{}, map[*types.Package]bool{}
	}
	x.std[path] = sp
	x.stdPkgs[pkg] = true
	return sp, nil
}

// stdSource runs the exported function path.name from its source.
func (x *sx) stdSource(path, name string, e *ast.CallExpr, args []value, pc *pcNode) (value, error) {
	sp, err := x.loadStd(path, e)
	if err != nil {
		return nil, err
	}
	fo, _ := sp.pkg.Scope().Lookup(name).(*types.Func)
	if fo == nil || x.funcs[fo] == nil {
		return nil, x.errf(e, "%s.%s is not a function of %s", path, name, sp.dir)
	}
	fb, err := x.declBody(fo, e)
	if err != nil {
		return nil, err
	}
	return x.call(fb, nil, args, e, pc)
}
