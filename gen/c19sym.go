package main

import (
	"fmt"
	"go/ast"
	"go/build"
	"go/constant"
	"go/importer"
	"go/parser"
	"go/token"
	"go/types"
	"path/filepath"
	"reflect"
	"sort"
	"strconv"
	"strings"
)

// c19sym: a small path-enumerating symbolic executor over go/types-checked source, used by
// the C19 skeleton translator (skel_c19.go) to compute a NORMAL FORM of a function:
//
//   - every call to a function or method of the analysed package whose body is available
//     is INLINED (recursion: error); a helper's `return` ends the helper only, its
//     deferred calls run when the helper returns; function literals bound to locals or
//     called/deferred directly are inlined at the call/run site;
//   - locals are substituted by the symbolic value they hold (go/types objects, not
//     names), conversions are transparent, named constants are their values;
//   - a field of a struct type of the analysed package is identified by the TYPE of the
//     leaf it reaches (pointers stripped, intermediate structs of the package transparent),
//     e.g. `h.<sync.Mutex>`; by type and field path only when two leaves have the same
//     type;
//   - a call that cannot be inlined is an EVENT when it is a method/function of a
//     synchronisation package, a dynamic call (interface method that cannot be
//     devirtualised, function value), or when its receiver or one of its arguments
//     derives from the receiver of the analysed method, from a package-level variable or
//     from the result of an earlier event (the shared and pooled objects); any other
//     call is a pure term that appears only inside the arguments of events;
//   - control flow is enumerated path by path (both branches of every undecided `if` /
//     `switch`); a branch whose condition is decided by an earlier one on the path is
//     pruned; two branches that execute the same events are merged (their differing
//     arguments become `ite(cond, a, b)`), so early return / else, negated conditions,
//     switch / if chains and conditions that do not affect the events all coincide;
//   - `defer` is recorded where it is registered (kind "defer", with the callees it will
//     run) and where it runs (kind "run", LIFO at the return of the function or helper
//     that registered it); a deferred function literal is inlined when it runs;
//   - on each path, plain calls that are INDEPENDENT are put into a canonical order
//     (c19Canonical): two calls are independent iff neither belongs to a synchronisation
//     package, is dynamic, deferred or a store, they call different functions and they
//     share no object (distinct fields of the receiver are distinct objects; everything
//     reached from the result of an event is one object together with what that event
//     was given);
//   - struct values are copied on assignment, `*p` of a pointer to a struct of the package
//     is a field-by-field copy (`d := *h; d.f = …; return &d`).
//
// Anything else (loops, go, select, channel operations and make(chan), goto, labels, type
// switches, pointer dereferences of and stores through other pointers, recursion, an
// event under && / ||, a function literal handed to a function that is not inlined) is
// OUTSIDE THE SUBSET: the translator fails loudly.  A condition is remembered on a path
// (and decides later occurrences of itself) only if it is built from deterministic terms.

type c19Fail struct{ msg string }

type c19GoPanic struct{}

type c19Term struct {
	k   string // kind
	s   string // payload
	a   []*c19Term
	n   int
	v   *types.Var   // field
	fl  *ast.FuncLit // closure
	typ types.Type
	fs  []string // struct: field keys (frozen)
}

func c19T(k, s string, a ...*c19Term) *c19Term { return &c19Term{k: k, s: s, a: a} }

type c19Alloc struct {
	typ    types.Type // struct type (named or not)
	fields map[string]*c19Term
}

type c19CopyOp struct{ dst, src *c19Term }

type c19Fresh struct {
	typ      types.Type
	len, cap *c19Term
	ops      []c19CopyOp
}

// c19Item is one element of a path: an event, a choice or the final return.
type c19Item struct {
	kind   string // call | defer | run | store | choice | return | panic
	callee string
	occ    int
	recv   *c19Term   // frozen
	args   []*c19Term // frozen
	spread bool
	taken  bool   // choice
	text   string // defer: filled when it runs
	fixed  bool   // never reordered: synchronisation package, dynamic call
}

type c19Deferred struct {
	item int // index of the "defer" item
	run  func()
}

type c19Frame struct {
	defers []c19Deferred
}

type c19Pkg struct {
	fset   *token.FileSet
	pkg    *types.Package
	info   *types.Info
	files  []*ast.File
	decls  map[*types.Func]*ast.FuncDecl
	dyn    map[*types.Var]types.Type // interface-typed struct fields with one dynamic type
	dynBad map[*types.Var]bool
	leaves map[*types.Named]map[*types.Var]string // struct type -> field -> leaf key ("" = hop)
}

// c19Load parses and type-checks one package directory of the repository (imports are
// resolved from source, inside the repository's module).
func c19Load(repo, dir string) (*c19Pkg, error) {
	fset := token.NewFileSet()
	matches, _ := filepath.Glob(filepath.Join(repo, dir, "*.go"))
	sort.Strings(matches)
	var files []*ast.File
	for _, m := range matches {
		if strings.HasSuffix(m, "_test.go") {
			continue
		}
		f, err := parser.ParseFile(fset, m, nil, parser.ParseComments)
		if err != nil {
			return nil, err
		}
		skip := false
		for _, cg := range f.Comments {
			if cg.Pos() > f.Package {
				break
			}
			for _, c := range cg.List {
				if strings.HasPrefix(c.Text, "//go:build") {
					// the unconstrained build only
					expr := strings.TrimSpace(strings.TrimPrefix(c.Text, "//go:build"))
					if !strings.HasPrefix(expr, "!") {
						skip = true
					}
				}
			}
		}
		if !skip {
			files = append(files, f)
		}
	}
	info := &types.Info{
		Defs: map[*ast.Ident]types.Object{}, Uses: map[*ast.Ident]types.Object{},
		Types: map[ast.Expr]types.TypeAndValue{}, Selections: map[*ast.SelectorExpr]*types.Selection{},
		Implicits: map[ast.Node]types.Object{}, Instances: map[*ast.Ident]types.Instance{},
	}
	var errs []string
	oldDir := build.Default.Dir
	build.Default.Dir = repo
	defer func() { build.Default.Dir = oldDir }()
	conf := types.Config{Importer: importer.ForCompiler(fset, "source", nil), Error: func(e error) { errs = append(errs, e.Error()) }}
	pkg, _ := conf.Check(filepath.Base(dir), fset, files, info)
	if pkg == nil || len(errs) > 0 {
		return nil, fmt.Errorf("cannot type-check %s: %s", dir, strings.Join(errs, "; "))
	}
	p := &c19Pkg{fset: fset, pkg: pkg, info: info, files: files, decls: map[*types.Func]*ast.FuncDecl{},
		dyn: map[*types.Var]types.Type{}, dynBad: map[*types.Var]bool{}, leaves: map[*types.Named]map[*types.Var]string{}}
	for _, f := range files {
		for _, d := range f.Decls {
			if fd, ok := d.(*ast.FuncDecl); ok && fd.Body != nil {
				if fn, ok := info.Defs[fd.Name].(*types.Func); ok {
					p.decls[fn] = fd
				}
			}
		}
	}
	p.scanDynTypes()
	return p, nil
}

func (p *c19Pkg) pos(n ast.Node) string {
	ps := p.fset.Position(n.Pos())
	return fmt.Sprintf("%s:%d", filepath.Base(ps.Filename), ps.Line)
}

func (p *c19Pkg) fail(n ast.Node, format string, args ...any) {
	panic(c19Fail{p.pos(n) + ": " + fmt.Sprintf(format, args...)})
}

// scanDynTypes finds, for every interface-typed field of a struct of the package, the
// static types of everything that is ever stored in it.  If that is one concrete type
// (copies of the same field aside), method calls on the field are devirtualised and the
// field is identified by that type.
func (p *c19Pkg) scanDynTypes() {
	note := func(v *types.Var, e ast.Expr) {
		if v == nil || !types.IsInterface(v.Type()) {
			return
		}
		e = ast.Unparen(e)
		if se, ok := e.(*ast.SelectorExpr); ok {
			if sel := p.info.Selections[se]; sel != nil && sel.Kind() == types.FieldVal && sel.Obj() == v {
				return // copy of the same field
			}
		}
		t := p.info.TypeOf(e)
		if t == nil || types.IsInterface(t) {
			p.dynBad[v] = true
			return
		}
		if b, ok := t.(*types.Basic); ok && b.Kind() == types.UntypedNil {
			p.dynBad[v] = true
			return
		}
		if old, ok := p.dyn[v]; ok && !types.Identical(old, t) {
			p.dynBad[v] = true
			return
		}
		p.dyn[v] = t
	}
	for _, f := range p.files {
		ast.Inspect(f, func(n ast.Node) bool {
			switch x := n.(type) {
			case *ast.CompositeLit:
				t := p.info.TypeOf(x)
				if t == nil {
					return true
				}
				st, ok := t.Underlying().(*types.Struct)
				if !ok {
					return true
				}
				for i, el := range x.Elts {
					if kv, ok := el.(*ast.KeyValueExpr); ok {
						if id, ok := kv.Key.(*ast.Ident); ok {
							if v, ok := p.info.Uses[id].(*types.Var); ok {
								note(v, kv.Value)
							}
						}
					} else if i < st.NumFields() {
						note(st.Field(i), el)
					}
				}
			case *ast.AssignStmt:
				if len(x.Lhs) == len(x.Rhs) {
					for i, l := range x.Lhs {
						if se, ok := ast.Unparen(l).(*ast.SelectorExpr); ok {
							if sel := p.info.Selections[se]; sel != nil && sel.Kind() == types.FieldVal {
								note(sel.Obj().(*types.Var), x.Rhs[i])
							}
						}
					}
				} else {
					for _, l := range x.Lhs {
						if se, ok := ast.Unparen(l).(*ast.SelectorExpr); ok {
							if sel := p.info.Selections[se]; sel != nil && sel.Kind() == types.FieldVal {
								if v := sel.Obj().(*types.Var); types.IsInterface(v.Type()) {
									p.dynBad[v] = true
								}
							}
						}
					}
				}
			case *ast.UnaryExpr:
				if x.Op == token.AND {
					if se, ok := ast.Unparen(x.X).(*ast.SelectorExpr); ok {
						if sel := p.info.Selections[se]; sel != nil && sel.Kind() == types.FieldVal {
							if v := sel.Obj().(*types.Var); types.IsInterface(v.Type()) {
								p.dynBad[v] = true
							}
						}
					}
				}
			}
			return true
		})
	}
}

func (p *c19Pkg) dynType(v *types.Var) types.Type {
	if p.dynBad[v] {
		return nil
	}
	return p.dyn[v]
}

func c19Deref(t types.Type) types.Type {
	for {
		pt, ok := t.Underlying().(*types.Pointer)
		if !ok {
			if pt2, ok2 := t.(*types.Pointer); ok2 {
				t = pt2.Elem()
				continue
			}
			return t
		}
		t = pt.Elem()
	}
}

// localStruct: t (pointers stripped) is a named struct type declared in the analysed package
func (p *c19Pkg) localStruct(t types.Type) *types.Named {
	t = types.Unalias(c19Deref(t))
	n, ok := t.(*types.Named)
	if !ok || n.Obj().Pkg() != p.pkg {
		return nil
	}
	if _, ok := n.Underlying().(*types.Struct); !ok {
		return nil
	}
	return n.Origin()
}

// typeKey: a name for a type that does not depend on the names of the package's own
// types and fields: pointers are stripped, a struct of the package is the sorted set of
// its leaves, another named type of the package is its underlying type.
func (p *c19Pkg) typeKey(t types.Type) string { return p.typeKeyD(t, 0) }

func (p *c19Pkg) typeKeyD(t types.Type, depth int) string {
	if depth > 8 {
		return "…"
	}
	t = types.Unalias(t)
	switch x := t.(type) {
	case *types.Pointer:
		return p.typeKeyD(x.Elem(), depth+1)
	case *types.Slice:
		return "[]" + p.typeKeyD(x.Elem(), depth+1)
	case *types.Array:
		return fmt.Sprintf("[%d]%s", x.Len(), p.typeKeyD(x.Elem(), depth+1))
	case *types.Map:
		return "map[" + p.typeKeyD(x.Key(), depth+1) + "]" + p.typeKeyD(x.Elem(), depth+1)
	case *types.Basic:
		return x.Name()
	case *types.Named:
		if x.Obj().Pkg() == p.pkg {
			if st, ok := x.Underlying().(*types.Struct); ok {
				var ks []string
				for i := 0; i < st.NumFields(); i++ {
					ks = append(ks, p.typeKeyD(p.effType(st.Field(i)), depth+1))
				}
				sort.Strings(ks)
				return "{" + strings.Join(ks, ",") + "}"
			}
			return p.typeKeyD(x.Underlying(), depth+1)
		}
		s := x.Obj().Name()
		if x.Obj().Pkg() != nil {
			s = x.Obj().Pkg().Name() + "." + s
		}
		if ta := x.TypeArgs(); ta != nil && ta.Len() > 0 {
			var as []string
			for i := 0; i < ta.Len(); i++ {
				as = append(as, p.typeKeyD(ta.At(i), depth+1))
			}
			s += "[" + strings.Join(as, ",") + "]"
		}
		return s
	case *types.Struct:
		var ks []string
		for i := 0; i < x.NumFields(); i++ {
			ks = append(ks, p.typeKeyD(x.Field(i).Type(), depth+1))
		}
		return "struct{" + strings.Join(ks, ",") + "}"
	}
	return types.TypeString(t, func(q *types.Package) string { return q.Name() })
}

// effType: the declared type of a field, or its only dynamic type if it is an interface
// field that only ever holds one concrete type.
func (p *c19Pkg) effType(v *types.Var) types.Type {
	if types.IsInterface(v.Type()) {
		if d := p.dynType(v); d != nil {
			return d
		}
	}
	return v.Type()
}

type c19Leaf struct {
	path []*types.Var
	key  string
}

// structLeaves: the leaves of a struct type of the package: fields whose type is not
// itself a struct of the package (those are transparent hops).
func (p *c19Pkg) structLeaves(n *types.Named) []c19Leaf {
	var out []c19Leaf
	var walk func(n *types.Named, prefix []*types.Var, seen map[*types.Named]bool)
	walk = func(n *types.Named, prefix []*types.Var, seen map[*types.Named]bool) {
		if seen[n] {
			return
		}
		seen[n] = true
		st := n.Underlying().(*types.Struct)
		for i := 0; i < st.NumFields(); i++ {
			f := st.Field(i)
			path := append(append([]*types.Var{}, prefix...), f)
			if sub := p.localStruct(f.Type()); sub != nil {
				walk(sub, path, seen)
				continue
			}
			out = append(out, c19Leaf{path: path, key: p.typeKey(p.effType(f))})
		}
		delete(seen, n)
	}
	walk(n, nil, map[*types.Named]bool{})
	count := map[string]int{}
	for _, l := range out {
		count[l.key]++
	}
	for i, l := range out {
		if count[l.key] > 1 {
			var names []string
			for _, f := range l.path {
				names = append(names, f.Name())
			}
			out[i].key = l.key + ":" + strings.Join(names, ".")
		}
	}
	return out
}

/* ---------- executor ---------- */

type c19Fact struct {
	c *c19Term
	v bool
}

type c19Exec struct {
	p         *c19Pkg
	env       map[types.Object]*c19Term
	allocs    []*c19Alloc
	fresh     []*c19Fresh
	items     []c19Item
	facts     map[string]bool
	factList  []c19Fact
	decisions []bool
	nchoice   int
	taken     []bool
	stack     []*types.Func
	frames    []*c19Frame
	occ       map[string]int
	recvType  *types.Named
	// hooks
	pure      map[string]bool // external callees whose result is a pure term
	identity  map[string]bool // external methods that return their receiver
	syncPkgs  map[string]bool // packages all of whose calls are events
	preserve  map[string][]string
	retFreeze func(x *c19Exec, vals []*c19Term) []*c19Term
}

func (x *c19Exec) fail(n ast.Node, format string, args ...any) { x.p.fail(n, format, args...) }

func (x *c19Exec) tracked(t *c19Term) bool {
	if t == nil {
		return false
	}
	switch t.k {
	case "recv", "ev", "evres", "global", "closure", "funcval":
		return true
	case "mut":
		return true
	case "alloc":
		for _, f := range x.allocs[t.n].fields {
			if x.tracked(f) {
				return true
			}
		}
		return false
	case "fresh":
		fr := x.fresh[t.n]
		for _, op := range fr.ops {
			if x.tracked(op.src) {
				return true
			}
		}
		return false
	}
	for _, c := range t.a {
		if x.tracked(c) {
			return true
		}
	}
	return false
}

// freeze: a copy of the term in which allocations and fresh slices are replaced by their
// present contents.
func (x *c19Exec) freeze(t *c19Term) *c19Term { return x.freezeD(t, 0) }

func (x *c19Exec) freezeD(t *c19Term, d int) *c19Term {
	if t == nil {
		return nil
	}
	if d > 40 {
		panic(c19Fail{"term too deep"})
	}
	switch t.k {
	case "alloc":
		al := x.allocs[t.n]
		out := &c19Term{k: "struct", typ: al.typ}
		st := al.typ.Underlying().(*types.Struct)
		isLocal := x.p.localStruct(al.typ) != nil
		count := map[string]int{}
		keys := make([]string, st.NumFields())
		for i := 0; i < st.NumFields(); i++ {
			f := st.Field(i)
			key := f.Name()
			if j, ok := reflect.StructTag(st.Tag(i)).Lookup("json"); ok && j != "" && j != "-" {
				key = strings.Split(j, ",")[0]
			} else if isLocal {
				// fields of the package's own structs are identified by type
				key = "<" + x.p.typeKey(x.p.effType(f)) + ">"
			}
			keys[i] = key
			count[key]++
		}
		for i := 0; i < st.NumFields(); i++ {
			f := st.Field(i)
			key := keys[i]
			if count[key] > 1 {
				key += ":" + f.Name()
			}
			out.fs = append(out.fs, key)
			out.a = append(out.a, x.freezeD(al.fields[f.Name()], d+1))
		}
		return out
	case "fresh":
		fr := x.fresh[t.n]
		out := &c19Term{k: "make", a: []*c19Term{x.freezeD(fr.len, d+1), x.freezeD(fr.cap, d+1)}, n: t.n}
		for _, op := range fr.ops {
			out.a = append(out.a, c19T("copy", "", x.freezeDst(op.dst, t.n, d+1), x.freezeD(op.src, d+1)))
		}
		return out
	}
	if len(t.a) == 0 {
		return t
	}
	out := *t
	out.a = make([]*c19Term, len(t.a))
	for i, c := range t.a {
		out.a[i] = x.freezeD(c, d+1)
	}
	return &out
}

// freezeDst freezes the destination of a copy into fresh slice id: the slice itself is "self".
func (x *c19Exec) freezeDst(t *c19Term, id, d int) *c19Term {
	if t == nil {
		return nil
	}
	if t.k == "fresh" && t.n == id {
		return &c19Term{k: "self", n: id}
	}
	if (t.k == "slice" || t.k == "index") && len(t.a) > 0 {
		out := *t
		out.a = make([]*c19Term, len(t.a))
		out.a[0] = x.freezeDst(t.a[0], id, d+1)
		for i := 1; i < len(t.a); i++ {
			out.a[i] = x.freezeD(t.a[i], d+1)
		}
		return &out
	}
	return x.freezeD(t, d)
}

// valueCopy: a struct VALUE (not a pointer to it) that is assigned, passed or returned is a
// copy of the allocation it comes from.
func (x *c19Exec) valueCopy(t *c19Term, typ types.Type) *c19Term {
	if t == nil || t.k != "alloc" || typ == nil {
		return t
	}
	if _, ok := typ.Underlying().(*types.Struct); !ok {
		return t
	}
	old := x.allocs[t.n]
	al := &c19Alloc{typ: old.typ, fields: map[string]*c19Term{}}
	for k, v := range old.fields {
		al.fields[k] = v
	}
	x.allocs = append(x.allocs, al)
	return &c19Term{k: "alloc", n: len(x.allocs) - 1, typ: t.typ}
}

func (x *c19Exec) emit(it c19Item) int {
	x.items = append(x.items, it)
	return len(x.items) - 1
}

/* ---------- rendering ---------- */

func c19Render(t *c19Term) string {
	if t == nil {
		return "_"
	}
	switch t.k {
	case "recv":
		return "h"
	case "param":
		return fmt.Sprintf("arg%d", t.n)
	case "const", "global", "funcval":
		return t.s
	case "nil":
		return "nil"
	case "zero":
		return "zero"
	case "field":
		if t.s == "" { // hop
			return c19Render(t.a[0])
		}
		return c19Render(t.a[0]) + "." + t.s
	case "ev":
		return fmt.Sprintf("%s#%d", t.s, t.n)
	case "evres":
		return fmt.Sprintf("%s#%d.%s", t.s, t.n, t.fs[0])
	case "pure":
		var as []string
		for _, c := range t.a {
			as = append(as, c19Render(c))
		}
		return t.s + "(" + strings.Join(as, ", ") + ")"
	case "mut":
		return c19Render(t.a[0]) + "+" + fmt.Sprintf("%s#%d", t.s, t.n)
	case "struct":
		var fs []string
		for i, c := range t.a {
			fs = append(fs, t.fs[i]+"="+c19Render(c))
		}
		return "{" + strings.Join(fs, "; ") + "}"
	case "make":
		s := "make(" + c19Render(t.a[0])
		if t.a[1] != nil {
			s += ", " + c19Render(t.a[1])
		}
		s += ")"
		for _, c := range t.a[2:] {
			s += "+copy(" + c19Render(c.a[0]) + " <- " + c19Render(c.a[1]) + ")"
		}
		return s
	case "copyn":
		return fmt.Sprintf("copied#%d", t.n)
	case "self":
		return "self"
	case "closure":
		return "func-literal"
	case "cmp", "bin":
		return "(" + c19Render(t.a[0]) + " " + t.s + " " + c19Render(t.a[1]) + ")"
	case "isnil":
		return "isnil(" + c19Render(t.a[0]) + ")"
	case "not":
		return "!" + c19Render(t.a[0])
	case "and":
		return "(" + c19Render(t.a[0]) + " && " + c19Render(t.a[1]) + ")"
	case "or":
		return "(" + c19Render(t.a[0]) + " || " + c19Render(t.a[1]) + ")"
	case "ite":
		return "ite(" + c19Render(t.a[0]) + ", " + c19Render(t.a[1]) + ", " + c19Render(t.a[2]) + ")"
	case "slice":
		r := func(c *c19Term) string {
			if c == nil {
				return ""
			}
			return c19Render(c)
		}
		s := c19Render(t.a[0]) + "[" + r(t.a[1]) + ":" + r(t.a[2])
		if t.a[3] != nil {
			s += ":" + r(t.a[3])
		}
		return s + "]"
	case "index":
		return c19Render(t.a[0]) + "[" + c19Render(t.a[1]) + "]"
	case "append":
		var as []string
		for _, c := range t.a {
			as = append(as, c19Render(c))
		}
		return "append(" + strings.Join(as, ", ") + t.s + ")"
	case "lit":
		var as []string
		for _, c := range t.a {
			as = append(as, c19Render(c))
		}
		return t.s + "{" + strings.Join(as, ", ") + "}"
	case "spread":
		return c19Render(t.a[0]) + "..."
	case "summary":
		return t.s
	}
	return "?" + t.k
}

/* ---------- conditions ---------- */

func c19ConstBool(b bool) *c19Term {
	if b {
		return c19T("const", "true")
	}
	return c19T("const", "false")
}

// canonCond brings a condition into a canonical form and polarity.
func (x *c19Exec) canonCond(t *c19Term) (*c19Term, bool) {
	switch t.k {
	case "not":
		c, pos := x.canonCond(t.a[0])
		return c, !pos
	case "cmp":
		a, b := t.a[0], t.a[1]
		switch t.s {
		case "==", "!=":
			pos := t.s == "=="
			if b.k == "nil" {
				return x.foldNil(a), pos
			}
			if a.k == "nil" {
				return x.foldNil(b), pos
			}
			if a.k == "const" && b.k == "const" {
				return c19ConstBool((a.s == b.s)), pos
			}
			if c19Render(x.freeze(a)) > c19Render(x.freeze(b)) {
				a, b = b, a
			}
			if c19Render(x.freeze(a)) == c19Render(x.freeze(b)) && !x.tracked(a) && x.stable(x.freeze(a)) {
				return c19ConstBool(true), pos
			}
			return c19T("cmp", "==", a, b), pos
		case ">=":
			return x.canonGe(a, b, true)
		case "<":
			return x.canonGe(a, b, false)
		case ">":
			return x.canonGe(b, a, false)
		case "<=":
			return x.canonGe(b, a, true)
		}
	case "const":
		return t, true
	}
	return t, true
}

func (x *c19Exec) foldNil(a *c19Term) *c19Term {
	switch a.k {
	case "nil":
		return c19ConstBool(true)
	case "alloc", "fresh", "closure", "struct", "make":
		return c19ConstBool(false)
	}
	return c19T("isnil", "", a)
}

// canonGe: (a >= b) with the given polarity; an integer constant on the left is moved to
// the right: c >= x  <=>  !(x >= c+1).
func (x *c19Exec) canonGe(a, b *c19Term, pos bool) (*c19Term, bool) {
	if a.k == "const" && b.k == "const" {
		va, ea := strconv.ParseInt(a.s, 10, 64)
		vb, eb := strconv.ParseInt(b.s, 10, 64)
		if ea == nil && eb == nil {
			return c19ConstBool(va >= vb), pos
		}
	}
	if a.k == "const" && b.k != "const" {
		if va, err := strconv.ParseInt(a.s, 10, 64); err == nil {
			return c19T("cmp", ">=", b, c19T("const", strconv.FormatInt(va+1, 10))), !pos
		}
	}
	return c19T("cmp", ">=", a, b), pos
}

// decide: returns (value, known) for a canonical condition
func (x *c19Exec) decide(c *c19Term) (bool, bool) {
	if c.k == "const" && (c.s == "true" || c.s == "false") {
		return c.s == "true", true
	}
	if v, ok := x.facts[c19Render(x.freeze(c))]; ok {
		return v, true
	}
	return false, false
}

// stable: the value of the term cannot change between two evaluations on one path: it is
// built from parameters, fields, constants, results of events (each is numbered) and calls
// of functions known to be pure.  A call of any other function (rand.Intn, time.Now, …) is
// not: a condition on it is a fresh choice every time.
func (x *c19Exec) stable(t *c19Term) bool {
	if t == nil {
		return true
	}
	if t.k == "pure" {
		switch {
		case x.pure[t.s], t.s == "len", t.s == "cap", t.s == "min", t.s == "max",
			strings.HasPrefix(t.s, "result"), strings.HasPrefix(t.s, "unary"), strings.HasPrefix(t.s, "assert<"):
		default:
			return false
		}
	}
	if t.k == "global" || t.k == "funcval" || t.k == "closure" {
		return false
	}
	for _, c := range t.a {
		if !x.stable(c) {
			return false
		}
	}
	return true
}

// branch evaluates a condition to a Go bool, consuming a decision if it is not determined.
func (x *c19Exec) branch(n ast.Node, cond *c19Term) bool {
	switch cond.k {
	case "and":
		// short-circuit: decided parts first
		if v := x.branchKnown(cond.a[0]); v != nil && !*v {
			return false
		} else if v != nil && *v {
			return x.branch(n, cond.a[1])
		}
		if v := x.branchKnown(cond.a[1]); v != nil && !*v {
			return false
		} else if v != nil && *v {
			return x.branch(n, cond.a[0])
		}
	case "or":
		if v := x.branchKnown(cond.a[0]); v != nil && *v {
			return true
		} else if v != nil && !*v {
			return x.branch(n, cond.a[1])
		}
		if v := x.branchKnown(cond.a[1]); v != nil && *v {
			return true
		} else if v != nil && !*v {
			return x.branch(n, cond.a[0])
		}
	}
	c, pos := x.canonCond(cond)
	if v, ok := x.decide(c); ok {
		return v == pos
	}
	var v bool
	if x.nchoice < len(x.decisions) {
		v = x.decisions[x.nchoice]
	} else {
		v = true
	}
	x.nchoice++
	x.taken = append(x.taken, v)
	fc := x.freeze(c)
	if x.stable(fc) {
		x.facts[c19Render(fc)] = v
		x.factList = append(x.factList, c19Fact{fc, v})
	}
	x.emit(c19Item{kind: "choice", args: []*c19Term{fc}, taken: v})
	// consequences of a length-sum being zero etc. are derived by the slice summary
	return v == pos
}

func (x *c19Exec) branchKnown(cond *c19Term) *bool {
	if cond.k == "and" || cond.k == "or" {
		return nil
	}
	c, pos := x.canonCond(cond)
	if v, ok := x.decide(c); ok {
		r := v == pos
		return &r
	}
	return nil
}

/* ---------- expressions ---------- */

func (x *c19Exec) lookup(n ast.Node, obj types.Object) *c19Term {
	if t, ok := x.env[obj]; ok {
		return t
	}
	switch o := obj.(type) {
	case *types.Var:
		if o.Parent() == x.p.pkg.Scope() || (o.Pkg() != nil && o.Pkg() != x.p.pkg) || (o.Pkg() == x.p.pkg && o.Parent() == o.Pkg().Scope()) {
			name := o.Name()
			if o.Pkg() != nil {
				name = o.Pkg().Name() + "." + name
			}
			return c19T("global", name)
		}
	case *types.Func:
		name := o.Name()
		if o.Pkg() != nil {
			name = o.Pkg().Name() + "." + name
		}
		t := c19T("funcval", name)
		return t
	case *types.Nil:
		return c19T("nil", "")
	}
	x.fail(n, "identifier %s has no symbolic value", obj.Name())
	return nil
}

func (x *c19Exec) constOf(e ast.Expr) *c19Term {
	tv, ok := x.p.info.Types[e]
	if !ok || tv.Value == nil {
		return nil
	}
	switch tv.Value.Kind() {
	case constant.String:
		return c19T("const", strconv.Quote(constant.StringVal(tv.Value)))
	case constant.Int, constant.Bool:
		return c19T("const", tv.Value.ExactString())
	}
	return c19T("const", tv.Value.String())
}

func (x *c19Exec) eval1(e ast.Expr) *c19Term {
	vs := x.eval(e)
	if len(vs) != 1 {
		x.fail(e, "expression yields %d values where one is needed", len(vs))
	}
	return vs[0]
}

func (x *c19Exec) field(n ast.Node, base *c19Term, v *types.Var, owner types.Type) *c19Term {
	// allocation of a struct in this function: read the cell
	if base.k == "alloc" {
		al := x.allocs[base.n]
		if f, ok := al.fields[v.Name()]; ok {
			return f
		}
		x.fail(n, "no field %s in the allocated struct", v.Name())
	}
	// field-preserving operations of foreign value types (Record.Clone, Record.AddAttrs)
	if named, ok := types.Unalias(c19Deref(owner)).(*types.Named); ok && named.Obj().Pkg() != x.p.pkg {
		key := named.Obj().Pkg().Name() + "." + named.Obj().Name()
		if ops, ok := x.preserve[key]; ok && v.Exported() {
			for {
				if base.k == "mut" && c19In(ops, base.s) {
					base = base.a[0]
					continue
				}
				if base.k == "pure" && c19In(ops, base.s) && len(base.a) >= 1 {
					base = base.a[0]
					continue
				}
				break
			}
		}
		out := c19T("field", v.Name(), base)
		out.v = v
		return out
	}
	if named := x.p.localStruct(owner); named != nil {
		if sub := x.p.localStruct(v.Type()); sub != nil {
			out := c19T("field", "", base) // hop
			out.v = v
			return out
		}
		// leaf: keyed by type, relative to the outermost struct of the package in the chain
		root, path := base, []*types.Var{v}
		rootType := named
		for root.k == "field" && root.s == "" && root.v != nil {
			path = append([]*types.Var{root.v}, path...)
			root = root.a[0]
		}
		if root != base {
			// the type that owns the first hop
			rootType = x.hopOwner(n, path[0])
		}
		key := ""
		for _, l := range x.p.structLeaves(rootType) {
			if len(l.path) == len(path) {
				same := true
				for i := range path {
					if l.path[i] != path[i] {
						same = false
					}
				}
				if same {
					key = l.key
				}
			}
		}
		if key == "" {
			x.fail(n, "cannot identify field %s by type", v.Name())
		}
		out := c19T("field", "<"+key+">", root)
		out.v = v
		return out
	}
	out := c19T("field", v.Name(), base)
	out.v = v
	return out
}

func (x *c19Exec) hopOwner(n ast.Node, f *types.Var) *types.Named {
	for _, name := range x.p.pkg.Scope().Names() {
		if tn, ok := x.p.pkg.Scope().Lookup(name).(*types.TypeName); ok {
			if named, ok := types.Unalias(tn.Type()).(*types.Named); ok {
				if st, ok := named.Underlying().(*types.Struct); ok {
					for i := 0; i < st.NumFields(); i++ {
						if st.Field(i) == f {
							return named
						}
					}
				}
			}
		}
	}
	x.fail(n, "cannot find the struct that declares field %s", f.Name())
	return nil
}

func c19In(xs []string, s string) bool {
	for _, y := range xs {
		if y == s {
			return true
		}
	}
	return false
}

func (x *c19Exec) eval(e ast.Expr) []*c19Term {
	if c := x.constOf(e); c != nil {
		return []*c19Term{c}
	}
	switch v := e.(type) {
	case *ast.ParenExpr:
		return x.eval(v.X)
	case *ast.Ident:
		if v.Name == "_" {
			x.fail(e, "blank identifier as a value")
		}
		obj := x.p.info.Uses[v]
		if obj == nil {
			obj = x.p.info.Defs[v]
		}
		if obj == nil {
			x.fail(e, "unresolved identifier %s", v.Name)
		}
		if _, ok := obj.(*types.Nil); ok {
			return []*c19Term{c19T("nil", "")}
		}
		return []*c19Term{x.lookup(e, obj)}
	case *ast.BasicLit:
		return []*c19Term{c19T("const", v.Value)}
	case *ast.FuncLit:
		t := c19T("closure", "")
		t.fl = v
		return []*c19Term{t}
	case *ast.SelectorExpr:
		if sel := x.p.info.Selections[v]; sel != nil {
			switch sel.Kind() {
			case types.FieldVal:
				base := x.eval1(v.X)
				return []*c19Term{x.selectPath(v, base, x.p.info.TypeOf(v.X), sel.Index())}
			case types.MethodVal:
				base := x.eval1(v.X)
				t := c19T("pure", "methodvalue:"+sel.Obj().Name(), base)
				t.k = "funcval"
				t.s = "methodvalue(" + c19Render(x.freeze(base)) + "." + sel.Obj().Name() + ")"
				return []*c19Term{t}
			}
			x.fail(e, "method expression is outside the subset")
		}
		// qualified identifier
		obj := x.p.info.Uses[v.Sel]
		if obj == nil {
			x.fail(e, "unresolved selector")
		}
		return []*c19Term{x.lookup(e, obj)}
	case *ast.CallExpr:
		return x.evalCall(v)
	case *ast.StarExpr:
		b := x.eval1(v.X)
		if b.k == "alloc" {
			return []*c19Term{x.valueCopy(b, x.p.info.TypeOf(e))}
		}
		// *p for a pointer to a struct of the package: a copy, field by field
		if named := x.p.localStruct(x.p.info.TypeOf(e)); named != nil {
			if st, ok := x.p.info.TypeOf(e).Underlying().(*types.Struct); ok {
				al := &c19Alloc{typ: x.p.info.TypeOf(e), fields: map[string]*c19Term{}}
				for i := 0; i < st.NumFields(); i++ {
					al.fields[st.Field(i).Name()] = x.field(e, b, st.Field(i), x.p.info.TypeOf(v.X))
				}
				x.allocs = append(x.allocs, al)
				return []*c19Term{{k: "alloc", n: len(x.allocs) - 1, typ: x.p.info.TypeOf(e)}}
			}
		}
		x.fail(e, "pointer dereference of a value that is not a local allocation: outside the subset")
	case *ast.UnaryExpr:
		switch v.Op {
		case token.AND:
			if cl, ok := ast.Unparen(v.X).(*ast.CompositeLit); ok {
				return x.eval(cl)
			}
			b := x.eval1(v.X)
			if b.k == "alloc" {
				return []*c19Term{b}
			}
			x.fail(e, "address of a value that is not a local struct allocation: outside the subset")
		case token.NOT:
			return []*c19Term{c19T("not", "", x.eval1(v.X))}
		case token.SUB, token.ADD, token.XOR:
			return []*c19Term{c19T("pure", "unary"+v.Op.String(), x.eval1(v.X))}
		case token.ARROW:
			x.fail(e, "channel receive: outside the subset")
		}
		x.fail(e, "unary operator %s: outside the subset", v.Op)
	case *ast.BinaryExpr:
		switch v.Op {
		case token.LAND, token.LOR:
			a := x.eval1(v.X)
			n0 := len(x.items)
			b := x.eval1(v.Y)
			if len(x.items) != n0 {
				x.fail(e, "an event under a short-circuit operator: outside the subset")
			}
			if v.Op == token.LAND {
				return []*c19Term{c19T("and", "", a, b)}
			}
			return []*c19Term{c19T("or", "", a, b)}
		case token.EQL, token.NEQ, token.LSS, token.LEQ, token.GTR, token.GEQ:
			return []*c19Term{c19T("cmp", v.Op.String(), x.eval1(v.X), x.eval1(v.Y))}
		}
		a, b := x.eval1(v.X), x.eval1(v.Y)
		if (v.Op == token.ADD || v.Op == token.MUL) && c19Render(x.freeze(a)) > c19Render(x.freeze(b)) {
			if bt, ok := x.p.info.TypeOf(v.X).Underlying().(*types.Basic); ok && bt.Info()&types.IsNumeric != 0 {
				a, b = b, a // commutative on numbers
			}
		}
		return []*c19Term{c19T("bin", v.Op.String(), a, b)}
	case *ast.CompositeLit:
		t := x.p.info.TypeOf(v)
		if st, ok := t.Underlying().(*types.Struct); ok {
			al := &c19Alloc{typ: t, fields: map[string]*c19Term{}}
			for i := 0; i < st.NumFields(); i++ {
				z := c19T("zero", "")
				z.typ = st.Field(i).Type()
				al.fields[st.Field(i).Name()] = z
			}
			for i, el := range v.Elts {
				if kv, ok := el.(*ast.KeyValueExpr); ok {
					al.fields[kv.Key.(*ast.Ident).Name] = x.eval1(kv.Value)
				} else {
					al.fields[st.Field(i).Name()] = x.eval1(el)
				}
			}
			x.allocs = append(x.allocs, al)
			out := &c19Term{k: "alloc", n: len(x.allocs) - 1, typ: t}
			return []*c19Term{out}
		}
		out := c19T("lit", x.p.typeKey(t))
		for _, el := range v.Elts {
			if kv, ok := el.(*ast.KeyValueExpr); ok {
				out.a = append(out.a, c19T("bin", ":", x.eval1(kv.Key), x.eval1(kv.Value)))
			} else {
				out.a = append(out.a, x.eval1(el))
			}
		}
		return []*c19Term{out}
	case *ast.SliceExpr:
		out := &c19Term{k: "slice", a: make([]*c19Term, 4)}
		out.a[0] = x.eval1(v.X)
		if v.Low != nil {
			out.a[1] = x.eval1(v.Low)
			if out.a[1].k == "const" && out.a[1].s == "0" {
				out.a[1] = nil
			}
		}
		if v.High != nil {
			out.a[2] = x.eval1(v.High)
		}
		if v.Max != nil {
			out.a[3] = x.eval1(v.Max)
		}
		return []*c19Term{out}
	case *ast.IndexExpr:
		if tv, ok := x.p.info.Types[v.X]; ok && tv.IsValue() {
			if _, isSig := tv.Type.Underlying().(*types.Signature); !isSig {
				return []*c19Term{c19T("index", "", x.eval1(v.X), x.eval1(v.Index))}
			}
		}
		return x.eval(v.X) // instantiation of a generic function
	case *ast.TypeAssertExpr:
		return []*c19Term{c19T("pure", "assert<"+x.p.typeKey(x.p.info.TypeOf(v.Type))+">", x.eval1(v.X))}
	}
	x.fail(e, "expression %T: outside the subset", e)
	return nil
}

// selectPath follows a (possibly promoted) field selection.
func (x *c19Exec) selectPath(n ast.Node, base *c19Term, t types.Type, index []int) *c19Term {
	for _, i := range index {
		st, ok := c19Deref(t).Underlying().(*types.Struct)
		if !ok {
			x.fail(n, "field selection on a non-struct")
		}
		f := st.Field(i)
		base = x.field(n, base, f, t)
		t = f.Type()
	}
	return base
}

/* ---------- calls ---------- */

func c19FuncName(fn *types.Func) string {
	fn = fn.Origin()
	name := fn.Name()
	sig := fn.Type().(*types.Signature)
	if r := sig.Recv(); r != nil {
		rt := types.Unalias(c19Deref(r.Type()))
		if named, ok := rt.(*types.Named); ok {
			name = named.Obj().Name() + "." + name
		} else {
			name = rt.String() + "." + name
		}
	}
	if fn.Pkg() != nil {
		name = fn.Pkg().Name() + "." + name
	}
	return name
}

type c19Call struct {
	node    ast.Node
	fn      *types.Func // nil for dynamic calls
	dynamic string      // name of a dynamic call
	closure *c19Term
	recv    *c19Term
	recvVar types.Object // local value variable the pointer receiver points to
	args    []*c19Term
	spread  bool
}

// resolveCall evaluates the callee, the receiver and the arguments of a call.
func (x *c19Exec) resolveCall(call *ast.CallExpr) *c19Call {
	c := &c19Call{node: call, spread: call.Ellipsis.IsValid()}
	fun := ast.Unparen(call.Fun)
	if ix, ok := fun.(*ast.IndexExpr); ok {
		if tv, ok := x.p.info.Types[ix.X]; ok && tv.IsValue() {
			if _, isSig := tv.Type.Underlying().(*types.Signature); isSig {
				fun = ast.Unparen(ix.X)
			}
		}
	}
	if ix, ok := fun.(*ast.IndexListExpr); ok {
		fun = ast.Unparen(ix.X)
	}
	switch f := fun.(type) {
	case *ast.FuncLit:
		c.closure = x.eval1(f)
	case *ast.Ident:
		switch o := x.p.info.Uses[f].(type) {
		case *types.Func:
			c.fn = o
		default:
			v := x.eval1(f)
			if v.k == "closure" {
				c.closure = v
			} else {
				c.dynamic = "callValue(" + c19Render(x.freeze(v)) + ")"
			}
		}
	case *ast.SelectorExpr:
		if sel := x.p.info.Selections[f]; sel != nil {
			switch sel.Kind() {
			case types.MethodVal:
				fn := sel.Obj().(*types.Func)
				base := x.eval1(f.X)
				idx := sel.Index()
				recv := x.selectPath(f, base, x.p.info.TypeOf(f.X), idx[:len(idx)-1])
				c.recv = recv
				if id, ok := ast.Unparen(f.X).(*ast.Ident); ok && len(idx) == 1 {
					if o, ok := x.p.info.Uses[id].(*types.Var); ok {
						if _, isPtr := o.Type().Underlying().(*types.Pointer); !isPtr {
							if _, ptrRecv := fn.Type().(*types.Signature).Recv().Type().(*types.Pointer); ptrRecv {
								c.recvVar = o
							}
						}
					}
				}
				if types.IsInterface(sel.Recv()) {
					// devirtualise through a field that holds one dynamic type only
					var dyn types.Type
					if recv.k == "field" && recv.v != nil && types.IsInterface(recv.v.Type()) {
						dyn = x.p.dynType(recv.v)
					}
					if dyn != nil {
						obj, _, _ := types.LookupFieldOrMethod(dyn, true, x.p.pkg, fn.Name())
						if m, ok := obj.(*types.Func); ok {
							c.fn = m
							break
						}
					}
					c.dynamic = "dynamic:" + c19FuncName(fn)
					break
				}
				c.fn = fn
			case types.FieldVal:
				v := x.eval1(f)
				if v.k == "closure" {
					c.closure = v
				} else {
					c.dynamic = "callValue(" + c19Render(x.freeze(v)) + ")"
				}
			default:
				x.fail(call, "method expression call: outside the subset")
			}
		} else {
			switch o := x.p.info.Uses[f.Sel].(type) {
			case *types.Func:
				c.fn = o
			default:
				v := x.eval1(f)
				c.dynamic = "callValue(" + c19Render(x.freeze(v)) + ")"
			}
		}
	default:
		v := x.eval1(fun)
		if v.k == "closure" {
			c.closure = v
		} else {
			c.dynamic = "callValue(" + c19Render(x.freeze(v)) + ")"
		}
	}
	for _, a := range call.Args {
		vs := x.eval(a)
		if len(vs) == 1 {
			vs[0] = x.valueCopy(vs[0], x.p.info.TypeOf(a))
		}
		c.args = append(c.args, vs...)
	}
	return c
}

func (x *c19Exec) evalCall(call *ast.CallExpr) []*c19Term {
	// conversion
	if tv, ok := x.p.info.Types[call.Fun]; ok && tv.IsType() {
		if len(call.Args) != 1 {
			x.fail(call, "conversion with %d arguments", len(call.Args))
		}
		return []*c19Term{x.eval1(call.Args[0])}
	}
	// builtins
	if id, ok := ast.Unparen(call.Fun).(*ast.Ident); ok {
		if b, ok := x.p.info.Uses[id].(*types.Builtin); ok {
			return x.builtin(call, b.Name())
		}
	}
	c := x.resolveCall(call)
	return x.doCall(c, "call")
}

// doCall performs a resolved call now; kind is "call" or "run" (deferred).
func (x *c19Exec) doCall(c *c19Call, kind string) []*c19Term {
	if c.closure != nil {
		return x.inline(c.node, nil, c.closure.fl.Type, c.closure.fl.Body, nil, nil, c.args, c.spread, kind)
	}
	if c.fn != nil {
		if fd := x.p.decls[c.fn.Origin()]; fd != nil {
			return x.inline(c.node, c.fn.Origin(), fd.Type, fd.Body, fd.Recv, c.recv, c.args, c.spread, kind)
		}
		name := c19FuncName(c.fn)
		for _, a := range c.args {
			if a != nil && a.k == "closure" {
				x.fail(c.node, "function literal passed to %s, which is not inlined: its body would be skipped; outside the subset", name)
			}
		}
		if x.identity[name] && c.recv != nil {
			return []*c19Term{c.recv}
		}
		pkgPath := ""
		if c.fn.Pkg() != nil {
			pkgPath = c.fn.Pkg().Path()
		}
		isEvent := x.syncPkgs[pkgPath]
		if !isEvent && !x.pure[name] {
			if x.tracked(c.recv) {
				isEvent = true
			}
			for _, a := range c.args {
				if x.tracked(a) {
					isEvent = true
				}
			}
		}
		if !isEvent {
			t := c19T("pure", name)
			if c.recv != nil {
				t.a = append(t.a, c.recv)
			}
			for i, a := range c.args {
				if c.spread && i == len(c.args)-1 {
					a = c19T("spread", "", a)
				}
				t.a = append(t.a, a)
			}
			return x.results(c.fn.Type().(*types.Signature), t)
		}
		return x.event(c, name, kind)
	}
	for _, a := range c.args {
		if a != nil && a.k == "closure" {
			x.fail(c.node, "function literal passed to a dynamic call: its body would be skipped; outside the subset")
		}
	}
	return x.event(c, c.dynamic, kind)
}

func (x *c19Exec) results(sig *types.Signature, t *c19Term) []*c19Term {
	n := sig.Results().Len()
	if n <= 1 {
		return []*c19Term{t}[:max(n, 1)]
	}
	out := make([]*c19Term, n)
	for i := 0; i < n; i++ {
		out[i] = c19T("pure", fmt.Sprintf("result%d", i), t)
	}
	return out
}

func (x *c19Exec) event(c *c19Call, name, kind string) []*c19Term {
	x.occ[name]++
	occ := x.occ[name]
	it := c19Item{kind: kind, callee: name, occ: occ, recv: x.freeze(c.recv), spread: c.spread}
	it.fixed = c.fn == nil || (c.fn.Pkg() != nil && x.syncPkgs[c.fn.Pkg().Path()])
	for _, a := range c.args {
		it.args = append(it.args, x.freeze(a))
	}
	x.emit(it)
	if c.recvVar != nil {
		if old, ok := x.env[c.recvVar]; ok {
			m := c19T("mut", name, old)
			m.n = occ
			x.env[c.recvVar] = m
		}
	}
	nres := 1
	var sig *types.Signature
	if c.fn != nil {
		sig = c.fn.Type().(*types.Signature)
		nres = sig.Results().Len()
	}
	if nres == 0 {
		return nil
	}
	out := make([]*c19Term, nres)
	for i := range out {
		t := &c19Term{k: "ev", s: name, n: occ}
		if nres > 1 {
			t.k = "evres"
			t.fs = []string{strconv.Itoa(i)}
		}
		out[i] = t
	}
	return out
}

func (x *c19Exec) builtin(call *ast.CallExpr, name string) []*c19Term {
	args := func() []*c19Term {
		var as []*c19Term
		for _, a := range call.Args {
			as = append(as, x.eval1(a))
		}
		return as
	}
	switch name {
	case "len", "cap":
		a := args()
		if name == "len" && a[0].k == "fresh" {
			return []*c19Term{x.fresh[a[0].n].len}
		}
		return []*c19Term{c19T("pure", name, a[0])}
	case "min", "max":
		return []*c19Term{c19T("pure", name, args()...)}
	case "append":
		a := args()
		t := c19T("append", "", a...)
		if call.Ellipsis.IsValid() {
			t.s = "..."
		}
		return []*c19Term{t}
	case "make":
		t := x.p.info.TypeOf(call.Args[0])
		switch t.Underlying().(type) {
		case *types.Chan:
			x.fail(call, "make(chan): outside the subset")
		case *types.Map:
			return []*c19Term{c19T("pure", "makemap")}
		}
		fr := &c19Fresh{typ: t}
		if len(call.Args) > 1 {
			fr.len = x.eval1(call.Args[1])
		}
		if len(call.Args) > 2 {
			fr.cap = x.eval1(call.Args[2])
		}
		x.fresh = append(x.fresh, fr)
		return []*c19Term{{k: "fresh", n: len(x.fresh) - 1, typ: t}}
	case "new":
		t := x.p.info.TypeOf(call.Args[0])
		if st, ok := t.Underlying().(*types.Struct); ok {
			al := &c19Alloc{typ: t, fields: map[string]*c19Term{}}
			for i := 0; i < st.NumFields(); i++ {
				al.fields[st.Field(i).Name()] = c19T("zero", "")
			}
			x.allocs = append(x.allocs, al)
			return []*c19Term{{k: "alloc", n: len(x.allocs) - 1, typ: t}}
		}
		x.fail(call, "new of a non-struct type: outside the subset")
	case "copy":
		a := args()
		root := a[0]
		for root.k == "slice" {
			root = root.a[0]
		}
		if root.k != "fresh" {
			// a write into memory that was not allocated here
			c := &c19Call{node: call, args: a}
			return x.event(c, "builtin.copy", "call")
		}
		fr := x.fresh[root.n]
		fr.ops = append(fr.ops, c19CopyOp{dst: a[0], src: a[1]})
		t := &c19Term{k: "copyn", n: len(fr.ops), s: strconv.Itoa(root.n)}
		return []*c19Term{t}
	case "panic":
		a := args()
		x.emit(c19Item{kind: "panic", args: []*c19Term{x.freeze(a[0])}})
		panic(c19GoPanic{})
	case "close":
		x.fail(call, "close of a channel: outside the subset")
	case "delete", "clear":
		a := args()
		if x.tracked(a[0]) {
			c := &c19Call{node: call, args: a}
			return x.event(c, "builtin."+name, "call")
		}
		return nil
	case "print", "println":
		return nil
	}
	x.fail(call, "builtin %s: outside the subset", name)
	return nil
}

// inline executes the body of a function of the package (or a function literal) in place.
func (x *c19Exec) inline(n ast.Node, fn *types.Func, ft *ast.FuncType, body *ast.BlockStmt, recvList *ast.FieldList,
	recv *c19Term, args []*c19Term, spread bool, kind string) []*c19Term {
	if fn != nil {
		for _, f := range x.stack {
			if f == fn {
				x.fail(n, "recursive call of %s: outside the subset", fn.Name())
			}
		}
		x.stack = append(x.stack, fn)
		defer func() { x.stack = x.stack[:len(x.stack)-1] }()
	}
	if len(x.frames) > 30 {
		x.fail(n, "inlining too deep")
	}
	// bind the receiver and the parameters
	if recvList != nil && len(recvList.List) == 1 && len(recvList.List[0].Names) == 1 {
		if obj := x.p.info.Defs[recvList.List[0].Names[0]]; obj != nil {
			x.env[obj] = recv
		}
	}
	var params []*ast.Ident
	var variadic bool
	if ft.Params != nil {
		for _, f := range ft.Params.List {
			if _, ok := f.Type.(*ast.Ellipsis); ok {
				variadic = true
			}
			if len(f.Names) == 0 {
				params = append(params, nil)
			}
			for _, nm := range f.Names {
				params = append(params, nm)
			}
		}
	}
	for i, nm := range params {
		var v *c19Term
		if variadic && i == len(params)-1 {
			if spread {
				v = args[i]
			} else {
				v = c19T("lit", "pack", args[i:]...)
			}
		} else {
			if i >= len(args) {
				x.fail(n, "call with fewer arguments than parameters (multi-value argument?): outside the subset")
			}
			v = args[i]
		}
		if nm != nil && nm.Name != "_" {
			x.env[x.p.info.Defs[nm]] = v
		}
	}
	var named []types.Object
	if ft.Results != nil {
		for _, f := range ft.Results.List {
			for _, nm := range f.Names {
				obj := x.p.info.Defs[nm]
				if nm.Name == "_" {
					obj = nil
				}
				named = append(named, obj)
				if obj != nil {
					z := c19T("zero", "")
					if isNilable(obj.Type()) {
						z = c19T("nil", "")
					}
					x.env[obj] = z
				}
			}
		}
	}
	fr := &c19Frame{}
	x.frames = append(x.frames, fr)
	var vals []*c19Term
	runDefers := func() {
		for i := len(fr.defers) - 1; i >= 0; i-- {
			d := fr.defers[i]
			n0 := len(x.items)
			d.run()
			var names []string
			for j := n0; j < len(x.items); j++ {
				if x.items[j].kind == "run" || x.items[j].kind == "call" {
					x.items[j].kind = "run"
					names = append(names, x.items[j].callee)
				}
			}
			x.items[d.item].text = strings.Join(names, "; ")
		}
		fr.defers = nil
	}
	func() {
		defer func() {
			if r := recover(); r != nil {
				if _, ok := r.(c19GoPanic); ok {
					runDefers()
					x.frames = x.frames[:len(x.frames)-1]
				}
				panic(r)
			}
		}()
		ret, vs := x.block(body.List)
		if ret && len(vs) > 0 {
			vals = vs
			// a deferred function may read the named results
			for i, obj := range named {
				if obj != nil && i < len(vals) {
					x.env[obj] = vals[i]
				}
			}
		} else {
			for _, obj := range named {
				if obj == nil {
					vals = append(vals, c19T("zero", ""))
				} else {
					vals = append(vals, x.env[obj])
				}
			}
		}
		runDefers()
		x.frames = x.frames[:len(x.frames)-1]
	}()
	_ = kind
	return vals
}

func isNilable(t types.Type) bool {
	switch t.Underlying().(type) {
	case *types.Pointer, *types.Slice, *types.Map, *types.Chan, *types.Interface, *types.Signature:
		return true
	}
	return false
}

/* ---------- statements ---------- */

func (x *c19Exec) block(list []ast.Stmt) (bool, []*c19Term) {
	for _, s := range list {
		if ret, vals := x.stmt(s); ret {
			return true, vals
		}
	}
	return false, nil
}

func (x *c19Exec) assign(n ast.Node, lhs ast.Expr, v *c19Term) {
	lhs = ast.Unparen(lhs)
	switch l := lhs.(type) {
	case *ast.Ident:
		if l.Name == "_" {
			return
		}
		obj := x.p.info.Defs[l]
		if obj == nil {
			obj = x.p.info.Uses[l]
		}
		if obj == nil {
			x.fail(n, "unresolved assignment target %s", l.Name)
		}
		if vv, ok := obj.(*types.Var); ok && vv.Parent() == x.p.pkg.Scope() {
			x.emit(c19Item{kind: "store", callee: "store", recv: c19T("global", vv.Name()), args: []*c19Term{x.freeze(v)}})
			return
		}
		x.env[obj] = v
	case *ast.SelectorExpr:
		sel := x.p.info.Selections[l]
		if sel == nil || sel.Kind() != types.FieldVal {
			x.fail(n, "assignment to a selector that is not a field")
		}
		idx := sel.Index()
		lx := ast.Unparen(l.X)
		if st, ok := lx.(*ast.StarExpr); ok {
			lx = st.X
		}
		base := x.selectPath(l, x.eval1(lx), x.p.info.TypeOf(lx), idx[:len(idx)-1])
		f := sel.Obj().(*types.Var)
		if base.k == "alloc" {
			x.allocs[base.n].fields[f.Name()] = v
			return
		}
		// a store into an object that was not allocated here
		owner := x.p.info.TypeOf(l.X)
		if len(idx) > 1 {
			owner = nil
		}
		var target *c19Term
		if owner != nil {
			target = x.field(l, base, f, owner)
		} else {
			target = c19T("field", f.Name(), base)
		}
		x.emit(c19Item{kind: "store", callee: "store", recv: x.freeze(target), args: []*c19Term{x.freeze(v)}})
	case *ast.IndexExpr:
		base := x.eval1(l.X)
		root := base
		for root.k == "slice" {
			root = root.a[0]
		}
		if root.k == "fresh" {
			fr := x.fresh[root.n]
			fr.ops = append(fr.ops, c19CopyOp{dst: c19T("index", "", base, x.eval1(l.Index)), src: v})
			return
		}
		x.emit(c19Item{kind: "store", callee: "store", recv: x.freeze(c19T("index", "", base, x.eval1(l.Index))), args: []*c19Term{x.freeze(v)}})
	case *ast.StarExpr:
		// *p = v for a struct allocated here: every field is replaced
		dst := x.eval1(l.X)
		if dst.k == "alloc" && v.k == "alloc" {
			src := x.allocs[v.n]
			for k, f := range src.fields {
				x.allocs[dst.n].fields[k] = f
			}
			return
		}
		x.fail(n, "store through a pointer that is not a local allocation: outside the subset")
	default:
		x.fail(n, "assignment target %T: outside the subset", lhs)
	}
}

func (x *c19Exec) stmt(s ast.Stmt) (bool, []*c19Term) {
	switch v := s.(type) {
	case *ast.EmptyStmt:
	case *ast.BlockStmt:
		return x.block(v.List)
	case *ast.ExprStmt:
		if call, ok := ast.Unparen(v.X).(*ast.CallExpr); ok {
			x.evalCall(call)
		} else {
			x.eval(v.X)
		}
	case *ast.DeclStmt:
		gd, ok := v.Decl.(*ast.GenDecl)
		if !ok {
			x.fail(s, "declaration: outside the subset")
		}
		for _, sp := range gd.Specs {
			vs, ok := sp.(*ast.ValueSpec)
			if !ok {
				continue // type / const declarations
			}
			if gd.Tok == token.CONST {
				continue
			}
			if len(vs.Values) == 0 {
				for _, nm := range vs.Names {
					if nm.Name == "_" {
						continue
					}
					obj := x.p.info.Defs[nm]
					z := c19T("zero", "")
					if isNilable(obj.Type()) {
						z = c19T("nil", "")
					}
					if st, ok := obj.Type().Underlying().(*types.Struct); ok {
						al := &c19Alloc{typ: obj.Type(), fields: map[string]*c19Term{}}
						for i := 0; i < st.NumFields(); i++ {
							al.fields[st.Field(i).Name()] = c19T("zero", "")
						}
						x.allocs = append(x.allocs, al)
						z = &c19Term{k: "alloc", n: len(x.allocs) - 1, typ: obj.Type()}
					}
					x.env[obj] = z
				}
				continue
			}
			var vals []*c19Term
			for _, e := range vs.Values {
				vals = append(vals, x.eval(e)...)
			}
			if len(vals) != len(vs.Names) {
				x.fail(s, "var declaration arity")
			}
			for i, nm := range vs.Names {
				x.assign(s, nm, vals[i])
			}
		}
	case *ast.AssignStmt:
		switch v.Tok {
		case token.DEFINE, token.ASSIGN:
			var vals []*c19Term
			for _, e := range v.Rhs {
				vs := x.eval(e)
				if _, isLit := ast.Unparen(e).(*ast.CompositeLit); len(vs) == 1 && !isLit {
					vs[0] = x.valueCopy(vs[0], x.p.info.TypeOf(e))
				}
				vals = append(vals, vs...)
			}
			if len(vals) != len(v.Lhs) {
				x.fail(s, "assignment arity %d = %d", len(v.Lhs), len(vals))
			}
			for i, l := range v.Lhs {
				x.assign(s, l, vals[i])
			}
		default:
			if len(v.Lhs) != 1 || len(v.Rhs) != 1 {
				x.fail(s, "compound assignment arity")
			}
			op := strings.TrimSuffix(v.Tok.String(), "=")
			cur := x.eval1(v.Lhs[0])
			x.assign(s, v.Lhs[0], c19T("bin", op, cur, x.eval1(v.Rhs[0])))
		}
	case *ast.IncDecStmt:
		op := "+"
		if v.Tok == token.DEC {
			op = "-"
		}
		x.assign(s, v.X, c19T("bin", op, x.eval1(v.X), c19T("const", "1")))
	case *ast.IfStmt:
		if v.Init != nil {
			if ret, vals := x.stmt(v.Init); ret {
				return ret, vals
			}
		}
		cond := x.eval1(v.Cond)
		if x.branch(v, cond) {
			return x.block(v.Body.List)
		}
		if v.Else != nil {
			return x.stmt(v.Else)
		}
	case *ast.SwitchStmt:
		if v.Init != nil {
			if ret, vals := x.stmt(v.Init); ret {
				return ret, vals
			}
		}
		var tag *c19Term
		if v.Tag != nil {
			tag = x.eval1(v.Tag)
		}
		var deflt *ast.CaseClause
		for _, cs := range v.Body.List {
			cc := cs.(*ast.CaseClause)
			for _, st := range cc.Body {
				if br, ok := st.(*ast.BranchStmt); ok {
					x.fail(br, "%s in a switch: outside the subset", br.Tok)
				}
			}
			if cc.List == nil {
				deflt = cc
				continue
			}
			var cond *c19Term
			for _, e := range cc.List {
				c := x.eval1(e)
				if tag != nil {
					c = c19T("cmp", "==", tag, c)
				}
				if cond == nil {
					cond = c
				} else {
					cond = c19T("or", "", cond, c)
				}
			}
			if x.branch(cc, cond) {
				return x.block(cc.Body)
			}
		}
		if deflt != nil {
			return x.block(deflt.Body)
		}
	case *ast.ReturnStmt:
		var vals []*c19Term
		for _, e := range v.Results {
			vs := x.eval(e)
			if len(vs) == 1 {
				vs[0] = x.valueCopy(vs[0], x.p.info.TypeOf(e))
			}
			vals = append(vals, vs...)
		}
		return true, vals
	case *ast.DeferStmt:
		x.deferStmt(v)
	case *ast.GoStmt:
		x.fail(s, "go statement: outside the subset")
	case *ast.SelectStmt:
		x.fail(s, "select statement: outside the subset")
	case *ast.SendStmt:
		x.fail(s, "channel send: outside the subset")
	case *ast.ForStmt, *ast.RangeStmt:
		x.fail(s, "loop: outside the subset")
	case *ast.TypeSwitchStmt:
		x.fail(s, "type switch: outside the subset")
	case *ast.LabeledStmt:
		x.fail(s, "label: outside the subset")
	case *ast.BranchStmt:
		x.fail(s, "%s: outside the subset", v.Tok)
	default:
		x.fail(s, "statement %T: outside the subset", s)
	}
	return false, nil
}

func (x *c19Exec) deferStmt(d *ast.DeferStmt) {
	call := d.Call
	if tv, ok := x.p.info.Types[call.Fun]; ok && tv.IsType() {
		x.fail(d, "deferred conversion")
	}
	if id, ok := ast.Unparen(call.Fun).(*ast.Ident); ok {
		if _, ok := x.p.info.Uses[id].(*types.Builtin); ok {
			x.fail(d, "deferred builtin: outside the subset")
		}
	}
	// the callee, the receiver and the arguments are evaluated now
	c := x.resolveCall(call)
	idx := x.emit(c19Item{kind: "defer"})
	fr := x.frames[len(x.frames)-1]
	fr.defers = append(fr.defers, c19Deferred{item: idx, run: func() { x.doCall(c, "run") }})
}

/* ---------- paths and their normal form ---------- */

type c19Node struct {
	items []c19Item
	cond  *c19Term
	t, f  *c19Node
}

func (p *c19Pkg) newExec() *c19Exec {
	return &c19Exec{p: p, env: map[types.Object]*c19Term{}, facts: map[string]bool{}, occ: map[string]int{}}
}

// runPaths executes fn along every path and returns the merged tree.
func (p *c19Pkg) runPaths(fn *types.Func, configure func(x *c19Exec), retFreeze func(x *c19Exec, vals []*c19Term) []*c19Term) (root *c19Node, err error) {
	defer func() {
		if r := recover(); r != nil {
			if f, ok := r.(c19Fail); ok {
				err = fmt.Errorf("%s: %s", fn.Name(), f.msg)
				return
			}
			panic(r)
		}
	}()
	fd := p.decls[fn]
	if fd == nil {
		return nil, fmt.Errorf("%s has no body", fn.Name())
	}
	var runs [][]c19Item
	decisions := []bool{}
	for {
		x := p.newExec()
		configure(x)
		x.decisions = decisions
		sig := fn.Type().(*types.Signature)
		var args []*c19Term
		for i := 0; i < sig.Params().Len(); i++ {
			args = append(args, &c19Term{k: "param", n: i + 1})
		}
		var recv *c19Term
		if sig.Recv() != nil {
			recv = c19T("recv", "")
		}
		func() {
			defer func() {
				if r := recover(); r != nil {
					if _, ok := r.(c19GoPanic); ok {
						return
					}
					panic(r)
				}
			}()
			vals := x.inline(fd, fn, fd.Type, fd.Body, fd.Recv, recv, args, sig.Variadic(), "call")
			it := c19Item{kind: "return"}
			if retFreeze != nil {
				it.args = retFreeze(x, vals)
			}
			x.emit(it)
		}()
		runs = append(runs, c19Canonical(x.items))
		if len(runs) > 256 {
			return nil, fmt.Errorf("%s: more than 256 paths", fn.Name())
		}
		// next decision vector
		tk := x.taken
		i := len(tk) - 1
		for i >= 0 && !tk[i] {
			i--
		}
		if i < 0 {
			break
		}
		decisions = append(append([]bool{}, tk[:i]...), false)
	}
	root = c19Build(runs, 0)
	c19Normalise(root)
	return root, nil
}

// c19Roots: the objects a frozen term refers to.  Distinct leaves of the receiver are
// distinct objects; everything reached from the result of an event is one object, and it
// includes whatever that event was given ("*" = unknown, conflicts with everything).
func c19Roots(t *c19Term, evRoots map[string]map[string]bool, out map[string]bool) {
	if t == nil {
		return
	}
	switch t.k {
	case "recv":
		out["h"] = true
	case "field":
		b := t
		for b.k == "field" && b.a[0].k == "field" {
			b = b.a[0]
		}
		if b.a[0].k == "recv" && b.s != "" {
			out["h."+b.s] = true
			return
		}
		c19Roots(b.a[0], evRoots, out)
	case "param":
		out[fmt.Sprintf("arg%d", t.n)] = true
	case "ev", "evres":
		for r := range evRoots[fmt.Sprintf("%s#%d", t.s, t.n)] {
			out[r] = true
		}
		out[fmt.Sprintf("%s#%d", t.s, t.n)] = true
	case "mut":
		for r := range evRoots[fmt.Sprintf("%s#%d", t.s, t.n)] {
			out[r] = true
		}
		out[fmt.Sprintf("%s#%d", t.s, t.n)] = true
		c19Roots(t.a[0], evRoots, out)
	case "global":
		out["global:"+t.s] = true
	case "closure", "funcval":
		out["*"] = true
	default:
		for _, c := range t.a {
			c19Roots(c, evRoots, out)
		}
	}
}

// c19Canonical reorders the events of one path into the lexicographically least order
// among those that differ only in the order of INDEPENDENT plain calls: two calls are
// independent iff neither is a call of a synchronisation package, a dynamic call, a
// deferred call or a store, they are calls of different functions, and they share no
// object (c19Roots).  Everything else keeps its place.
func c19Canonical(items []c19Item) []c19Item {
	evRoots := map[string]map[string]bool{}
	roots := make([]map[string]bool, len(items))
	for i, it := range items {
		r := map[string]bool{}
		if it.kind == "call" || it.kind == "run" {
			c19Roots(it.recv, evRoots, r)
			for _, a := range it.args {
				c19Roots(a, evRoots, r)
			}
			self := fmt.Sprintf("%s#%d", it.callee, it.occ)
			cp := map[string]bool{}
			for k := range r {
				cp[k] = true
			}
			evRoots[self] = cp
			r[self] = true
		}
		roots[i] = r
	}
	commute := func(i, j int) bool {
		a, b := items[i], items[j]
		if a.kind != "call" || b.kind != "call" || a.fixed || b.fixed || a.callee == b.callee {
			return false
		}
		if roots[i]["*"] || roots[j]["*"] {
			return false
		}
		for k := range roots[i] {
			if roots[j][k] {
				return false
			}
		}
		return true
	}
	remaining := make([]int, len(items))
	for i := range remaining {
		remaining[i] = i
	}
	var out []c19Item
	for len(remaining) > 0 {
		best := 0
		_, bestText := c19ItemPair(items[remaining[0]])
		for ci := 1; ci < len(remaining); ci++ {
			ok := true
			for k := 0; k < ci; k++ {
				if !commute(remaining[k], remaining[ci]) {
					ok = false
					break
				}
			}
			if !ok {
				continue
			}
			if _, t := c19ItemPair(items[remaining[ci]]); t < bestText {
				best, bestText = ci, t
			}
		}
		out = append(out, items[remaining[best]])
		remaining = append(remaining[:best], remaining[best+1:]...)
	}
	return out
}

func c19Build(runs [][]c19Item, pos int) *c19Node {
	n := &c19Node{}
	for {
		if pos >= len(runs[0]) {
			return n
		}
		it := runs[0][pos]
		if it.kind != "choice" {
			n.items = append(n.items, it)
			pos++
			continue
		}
		var ts, fs [][]c19Item
		for _, r := range runs {
			if r[pos].taken {
				ts = append(ts, r)
			} else {
				fs = append(fs, r)
			}
		}
		n.cond = it.args[0]
		if len(ts) > 0 {
			n.t = c19Build(ts, pos+1)
		}
		if len(fs) > 0 {
			n.f = c19Build(fs, pos+1)
		}
		return n
	}
}

func c19MergeTerm(c, a, b *c19Term) *c19Term {
	if a == nil && b == nil {
		return nil
	}
	if a != nil && b != nil {
		if c19Render(a) == c19Render(b) {
			return a
		}
		if a.k == "const" && b.k == "const" && a.s == "true" && b.s == "false" {
			return c
		}
		if a.k == "const" && b.k == "const" && a.s == "false" && b.s == "true" {
			return c19T("not", "", c)
		}
		if a.k == b.k && a.s == b.s && a.n == b.n && len(a.a) == len(b.a) && len(a.a) > 0 && reflect.DeepEqual(a.fs, b.fs) &&
			a.k != "ite" && a.k != "make" {
			out := *a
			out.a = make([]*c19Term, len(a.a))
			for i := range a.a {
				out.a[i] = c19MergeTerm(c, a.a[i], b.a[i])
			}
			return &out
		}
	}
	return c19T("ite", "", c, a, b)
}

// c19Mergeable: the two subtrees execute the same events (same kinds, same callees, same
// structure of later choices); only argument terms may differ.
func c19Mergeable(a, b *c19Node) bool {
	if a == nil || b == nil {
		return a == b
	}
	if len(a.items) != len(b.items) {
		return false
	}
	for i := range a.items {
		x, y := a.items[i], b.items[i]
		if x.kind != y.kind || x.callee != y.callee || x.occ != y.occ || len(x.args) != len(y.args) || x.spread != y.spread ||
			x.text != y.text || (x.recv == nil) != (y.recv == nil) {
			return false
		}
	}
	if (a.cond == nil) != (b.cond == nil) {
		return false
	}
	if a.cond != nil && c19Render(a.cond) != c19Render(b.cond) {
		return false
	}
	return c19Mergeable(a.t, b.t) && c19Mergeable(a.f, b.f)
}

func c19MergeNodes(c *c19Term, a, b *c19Node) *c19Node {
	if a == nil {
		return nil
	}
	out := &c19Node{cond: a.cond}
	for i := range a.items {
		x, y := a.items[i], b.items[i]
		it := x
		it.recv = c19MergeTerm(c, x.recv, y.recv)
		it.args = make([]*c19Term, len(x.args))
		for j := range x.args {
			it.args[j] = c19MergeTerm(c, x.args[j], y.args[j])
		}
		out.items = append(out.items, it)
	}
	out.t = c19MergeNodes(c, a.t, b.t)
	out.f = c19MergeNodes(c, a.f, b.f)
	return out
}

func c19Normalise(n *c19Node) {
	if n == nil || n.cond == nil {
		return
	}
	c19Normalise(n.t)
	c19Normalise(n.f)
	if n.t != nil && n.f != nil && c19Mergeable(n.t, n.f) {
		m := c19MergeNodes(n.cond, n.t, n.f)
		n.items = append(n.items, m.items...)
		n.cond, n.t, n.f = m.cond, m.t, m.f
	}
}

func c19ItemPair(it c19Item) (string, string) {
	switch it.kind {
	case "call", "run":
		var as []string
		for i, a := range it.args {
			s := c19Render(a)
			if it.spread && i == len(it.args)-1 {
				s += "..."
			}
			as = append(as, s)
		}
		s := it.callee + "("
		if it.recv != nil {
			s += c19Render(it.recv)
			if len(as) > 0 {
				s += "; "
			}
		}
		return it.kind, s + strings.Join(as, ", ") + ")"
	case "defer":
		return "defer", it.text
	case "store":
		return "store", c19Render(it.recv) + " = " + c19Render(it.args[0])
	case "panic":
		return "panic", ""
	case "return":
		var as []string
		for _, a := range it.args {
			as = append(as, c19Render(a))
		}
		return "return", strings.Join(as, ", ")
	}
	return it.kind, "?"
}

// c19Flatten lists the paths of the tree (true branch first).
func c19Flatten(n *c19Node) [][][2]string {
	var out [][][2]string
	var walk func(n *c19Node, prefix [][2]string)
	walk = func(n *c19Node, prefix [][2]string) {
		cur := append([][2]string{}, prefix...)
		for _, it := range n.items {
			k, s := c19ItemPair(it)
			if k == "defer" && s == "" {
				continue // a deferred call without events
			}
			cur = append(cur, [2]string{k, s})
		}
		if n.cond == nil {
			out = append(out, cur)
			return
		}
		if n.t != nil {
			walk(n.t, append(append([][2]string{}, cur...), [2]string{"assume", c19Render(n.cond)}))
		}
		if n.f != nil {
			walk(n.f, append(append([][2]string{}, cur...), [2]string{"assume-not", c19Render(n.cond)}))
		}
	}
	walk(n, nil)
	return out
}
