package main

import (
	"fmt"
	"go/ast"
	"go/constant"
	"go/types"
	"os"
	"os/exec"
	"path/filepath"
	"strings"
)

// UniFold: the tables `unicode.SimpleFold` consults (asciiFold, caseOrbit, CaseRanges) and
// the constants it uses, read from the source of package unicode of the Go toolchain that
// builds /repo (the GOROOT that `go env GOROOT` resolves to inside the repository, i.e.
// the toolchain pinned by /repo's go.mod).  The Lean model `Go/Unicode.lean` of
// `unicode.SimpleFold` runs over these tables and theorem FOLD-1 (`fold1_model`) is proved
// about them, so a toolchain with other Unicode tables changes the object of the theorem.
//
// Everything is evaluated by go/types from src/unicode/{tables.go,letter.go}; the shapes
// the model relies on are checked here and a deviation is an error (a broken tie):
//
//	type foldPair struct{ From, To uint16 }
//	type CaseRange struct{ Lo, Hi uint32; Delta d };  type d [MaxCase]rune
//	UpperCase, LowerCase, TitleCase, MaxCase = 0, 1, 2, 3;  UpperLower = MaxRune + 1
//	var asciiFold = [MaxASCII + 1]uint16{ 128 constants }
//	var caseOrbit = []foldPair{ {c, c}, … }
//	var CaseRanges = _CaseRanges;  var _CaseRanges = []CaseRange{ {c, c, d{c, c, c}}, … }
//	no int32 wrap-around in `r + delta` for any r of a range (Lo + delta >= 0, Hi + delta <= MaxInt32)

// goroot asks the go command, run inside the repository with the environment ./check uses,
// where the toolchain selected by /repo's go.mod lives.
func goroot(repo string) (string, error) {
	cmd := exec.Command("go", "env", "GOROOT")
	cmd.Dir = repo
	env := []string{}
	for _, e := range os.Environ() {
		if strings.HasPrefix(e, "GOFLAGS=") || strings.HasPrefix(e, "GOTOOLCHAIN=") || strings.HasPrefix(e, "GOSUMDB=") || strings.HasPrefix(e, "GOROOT=") {
			continue
		}
		env = append(env, e)
	}
	cmd.Env = append(env, "GOFLAGS=-mod=mod", "GOTOOLCHAIN=auto")
	out, err := cmd.Output()
	if err != nil {
		msg := ""
		if ee, ok := err.(*exec.ExitError); ok {
			msg = string(ee.Stderr)
		}
		return "", fmt.Errorf("`go env GOROOT` in %s: %v %s", repo, err, msg)
	}
	gr := strings.TrimSpace(string(out))
	if gr == "" {
		return "", fmt.Errorf("`go env GOROOT` in %s printed nothing", repo)
	}
	return gr, nil
}

type uniPkg struct {
	pkg   *types.Package
	info  *types.Info
	decls map[string]ast.Expr // package-level `var name = expr` (single name, single value)
}

func (u *uniPkg) intConst(name string) (int64, error) {
	c, ok := u.pkg.Scope().Lookup(name).(*types.Const)
	if !ok {
		return 0, fmt.Errorf("unicode.%s is not a constant", name)
	}
	v, exact := constant.Int64Val(constant.ToInt(c.Val()))
	if !exact {
		return 0, fmt.Errorf("unicode.%s is not an integer constant", name)
	}
	return v, nil
}

// val evaluates a constant expression of a composite literal.
func (u *uniPkg) val(e ast.Expr) (int64, error) {
	tv, ok := u.info.Types[e]
	if !ok || tv.Value == nil {
		return 0, fmt.Errorf("element is not a constant expression")
	}
	v, exact := constant.Int64Val(constant.ToInt(tv.Value))
	if !exact {
		return 0, fmt.Errorf("element is not an integer constant")
	}
	return v, nil
}

// positional returns the elements of a composite literal that uses no keys.
func positional(e ast.Expr, n int, what string) ([]ast.Expr, error) {
	cl, ok := e.(*ast.CompositeLit)
	if !ok {
		return nil, fmt.Errorf("%s: not a composite literal", what)
	}
	if n >= 0 && len(cl.Elts) != n {
		return nil, fmt.Errorf("%s: %d elements, expected %d", what, len(cl.Elts), n)
	}
	for _, x := range cl.Elts {
		if _, kv := x.(*ast.KeyValueExpr); kv {
			return nil, fmt.Errorf("%s: keyed element", what)
		}
	}
	return cl.Elts, nil
}

func structShape(pkg *types.Package, name string, want string) error {
	tn, ok := pkg.Scope().Lookup(name).(*types.TypeName)
	if !ok {
		return fmt.Errorf("unicode.%s is not a type", name)
	}
	st, ok := tn.Type().Underlying().(*types.Struct)
	if !ok {
		return fmt.Errorf("unicode.%s is not a struct", name)
	}
	var fs []string
	for i := 0; i < st.NumFields(); i++ {
		fs = append(fs, st.Field(i).Name()+" "+types.TypeString(st.Field(i).Type(), func(*types.Package) string { return "" }))
	}
	if got := strings.Join(fs, "; "); got != want {
		return fmt.Errorf("unicode.%s has fields {%s}, expected {%s}", name, got, want)
	}
	return nil
}

func genUniFold(repo string) (string, error) {
	gr, err := goroot(repo)
	if err != nil {
		return "", err
	}
	dir := filepath.Join(gr, "src", "unicode")
	for _, f := range []string{"tables.go", "letter.go"} {
		if _, err := os.Stat(filepath.Join(dir, f)); err != nil {
			return "", fmt.Errorf("GOROOT %s: %v", gr, err)
		}
	}
	version := "unknown"
	if v, err := os.ReadFile(filepath.Join(gr, "VERSION")); err == nil {
		version = strings.SplitN(strings.TrimSpace(string(v)), "\n", 2)[0]
	}
	pkg, info, _, files, err := typeCheckDir(dir)
	if err != nil {
		return "", err
	}
	u := &uniPkg{pkg: pkg, info: info, decls: map[string]ast.Expr{}}
	for _, f := range files {
		for _, d := range f.Decls {
			gd, ok := d.(*ast.GenDecl)
			if !ok {
				continue
			}
			for _, s := range gd.Specs {
				vs, ok := s.(*ast.ValueSpec)
				if !ok || len(vs.Names) != 1 || len(vs.Values) != 1 {
					continue
				}
				if _, dup := u.decls[vs.Names[0].Name]; dup {
					return "", fmt.Errorf("unicode.%s declared twice", vs.Names[0].Name)
				}
				u.decls[vs.Names[0].Name] = vs.Values[0]
			}
		}
	}

	// ---- constants and type shapes
	cs := map[string]int64{}
	for _, n := range []string{"MaxRune", "ReplacementChar", "MaxASCII", "UpperCase", "LowerCase", "TitleCase", "MaxCase", "UpperLower"} {
		if cs[n], err = u.intConst(n); err != nil {
			return "", err
		}
	}
	if cs["UpperCase"] != 0 || cs["LowerCase"] != 1 || cs["TitleCase"] != 2 || cs["MaxCase"] != 3 {
		return "", fmt.Errorf("UpperCase, LowerCase, TitleCase, MaxCase = %d, %d, %d, %d, expected 0, 1, 2, 3", cs["UpperCase"], cs["LowerCase"], cs["TitleCase"], cs["MaxCase"])
	}
	if cs["UpperLower"] != cs["MaxRune"]+1 {
		return "", fmt.Errorf("UpperLower = %d is not MaxRune + 1 = %d", cs["UpperLower"], cs["MaxRune"]+1)
	}
	if cs["MaxASCII"] != 127 {
		return "", fmt.Errorf("MaxASCII = %d, expected 127", cs["MaxASCII"])
	}
	if cs["MaxRune"] <= 0 || cs["MaxRune"] >= 1<<31-1 {
		return "", fmt.Errorf("MaxRune = %d out of the int32 range the model assumes", cs["MaxRune"])
	}
	if err = structShape(pkg, "foldPair", "From uint16; To uint16"); err != nil {
		return "", err
	}
	if err = structShape(pkg, "CaseRange", "Lo uint32; Hi uint32; Delta d"); err != nil {
		return "", err
	}
	dOK := false
	if tn, ok := pkg.Scope().Lookup("d").(*types.TypeName); ok {
		if at, ok := tn.Type().Underlying().(*types.Array); ok && at.Len() == 3 {
			if bt, ok := types.Unalias(at.Elem()).(*types.Basic); ok && bt.Kind() == types.Int32 {
				dOK = true
			}
		}
	}
	if !dOK {
		return "", fmt.Errorf("unicode.d is not [MaxCase]rune = [3]int32")
	}

	// ---- asciiFold
	av, ok := pkg.Scope().Lookup("asciiFold").(*types.Var)
	if !ok || types.TypeString(av.Type(), nil) != "[128]uint16" {
		return "", fmt.Errorf("unicode.asciiFold is not a [128]uint16 variable")
	}
	elts, err := positional(u.decls["asciiFold"], 128, "asciiFold")
	if err != nil {
		return "", err
	}
	var ascii []int64
	for i, e := range elts {
		v, err := u.val(e)
		if err != nil {
			return "", fmt.Errorf("asciiFold[%d]: %v", i, err)
		}
		ascii = append(ascii, v)
	}

	// ---- caseOrbit
	ov, ok := pkg.Scope().Lookup("caseOrbit").(*types.Var)
	if !ok || types.TypeString(ov.Type(), func(*types.Package) string { return "" }) != "[]foldPair" {
		return "", fmt.Errorf("unicode.caseOrbit is not a []foldPair variable")
	}
	elts, err = positional(u.decls["caseOrbit"], -1, "caseOrbit")
	if err != nil {
		return "", err
	}
	var orbit [][2]int64
	for i, e := range elts {
		pe, err := positional(e, 2, fmt.Sprintf("caseOrbit[%d]", i))
		if err != nil {
			return "", err
		}
		var p [2]int64
		for k := range p {
			if p[k], err = u.val(pe[k]); err != nil {
				return "", fmt.Errorf("caseOrbit[%d]: %v", i, err)
			}
		}
		orbit = append(orbit, p)
	}
	if len(orbit) == 0 {
		return "", fmt.Errorf("caseOrbit is empty")
	}

	// ---- CaseRanges = _CaseRanges
	rv, ok := pkg.Scope().Lookup("CaseRanges").(*types.Var)
	if !ok || types.TypeString(rv.Type(), func(*types.Package) string { return "" }) != "[]CaseRange" {
		return "", fmt.Errorf("unicode.CaseRanges is not a []CaseRange variable")
	}
	if id, ok := u.decls["CaseRanges"].(*ast.Ident); !ok || id.Name != "_CaseRanges" {
		return "", fmt.Errorf("unicode.CaseRanges is not initialised as `= _CaseRanges`")
	}
	elts, err = positional(u.decls["_CaseRanges"], -1, "_CaseRanges")
	if err != nil {
		return "", err
	}
	var ranges [][5]int64
	for i, e := range elts {
		what := fmt.Sprintf("_CaseRanges[%d]", i)
		re, err := positional(e, 3, what)
		if err != nil {
			return "", err
		}
		de, err := positional(re[2], 3, what+".Delta")
		if err != nil {
			return "", err
		}
		var r [5]int64
		for k, x := range []ast.Expr{re[0], re[1], de[0], de[1], de[2]} {
			if r[k], err = u.val(x); err != nil {
				return "", fmt.Errorf("%s: %v", what, err)
			}
		}
		if r[0] < 0 || r[1] < r[0] {
			return "", fmt.Errorf("%s: Lo = %d, Hi = %d", what, r[0], r[1])
		}
		for k := 2; k < 5; k++ {
			if r[k] > cs["MaxRune"] && r[k] != cs["UpperLower"] {
				return "", fmt.Errorf("%s: delta %d is above MaxRune and is not UpperLower", what, r[k])
			}
			if r[k] <= cs["MaxRune"] && (r[0]+r[k] < 0 || r[1]+r[k] > 1<<31-1) {
				return "", fmt.Errorf("%s: r + delta leaves the int32 range for delta %d", what, r[k])
			}
		}
		ranges = append(ranges, r)
	}
	if len(ranges) == 0 {
		return "", fmt.Errorf("_CaseRanges is empty")
	}

	// ---- emit
	var b strings.Builder
	fmt.Fprintf(&b, "-- Source: package unicode of the Go toolchain that builds /repo (%s), files src/unicode/tables.go and letter.go.\n", version)
	b.WriteString("namespace GolibsVerif.Gen.UniFold\n\n")
	fmt.Fprintf(&b, "/-- `unicode.MaxRune` -/\ndef maxRune : Nat := 0x%X\n\n", cs["MaxRune"])
	fmt.Fprintf(&b, "/-- `unicode.UpperLower` = `MaxRune + 1`, the sentinel delta of an Upper-Lower sequence -/\ndef upperLower : Int := 0x%X\n\n", cs["UpperLower"])
	fmt.Fprintf(&b, "/-- `unicode.ReplacementChar` -/\ndef replacementChar : Nat := 0x%X\n\n", cs["ReplacementChar"])
	fmt.Fprintf(&b, "/-- `unicode.asciiFold` (%d entries) -/\ndef asciiFold : List Nat := [", len(ascii))
	for i, v := range ascii {
		if i > 0 {
			b.WriteString(",")
		}
		if i%16 == 0 {
			b.WriteString("\n  ")
		} else {
			b.WriteString(" ")
		}
		fmt.Fprintf(&b, "0x%02X", v)
	}
	b.WriteString("]\n\n")
	fmt.Fprintf(&b, "/-- `unicode.caseOrbit` (%d entries): `(From, To)` -/\ndef caseOrbit : List (Nat × Nat) := [", len(orbit))
	for i, p := range orbit {
		if i > 0 {
			b.WriteString(",")
		}
		if i%6 == 0 {
			b.WriteString("\n  ")
		} else {
			b.WriteString(" ")
		}
		fmt.Fprintf(&b, "(0x%04X, 0x%04X)", p[0], p[1])
	}
	b.WriteString("]\n\n")
	fmt.Fprintf(&b, "/-- `unicode.CaseRanges` (%d entries): `(Lo, Hi, Delta[UpperCase], Delta[LowerCase], Delta[TitleCase])` -/\n", len(ranges))
	b.WriteString("def caseRanges : List (Nat × Nat × Int × Int × Int) := [")
	for i, r := range ranges {
		if i > 0 {
			b.WriteString(",")
		}
		b.WriteString("\n  ")
		// the type ascriptions keep Lean's elaboration of the literal fast (numerals are not left to unification)
		fmt.Fprintf(&b, "((0x%04X : Nat), (0x%04X : Nat), (%d : Int), (%d : Int), (%d : Int))", r[0], r[1], r[2], r[3], r[4])
	}
	b.WriteString("]\n\n")
	b.WriteString("end GolibsVerif.Gen.UniFold\n")
	return b.String(), nil
}

func init() { translators["UniFold"] = genUniFold }
