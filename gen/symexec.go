package main

import (
	"fmt"
	"go/ast"
	"go/constant"
	"go/token"
	"go/types"
	"net/netip"
	"reflect"
)

// Symbolic executor for the [N]byte predicates of netutil/subnetset.go (property C06).
// See the grammar in subnets.go.  The executor runs the function body on the symbolic
// parameter: concrete control flow (loops over tables, branches on table fields) is
// executed, branches on the parameter become F.ite, calls of other functions, methods
// and function literals of the package are inlined (no recursion), package-level
// variables are read from their initialisers (and must never be written).
//
// Statements are executed in continuation style as before (the statements after an `if`
// or `switch` are translated once per branch); only at the end of each iteration of an
// unrolled loop are branches that both fall through merged (if c then v1 else v2), so that
// accumulating loops (`if p.Contains(a) { ok = true }`) stay linear.

type funcBody struct {
	name string
	typ  *ast.FuncType
	body *ast.BlockStmt
	recv *ast.FieldList
	decl ast.Node
}

type frame struct {
	vars   map[types.Object]value
	frozen map[types.Object]bool
	parent *frame    // defining frame of a function literal
	fn     *funcBody // the activation's function (for bare returns)
}

func (fr *frame) lookup(o types.Object) (value, bool) {
	for f := fr; f != nil; f = f.parent {
		if v, ok := f.vars[o]; ok {
			return v, true
		}
	}
	return nil, false
}

func (fr *frame) set(o types.Object, v value) *frame {
	n := &frame{vars: make(map[types.Object]value, len(fr.vars)+1), frozen: fr.frozen, parent: fr.parent, fn: fr.fn}
	for k, x := range fr.vars {
		n.vars[k] = x
	}
	n.vars[o] = v
	return n
}

const (
	oRet = iota
	oFall
	oBreak
	oCont
	oIte
)

type outcome struct {
	kind int
	vals []value // oRet
	fr   *frame  // oFall, oBreak, oCont
	cond string  // oIte
	a, b *outcome
}

func fall(fr *frame) *outcome { return &outcome{kind: oFall, fr: fr} }

type sx struct {
	t        *subnetsTr
	pkg      *types.Package
	info     *types.Info
	funcs    map[*types.Func]*ast.FuncDecl
	dupFuncs map[string]bool
	varInit  map[*types.Var]varInit
	dupVars  map[string]bool
	mutated  map[*types.Var]token.Pos
	globals  map[*types.Var]value
	pendingG map[*types.Var]bool
	// the function being translated
	param *types.Var
	n     int
	stack []ast.Node
	steps int
}

type varInit struct {
	spec *ast.ValueSpec
	idx  int
}

func (x *sx) errf(n ast.Node, format string, a ...any) error { return x.t.errf(n, format, a...) }

func (x *sx) tick(n ast.Node) error {
	x.steps++
	if x.steps > 2_000_000 {
		return x.errf(n, "the function does not finish within the executor's step budget")
	}
	return nil
}

// ---------------------------------------------------------------- package scan

func newSx(t *subnetsTr, pkg *types.Package, info *types.Info, files []*ast.File) *sx {
	x := &sx{t: t, pkg: pkg, info: info, funcs: map[*types.Func]*ast.FuncDecl{}, dupFuncs: map[string]bool{},
		varInit: map[*types.Var]varInit{}, dupVars: map[string]bool{}, mutated: map[*types.Var]token.Pos{},
		globals: map[*types.Var]value{}, pendingG: map[*types.Var]bool{}}
	seenF, seenV := map[string]bool{}, map[string]bool{}
	for _, f := range files {
		for _, d := range f.Decls {
			switch d := d.(type) {
			case *ast.FuncDecl:
				key := d.Name.Name
				if d.Recv != nil && len(d.Recv.List) == 1 {
					key = types.ExprString(d.Recv.List[0].Type) + "." + key
				}
				if seenF[key] && d.Name.Name != "init" && d.Name.Name != "_" {
					x.dupFuncs[key] = true
				}
				seenF[key] = true
				if fo, ok := info.Defs[d.Name].(*types.Func); ok {
					x.funcs[fo] = d
				}
			case *ast.GenDecl:
				if d.Tok != token.VAR {
					continue
				}
				for _, sp := range d.Specs {
					vs := sp.(*ast.ValueSpec)
					for i, id := range vs.Names {
						if id.Name == "_" {
							continue
						}
						if seenV[id.Name] {
							x.dupVars[id.Name] = true
						}
						seenV[id.Name] = true
						if vo, ok := info.Defs[id].(*types.Var); ok {
							x.varInit[vo] = varInit{vs, i}
						}
					}
				}
			}
		}
	}
	// writes to package-level variables anywhere in the package
	var root func(e ast.Expr) *types.Var
	root = func(e ast.Expr) *types.Var {
		switch e := e.(type) {
		case *ast.ParenExpr:
			return root(e.X)
		case *ast.IndexExpr:
			return root(e.X)
		case *ast.SliceExpr:
			return root(e.X)
		case *ast.StarExpr:
			return root(e.X)
		case *ast.SelectorExpr:
			if _, isPkg := info.Uses[identOf(e.X)].(*types.PkgName); isPkg {
				return nil
			}
			return root(e.X)
		case *ast.Ident:
			if v, ok := info.Uses[e].(*types.Var); ok && v.Parent() == pkg.Scope() {
				return v
			}
		}
		return nil
	}
	mark := func(e ast.Expr) {
		if v := root(e); v != nil {
			if _, done := x.mutated[v]; !done {
				x.mutated[v] = e.Pos()
			}
		}
	}
	for _, f := range files {
		ast.Inspect(f, func(n ast.Node) bool {
			switch n := n.(type) {
			case *ast.AssignStmt:
				for _, l := range n.Lhs {
					mark(l)
				}
			case *ast.IncDecStmt:
				mark(n.X)
			case *ast.UnaryExpr:
				if n.Op == token.AND {
					mark(n.X)
				}
			case *ast.RangeStmt:
				if n.Tok == token.ASSIGN {
					if n.Key != nil {
						mark(n.Key)
					}
					if n.Value != nil {
						mark(n.Value)
					}
				}
			case *ast.CallExpr:
				// a method with a pointer receiver called on an addressable variable
				if sel, ok := n.Fun.(*ast.SelectorExpr); ok {
					if s := info.Selections[sel]; s != nil && s.Kind() == types.MethodVal {
						if sig, ok := s.Obj().Type().(*types.Signature); ok && sig.Recv() != nil {
							if _, isPtr := sig.Recv().Type().(*types.Pointer); isPtr {
								mark(sel.X)
							}
						}
					}
				}
			}
			return true
		})
	}
	return x
}

func identOf(e ast.Expr) *ast.Ident {
	id, _ := e.(*ast.Ident)
	return id
}

// global returns the value of a package-level variable: its initialiser, evaluated once.
func (x *sx) global(v *types.Var, at ast.Node) (value, error) {
	if val, ok := x.globals[v]; ok {
		return val, nil
	}
	if v.Pkg() != x.pkg {
		return nil, x.errf(at, "variable %s of another package", v.Name())
	}
	if x.dupVars[v.Name()] {
		return nil, x.errf(at, "package-level variable %s is declared more than once", v.Name())
	}
	if v.Exported() {
		return nil, x.errf(at, "package-level variable %s is exported: importers can reassign it", v.Name())
	}
	if pos, bad := x.mutated[v]; bad {
		return nil, fmt.Errorf("%s: outside the translator's subset: package-level variable %s is written or has its address taken there",
			x.t.fset.Position(pos), v.Name())
	}
	vi, ok := x.varInit[v]
	if !ok {
		return nil, x.errf(at, "declaration of package-level variable %s not found", v.Name())
	}
	if x.pendingG[v] {
		return nil, x.errf(at, "initialisation cycle through %s", v.Name())
	}
	x.pendingG[v] = true
	defer delete(x.pendingG, v)
	var val value
	var err error
	switch {
	case len(vi.spec.Values) == 0:
		val, err = x.zero(v.Type(), vi.spec)
	case len(vi.spec.Values) == len(vi.spec.Names):
		saveP, saveN, saveS := x.param, x.n, x.stack
		// initialisers run before any call: there is no parameter in scope
		x.param, x.stack = nil, nil
		val, err = x.expr(vi.spec.Values[vi.idx], &frame{vars: map[types.Object]value{}})
		x.param, x.n, x.stack = saveP, saveN, saveS
		if err == nil && vi.spec.Type != nil {
			val, err = x.convert(val, v.Type(), vi.spec)
		}
	default:
		err = x.errf(vi.spec, "%s is initialised from a multi-valued expression", v.Name())
	}
	if err != nil {
		return nil, err
	}
	x.globals[v] = val
	return val, nil
}

// ---------------------------------------------------------------- zero values, conversions

func isNetip(t types.Type, name string) bool {
	nt, ok := t.(*types.Named)
	return ok && nt.Obj().Pkg() != nil && nt.Obj().Pkg().Path() == "net/netip" && nt.Obj().Name() == name
}

func (x *sx) zero(t types.Type, at ast.Node) (value, error) {
	if isNetip(t, "Addr") {
		return &vAddr{}, nil
	}
	if isNetip(t, "Prefix") {
		return vPrefix{}, nil
	}
	switch u := t.Underlying().(type) {
	case *types.Basic:
		if _, _, ok := intKind(t); ok {
			return constWord(t, 0), nil
		}
		switch u.Kind() {
		case types.Bool, types.UntypedBool:
			return vBool{fFF}, nil
		case types.String, types.UntypedString:
			return vStr{}, nil
		}
	case *types.Array:
		s := vSeq{typ: t, array: true}
		for i := int64(0); i < u.Len(); i++ {
			e, err := x.zero(u.Elem(), at)
			if err != nil {
				return nil, err
			}
			s.elems = append(s.elems, e)
		}
		return s, nil
	case *types.Slice:
		return vSeq{typ: t}, nil
	case *types.Struct:
		s := vStruct{typ: t}
		for i := 0; i < u.NumFields(); i++ {
			e, err := x.zero(u.Field(i).Type(), at)
			if err != nil {
				return nil, err
			}
			s.fields = append(s.fields, e)
		}
		return s, nil
	case *types.Pointer, *types.Map, *types.Chan, *types.Interface, *types.Signature:
		return vOpaque{"the zero value of " + t.String()}, nil
	}
	return nil, x.errf(at, "zero value of type %s", t)
}

func (x *sx) convert(v value, to types.Type, at ast.Node) (value, error) {
	if w, signed, ok := intKind(to); ok {
		src, isW := v.(vWord)
		if !isW {
			return nil, x.errf(at, "conversion of a non-integer to %s", to)
		}
		r, err := src.resize(to, w, signed)
		if err != nil {
			return nil, x.errf(at, "%v", err)
		}
		return r, nil
	}
	switch u := to.Underlying().(type) {
	case *types.Basic:
		switch {
		case u.Info()&types.IsString != 0:
			switch s := v.(type) {
			case vStr:
				return s, nil
			case vSeq:
				var r vStr
				for _, e := range s.elems {
					b, ok := e.(vWord)
					if !ok || len(b.bits) != 8 {
						return nil, x.errf(at, "string(…) of something other than bytes")
					}
					r.bs = append(r.bs, b)
				}
				return r, nil
			}
			return nil, x.errf(at, "conversion of an integer to string")
		case u.Info()&types.IsBoolean != 0:
			if b, ok := v.(vBool); ok {
				return b, nil
			}
		}
	case *types.Slice:
		switch s := v.(type) {
		case vStr:
			r := vSeq{typ: to}
			for _, b := range s.bs {
				b.typ = u.Elem()
				r.elems = append(r.elems, b)
			}
			return r, nil
		case vSeq:
			if !s.array {
				s.typ = to
				return s, nil
			}
		}
	case *types.Array:
		if s, ok := v.(vSeq); ok {
			if int64(len(s.elems)) < u.Len() {
				return nil, x.errf(at, "conversion of a slice of length %d to %s panics", len(s.elems), to)
			}
			return vSeq{elems: append([]value{}, s.elems[:u.Len()]...), typ: to, array: true}, nil
		}
	case *types.Struct:
		if s, ok := v.(vStruct); ok {
			s.typ = to
			return s, nil
		}
		if _, ok := v.(*vAddr); ok && isNetip(to, "Addr") {
			return v, nil
		}
		if _, ok := v.(vPrefix); ok && isNetip(to, "Prefix") {
			return v, nil
		}
	case *types.Signature:
		if f, ok := v.(vFunc); ok {
			return f, nil
		}
	case *types.Interface:
		return nil, x.errf(at, "conversion to the interface type %s", to)
	}
	return nil, x.errf(at, "conversion to %s", to)
}

// ---------------------------------------------------------------- merging (loops only)

func (x *sx) mergeVal(c string, a, b value, at ast.Node) (value, error) {
	if ba, ok := a.(vBool); ok {
		if bb, ok := b.(vBool); ok {
			if ba.f == bb.f {
				return ba, nil
			}
			return vBool{bIte(c, ba.f, bb.f)}, nil
		}
	}
	if reflect.DeepEqual(a, b) {
		return a, nil
	}
	return nil, x.errf(at, "a non-boolean variable has different values on the two sides of a branch on the parameter")
}

func (x *sx) mergeFrames(c string, a, b *frame, at ast.Node) (*frame, error) {
	if a == b {
		return a, nil
	}
	if a.parent != b.parent || a.fn != b.fn || len(a.vars) != len(b.vars) {
		return nil, x.errf(at, "branches on the parameter declare different variables")
	}
	n := &frame{vars: make(map[types.Object]value, len(a.vars)), frozen: a.frozen, parent: a.parent, fn: a.fn}
	for k, va := range a.vars {
		vb, ok := b.vars[k]
		if !ok {
			return nil, x.errf(at, "branches on the parameter declare different variables")
		}
		m, err := x.mergeVal(c, va, vb, at)
		if err != nil {
			return nil, err
		}
		n.vars[k] = m
	}
	return n, nil
}

// merge joins sibling fall-through leaves bottom-up.
func (x *sx) merge(o *outcome, at ast.Node) (*outcome, error) {
	if o.kind != oIte {
		return o, nil
	}
	a, err := x.merge(o.a, at)
	if err != nil {
		return nil, err
	}
	b, err := x.merge(o.b, at)
	if err != nil {
		return nil, err
	}
	if a.kind == oFall && b.kind == oFall {
		fr, err := x.mergeFrames(o.cond, a.fr, b.fr, at)
		if err != nil {
			return nil, err
		}
		return fall(fr), nil
	}
	return &outcome{kind: oIte, cond: o.cond, a: a, b: b}, nil
}

// bind continues every fall-through leaf of o with k.
func bind(o *outcome, k func(*frame) (*outcome, error)) (*outcome, error) {
	switch o.kind {
	case oFall:
		return k(o.fr)
	case oIte:
		a, err := bind(o.a, k)
		if err != nil {
			return nil, err
		}
		b, err := bind(o.b, k)
		if err != nil {
			return nil, err
		}
		return &outcome{kind: oIte, cond: o.cond, a: a, b: b}, nil
	}
	return o, nil
}

func relabel(o *outcome, from, to int) *outcome {
	switch o.kind {
	case oIte:
		return &outcome{kind: oIte, cond: o.cond, a: relabel(o.a, from, to), b: relabel(o.b, from, to)}
	case from:
		return &outcome{kind: to, fr: o.fr}
	}
	return o
}

func hasLeaf(o *outcome, kind int) bool {
	if o.kind == oIte {
		return hasLeaf(o.a, kind) || hasLeaf(o.b, kind)
	}
	return o.kind == kind
}

func mkIteO(c string, a, b *outcome) *outcome {
	switch c {
	case fTT:
		return a
	case fFF:
		return b
	}
	return &outcome{kind: oIte, cond: c, a: a, b: b}
}

// collapse turns the outcome of a function body into its result values.
func (x *sx) collapse(o *outcome, fb *funcBody, at ast.Node) ([]value, error) {
	switch o.kind {
	case oRet:
		return o.vals, nil
	case oIte:
		a, err := x.collapse(o.a, fb, at)
		if err != nil {
			return nil, err
		}
		b, err := x.collapse(o.b, fb, at)
		if err != nil {
			return nil, err
		}
		if len(a) != len(b) {
			return nil, x.errf(at, "internal: result arity")
		}
		res := make([]value, len(a))
		for i := range a {
			if ba, ok := a[i].(vBool); ok {
				// function results are not folded: `if c { return true }; return false` stays an ite
				res[i] = vBool{fIte(o.cond, ba.f, b[i].(vBool).f)}
				continue
			}
			if res[i], err = x.mergeVal(o.cond, a[i], b[i], at); err != nil {
				return nil, err
			}
		}
		return res, nil
	case oFall:
		return nil, x.errf(fb.body, "control reaches the end of %s without a return", fb.name)
	}
	return nil, x.errf(at, "break or continue outside a loop")
}

// ---------------------------------------------------------------- statements

func (x *sx) block(list []ast.Stmt, fr *frame) (*outcome, error) {
	o := fall(fr)
	for _, s := range list {
		if !hasLeaf(o, oFall) {
			break
		}
		s := s
		var err error
		if o, err = bind(o, func(f *frame) (*outcome, error) { return x.stmt(s, f) }); err != nil {
			return nil, err
		}
	}
	return o, nil
}

func (x *sx) boolExpr(e ast.Expr, fr *frame) (string, error) {
	v, err := x.expr(e, fr)
	if err != nil {
		return "", err
	}
	b, ok := v.(vBool)
	if !ok {
		return "", x.errf(e, "expected a boolean expression")
	}
	return b.f, nil
}

func (x *sx) assignTo(lhs ast.Expr, v value, fr *frame, define bool) (*frame, error) {
	switch l := lhs.(type) {
	case *ast.ParenExpr:
		return x.assignTo(l.X, v, fr, define)
	case *ast.Ident:
		if l.Name == "_" {
			return fr, nil
		}
		if define {
			if o := x.info.Defs[l]; o != nil {
				return fr.set(o, v), nil
			}
		}
		o := x.info.Uses[l]
		if o == nil {
			o = x.info.Defs[l]
		}
		if o == nil {
			return nil, x.errf(lhs, "unresolved identifier %s", l.Name)
		}
		if _, own := fr.vars[o]; !own {
			return nil, x.errf(lhs, "assignment to %s, which is not a local variable of the function being executed", l.Name)
		}
		if fr.frozen[o] {
			return nil, x.errf(lhs, "assignment to %s after a function literal captured it", l.Name)
		}
		return fr.set(o, v), nil
	case *ast.SelectorExpr:
		sel := x.info.Selections[l]
		if sel == nil || sel.Kind() != types.FieldVal {
			return nil, x.errf(lhs, "assignment to something other than a variable, a field or an array element")
		}
		old, err := x.expr(l.X, fr)
		if err != nil {
			return nil, err
		}
		nv, err := x.setField(old, sel.Index(), v, lhs)
		if err != nil {
			return nil, err
		}
		return x.assignTo(l.X, nv, fr, false)
	case *ast.IndexExpr:
		old, err := x.expr(l.X, fr)
		if err != nil {
			return nil, err
		}
		s, ok := old.(vSeq)
		if !ok || !s.array {
			return nil, x.errf(lhs, "element assignment to something other than a local array (slices alias their backing array)")
		}
		i, err := x.index(l.Index, len(s.elems), fr)
		if err != nil {
			return nil, err
		}
		ns := vSeq{elems: append([]value{}, s.elems...), typ: s.typ, array: true}
		ns.elems[i] = v
		return x.assignTo(l.X, ns, fr, false)
	}
	return nil, x.errf(lhs, "assignment to %T", lhs)
}

func (x *sx) setField(s value, path []int, v value, at ast.Node) (value, error) {
	st, ok := s.(vStruct)
	if !ok {
		return nil, x.errf(at, "field assignment through a pointer or to a non-struct")
	}
	ns := vStruct{fields: append([]value{}, st.fields...), typ: st.typ}
	if len(path) == 1 {
		ns.fields[path[0]] = v
		return ns, nil
	}
	inner, err := x.setField(st.fields[path[0]], path[1:], v, at)
	if err != nil {
		return nil, err
	}
	ns.fields[path[0]] = inner
	return ns, nil
}

func (x *sx) index(e ast.Expr, n int, fr *frame) (int, error) {
	v, err := x.expr(e, fr)
	if err != nil {
		return 0, err
	}
	w, ok := v.(vWord)
	if !ok {
		return 0, x.errf(e, "index is not an integer")
	}
	i, ok := w.sconc()
	if !ok {
		return 0, x.errf(e, "index depends on the parameter")
	}
	if i < 0 || i >= int64(n) {
		return 0, x.errf(e, "index %d out of range [0,%d): the code panics", i, n)
	}
	return int(i), nil
}

var assignOps = map[token.Token]token.Token{
	token.ADD_ASSIGN: token.ADD, token.SUB_ASSIGN: token.SUB, token.MUL_ASSIGN: token.MUL, token.QUO_ASSIGN: token.QUO,
	token.REM_ASSIGN: token.REM, token.AND_ASSIGN: token.AND, token.OR_ASSIGN: token.OR, token.XOR_ASSIGN: token.XOR,
	token.SHL_ASSIGN: token.SHL, token.SHR_ASSIGN: token.SHR, token.AND_NOT_ASSIGN: token.AND_NOT,
}

func (x *sx) stmt(s ast.Stmt, fr *frame) (*outcome, error) {
	if err := x.tick(s); err != nil {
		return nil, err
	}
	switch s := s.(type) {
	case *ast.EmptyStmt:
		return fall(fr), nil
	case *ast.BlockStmt:
		return x.block(s.List, fr)
	case *ast.ReturnStmt:
		var vals []value
		switch {
		case len(s.Results) == 0:
			if fr.fn == nil || fr.fn.typ.Results == nil {
				return &outcome{kind: oRet}, nil
			}
			for _, f := range fr.fn.typ.Results.List {
				if len(f.Names) == 0 {
					return nil, x.errf(s, "bare return in a function with unnamed results")
				}
				for _, id := range f.Names {
					v, ok := fr.lookup(x.info.Defs[id])
					if !ok {
						return nil, x.errf(s, "bare return: result %s", id.Name)
					}
					vals = append(vals, v)
				}
			}
		default:
			for _, r := range s.Results {
				v, err := x.expr(r, fr)
				if err != nil {
					return nil, err
				}
				if tup, ok := v.(vTuple); ok && len(s.Results) == 1 {
					vals = tup.vals
					break
				}
				vals = append(vals, v)
			}
		}
		return &outcome{kind: oRet, vals: vals}, nil
	case *ast.DeclStmt:
		gd, ok := s.Decl.(*ast.GenDecl)
		if !ok {
			return nil, x.errf(s, "declaration statement")
		}
		if gd.Tok == token.CONST || gd.Tok == token.TYPE {
			return fall(fr), nil
		}
		for _, sp := range gd.Specs {
			vs := sp.(*ast.ValueSpec)
			if len(vs.Values) != 0 && len(vs.Values) != len(vs.Names) {
				return nil, x.errf(s, "multi-valued initialiser")
			}
			for i, id := range vs.Names {
				o := x.info.Defs[id]
				if id.Name == "_" || o == nil {
					continue
				}
				var v value
				var err error
				if len(vs.Values) == 0 {
					v, err = x.zero(o.Type(), s)
				} else if v, err = x.expr(vs.Values[i], fr); err == nil && vs.Type != nil {
					v, err = x.convert(v, o.Type(), s)
				}
				if err != nil {
					return nil, err
				}
				fr = fr.set(o, v)
			}
		}
		return fall(fr), nil
	case *ast.AssignStmt:
		if op, isOp := assignOps[s.Tok]; isOp {
			if len(s.Lhs) != 1 || len(s.Rhs) != 1 {
				return nil, x.errf(s, "assignment form %s", s.Tok)
			}
			a, err := x.expr(s.Lhs[0], fr)
			if err != nil {
				return nil, err
			}
			b, err := x.expr(s.Rhs[0], fr)
			if err != nil {
				return nil, err
			}
			v, err := x.binary(op, a, b, s)
			if err != nil {
				return nil, err
			}
			nf, err := x.assignTo(s.Lhs[0], v, fr, false)
			if err != nil {
				return nil, err
			}
			return fall(nf), nil
		}
		if s.Tok != token.ASSIGN && s.Tok != token.DEFINE {
			return nil, x.errf(s, "assignment form %s", s.Tok)
		}
		var vals []value
		for _, r := range s.Rhs {
			v, err := x.expr(r, fr)
			if err != nil {
				return nil, err
			}
			vals = append(vals, v)
		}
		if len(vals) == 1 && len(s.Lhs) > 1 {
			tup, ok := vals[0].(vTuple)
			if !ok || len(tup.vals) != len(s.Lhs) {
				return nil, x.errf(s, "multi-valued assignment from something other than an inlined call")
			}
			vals = tup.vals
		}
		if len(vals) != len(s.Lhs) {
			return nil, x.errf(s, "assignment count mismatch")
		}
		nf := fr
		for i, l := range s.Lhs {
			var err error
			if nf, err = x.assignTo(l, vals[i], nf, s.Tok == token.DEFINE); err != nil {
				return nil, err
			}
		}
		return fall(nf), nil
	case *ast.IncDecStmt:
		a, err := x.expr(s.X, fr)
		if err != nil {
			return nil, err
		}
		w, ok := a.(vWord)
		if !ok {
			return nil, x.errf(s, "%s of a non-integer", s.Tok)
		}
		op := token.ADD
		if s.Tok == token.DEC {
			op = token.SUB
		}
		v, err := x.binary(op, w, constWord(w.typ, 1), s)
		if err != nil {
			return nil, err
		}
		nf, err := x.assignTo(s.X, v, fr, false)
		if err != nil {
			return nil, err
		}
		return fall(nf), nil
	case *ast.IfStmt:
		if s.Init != nil {
			o, err := x.stmt(s.Init, fr)
			if err != nil {
				return nil, err
			}
			if o.kind != oFall {
				return nil, x.errf(s.Init, "init statement of an if")
			}
			fr = o.fr
		}
		c, err := x.boolExpr(s.Cond, fr)
		if err != nil {
			return nil, err
		}
		th, el := fall(fr), fall(fr)
		if c != fFF {
			if th, err = x.block(s.Body.List, fr); err != nil {
				return nil, err
			}
		}
		if c != fTT && s.Else != nil {
			if el, err = x.stmt(s.Else, fr); err != nil {
				return nil, err
			}
		}
		return mkIteO(c, th, el), nil
	case *ast.SwitchStmt:
		return x.switchStmt(s, fr)
	case *ast.RangeStmt:
		return x.rangeStmt(s, fr)
	case *ast.ForStmt:
		return x.forStmt(s, fr)
	case *ast.BranchStmt:
		if s.Label != nil {
			return nil, x.errf(s, "%s with a label", s.Tok)
		}
		switch s.Tok {
		case token.BREAK:
			return &outcome{kind: oBreak, fr: fr}, nil
		case token.CONTINUE:
			return &outcome{kind: oCont, fr: fr}, nil
		}
		return nil, x.errf(s, "%s", s.Tok)
	}
	return nil, x.errf(s, "statement %T", s)
}

func (x *sx) switchStmt(s *ast.SwitchStmt, fr *frame) (*outcome, error) {
	if s.Init != nil {
		o, err := x.stmt(s.Init, fr)
		if err != nil {
			return nil, err
		}
		if o.kind != oFall {
			return nil, x.errf(s.Init, "init statement of a switch")
		}
		fr = o.fr
	}
	var tag value
	if s.Tag != nil {
		var err error
		if tag, err = x.expr(s.Tag, fr); err != nil {
			return nil, err
		}
	}
	type arm struct {
		cond string
		body []ast.Stmt
	}
	var arms []arm
	var deflt []ast.Stmt
	for _, cs := range s.Body.List {
		cc := cs.(*ast.CaseClause)
		var bad ast.Node
		for _, bs := range cc.Body {
			ast.Inspect(bs, func(n ast.Node) bool {
				switch n := n.(type) {
				case *ast.FuncLit, *ast.ForStmt, *ast.RangeStmt:
					return false
				case *ast.BranchStmt:
					if bad == nil {
						bad = n
					}
				}
				return true
			})
		}
		if br, isBr := bad.(*ast.BranchStmt); isBr {
			return nil, x.errf(br, "%s in a switch", br.Tok)
		}
		if cc.List == nil {
			deflt = cc.Body
			continue
		}
		cond := ""
		for _, ce := range cc.List {
			var one string
			if s.Tag != nil {
				cv, err := x.expr(ce, fr)
				if err != nil {
					return nil, err
				}
				r, err := x.binary(token.EQL, tag, cv, ce)
				if err != nil {
					return nil, err
				}
				one = r.(vBool).f
			} else {
				var err error
				if one, err = x.boolExpr(ce, fr); err != nil {
					return nil, err
				}
			}
			if cond == "" {
				cond = one
			} else {
				cond = bOr(cond, one)
			}
		}
		arms = append(arms, arm{cond, cc.Body})
	}
	// first matching arm wins; arms after a constantly true condition are dead
	live := len(arms)
	for k, a := range arms {
		if a.cond == fTT {
			live = k + 1
			break
		}
	}
	var res *outcome
	var err error
	if live == len(arms) {
		if res, err = x.block(deflt, fr); err != nil {
			return nil, err
		}
	}
	for k := live - 1; k >= 0; k-- {
		if arms[k].cond == fFF {
			continue
		}
		body, err := x.block(arms[k].body, fr)
		if err != nil {
			return nil, err
		}
		if res == nil {
			res = body
		} else {
			res = mkIteO(arms[k].cond, body, res)
		}
	}
	return res, nil
}

const maxUnroll = 1 << 16

func (x *sx) rangeStmt(s *ast.RangeStmt, fr *frame) (*outcome, error) {
	seq, err := x.expr(s.X, fr)
	if err != nil {
		return nil, err
	}
	var items []value
	var intT types.Type = types.Typ[types.Int]
	switch q := seq.(type) {
	case vSeq:
		items = q.elems
	case vWord:
		n, ok := q.sconc()
		if !ok {
			return nil, x.errf(s.X, "range over a number that depends on the parameter")
		}
		if n > maxUnroll {
			return nil, x.errf(s.X, "range over %d", n)
		}
		intT = q.typ
		for i := int64(0); i < n; i++ {
			items = append(items, nil)
		}
	default:
		return nil, x.errf(s.X, "range over something other than an array, a slice or an integer")
	}
	_, overInt := seq.(vWord)
	cur := fall(fr)
	for k, el := range items {
		k, el := k, el
		cur, err = bind(cur, func(f *frame) (*outcome, error) {
			var err error
			if s.Key != nil {
				if f, err = x.assignTo(s.Key, constWord(intT, uint64(k)), f, s.Tok == token.DEFINE); err != nil {
					return nil, err
				}
			}
			if s.Value != nil {
				if overInt {
					return nil, x.errf(s.Value, "range over an integer has no second variable")
				}
				if f, err = x.assignTo(s.Value, el, f, s.Tok == token.DEFINE); err != nil {
					return nil, err
				}
			}
			o, err := x.block(s.Body.List, f)
			if err != nil {
				return nil, err
			}
			return relabel(o, oCont, oFall), nil
		})
		if err != nil {
			return nil, err
		}
		if cur, err = x.merge(cur, s); err != nil {
			return nil, err
		}
		if !hasLeaf(cur, oFall) {
			break
		}
	}
	return relabel(cur, oBreak, oFall), nil
}

func (x *sx) forStmt(s *ast.ForStmt, fr *frame) (*outcome, error) {
	if s.Init != nil {
		o, err := x.stmt(s.Init, fr)
		if err != nil {
			return nil, err
		}
		if o.kind != oFall {
			return nil, x.errf(s.Init, "init statement of a for")
		}
		fr = o.fr
	}
	cur := fall(fr)
	for iter := 0; hasLeaf(cur, oFall); iter++ {
		if iter > maxUnroll {
			return nil, x.errf(s, "loop does not terminate within %d iterations", maxUnroll)
		}
		var err error
		cur, err = bind(cur, func(f *frame) (*outcome, error) {
			if s.Cond != nil {
				c, err := x.boolExpr(s.Cond, f)
				if err != nil {
					return nil, err
				}
				switch c {
				case fFF:
					return &outcome{kind: oBreak, fr: f}, nil
				case fTT:
				default:
					return nil, x.errf(s.Cond, "loop condition depends on the parameter")
				}
			}
			o, err := x.block(s.Body.List, f)
			if err != nil {
				return nil, err
			}
			o = relabel(o, oCont, oFall)
			if s.Post != nil {
				o, err = bind(o, func(g *frame) (*outcome, error) { return x.stmt(s.Post, g) })
			}
			return o, err
		})
		if err != nil {
			return nil, err
		}
		if cur, err = x.merge(cur, s); err != nil {
			return nil, err
		}
	}
	return relabel(cur, oBreak, oFall), nil
}

// ---------------------------------------------------------------- calls

// call inlines fb on args (recv first if it is a method).
func (x *sx) call(fb funcBody, closed *frame, args []value, at ast.Node) (value, error) {
	if fb.body == nil {
		return nil, x.errf(at, "%s has no body", fb.name)
	}
	if fb.typ.TypeParams != nil {
		return nil, x.errf(at, "%s is generic", fb.name)
	}
	for _, n := range x.stack {
		if n == fb.decl {
			return nil, x.errf(at, "recursive call of %s", fb.name)
		}
	}
	if len(x.stack) > 64 {
		return nil, x.errf(at, "call depth")
	}
	x.stack = append(x.stack, fb.decl)
	defer func() { x.stack = x.stack[:len(x.stack)-1] }()

	fbc := fb
	fr := &frame{vars: map[types.Object]value{}, frozen: map[types.Object]bool{}, parent: closed, fn: &fbc}
	var params []*ast.Ident
	var ptypes []ast.Expr
	if fb.recv != nil {
		for _, f := range fb.recv.List {
			if _, isPtr := f.Type.(*ast.StarExpr); isPtr {
				return nil, x.errf(at, "%s has a pointer receiver", fb.name)
			}
			if len(f.Names) == 0 {
				params, ptypes = append(params, nil), append(ptypes, f.Type)
			}
			for _, id := range f.Names {
				params, ptypes = append(params, id), append(ptypes, f.Type)
			}
		}
	}
	for _, f := range fb.typ.Params.List {
		if _, isVar := f.Type.(*ast.Ellipsis); isVar {
			return nil, x.errf(at, "%s is variadic", fb.name)
		}
		if len(f.Names) == 0 {
			params, ptypes = append(params, nil), append(ptypes, f.Type)
		}
		for _, id := range f.Names {
			params, ptypes = append(params, id), append(ptypes, f.Type)
		}
	}
	if len(params) != len(args) {
		return nil, x.errf(at, "call of %s with %d arguments", fb.name, len(args))
	}
	for i, id := range params {
		if id == nil || id.Name == "_" {
			continue
		}
		o := x.info.Defs[id]
		if o == nil {
			return nil, x.errf(at, "parameter %s of %s", id.Name, fb.name)
		}
		v := args[i]
		if tv, ok := x.info.Types[ptypes[i]]; ok && tv.Type != nil {
			if _, isIface := tv.Type.Underlying().(*types.Interface); isIface {
				return nil, x.errf(at, "parameter %s of %s has an interface type", id.Name, fb.name)
			}
		}
		fr.vars[o] = v
	}
	nres := 0
	if fb.typ.Results != nil {
		for _, f := range fb.typ.Results.List {
			if len(f.Names) == 0 {
				nres++
			}
			for _, id := range f.Names {
				nres++
				if o := x.info.Defs[id]; o != nil && id.Name != "_" {
					z, err := x.zero(o.Type(), id)
					if err != nil {
						return nil, err
					}
					fr.vars[o] = z
				}
			}
		}
	}
	o, err := x.block(fb.body.List, fr)
	if err != nil {
		return nil, err
	}
	if nres == 0 {
		return nil, x.errf(at, "call of %s, which returns nothing", fb.name)
	}
	vals, err := x.collapse(o, &fbc, at)
	if err != nil {
		return nil, err
	}
	if len(vals) != nres {
		return nil, x.errf(at, "%s returns %d values", fb.name, len(vals))
	}
	if nres == 1 {
		return vals[0], nil
	}
	return vTuple{vals}, nil
}

func (x *sx) declBody(fo *types.Func, at ast.Node) (funcBody, error) {
	fd := x.funcs[fo]
	if fd == nil || fo.Pkg() != x.pkg {
		return funcBody{}, x.errf(at, "call of %s, which is not a function of this package", fo.FullName())
	}
	key := fd.Name.Name
	if fd.Recv != nil && len(fd.Recv.List) == 1 {
		key = types.ExprString(fd.Recv.List[0].Type) + "." + key
	}
	if x.dupFuncs[key] {
		return funcBody{}, x.errf(at, "%s is declared more than once", key)
	}
	return funcBody{name: key, typ: fd.Type, body: fd.Body, recv: fd.Recv, decl: fd}, nil
}

// isParamItself reports whether v is the whole parameter array, unchanged.
func (x *sx) isParamItself(v value) bool {
	s, ok := v.(vSeq)
	if !ok || !s.array || len(s.elems) != x.n || x.param == nil {
		return false
	}
	for i, e := range s.elems {
		w, isW := e.(vWord)
		if !isW {
			return false
		}
		if idx, id := w.identityByte(); !id || idx != i {
			return false
		}
	}
	return true
}

// bytePredicate reports whether fd has the shape func([4|16]byte) bool.
func (x *sx) bytePredicate(fd *ast.FuncDecl) (int, bool) {
	if fd.Recv != nil || fd.Type.TypeParams != nil || fd.Body == nil {
		return 0, false
	}
	fo, _ := x.info.Defs[fd.Name].(*types.Func)
	if fo == nil {
		return 0, false
	}
	sig := fo.Type().(*types.Signature)
	if sig.Params().Len() != 1 || sig.Results().Len() != 1 || sig.Variadic() {
		return 0, false
	}
	at, isArr := sig.Params().At(0).Type().Underlying().(*types.Array)
	if !isArr || (at.Len() != 4 && at.Len() != 16) {
		return 0, false
	}
	if w, signed, ok := intKind(at.Elem()); !ok || w != 8 || signed {
		return 0, false
	}
	if b, isB := sig.Results().At(0).Type().Underlying().(*types.Basic); !isB || b.Kind() != types.Bool {
		return 0, false
	}
	return int(at.Len()), true
}

func (x *sx) callExpr(e *ast.CallExpr, fr *frame) (value, error) {
	if e.Ellipsis.IsValid() {
		// only append(a, b...) is supported, handled below
		if id := identOf(e.Fun); id == nil || id.Name != "append" {
			return nil, x.errf(e, "call with a spread argument")
		}
	}
	// conversion
	if tv, ok := x.info.Types[e.Fun]; ok && tv.IsType() {
		if len(e.Args) != 1 {
			return nil, x.errf(e, "conversion with %d arguments", len(e.Args))
		}
		v, err := x.expr(e.Args[0], fr)
		if err != nil {
			return nil, err
		}
		return x.convert(v, tv.Type, e)
	}
	evalArgs := func() ([]value, error) {
		var vs []value
		for _, a := range e.Args {
			v, err := x.expr(a, fr)
			if err != nil {
				return nil, err
			}
			vs = append(vs, v)
		}
		return vs, nil
	}
	fun := ast.Unparen(e.Fun)
	switch f := fun.(type) {
	case *ast.Ident:
		switch o := x.info.Uses[f].(type) {
		case *types.Builtin:
			args, err := evalArgs()
			if err != nil {
				return nil, err
			}
			return x.builtin(o.Name(), e, args)
		case *types.Func:
			fd := x.funcs[o]
			if fd != nil && len(e.Args) == 1 {
				if n, isPred := x.bytePredicate(fd); isPred {
					a, err := x.expr(e.Args[0], fr)
					if err != nil {
						return nil, err
					}
					if n == x.n && x.isParamItself(a) {
						// another predicate of the same array: referenced by name, as before
						if err := x.t.byteFunc(fd.Name.Name); err != nil {
							return nil, err
						}
						return vBool{fd.Name.Name}, nil
					}
					fb, err := x.declBody(o, e)
					if err != nil {
						return nil, err
					}
					return x.call(fb, nil, []value{a}, e)
				}
			}
			fb, err := x.declBody(o, e)
			if err != nil {
				return nil, err
			}
			args, err := evalArgs()
			if err != nil {
				return nil, err
			}
			return x.call(fb, nil, args, e)
		case *types.Var:
			fv, err := x.expr(f, fr)
			if err != nil {
				return nil, err
			}
			return x.callValue(fv, e, evalArgs)
		}
		return nil, x.errf(e, "call of %s", f.Name)
	case *ast.FuncLit:
		fv, err := x.expr(f, fr)
		if err != nil {
			return nil, err
		}
		return x.callValue(fv, e, evalArgs)
	case *ast.SelectorExpr:
		// package-qualified function
		if id := identOf(f.X); id != nil {
			if pn, isPkg := x.info.Uses[id].(*types.PkgName); isPkg {
				args, err := evalArgs()
				if err != nil {
					return nil, err
				}
				return x.stdFunc(pn.Imported().Path(), f.Sel.Name, e, args)
			}
		}
		sel := x.info.Selections[f]
		if sel == nil {
			return nil, x.errf(e, "unresolved selector %s", f.Sel.Name)
		}
		switch sel.Kind() {
		case types.FieldVal:
			fv, err := x.expr(f, fr)
			if err != nil {
				return nil, err
			}
			return x.callValue(fv, e, evalArgs)
		case types.MethodVal:
			mo := sel.Obj().(*types.Func)
			recvT := sel.Recv()
			if p, isPtr := recvT.(*types.Pointer); isPtr {
				recvT = p.Elem()
			}
			// encoding/binary byte orders
			if nt, isNamed := recvT.(*types.Named); isNamed && nt.Obj().Pkg() != nil && nt.Obj().Pkg().Path() == "encoding/binary" {
				args, err := evalArgs()
				if err != nil {
					return nil, err
				}
				return x.byteOrder(nt.Obj().Name(), mo.Name(), e, args)
			}
			recv, err := x.expr(f.X, fr)
			if err != nil {
				return nil, err
			}
			args, err := evalArgs()
			if err != nil {
				return nil, err
			}
			if isNetip(recvT, "Addr") || isNetip(recvT, "Prefix") {
				return x.netipMethod(recv, mo.Name(), e, args)
			}
			if len(sel.Index()) != 1 {
				return nil, x.errf(e, "method %s promoted from an embedded field", mo.Name())
			}
			if _, isIface := recvT.Underlying().(*types.Interface); isIface {
				return nil, x.errf(e, "method call through the interface %s", recvT)
			}
			fb, err := x.declBody(mo, e)
			if err != nil {
				return nil, err
			}
			return x.call(fb, nil, append([]value{recv}, args...), e)
		}
	}
	return nil, x.errf(e, "call of %T", fun)
}

func (x *sx) callValue(fv value, e *ast.CallExpr, evalArgs func() ([]value, error)) (value, error) {
	f, ok := fv.(vFunc)
	if !ok {
		return nil, x.errf(e, "call of something that is not a function of this package")
	}
	args, err := evalArgs()
	if err != nil {
		return nil, err
	}
	return x.call(f.body, f.closed, args, e)
}

func (x *sx) builtin(name string, e *ast.CallExpr, args []value) (value, error) {
	intT := types.Typ[types.Int]
	switch name {
	case "len", "cap":
		if len(args) == 1 {
			switch a := args[0].(type) {
			case vSeq:
				if name == "cap" && !a.array {
					break
				}
				return constWord(intT, uint64(len(a.elems))), nil
			case vStr:
				if name == "len" {
					return constWord(intT, uint64(len(a.bs))), nil
				}
			}
		}
	case "append":
		if len(args) >= 1 {
			s, ok := args[0].(vSeq)
			if !ok || s.array {
				break
			}
			r := vSeq{elems: append([]value{}, s.elems...), typ: s.typ}
			if e.Ellipsis.IsValid() {
				if len(args) != 2 {
					break
				}
				switch t := args[1].(type) {
				case vSeq:
					r.elems = append(r.elems, t.elems...)
				case vStr:
					for _, b := range t.bs {
						r.elems = append(r.elems, b)
					}
				default:
					return nil, x.errf(e, "append of a spread %T", args[1])
				}
				return r, nil
			}
			r.elems = append(r.elems, args[1:]...)
			return r, nil
		}
	}
	return nil, x.errf(e, "builtin %s", name)
}

func byteSeq(v value) ([]vWord, bool) {
	var res []vWord
	switch s := v.(type) {
	case vStr:
		return s.bs, true
	case vSeq:
		for _, e := range s.elems {
			w, ok := e.(vWord)
			if !ok || len(w.bits) != 8 {
				return nil, false
			}
			res = append(res, w)
		}
		return res, true
	}
	return nil, false
}

func (x *sx) eqBytes(a, b []vWord, at ast.Node) (value, error) {
	if len(a) != len(b) {
		return vBool{fFF}, nil
	}
	var fs []string
	for i := range a {
		f, err := eqBits(a[i].bits, b[i].bits)
		if err != nil {
			return nil, x.errf(at, "%v", err)
		}
		fs = append(fs, f)
	}
	return vBool{conj(fs)}, nil
}

func (x *sx) byteOrder(order, method string, e *ast.CallExpr, args []value) (value, error) {
	var n int
	var t types.Type
	switch method {
	case "Uint16":
		n, t = 2, types.Typ[types.Uint16]
	case "Uint32":
		n, t = 4, types.Typ[types.Uint32]
	case "Uint64":
		n, t = 8, types.Typ[types.Uint64]
	default:
		return nil, x.errf(e, "encoding/binary method %s", method)
	}
	big := order == "bigEndian"
	if !big && order != "littleEndian" {
		return nil, x.errf(e, "encoding/binary type %s", order)
	}
	if len(args) != 1 {
		return nil, x.errf(e, "binary.%s", method)
	}
	s, isSeq := args[0].(vSeq)
	bs, ok := byteSeq(args[0])
	if !ok || !isSeq || s.array {
		return nil, x.errf(e, "argument of binary.%s is not a byte slice", method)
	}
	if len(bs) < n {
		return nil, x.errf(e, "binary.%s of a slice of length %d panics", method, len(bs))
	}
	// encoding/binary: Uint32(b) = b[3] | b[2]<<8 | b[1]<<16 | b[0]<<24 (big endian), the
	// mirror image for little endian; only the first n bytes are read.
	w := vWord{typ: t}
	for k := 0; k < n; k++ {
		src := k
		if big {
			src = n - 1 - k
		}
		w.bits = append(w.bits, bs[src].bits...)
	}
	return w, nil
}

func (x *sx) stdFunc(path, name string, e *ast.CallExpr, args []value) (value, error) {
	byteT := types.Typ[types.Uint8]
	constStr := func(v value) (string, bool) {
		s, ok := v.(vStr)
		if !ok {
			return "", false
		}
		raw := make([]byte, len(s.bs))
		for i, b := range s.bs {
			c, isC := b.conc()
			if !isC {
				return "", false
			}
			raw[i] = byte(c)
		}
		return string(raw), true
	}
	switch path + "." + name {
	case "net/netip.MustParsePrefix":
		if len(args) == 1 {
			if s, ok := constStr(args[0]); ok {
				p, err := netip.ParsePrefix(s)
				if err != nil {
					return nil, x.errf(e, "netip.MustParsePrefix(%q) panics: %v", s, err)
				}
				return vPrefix{p}, nil
			}
		}
	case "net/netip.MustParseAddr":
		if len(args) == 1 {
			if s, ok := constStr(args[0]); ok {
				a, err := netip.ParseAddr(s)
				if err != nil {
					return nil, x.errf(e, "netip.MustParseAddr(%q) panics: %v", s, err)
				}
				if a.Zone() != "" {
					return nil, x.errf(e, "address %q has a zone", s)
				}
				return concAddrLeaf(a, byteT), nil
			}
		}
	case "net/netip.PrefixFrom":
		if len(args) == 2 {
			a, okA := args[0].(*vAddr)
			b, okB := args[1].(vWord)
			if okA && okB {
				ca, isC := a.concrete()
				bits, isCB := b.sconc()
				if isC && isCB {
					if bits < -1<<31 || bits > 1<<31-1 {
						bits = -1
					}
					return vPrefix{netip.PrefixFrom(ca, int(bits))}, nil
				}
			}
		}
	case "net/netip.AddrFrom4", "net/netip.AddrFrom16":
		w := 4
		if name == "AddrFrom16" {
			w = 16
		}
		if len(args) == 1 {
			if s, ok := args[0].(vSeq); ok && s.array && len(s.elems) == w {
				if bs, isB := byteSeq(s); isB {
					// netip.AddrFrom16 does NOT unmap: the result is an IPv6 address
					return &vAddr{w: w, bs: bs}, nil
				}
			}
		}
	case "bytes.Equal":
		if len(args) == 2 {
			a, okA := byteSeq(args[0])
			b, okB := byteSeq(args[1])
			if okA && okB {
				return x.eqBytes(a, b, e)
			}
		}
	case "bytes.HasPrefix":
		if len(args) == 2 {
			a, okA := byteSeq(args[0])
			b, okB := byteSeq(args[1])
			if okA && okB {
				if len(b) > len(a) {
					return vBool{fFF}, nil
				}
				return x.eqBytes(a[:len(b)], b, e)
			}
		}
	case "slices.ContainsFunc":
		// slices.ContainsFunc(s, f) = IndexFunc(s, f) >= 0: the first i with f(s[i])
		if len(args) == 2 {
			s, okS := args[0].(vSeq)
			f, okF := args[1].(vFunc)
			if okS && okF {
				res := fFF
				for k := len(s.elems) - 1; k >= 0; k-- {
					r, err := x.call(f.body, f.closed, []value{s.elems[k]}, e)
					if err != nil {
						return nil, err
					}
					b, isB := r.(vBool)
					if !isB {
						return nil, x.errf(e, "predicate of slices.ContainsFunc does not return bool")
					}
					res = fIte(b.f, fTT, res)
				}
				return vBool{res}, nil
			}
		}
	default:
		return nil, x.errf(e, "call of %s.%s", path, name)
	}
	return nil, x.errf(e, "%s.%s with arguments the executor cannot evaluate (they must be constants, or the parameter's bytes where an address is built)", path, name)
}

func (x *sx) netipMethod(recv value, name string, e *ast.CallExpr, args []value) (value, error) {
	byteT := types.Typ[types.Uint8]
	intT := types.Typ[types.Int]
	switch r := recv.(type) {
	case vPrefix:
		switch name {
		case "Contains":
			if len(args) == 1 {
				a, ok := args[0].(*vAddr)
				if !ok {
					break
				}
				f, err := boolOfAddr(a, func(l *vAddr) (string, error) { return containsF(r.p, l) })
				if err != nil {
					return nil, x.errf(e, "%v", err)
				}
				return vBool{f}, nil
			}
		case "Addr":
			return concAddrLeaf(r.p.Addr(), byteT), nil
		case "Bits":
			return constWord(intT, uint64(int64(r.p.Bits()))), nil
		case "Masked":
			return vPrefix{r.p.Masked()}, nil
		case "IsValid":
			return vBool{boolF(r.p.IsValid())}, nil
		}
	case *vAddr:
		pred := func(f func(*vAddr) (string, error)) (value, error) {
			s, err := boolOfAddr(r, f)
			if err != nil {
				return nil, x.errf(e, "%v", err)
			}
			return vBool{s}, nil
		}
		switch name {
		case "IsValid":
			return pred(func(l *vAddr) (string, error) { return boolF(l.w != 0), nil })
		case "Is4":
			return pred(func(l *vAddr) (string, error) { return boolF(l.w == 4), nil })
		case "Is6":
			return pred(func(l *vAddr) (string, error) { return boolF(l.w == 16), nil })
		case "Is4In6":
			return pred(is4In6F)
		case "Unmap":
			// netip.Addr.Unmap: a 4in6 address becomes the embedded IPv4 address, every
			// other address is returned unchanged
			a, err := mapAddr(r, func(l *vAddr) (*vAddr, error) {
				c, err := is4In6F(l)
				if err != nil {
					return nil, err
				}
				switch c {
				case fFF:
					return l, nil
				case fTT:
					return &vAddr{w: 4, bs: l.bs[12:]}, nil
				}
				return &vAddr{cond: c, a: &vAddr{w: 4, bs: l.bs[12:]}, b: l}, nil
			})
			if err != nil {
				return nil, x.errf(e, "%v", err)
			}
			return a, nil
		case "As4", "As16", "AsSlice":
			if !r.leaf() {
				return nil, x.errf(e, "%s of an address whose family depends on the parameter", name)
			}
			arrT := func(n int64) types.Type { return types.NewArray(byteT, n) }
			switch {
			case name == "As4" && r.w == 4:
				return vSeq{elems: wordsToVals(r.bs), typ: arrT(4), array: true}, nil
			case name == "As16" && r.w == 16:
				return vSeq{elems: wordsToVals(r.bs), typ: arrT(16), array: true}, nil
			case name == "As16" && r.w == 4:
				var bs []vWord
				for k := 0; k < 12; k++ {
					c := uint64(0)
					if k >= 10 {
						c = 0xFF
					}
					bs = append(bs, constWord(byteT, c))
				}
				return vSeq{elems: wordsToVals(append(bs, r.bs...)), typ: arrT(16), array: true}, nil
			case name == "AsSlice" && r.w != 0:
				return vSeq{elems: wordsToVals(r.bs), typ: types.NewSlice(byteT)}, nil
			}
			return nil, x.errf(e, "%s of a %d-byte address (panics or is not supported)", name, r.w)
		}
	}
	return nil, x.errf(e, "net/netip method %s on this value", name)
}

func wordsToVals(ws []vWord) []value {
	vs := make([]value, len(ws))
	for i, w := range ws {
		vs[i] = w
	}
	return vs
}

func boolF(b bool) string {
	if b {
		return fTT
	}
	return fFF
}

// ---------------------------------------------------------------- expressions

func (x *sx) constant(tv types.TypeAndValue, e ast.Expr) (value, error) {
	switch tv.Value.Kind() {
	case constant.Bool:
		return vBool{boolF(constant.BoolVal(tv.Value))}, nil
	case constant.String:
		s := constant.StringVal(tv.Value)
		var r vStr
		for i := 0; i < len(s); i++ {
			r.bs = append(r.bs, constWord(types.Typ[types.Uint8], uint64(s[i])))
		}
		return r, nil
	case constant.Int:
		w, signed, ok := intKind(tv.Type)
		if !ok {
			return nil, x.errf(e, "integer constant of type %s", tv.Type)
		}
		if u, exact := constant.Uint64Val(tv.Value); exact {
			if w < 64 && u>>uint(w) != 0 {
				return nil, x.errf(e, "constant %s overflows %s", tv.Value, tv.Type)
			}
			return constWord(tv.Type, u), nil
		}
		if i, exact := constant.Int64Val(tv.Value); exact && signed {
			return constWord(tv.Type, uint64(i)), nil
		}
		return nil, x.errf(e, "constant %s does not fit %s", tv.Value, tv.Type)
	}
	return nil, x.errf(e, "constant of kind %s", tv.Value.Kind())
}

func (x *sx) expr(e ast.Expr, fr *frame) (value, error) {
	if err := x.tick(e); err != nil {
		return nil, err
	}
	if tv, ok := x.info.Types[e]; ok && tv.Value != nil {
		return x.constant(tv, e)
	}
	switch e := e.(type) {
	case *ast.ParenExpr:
		return x.expr(e.X, fr)
	case *ast.Ident:
		switch o := x.info.Uses[e].(type) {
		case *types.Var:
			if v, ok := fr.lookup(o); ok {
				if op, bad := v.(vOpaque); bad {
					return nil, x.errf(e, "use of %s", op.what)
				}
				return v, nil
			}
			if o.Parent() == x.pkg.Scope() || o.Pkg() != x.pkg {
				return x.global(o, e)
			}
			return nil, x.errf(e, "variable %s is not in scope of the executor", e.Name)
		case *types.Func:
			fb, err := x.declBody(o, e)
			if err != nil {
				return nil, err
			}
			return vFunc{body: fb}, nil
		case *types.Nil:
			return nil, x.errf(e, "nil")
		}
		return nil, x.errf(e, "identifier %s", e.Name)
	case *ast.FuncLit:
		// freeze the captured variables: the literal sees the frame as it is now
		ast.Inspect(e.Body, func(n ast.Node) bool {
			if id, ok := n.(*ast.Ident); ok {
				if o := x.info.Uses[id]; o != nil {
					if _, own := fr.vars[o]; own {
						if fr.frozen == nil {
							fr.frozen = map[types.Object]bool{}
						}
						fr.frozen[o] = true
					}
				}
			}
			return true
		})
		return vFunc{body: funcBody{name: "function literal", typ: e.Type, body: e.Body, decl: e}, closed: fr}, nil
	case *ast.UnaryExpr:
		v, err := x.expr(e.X, fr)
		if err != nil {
			return nil, err
		}
		switch e.Op {
		case token.NOT:
			if b, ok := v.(vBool); ok {
				return vBool{bNot(b.f)}, nil
			}
		case token.XOR:
			if w, ok := v.(vWord); ok {
				r := vWord{typ: w.typ, signed: w.signed}
				for _, b := range w.bits {
					r.bits = append(r.bits, bitNot(b))
				}
				return r, nil
			}
		case token.ADD:
			if w, ok := v.(vWord); ok {
				return w, nil
			}
		case token.SUB:
			if w, ok := v.(vWord); ok {
				return x.binary(token.SUB, constWord(w.typ, 0), w, e)
			}
		}
		return nil, x.errf(e, "unary operator %s", e.Op)
	case *ast.BinaryExpr:
		if e.Op == token.LAND || e.Op == token.LOR {
			a, err := x.boolExpr(e.X, fr)
			if err != nil {
				return nil, err
			}
			// short circuit: the right operand is not evaluated when the left decides
			if (e.Op == token.LAND && a == fFF) || (e.Op == token.LOR && a == fTT) {
				return vBool{a}, nil
			}
			b, err := x.boolExpr(e.Y, fr)
			if err != nil {
				return nil, err
			}
			if e.Op == token.LAND {
				return vBool{bAnd(a, b)}, nil
			}
			return vBool{bOr(a, b)}, nil
		}
		a, err := x.expr(e.X, fr)
		if err != nil {
			return nil, err
		}
		b, err := x.expr(e.Y, fr)
		if err != nil {
			return nil, err
		}
		return x.binary(e.Op, a, b, e)
	case *ast.IndexExpr:
		s, err := x.expr(e.X, fr)
		if err != nil {
			return nil, err
		}
		switch q := s.(type) {
		case vSeq:
			i, err := x.index(e.Index, len(q.elems), fr)
			if err != nil {
				return nil, err
			}
			return q.elems[i], nil
		case vStr:
			i, err := x.index(e.Index, len(q.bs), fr)
			if err != nil {
				return nil, err
			}
			return q.bs[i], nil
		}
		return nil, x.errf(e, "index of something other than an array, a slice or a string")
	case *ast.SliceExpr:
		if e.Slice3 || e.Max != nil {
			return nil, x.errf(e, "3-index slice")
		}
		s, err := x.expr(e.X, fr)
		if err != nil {
			return nil, err
		}
		n := 0
		switch q := s.(type) {
		case vSeq:
			n = len(q.elems)
		case vStr:
			n = len(q.bs)
		default:
			return nil, x.errf(e, "slice of something other than an array, a slice or a string")
		}
		lo, hi := 0, n
		if e.Low != nil {
			if lo, err = x.index(e.Low, n+1, fr); err != nil {
				return nil, err
			}
		}
		if e.High != nil {
			if hi, err = x.index(e.High, n+1, fr); err != nil {
				return nil, err
			}
		}
		if lo > hi {
			return nil, x.errf(e, "slice bounds [%d:%d]: the code panics", lo, hi)
		}
		switch q := s.(type) {
		case vSeq:
			var et types.Type
			switch u := q.typ.Underlying().(type) {
			case *types.Array:
				et = u.Elem()
			case *types.Slice:
				et = u.Elem()
			}
			rt := q.typ
			if q.array && et != nil {
				rt = types.NewSlice(et)
			}
			return vSeq{elems: q.elems[lo:hi], typ: rt}, nil
		case vStr:
			return vStr{q.bs[lo:hi]}, nil
		}
	case *ast.SelectorExpr:
		if id := identOf(e.X); id != nil {
			if _, isPkg := x.info.Uses[id].(*types.PkgName); isPkg {
				return nil, x.errf(e, "%s.%s used as a value", id.Name, e.Sel.Name)
			}
		}
		sel := x.info.Selections[e]
		if sel == nil || sel.Kind() != types.FieldVal {
			return nil, x.errf(e, "selector %s is not a struct field", e.Sel.Name)
		}
		v, err := x.expr(e.X, fr)
		if err != nil {
			return nil, err
		}
		for _, i := range sel.Index() {
			st, ok := v.(vStruct)
			if !ok || i >= len(st.fields) {
				return nil, x.errf(e, "field %s of something that is not a struct value", e.Sel.Name)
			}
			v = st.fields[i]
		}
		if op, bad := v.(vOpaque); bad {
			return nil, x.errf(e, "use of %s", op.what)
		}
		return v, nil
	case *ast.CompositeLit:
		return x.compositeLit(e, fr)
	case *ast.CallExpr:
		return x.callExpr(e, fr)
	}
	return nil, x.errf(e, "expression %T", e)
}

func (x *sx) compositeLit(e *ast.CompositeLit, fr *frame) (value, error) {
	tv, ok := x.info.Types[e]
	if !ok || tv.Type == nil {
		return nil, x.errf(e, "composite literal of unknown type")
	}
	t := tv.Type
	if (isNetip(t, "Addr") || isNetip(t, "Prefix")) && len(e.Elts) == 0 {
		return x.zero(t, e)
	}
	switch u := t.Underlying().(type) {
	case *types.Array, *types.Slice:
		var et types.Type
		n := int64(-1)
		if a, isArr := u.(*types.Array); isArr {
			et, n = a.Elem(), a.Len()
		} else {
			et = u.(*types.Slice).Elem()
		}
		var elems []value
		next := 0
		for _, el := range e.Elts {
			ve := el
			if kv, isKV := el.(*ast.KeyValueExpr); isKV {
				ktv, ok := x.info.Types[kv.Key]
				if !ok || ktv.Value == nil {
					return nil, x.errf(kv.Key, "element key is not a constant")
				}
				k, exact := constant.Int64Val(constant.ToInt(ktv.Value))
				if !exact || k < 0 || k > maxUnroll {
					return nil, x.errf(kv.Key, "element key %s", ktv.Value)
				}
				next, ve = int(k), kv.Value
			}
			v, err := x.expr(ve, fr)
			if err != nil {
				return nil, err
			}
			for len(elems) <= next {
				z, err := x.zero(et, e)
				if err != nil {
					return nil, err
				}
				elems = append(elems, z)
			}
			elems[next] = v
			next++
		}
		for n >= 0 && int64(len(elems)) < n {
			z, err := x.zero(et, e)
			if err != nil {
				return nil, err
			}
			elems = append(elems, z)
		}
		return vSeq{elems: elems, typ: t, array: n >= 0}, nil
	case *types.Struct:
		z, err := x.zero(t, e)
		if err != nil {
			return nil, err
		}
		st := z.(vStruct)
		for i, el := range e.Elts {
			fi, ve := i, el
			if kv, isKV := el.(*ast.KeyValueExpr); isKV {
				id := identOf(kv.Key)
				fi = -1
				for k := 0; id != nil && k < u.NumFields(); k++ {
					if u.Field(k).Name() == id.Name {
						fi = k
					}
				}
				ve = kv.Value
			}
			if fi < 0 || fi >= len(st.fields) {
				return nil, x.errf(el, "field of a struct literal")
			}
			v, err := x.expr(ve, fr)
			if err != nil {
				return nil, err
			}
			st.fields[fi] = v
		}
		return st, nil
	}
	return nil, x.errf(e, "composite literal of type %s", t)
}

// binary evaluates a non-short-circuit binary operator.
func (x *sx) binary(op token.Token, a, b value, at ast.Node) (value, error) {
	isCmp := op == token.EQL || op == token.NEQ
	neg := func(f string, err error) (value, error) {
		if err != nil {
			return nil, x.errf(at, "%v", err)
		}
		if op == token.NEQ {
			f = bNot(f)
		}
		return vBool{f}, nil
	}
	switch av := a.(type) {
	case vBool:
		bv, ok := b.(vBool)
		if !ok {
			break
		}
		switch op {
		case token.LAND:
			return vBool{bAnd(av.f, bv.f)}, nil
		case token.LOR:
			return vBool{bOr(av.f, bv.f)}, nil
		case token.EQL, token.NEQ:
			switch {
			case bv.f == fTT:
				return neg(av.f, nil)
			case bv.f == fFF:
				return neg(bNot(av.f), nil)
			case av.f == fTT:
				return neg(bv.f, nil)
			case av.f == fFF:
				return neg(bNot(bv.f), nil)
			}
			return neg(fIte(av.f, bv.f, fNot(bv.f)), nil)
		}
	case vStr:
		bv, ok := b.(vStr)
		if !ok {
			break
		}
		if isCmp {
			r, err := x.eqBytes(av.bs, bv.bs, at)
			if err != nil {
				return nil, err
			}
			return neg(r.(vBool).f, nil)
		}
		if op == token.ADD {
			return vStr{append(append([]vWord{}, av.bs...), bv.bs...)}, nil
		}
		return nil, x.errf(at, "ordering comparison of strings")
	case vSeq:
		bv, ok := b.(vSeq)
		if !ok || !av.array || !bv.array || !isCmp || len(av.elems) != len(bv.elems) {
			break
		}
		var fs []string
		for i := range av.elems {
			r, err := x.binary(token.EQL, av.elems[i], bv.elems[i], at)
			if err != nil {
				return nil, err
			}
			fs = append(fs, r.(vBool).f)
		}
		return neg(conj(fs), nil)
	case vStruct:
		bv, ok := b.(vStruct)
		if !ok || !isCmp || len(av.fields) != len(bv.fields) {
			break
		}
		var fs []string
		for i := range av.fields {
			r, err := x.binary(token.EQL, av.fields[i], bv.fields[i], at)
			if err != nil {
				return nil, err
			}
			fs = append(fs, r.(vBool).f)
		}
		return neg(conj(fs), nil)
	case vWord:
		bv, ok := b.(vWord)
		if !ok {
			break
		}
		return x.wordOp(op, av, bv, at)
	}
	return nil, x.errf(at, "operator %s on these operands (%T, %T)", op, a, b)
}

func (x *sx) wordOp(op token.Token, a, b vWord, at ast.Node) (value, error) {
	n := len(a.bits)
	if op == token.SHL || op == token.SHR {
		sv, ok := b.sconc()
		if !ok {
			return nil, x.errf(at, "shift count depends on the parameter")
		}
		if sv < 0 {
			return nil, x.errf(at, "negative shift count: the code panics")
		}
		s := n
		if sv < int64(n) {
			s = int(sv)
		}
		r := vWord{bits: make([]bit, n), typ: a.typ, signed: a.signed}
		for i := 0; i < n; i++ {
			if op == token.SHL {
				if i >= s {
					r.bits[i] = a.bits[i-s]
				}
				continue
			}
			switch {
			case i+s < n:
				r.bits[i] = a.bits[i+s]
			case a.signed:
				if a.bits[n-1].sym {
					return nil, x.errf(at, "arithmetic shift of a symbolic value")
				}
				r.bits[i] = a.bits[n-1]
			}
		}
		return r, nil
	}
	if len(b.bits) != n {
		return nil, x.errf(at, "operator %s on integers of different widths", op)
	}
	ca, okA := a.conc()
	cb, okB := b.conc()
	switch op {
	case token.AND, token.OR, token.XOR, token.AND_NOT:
		r := vWord{bits: make([]bit, n), typ: a.typ, signed: a.signed}
		for i := range r.bits {
			var err error
			if r.bits[i], err = bitOp(op, a.bits[i], b.bits[i]); err != nil {
				return nil, x.errf(at, "%v", err)
			}
		}
		return r, nil
	case token.EQL, token.NEQ:
		f, err := eqBits(a.bits, b.bits)
		if err != nil {
			return nil, x.errf(at, "%v", err)
		}
		if op == token.NEQ {
			f = bNot(f)
		}
		return vBool{f}, nil
	case token.LSS, token.LEQ, token.GTR, token.GEQ:
		if okA && okB {
			var r bool
			if a.signed {
				sa, _ := a.sconc()
				sb, _ := b.sconc()
				r = map[token.Token]bool{token.LSS: sa < sb, token.LEQ: sa <= sb, token.GTR: sa > sb, token.GEQ: sa >= sb}[op]
			} else {
				r = map[token.Token]bool{token.LSS: ca < cb, token.LEQ: ca <= cb, token.GTR: ca > cb, token.GEQ: ca >= cb}[op]
			}
			return vBool{boolF(r)}, nil
		}
		w, c := a, cb
		if okA {
			// const op w  ==  w (flipped op) const
			w, c = b, ca
			op = map[token.Token]token.Token{token.LSS: token.GTR, token.LEQ: token.GEQ, token.GTR: token.LSS, token.GEQ: token.LEQ}[op]
		} else if !okB {
			return nil, x.errf(at, "ordering comparison of two values that depend on the parameter")
		}
		if w.signed {
			// a symbolic signed value has a constant (zero) sign bit, see resize; the
			// constant must be non-negative for the unsigned reading to be right
			cw := constWord(w.typ, c)
			if sc, _ := cw.sconc(); sc < 0 || w.bits[n-1].sym || w.bits[n-1].c {
				return nil, x.errf(at, "ordering comparison of a signed symbolic value with a negative number")
			}
		}
		max := ^uint64(0)
		if n < 64 {
			max = 1<<uint(n) - 1
		}
		var f string
		var err error
		switch op {
		case token.GEQ:
			f, err = geWord(w, c)
		case token.GTR:
			if c == max {
				f = fFF
			} else {
				f, err = geWord(w, c+1)
			}
		case token.LSS:
			f, err = geWord(w, c)
			f = bNot(f)
		case token.LEQ:
			if c == max {
				f = fTT
			} else {
				f, err = geWord(w, c+1)
				f = bNot(f)
			}
		}
		if err != nil {
			return nil, x.errf(at, "%v", err)
		}
		return vBool{f}, nil
	}
	if !okA || !okB {
		return nil, x.errf(at, "arithmetic operator %s on a value that depends on the parameter", op)
	}
	var r uint64
	switch op {
	case token.ADD:
		r = ca + cb
	case token.SUB:
		r = ca - cb
	case token.MUL:
		r = ca * cb
	case token.QUO, token.REM:
		if cb == 0 {
			return nil, x.errf(at, "division by zero: the code panics")
		}
		if a.signed {
			sa, _ := a.sconc()
			sb, _ := b.sconc()
			if op == token.QUO {
				r = uint64(sa / sb)
			} else {
				r = uint64(sa % sb)
			}
		} else if op == token.QUO {
			r = ca / cb
		} else {
			r = ca % cb
		}
	default:
		return nil, x.errf(at, "operator %s", op)
	}
	res := constWord(a.typ, r)
	res.signed = a.signed
	return res, nil
}
