package main

import (
	"fmt"
	"go/ast"
	"go/constant"
	"go/token"
	"go/types"
	"net/netip"
	"reflect"
)

// Symbolic executor for the [N]byte predicates of netutil/subnetset.go (property C06).
// See the grammar in subnets.go.  The executor runs the function body on the symbolic
// parameter: concrete control flow (loops over tables, branches on table fields) is
// executed, branches on the parameter become F.ite, calls of other functions, methods
// and function literals of the package are inlined (no recursion), package-level
// variables are read from their initialisers (and must never be written).
//
// Statements are executed in continuation style as before (the statements after an `if`
// or `switch` are translated once per branch); only at the end of each iteration of an
// unrolled loop are branches that both fall through merged (if c then v1 else v2), so that
// accumulating loops (`if p.Contains(a) { ok = true }`) stay linear.

type funcBody struct {
	name string
	typ  *ast.FuncType
	body *ast.BlockStmt
	recv *ast.FieldList
	decl ast.Node
}

type frame struct {
	vars   map[types.Object]value
	frozen map[types.Object]bool
	parent *frame    // defining frame of a function literal
	fn     *funcBody // the activation's function (for bare returns)
	pc     *pcNode   // what is assumed about the parameter on this path
}

// assume returns the frame on the path where the formula c is pol.
func (fr *frame) assume(c string, pol bool) *frame {
	if c == fTT || c == fFF {
		return fr
	}
	n := *fr
	n.pc = fr.pc.assume(c, pol)
	return &n
}

func (fr *frame) lookup(o types.Object) (value, bool) {
	for f := fr; f != nil; f = f.parent {
		if v, ok := f.vars[o]; ok {
			return v, true
		}
	}
	return nil, false
}

func (fr *frame) set(o types.Object, v value) *frame {
	n := &frame{vars: make(map[types.Object]value, len(fr.vars)+1), frozen: fr.frozen, parent: fr.parent, fn: fr.fn, pc: fr.pc}
	for k, x := range fr.vars {
		n.vars[k] = x
	}
	n.vars[o] = v
	return n
}

const (
	oRet = iota
	oFall
	oBreak
	oCont
	oIte
)

type outcome struct {
	kind int
	vals []value // oRet
	fr   *frame  // oFall, oBreak, oCont
	cond string  // oIte
	a, b *outcome
}

func fall(fr *frame) *outcome { return &outcome{kind: oFall, fr: fr} }

type sx struct {
	t        *subnetsTr
	pkg      *types.Package
	info     *types.Info
	funcs    map[*types.Func]*ast.FuncDecl
	dupFuncs map[string]bool
	varInit  map[*types.Var]varInit
	dupVars  map[string]bool
	mutated  map[*types.Var]token.Pos
	globals  map[*types.Var]value
	pendingG map[*types.Var]bool
	// the function being translated
	param *types.Var
	n     int
	stack []ast.Node
	steps int
	forks int
	// standard-library packages executed from their source (stdsrc.go)
	std     map[string]*stdPkg
	stdPkgs map[*types.Package]bool
	// inMut counts the activations in which slices may be written in place (sorting and
	// merging of concrete tables while a package-level initialiser is evaluated)
	concrete bool
	executed map[ast.Node]bool // the functions the executor has run (inlined) at least once
	files    []*ast.File
}

const maxForks = 4096

type varInit struct {
	spec *ast.ValueSpec
	idx  int
}

func (x *sx) errf(n ast.Node, format string, a ...any) error { return x.t.errf(n, format, a...) }

func (x *sx) tick(n ast.Node) error {
	x.steps++
	if x.steps > 2_000_000 {
		return x.errf(n, "the function does not finish within the executor's step budget")
	}
	return nil
}

// ---------------------------------------------------------------- package scan

func newSx(t *subnetsTr, pkg *types.Package, info *types.Info, files []*ast.File) *sx {
	x := &sx{t: t, pkg: pkg, info: info, funcs: map[*types.Func]*ast.FuncDecl{}, dupFuncs: map[string]bool{},
		varInit: map[*types.Var]varInit{}, dupVars: map[string]bool{}, mutated: map[*types.Var]token.Pos{},
		globals: map[*types.Var]value{}, pendingG: map[*types.Var]bool{}, files: files}
	seenF, seenV := map[string]bool{}, map[string]bool{}
	for _, f := range files {
		for _, d := range f.Decls {
			switch d := d.(type) {
			case *ast.FuncDecl:
				key := d.Name.Name
				if d.Recv != nil && len(d.Recv.List) == 1 {
					key = types.ExprString(d.Recv.List[0].Type) + "." + key
				}
				if seenF[key] && d.Name.Name != "init" && d.Name.Name != "_" {
					x.dupFuncs[key] = true
				}
				seenF[key] = true
				if fo, ok := info.Defs[d.Name].(*types.Func); ok {
					x.funcs[fo] = d
				}
			case *ast.GenDecl:
				if d.Tok != token.VAR {
					continue
				}
				for _, sp := range d.Specs {
					vs := sp.(*ast.ValueSpec)
					for i, id := range vs.Names {
						if id.Name == "_" {
							continue
						}
						if seenV[id.Name] {
							x.dupVars[id.Name] = true
						}
						seenV[id.Name] = true
						if vo, ok := info.Defs[id].(*types.Var); ok {
							x.varInit[vo] = varInit{vs, i}
						}
					}
				}
			}
		}
	}
	// writes to package-level variables anywhere in the package
	var root func(e ast.Expr) *types.Var
	root = func(e ast.Expr) *types.Var {
		switch e := e.(type) {
		case *ast.ParenExpr:
			return root(e.X)
		case *ast.IndexExpr:
			return root(e.X)
		case *ast.SliceExpr:
			return root(e.X)
		case *ast.StarExpr:
			return root(e.X)
		case *ast.SelectorExpr:
			if _, isPkg := info.Uses[identOf(e.X)].(*types.PkgName); isPkg {
				return nil
			}
			return root(e.X)
		case *ast.Ident:
			if v, ok := info.Uses[e].(*types.Var); ok && v.Parent() == pkg.Scope() {
				return v
			}
		}
		return nil
	}
	mark := func(e ast.Expr) {
		if v := root(e); v != nil {
			if _, done := x.mutated[v]; !done {
				x.mutated[v] = e.Pos()
			}
		}
	}
	for _, f := range files {
		ast.Inspect(f, func(n ast.Node) bool {
			switch n := n.(type) {
			case *ast.AssignStmt:
				for _, l := range n.Lhs {
					mark(l)
				}
			case *ast.IncDecStmt:
				mark(n.X)
			case *ast.UnaryExpr:
				if n.Op == token.AND {
					mark(n.X)
				}
			case *ast.RangeStmt:
				if n.Tok == token.ASSIGN {
					if n.Key != nil {
						mark(n.Key)
					}
					if n.Value != nil {
						mark(n.Value)
					}
				}
			case *ast.CallExpr:
				// a method with a pointer receiver called on an addressable variable
				if sel, ok := n.Fun.(*ast.SelectorExpr); ok {
					if s := info.Selections[sel]; s != nil && s.Kind() == types.MethodVal {
						if sig, ok := s.Obj().Type().(*types.Signature); ok && sig.Recv() != nil {
							if _, isPtr := sig.Recv().Type().(*types.Pointer); isPtr {
								mark(sel.X)
							}
						}
					}
				}
			}
			return true
		})
	}
	return x
}

func identOf(e ast.Expr) *ast.Ident {
	id, _ := e.(*ast.Ident)
	return id
}

// global returns the value of a package-level variable: its initialiser, evaluated once.
func (x *sx) global(v *types.Var, at ast.Node) (value, error) {
	if val, ok := x.globals[v]; ok {
		return val, nil
	}
	if v.Pkg() != x.pkg {
		return nil, x.errf(at, "variable %s of another package", v.Name())
	}
	if x.dupVars[v.Name()] {
		return nil, x.errf(at, "package-level variable %s is declared more than once", v.Name())
	}
	if v.Exported() {
		return nil, x.errf(at, "package-level variable %s is exported: importers can reassign it", v.Name())
	}
	if pos, bad := x.mutated[v]; bad {
		return nil, fmt.Errorf("%s: outside the translator's subset: package-level variable %s is written or has its address taken there",
			x.t.fset.Position(pos), v.Name())
	}
	vi, ok := x.varInit[v]
	if !ok {
		return nil, x.errf(at, "declaration of package-level variable %s not found", v.Name())
	}
	if x.pendingG[v] {
		return nil, x.errf(at, "initialisation cycle through %s", v.Name())
	}
	x.pendingG[v] = true
	defer delete(x.pendingG, v)
	var val value
	var err error
	switch {
	case len(vi.spec.Values) == 0:
		val, err = x.zero(v.Type(), vi.spec)
	case len(vi.spec.Values) == len(vi.spec.Names):
		saveP, saveN, saveS, saveC := x.param, x.n, x.stack, x.concrete
		// initialisers run before any call: there is no parameter in scope, nothing is
		// symbolic, and slices are references (see vSeq)
		x.param, x.stack, x.concrete = nil, nil, true
		val, err = x.expr(vi.spec.Values[vi.idx], &frame{vars: map[types.Object]value{}})
		x.param, x.n, x.stack, x.concrete = saveP, saveN, saveS, saveC
		if err == nil {
			freeze(val)
		}
		if err == nil && vi.spec.Type != nil {
			val, err = x.convert(val, v.Type(), vi.spec)
		}
	default:
		err = x.errf(vi.spec, "%s is initialised from a multi-valued expression", v.Name())
	}
	if err != nil {
		return nil, err
	}
	x.globals[v] = val
	return val, nil
}

// hasRef reports whether values of type t can share memory with other values (slices, maps,
// pointers, …), i.e. whether handing the value out hands out a way to change it.
func hasRef(t types.Type, seen map[types.Type]bool) bool {
	if seen[t] {
		return false
	}
	seen[t] = true
	switch u := t.Underlying().(type) {
	case *types.Basic:
		return u.Kind() == types.UnsafePointer
	case *types.Array:
		return hasRef(u.Elem(), seen)
	case *types.Struct:
		if isNetip(t, "Addr") || isNetip(t, "Prefix") {
			return false // immutable values
		}
		for i := 0; i < u.NumFields(); i++ {
			if hasRef(u.Field(i).Type(), seen) {
				return true
			}
		}
		return false
	}
	return true
}

// checkAliases makes sure that the package-level tables the executor read cannot be changed
// behind its back through an alias: a table whose type shares memory (a slice) may be
// mentioned only (a) in code the executor ran itself — every write there is either done by
// the executor too (initialisers) or an error (function bodies) —, or (b) as the operand of
// len, cap, range or an index expression.  Anything else (passing it to a function the
// executor never ran, storing it, returning it from an accessor, using it in an init
// function or in the initialiser of a variable the executor did not need) could hand out
// the backing array, and is an error.
func (x *sx) checkAliases() error {
	watched := map[*types.Var]bool{}
	for v := range x.globals {
		if v.Pkg() == x.pkg && hasRef(v.Type(), map[types.Type]bool{}) {
			watched[v] = true
		}
	}
	if len(watched) == 0 {
		return nil
	}
	var err error
	for _, f := range x.files {
		for _, d := range f.Decls {
			switch d := d.(type) {
			case *ast.FuncDecl:
				if x.executed[d] || d.Body == nil {
					continue
				}
				x.scanMentions(d.Body, watched, &err)
			case *ast.GenDecl:
				if d.Tok != token.VAR {
					continue
				}
				for _, sp := range d.Specs {
					vs := sp.(*ast.ValueSpec)
					for i, val := range vs.Values {
						done := false
						if len(vs.Values) == len(vs.Names) {
							if vo, ok := x.info.Defs[vs.Names[i]].(*types.Var); ok {
								_, done = x.globals[vo]
							}
						}
						if !done {
							x.scanMentions(val, watched, &err)
						}
					}
				}
			}
		}
	}
	return err
}

func (x *sx) scanMentions(root ast.Node, watched map[*types.Var]bool, err *error) {
	var stack []ast.Node
	ast.Inspect(root, func(n ast.Node) bool {
		if n == nil {
			stack = stack[:len(stack)-1]
			return true
		}
		if id, ok := n.(*ast.Ident); ok && *err == nil {
			if v, isVar := x.info.Uses[id].(*types.Var); isVar && watched[v] {
				okUse := false
				if len(stack) > 0 {
					var child ast.Node = id
					k := len(stack) - 1
					for ; k >= 0; k-- {
						if _, isParen := stack[k].(*ast.ParenExpr); !isParen {
							break
						}
						child = stack[k]
					}
					if k >= 0 {
						switch p := stack[k].(type) {
						case *ast.IndexExpr:
							okUse = p.X == child
						case *ast.RangeStmt:
							okUse = p.X == child
						case *ast.CallExpr:
							if fid, isID := p.Fun.(*ast.Ident); isID {
								if b, isB := x.info.Uses[fid].(*types.Builtin); isB && (b.Name() == "len" || b.Name() == "cap") {
									okUse = true
								}
							}
						}
					}
				}
				if !okUse {
					*err = x.errf(id, "the table %s (a slice: it shares its backing array) is used in code the executor does not run, where it could be handed out and changed", v.Name())
				}
			}
		}
		stack = append(stack, n)
		return true
	})
}

// freeze marks every allocation reachable from a finished initialiser's value as read-only.
func freeze(v value) {
	switch q := v.(type) {
	case vSeq:
		if q.st != nil {
			if q.st.frozen {
				return
			}
			q.st.frozen = true
		}
		for _, e := range q.elems[:cap(q.elems)] {
			freeze(e)
		}
	case vStruct:
		for _, e := range q.fields {
			freeze(e)
		}
	case vTuple:
		for _, e := range q.vals {
			freeze(e)
		}
	}
}

// writable reports whether the cells of s may be written in place now.
func (x *sx) writable(s vSeq, at ast.Node) error {
	switch {
	case !x.concrete:
		return x.errf(at, "a slice is written in place while the function runs on the parameter (slices are references only while package-level initialisers are evaluated)")
	case s.array || s.st == nil:
		return x.errf(at, "write through a slice of an array variable")
	case s.st.frozen:
		return x.errf(at, "an initialiser writes to the table of another package-level variable")
	case s.st.dead:
		return x.errf(at, "use of a slice after an append that may have extended it in place (its capacity is not known to the executor)")
	}
	return nil
}

// ---------------------------------------------------------------- zero values, conversions

func isNetip(t types.Type, name string) bool {
	nt, ok := t.(*types.Named)
	return ok && nt.Obj().Pkg() != nil && nt.Obj().Pkg().Path() == "net/netip" && nt.Obj().Name() == name
}

func (x *sx) zero(t types.Type, at ast.Node) (value, error) {
	if isNetip(t, "Addr") {
		return &vAddr{}, nil
	}
	if isNetip(t, "Prefix") {
		return vPrefix{}, nil
	}
	switch u := t.Underlying().(type) {
	case *types.Basic:
		if _, _, ok := intKind(t); ok {
			return constWord(t, 0), nil
		}
		switch u.Kind() {
		case types.Bool, types.UntypedBool:
			return vBool{fFF}, nil
		case types.String, types.UntypedString:
			return vStr{}, nil
		}
	case *types.Array:
		s := vSeq{typ: t, array: true}
		for i := int64(0); i < u.Len(); i++ {
			e, err := x.zero(u.Elem(), at)
			if err != nil {
				return nil, err
			}
			s.elems = append(s.elems, e)
		}
		return s, nil
	case *types.Slice:
		return vSeq{typ: t}, nil
	case *types.Struct:
		s := vStruct{typ: t}
		for i := 0; i < u.NumFields(); i++ {
			e, err := x.zero(u.Field(i).Type(), at)
			if err != nil {
				return nil, err
			}
			s.fields = append(s.fields, e)
		}
		return s, nil
	case *types.Pointer, *types.Map, *types.Chan, *types.Interface, *types.Signature:
		return vOpaque{"the zero value of " + t.String()}, nil
	}
	return nil, x.errf(at, "zero value of type %s", t)
}

func (x *sx) convert(v value, to types.Type, at ast.Node) (value, error) {
	if c, ok := v.(vCase); ok {
		l, err := x.convert(c.a, to, at)
		if err != nil {
			return nil, err
		}
		r, err := x.convert(c.b, to, at)
		if err != nil {
			return nil, err
		}
		return mkCase(c.cond, l, r), nil
	}
	if _, isTP := to.(*types.TypeParam); isTP {
		return nil, x.errf(at, "conversion to the type parameter %s", to)
	}
	if w, signed, ok := intKind(to); ok {
		src, isW := v.(vWord)
		if !isW {
			return nil, x.errf(at, "conversion of a non-integer to %s", to)
		}
		r, err := src.resize(to, w, signed)
		if err != nil {
			return nil, x.errf(at, "%v", err)
		}
		return r, nil
	}
	switch u := to.Underlying().(type) {
	case *types.Basic:
		switch {
		case u.Info()&types.IsString != 0:
			switch s := v.(type) {
			case vStr:
				return s, nil
			case vSeq:
				var r vStr
				for _, e := range s.elems {
					b, ok := e.(vWord)
					if !ok || len(b.bits) != 8 {
						return nil, x.errf(at, "string(…) of something other than bytes")
					}
					r.bs = append(r.bs, b)
				}
				return r, nil
			}
			return nil, x.errf(at, "conversion of an integer to string")
		case u.Info()&types.IsBoolean != 0:
			if b, ok := v.(vBool); ok {
				return b, nil
			}
		}
	case *types.Slice:
		switch s := v.(type) {
		case vStr:
			r := vSeq{typ: to, elems: make([]value, 0, len(s.bs)), st: &sstore{}}
			for _, b := range s.bs {
				b.typ = u.Elem()
				r.elems = append(r.elems, b)
			}
			return r, nil
		case vSeq:
			if !s.array {
				s.typ = to
				return s, nil
			}
		}
	case *types.Array:
		if s, ok := v.(vSeq); ok {
			if int64(len(s.elems)) < u.Len() {
				return nil, x.errf(at, "conversion of a slice of length %d to %s panics", len(s.elems), to)
			}
			return vSeq{elems: append([]value{}, s.elems[:u.Len()]...), typ: to, array: true}, nil
		}
	case *types.Struct:
		if s, ok := v.(vStruct); ok {
			s.typ = to
			return s, nil
		}
		if _, ok := v.(*vAddr); ok && isNetip(to, "Addr") {
			return v, nil
		}
		if _, ok := v.(vPrefix); ok && isNetip(to, "Prefix") {
			return v, nil
		}
	case *types.Signature:
		if f, ok := v.(vFunc); ok {
			return f, nil
		}
	case *types.Interface:
		return nil, x.errf(at, "conversion to the interface type %s", to)
	}
	return nil, x.errf(at, "conversion to %s", to)
}

// ---------------------------------------------------------------- merging (loops only)

// mergeVal joins the values a variable has on the two sides of a branch on the parameter;
// ok is false when they cannot be joined (different non-boolean values: the paths stay
// forked, so that loop counters and indices remain concrete on each of them).
func mergeVal(c string, a, b value) (v value, ok bool) {
	if ba, isB := a.(vBool); isB {
		if bb, isB := b.(vBool); isB {
			return vBool{bIte(c, ba.f, bb.f)}, true
		}
	}
	if sameValue(a, b) {
		return a, true
	}
	return nil, false
}

// sameValue is deep equality of values (function values are equal only to themselves).
func sameValue(a, b value) bool {
	switch av := a.(type) {
	case vFunc:
		bv, ok := b.(vFunc)
		return ok && av.body.decl == bv.body.decl && av.closed == bv.closed && av.native == nil && bv.native == nil &&
			len(av.bound) == len(bv.bound) && func() bool {
			for i := range av.bound {
				if !sameValue(av.bound[i], bv.bound[i]) {
					return false
				}
			}
			return true
		}()
	case vSeq:
		bv, ok := b.(vSeq)
		if !ok || av.array != bv.array || len(av.elems) != len(bv.elems) {
			return false
		}
		for i := range av.elems {
			if !sameValue(av.elems[i], bv.elems[i]) {
				return false
			}
		}
		return true
	case vStruct:
		bv, ok := b.(vStruct)
		if !ok || len(av.fields) != len(bv.fields) {
			return false
		}
		for i := range av.fields {
			if !sameValue(av.fields[i], bv.fields[i]) {
				return false
			}
		}
		return true
	case vTuple:
		bv, ok := b.(vTuple)
		if !ok || len(av.vals) != len(bv.vals) {
			return false
		}
		for i := range av.vals {
			if !sameValue(av.vals[i], bv.vals[i]) {
				return false
			}
		}
		return true
	case vCase:
		bv, ok := b.(vCase)
		return ok && av.cond == bv.cond && sameValue(av.a, bv.a) && sameValue(av.b, bv.b)
	}
	return reflect.DeepEqual(a, b)
}

// mkCase is `if c then a else b` as a value.
func mkCase(c string, a, b value) value {
	switch c {
	case fTT:
		return a
	case fFF:
		return b
	}
	if v, ok := mergeVal(c, a, b); ok {
		return v
	}
	if ta, ok := a.(vTuple); ok {
		if tb, ok := b.(vTuple); ok && len(ta.vals) == len(tb.vals) {
			r := vTuple{vals: make([]value, len(ta.vals))}
			for i := range r.vals {
				r.vals[i] = mkCase(c, ta.vals[i], tb.vals[i])
			}
			return r
		}
	}
	return vCase{c, a, b}
}

func (x *sx) mergeFrames(c string, a, b *frame) *frame {
	if a == b {
		return a
	}
	if a.parent != b.parent || a.fn != b.fn || len(a.vars) != len(b.vars) {
		return nil
	}
	n := &frame{vars: make(map[types.Object]value, len(a.vars)), frozen: a.frozen, parent: a.parent, fn: a.fn, pc: a.pc.common(b.pc)}
	for k, va := range a.vars {
		vb, ok := b.vars[k]
		if !ok {
			return nil
		}
		m, ok := mergeVal(c, va, vb)
		if !ok {
			return nil
		}
		n.vars[k] = m
	}
	return n
}

// merge joins sibling fall-through leaves bottom-up.
func (x *sx) merge(o *outcome, at ast.Node) (*outcome, error) {
	if o.kind != oIte {
		return o, nil
	}
	a, err := x.merge(o.a, at)
	if err != nil {
		return nil, err
	}
	b, err := x.merge(o.b, at)
	if err != nil {
		return nil, err
	}
	if a.kind == oFall && b.kind == oFall {
		if fr := x.mergeFrames(o.cond, a.fr, b.fr); fr != nil {
			return fall(fr), nil
		}
	}
	return &outcome{kind: oIte, cond: o.cond, a: a, b: b}, nil
}

// bind continues every fall-through leaf of o with k.
func bind(o *outcome, k func(*frame) (*outcome, error)) (*outcome, error) {
	switch o.kind {
	case oFall:
		return k(o.fr)
	case oIte:
		a, err := bind(o.a, k)
		if err != nil {
			return nil, err
		}
		b, err := bind(o.b, k)
		if err != nil {
			return nil, err
		}
		return &outcome{kind: oIte, cond: o.cond, a: a, b: b}, nil
	}
	return o, nil
}

func relabel(o *outcome, from, to int) *outcome {
	switch o.kind {
	case oIte:
		return &outcome{kind: oIte, cond: o.cond, a: relabel(o.a, from, to), b: relabel(o.b, from, to)}
	case from:
		return &outcome{kind: to, fr: o.fr}
	}
	return o
}

func hasLeaf(o *outcome, kind int) bool {
	if o.kind == oIte {
		return hasLeaf(o.a, kind) || hasLeaf(o.b, kind)
	}
	return o.kind == kind
}

func mkIteO(c string, a, b *outcome) *outcome {
	switch c {
	case fTT:
		return a
	case fFF:
		return b
	}
	return &outcome{kind: oIte, cond: c, a: a, b: b}
}

// collapse turns the outcome of a function body into its result values.
func (x *sx) collapse(o *outcome, fb *funcBody, at ast.Node) ([]value, error) {
	switch o.kind {
	case oRet:
		return o.vals, nil
	case oIte:
		a, err := x.collapse(o.a, fb, at)
		if err != nil {
			return nil, err
		}
		b, err := x.collapse(o.b, fb, at)
		if err != nil {
			return nil, err
		}
		if len(a) != len(b) {
			return nil, x.errf(at, "internal: result arity")
		}
		res := make([]value, len(a))
		for i := range a {
			if ba, ok := a[i].(vBool); ok {
				if bb, ok := b[i].(vBool); ok {
					// function results are not folded: `if c { return true }; return false` stays an ite
					res[i] = vBool{splitIte(o.cond, ba.f, bb.f)}
					continue
				}
			}
			res[i] = mkCase(o.cond, a[i], b[i])
		}
		return res, nil
	case oFall:
		return nil, x.errf(fb.body, "control reaches the end of %s without a return", fb.name)
	}
	return nil, x.errf(at, "break or continue outside a loop")
}

// ---------------------------------------------------------------- statements

func (x *sx) block(list []ast.Stmt, fr *frame) (*outcome, error) {
	o := fall(fr)
	for _, s := range list {
		if !hasLeaf(o, oFall) {
			break
		}
		s := s
		var err error
		if o, err = bind(o, func(f *frame) (*outcome, error) { return x.stmt(s, f) }); err != nil {
			return nil, err
		}
	}
	return o, nil
}

func (x *sx) boolExpr(e ast.Expr, fr *frame) (string, error) {
	v, err := x.expr(e, fr)
	if err != nil {
		return "", err
	}
	b, ok := v.(vBool)
	if !ok {
		return "", x.errf(e, "expected a boolean expression")
	}
	return fr.pc.prune(b.f), nil
}

// fork is `if c then a else b` of two outcomes; every real fork counts against the budget.
func (x *sx) fork(c string, a, b *outcome, at ast.Node) (*outcome, error) {
	if c != fTT && c != fFF {
		x.forks++
		if x.forks > maxForks {
			return nil, x.errf(at, "more than %d branches on the parameter while executing one function", maxForks)
		}
	}
	return mkIteO(c, a, b), nil
}

func (x *sx) assignTo(lhs ast.Expr, v value, fr *frame, define bool) (*frame, error) {
	switch l := lhs.(type) {
	case *ast.ParenExpr:
		return x.assignTo(l.X, v, fr, define)
	case *ast.Ident:
		if l.Name == "_" {
			return fr, nil
		}
		if define {
			if o := x.info.Defs[l]; o != nil {
				return fr.set(o, v), nil
			}
		}
		o := x.info.Uses[l]
		if o == nil {
			o = x.info.Defs[l]
		}
		if o == nil {
			return nil, x.errf(lhs, "unresolved identifier %s", l.Name)
		}
		if _, own := fr.vars[o]; !own {
			return nil, x.errf(lhs, "assignment to %s, which is not a local variable of the function being executed", l.Name)
		}
		if fr.frozen[o] {
			return nil, x.errf(lhs, "assignment to %s after a function literal captured it", l.Name)
		}
		return fr.set(o, v), nil
	case *ast.SelectorExpr:
		sel := x.info.Selections[l]
		if sel == nil || sel.Kind() != types.FieldVal {
			return nil, x.errf(lhs, "assignment to something other than a variable, a field or an array element")
		}
		old, err := x.expr(l.X, fr)
		if err != nil {
			return nil, err
		}
		nv, err := x.setField(old, sel.Index(), v, lhs)
		if err != nil {
			return nil, err
		}
		return x.assignTo(l.X, nv, fr, false)
	case *ast.IndexExpr:
		old, err := x.expr(l.X, fr)
		if err != nil {
			return nil, err
		}
		s, ok := old.(vSeq)
		if !ok {
			return nil, x.errf(lhs, "element assignment to something other than an array or a slice")
		}
		i, err := x.index(l.Index, len(s.elems), fr)
		if err != nil {
			return nil, err
		}
		if !s.array {
			// a slice: written in place, visible through every slice that shares the cell
			if err := x.writable(s, lhs); err != nil {
				return nil, err
			}
			s.elems[i] = v
			return fr, nil
		}
		ns := vSeq{elems: append([]value{}, s.elems...), typ: s.typ, array: true}
		ns.elems[i] = v
		return x.assignTo(l.X, ns, fr, false)
	}
	return nil, x.errf(lhs, "assignment to %T", lhs)
}

func (x *sx) setField(s value, path []int, v value, at ast.Node) (value, error) {
	st, ok := s.(vStruct)
	if !ok {
		return nil, x.errf(at, "field assignment through a pointer or to a non-struct")
	}
	ns := vStruct{fields: append([]value{}, st.fields...), typ: st.typ}
	if len(path) == 1 {
		ns.fields[path[0]] = v
		return ns, nil
	}
	inner, err := x.setField(st.fields[path[0]], path[1:], v, at)
	if err != nil {
		return nil, err
	}
	ns.fields[path[0]] = inner
	return ns, nil
}

func (x *sx) index(e ast.Expr, n int, fr *frame) (int, error) {
	v, err := x.expr(e, fr)
	if err != nil {
		return 0, err
	}
	w, ok := v.(vWord)
	if !ok {
		return 0, x.errf(e, "index is not an integer")
	}
	i, ok := w.sconc()
	if !ok {
		return 0, x.errf(e, "index depends on the parameter")
	}
	if i < 0 || i >= int64(n) {
		return 0, x.errf(e, "index %d out of range [0,%d): the code panics", i, n)
	}
	return int(i), nil
}

var assignOps = map[token.Token]token.Token{
	token.ADD_ASSIGN: token.ADD, token.SUB_ASSIGN: token.SUB, token.MUL_ASSIGN: token.MUL, token.QUO_ASSIGN: token.QUO,
	token.REM_ASSIGN: token.REM, token.AND_ASSIGN: token.AND, token.OR_ASSIGN: token.OR, token.XOR_ASSIGN: token.XOR,
	token.SHL_ASSIGN: token.SHL, token.SHR_ASSIGN: token.SHR, token.AND_NOT_ASSIGN: token.AND_NOT,
}

func (x *sx) stmt(s ast.Stmt, fr *frame) (*outcome, error) {
	if err := x.tick(s); err != nil {
		return nil, err
	}
	switch s := s.(type) {
	case *ast.EmptyStmt:
		return fall(fr), nil
	case *ast.BlockStmt:
		return x.block(s.List, fr)
	case *ast.ReturnStmt:
		var vals []value
		switch {
		case len(s.Results) == 0:
			if fr.fn == nil || fr.fn.typ.Results == nil {
				return &outcome{kind: oRet}, nil
			}
			for _, f := range fr.fn.typ.Results.List {
				if len(f.Names) == 0 {
					return nil, x.errf(s, "bare return in a function with unnamed results")
				}
				for _, id := range f.Names {
					v, ok := fr.lookup(x.info.Defs[id])
					if !ok {
						return nil, x.errf(s, "bare return: result %s", id.Name)
					}
					vals = append(vals, v)
				}
			}
		default:
			for _, r := range s.Results {
				v, err := x.expr(r, fr)
				if err != nil {
					return nil, err
				}
				if tup, ok := v.(vTuple); ok && len(s.Results) == 1 {
					vals = tup.vals
					break
				}
				vals = append(vals, v)
			}
		}
		return &outcome{kind: oRet, vals: vals}, nil
	case *ast.DeclStmt:
		gd, ok := s.Decl.(*ast.GenDecl)
		if !ok {
			return nil, x.errf(s, "declaration statement")
		}
		if gd.Tok == token.CONST || gd.Tok == token.TYPE {
			return fall(fr), nil
		}
		for _, sp := range gd.Specs {
			vs := sp.(*ast.ValueSpec)
			if len(vs.Values) != 0 && len(vs.Values) != len(vs.Names) {
				return nil, x.errf(s, "multi-valued initialiser")
			}
			for i, id := range vs.Names {
				o := x.info.Defs[id]
				if id.Name == "_" || o == nil {
					continue
				}
				var v value
				var err error
				if len(vs.Values) == 0 {
					v, err = x.zero(o.Type(), s)
				} else if v, err = x.expr(vs.Values[i], fr); err == nil && vs.Type != nil {
					v, err = x.convert(v, o.Type(), s)
				}
				if err != nil {
					return nil, err
				}
				fr = fr.set(o, v)
			}
		}
		return fall(fr), nil
	case *ast.AssignStmt:
		if op, isOp := assignOps[s.Tok]; isOp {
			if len(s.Lhs) != 1 || len(s.Rhs) != 1 {
				return nil, x.errf(s, "assignment form %s", s.Tok)
			}
			a, err := x.expr(s.Lhs[0], fr)
			if err != nil {
				return nil, err
			}
			b, err := x.expr(s.Rhs[0], fr)
			if err != nil {
				return nil, err
			}
			v, err := x.binary(op, a, b, s)
			if err != nil {
				return nil, err
			}
			nf, err := x.assignTo(s.Lhs[0], v, fr, false)
			if err != nil {
				return nil, err
			}
			return fall(nf), nil
		}
		if s.Tok != token.ASSIGN && s.Tok != token.DEFINE {
			return nil, x.errf(s, "assignment form %s", s.Tok)
		}
		var vals []value
		for _, r := range s.Rhs {
			v, err := x.expr(r, fr)
			if err != nil {
				return nil, err
			}
			vals = append(vals, v)
		}
		if len(vals) == 1 && len(s.Lhs) > 1 {
			tup, ok := vals[0].(vTuple)
			if !ok || len(tup.vals) != len(s.Lhs) {
				return nil, x.errf(s, "multi-valued assignment from something other than an inlined call")
			}
			vals = tup.vals
		}
		if len(vals) != len(s.Lhs) {
			return nil, x.errf(s, "assignment count mismatch")
		}
		nf := fr
		for i, l := range s.Lhs {
			var err error
			if nf, err = x.assignTo(l, vals[i], nf, s.Tok == token.DEFINE); err != nil {
				return nil, err
			}
		}
		return fall(nf), nil
	case *ast.IncDecStmt:
		a, err := x.expr(s.X, fr)
		if err != nil {
			return nil, err
		}
		w, ok := a.(vWord)
		if !ok {
			return nil, x.errf(s, "%s of a non-integer", s.Tok)
		}
		op := token.ADD
		if s.Tok == token.DEC {
			op = token.SUB
		}
		v, err := x.binary(op, w, constWord(w.typ, 1), s)
		if err != nil {
			return nil, err
		}
		nf, err := x.assignTo(s.X, v, fr, false)
		if err != nil {
			return nil, err
		}
		return fall(nf), nil
	case *ast.IfStmt:
		if s.Init != nil {
			o, err := x.stmt(s.Init, fr)
			if err != nil {
				return nil, err
			}
			if o.kind != oFall {
				return nil, x.errf(s.Init, "init statement of an if")
			}
			fr = o.fr
		}
		c, err := x.boolExpr(s.Cond, fr)
		if err != nil {
			return nil, err
		}
		frT, frE := fr.assume(c, true), fr.assume(c, false)
		// a side no address can reach is not executed
		if frT.pc != nil && frT.pc.dead {
			c, frE = fFF, fr
		} else if frE.pc != nil && frE.pc.dead {
			c, frT = fTT, fr
		}
		th, el := fall(frT), fall(frE)
		if c != fFF {
			if th, err = x.block(s.Body.List, frT); err != nil {
				return nil, err
			}
		}
		if c != fTT && s.Else != nil {
			if el, err = x.stmt(s.Else, frE); err != nil {
				return nil, err
			}
		}
		return x.fork(c, th, el, s)
	case *ast.SwitchStmt:
		return x.switchStmt(s, fr)
	case *ast.RangeStmt:
		return x.rangeStmt(s, fr)
	case *ast.ForStmt:
		return x.forStmt(s, fr)
	case *ast.ExprStmt:
		// a call evaluated for its effect: the only effects the executor has are in-place
		// writes to slices while a package-level initialiser is evaluated
		if _, isCall := ast.Unparen(s.X).(*ast.CallExpr); !isCall {
			return nil, x.errf(s, "expression statement")
		}
		if _, err := x.expr(s.X, fr); err != nil {
			return nil, err
		}
		return fall(fr), nil
	case *ast.BranchStmt:
		if s.Label != nil {
			return nil, x.errf(s, "%s with a label", s.Tok)
		}
		switch s.Tok {
		case token.BREAK:
			return &outcome{kind: oBreak, fr: fr}, nil
		case token.CONTINUE:
			return &outcome{kind: oCont, fr: fr}, nil
		}
		return nil, x.errf(s, "%s", s.Tok)
	}
	return nil, x.errf(s, "statement %T", s)
}

func (x *sx) switchStmt(s *ast.SwitchStmt, fr *frame) (*outcome, error) {
	if s.Init != nil {
		o, err := x.stmt(s.Init, fr)
		if err != nil {
			return nil, err
		}
		if o.kind != oFall {
			return nil, x.errf(s.Init, "init statement of a switch")
		}
		fr = o.fr
	}
	var tag value
	if s.Tag != nil {
		var err error
		if tag, err = x.expr(s.Tag, fr); err != nil {
			return nil, err
		}
	}
	type arm struct {
		list []ast.Expr
		body []ast.Stmt
	}
	var arms []arm
	var deflt []ast.Stmt
	for _, cs := range s.Body.List {
		cc := cs.(*ast.CaseClause)
		var bad ast.Node
		for _, bs := range cc.Body {
			ast.Inspect(bs, func(n ast.Node) bool {
				switch n := n.(type) {
				case *ast.FuncLit, *ast.ForStmt, *ast.RangeStmt:
					return false
				case *ast.BranchStmt:
					if bad == nil {
						bad = n
					}
				}
				return true
			})
		}
		if br, isBr := bad.(*ast.BranchStmt); isBr {
			return nil, x.errf(br, "%s in a switch", br.Tok)
		}
		if cc.List == nil {
			deflt = cc.Body
			continue
		}
		arms = append(arms, arm{cc.List, cc.Body})
	}
	// the first matching arm wins: arm k runs where the earlier conditions are false
	type done struct {
		cond string
		body *outcome
	}
	var taken []done
	cur := fr
	decided := false
	for _, a := range arms {
		cond := ""
		for _, ce := range a.list {
			var one string
			if s.Tag != nil {
				cv, err := x.expr(ce, cur)
				if err != nil {
					return nil, err
				}
				r, err := x.binary(token.EQL, tag, cv, ce)
				if err != nil {
					return nil, err
				}
				rb, isB := r.(vBool)
				if !isB {
					return nil, x.errf(ce, "case expression is not comparable with the tag")
				}
				one = cur.pc.prune(rb.f)
			} else {
				var err error
				if one, err = x.boolExpr(ce, cur); err != nil {
					return nil, err
				}
			}
			if cond == "" {
				cond = one
			} else {
				cond = bOr(cond, one)
			}
			if cond == fTT {
				break
			}
		}
		if cond == fFF {
			continue
		}
		if on := cur.assume(cond, true); on.pc != nil && on.pc.dead {
			continue
		}
		if off := cur.assume(cond, false); off.pc != nil && off.pc.dead {
			cond = fTT
		}
		body, err := x.block(a.body, cur.assume(cond, true))
		if err != nil {
			return nil, err
		}
		taken = append(taken, done{cond, body})
		if cond == fTT {
			decided = true
			break
		}
		cur = cur.assume(cond, false)
	}
	var res *outcome
	if !decided {
		var err error
		if res, err = x.block(deflt, cur); err != nil {
			return nil, err
		}
	}
	for k := len(taken) - 1; k >= 0; k-- {
		if res == nil {
			res = taken[k].body
			continue
		}
		var err error
		if res, err = x.fork(taken[k].cond, taken[k].body, res, s); err != nil {
			return nil, err
		}
	}
	return res, nil
}

const maxUnroll = 1 << 16

func (x *sx) rangeStmt(s *ast.RangeStmt, fr *frame) (*outcome, error) {
	seq, err := x.expr(s.X, fr)
	if err != nil {
		return nil, err
	}
	var items []value
	var intT types.Type = types.Typ[types.Int]
	switch q := seq.(type) {
	case vSeq:
		items = q.elems
	case vWord:
		n, ok := q.sconc()
		if !ok {
			return nil, x.errf(s.X, "range over a number that depends on the parameter")
		}
		if n > maxUnroll {
			return nil, x.errf(s.X, "range over %d", n)
		}
		intT = q.typ
		for i := int64(0); i < n; i++ {
			items = append(items, nil)
		}
	default:
		return nil, x.errf(s.X, "range over something other than an array, a slice or an integer")
	}
	_, overInt := seq.(vWord)
	cur := fall(fr)
	for k, el := range items {
		k, el := k, el
		cur, err = bind(cur, func(f *frame) (*outcome, error) {
			var err error
			if s.Key != nil {
				if f, err = x.assignTo(s.Key, constWord(intT, uint64(k)), f, s.Tok == token.DEFINE); err != nil {
					return nil, err
				}
			}
			if s.Value != nil {
				if overInt {
					return nil, x.errf(s.Value, "range over an integer has no second variable")
				}
				if f, err = x.assignTo(s.Value, el, f, s.Tok == token.DEFINE); err != nil {
					return nil, err
				}
			}
			o, err := x.block(s.Body.List, f)
			if err != nil {
				return nil, err
			}
			return relabel(o, oCont, oFall), nil
		})
		if err != nil {
			return nil, err
		}
		if cur, err = x.merge(cur, s); err != nil {
			return nil, err
		}
		if !hasLeaf(cur, oFall) {
			break
		}
	}
	return relabel(cur, oBreak, oFall), nil
}

func (x *sx) forStmt(s *ast.ForStmt, fr *frame) (*outcome, error) {
	if s.Init != nil {
		o, err := x.stmt(s.Init, fr)
		if err != nil {
			return nil, err
		}
		if o.kind != oFall {
			return nil, x.errf(s.Init, "init statement of a for")
		}
		fr = o.fr
	}
	cur := fall(fr)
	for iter := 0; hasLeaf(cur, oFall); iter++ {
		if iter > maxUnroll {
			return nil, x.errf(s, "loop does not terminate within %d iterations", maxUnroll)
		}
		var err error
		cur, err = bind(cur, func(f *frame) (*outcome, error) {
			if s.Cond != nil {
				c, err := x.boolExpr(s.Cond, f)
				if err != nil {
					return nil, err
				}
				switch c {
				case fFF:
					return &outcome{kind: oBreak, fr: f}, nil
				case fTT:
				default:
					return nil, x.errf(s.Cond, "loop condition depends on the parameter")
				}
			}
			o, err := x.block(s.Body.List, f)
			if err != nil {
				return nil, err
			}
			o = relabel(o, oCont, oFall)
			if s.Post != nil {
				o, err = bind(o, func(g *frame) (*outcome, error) { return x.stmt(s.Post, g) })
			}
			return o, err
		})
		if err != nil {
			return nil, err
		}
		if cur, err = x.merge(cur, s); err != nil {
			return nil, err
		}
	}
	return relabel(cur, oBreak, oFall), nil
}

// ---------------------------------------------------------------- calls

// call inlines fb on args (recv first if it is a method).
func (x *sx) call(fb funcBody, closed *frame, args []value, at ast.Node, pc *pcNode) (value, error) {
	if fb.body == nil {
		return nil, x.errf(at, "%s has no body", fb.name)
	}
	for _, n := range x.stack {
		if n == fb.decl {
			return nil, x.errf(at, "recursive call of %s", fb.name)
		}
	}
	if len(x.stack) > 64 {
		return nil, x.errf(at, "call depth")
	}
	x.stack = append(x.stack, fb.decl)
	defer func() { x.stack = x.stack[:len(x.stack)-1] }()
	if x.executed == nil {
		x.executed = map[ast.Node]bool{}
	}
	x.executed[fb.decl] = true

	fbc := fb
	fr := &frame{vars: map[types.Object]value{}, frozen: map[types.Object]bool{}, parent: closed, fn: &fbc, pc: pc}
	var params []*ast.Ident
	var ptypes []ast.Expr
	if fb.recv != nil {
		for _, f := range fb.recv.List {
			if _, isPtr := f.Type.(*ast.StarExpr); isPtr {
				return nil, x.errf(at, "%s has a pointer receiver", fb.name)
			}
			if len(f.Names) == 0 {
				params, ptypes = append(params, nil), append(ptypes, f.Type)
			}
			for _, id := range f.Names {
				params, ptypes = append(params, id), append(ptypes, f.Type)
			}
		}
	}
	variadic := false
	for _, f := range fb.typ.Params.List {
		if _, isVar := f.Type.(*ast.Ellipsis); isVar {
			variadic = true
		}
		if len(f.Names) == 0 {
			params, ptypes = append(params, nil), append(ptypes, f.Type)
		}
		for _, id := range f.Names {
			params, ptypes = append(params, id), append(ptypes, f.Type)
		}
	}
	if call, isCall := at.(*ast.CallExpr); variadic && !(isCall && call.Ellipsis.IsValid()) {
		// f(a, b, xs…): the extra arguments arrive as a fresh slice
		k := len(params) - 1
		if len(args) < k {
			return nil, x.errf(at, "call of %s with %d arguments", fb.name, len(args))
		}
		var st types.Type
		if tv, ok := x.info.Types[ptypes[k]]; ok {
			st = tv.Type
		}
		rest := vSeq{elems: make([]value, 0, len(args)-k), typ: st, st: &sstore{exact: true}}
		rest.elems = append(rest.elems, args[k:]...)
		args = append(append([]value{}, args[:k]...), rest)
	}
	if len(params) != len(args) {
		return nil, x.errf(at, "call of %s with %d arguments", fb.name, len(args))
	}
	for i, id := range params {
		if id == nil || id.Name == "_" {
			continue
		}
		o := x.info.Defs[id]
		if o == nil {
			return nil, x.errf(at, "parameter %s of %s", id.Name, fb.name)
		}
		v := args[i]
		if tv, ok := x.info.Types[ptypes[i]]; ok && tv.Type != nil {
			_, isTP := tv.Type.(*types.TypeParam)
			if _, isIface := tv.Type.Underlying().(*types.Interface); isIface && !isTP {
				return nil, x.errf(at, "parameter %s of %s has an interface type", id.Name, fb.name)
			}
		}
		fr.vars[o] = v
	}
	nres := 0
	if fb.typ.Results != nil {
		for _, f := range fb.typ.Results.List {
			if len(f.Names) == 0 {
				nres++
			}
			for _, id := range f.Names {
				nres++
				if o := x.info.Defs[id]; o != nil && id.Name != "_" {
					z, err := x.zero(o.Type(), id)
					if err != nil {
						return nil, err
					}
					fr.vars[o] = z
				}
			}
		}
	}
	o, err := x.block(fb.body.List, fr)
	if err != nil {
		return nil, err
	}
	if nres == 0 {
		// a function without results may also end by reaching the end of its body
		o = relabel(o, oFall, oRet)
	}
	vals, err := x.collapse(o, &fbc, at)
	if err != nil {
		return nil, err
	}
	if len(vals) != nres {
		return nil, x.errf(at, "%s returns %d values", fb.name, len(vals))
	}
	if nres == 1 {
		return vals[0], nil
	}
	return vTuple{vals}, nil // (the empty tuple for a function without results)
}

func (x *sx) declBody(fo *types.Func, at ast.Node) (funcBody, error) {
	fd := x.funcs[fo]
	if fd == nil || (fo.Pkg() != x.pkg && !x.stdPkgs[fo.Pkg()]) {
		return funcBody{}, x.errf(at, "call of %s, which is not a function of this package", fo.FullName())
	}
	key := fd.Name.Name
	if fo.Pkg() != x.pkg {
		return funcBody{name: fo.FullName(), typ: fd.Type, body: fd.Body, recv: fd.Recv, decl: fd}, nil
	}
	if fd.Recv != nil && len(fd.Recv.List) == 1 {
		key = types.ExprString(fd.Recv.List[0].Type) + "." + key
	}
	if x.dupFuncs[key] {
		return funcBody{}, x.errf(at, "%s is declared more than once", key)
	}
	return funcBody{name: key, typ: fd.Type, body: fd.Body, recv: fd.Recv, decl: fd}, nil
}

// isParamItself reports whether v is the whole parameter array, unchanged.
func (x *sx) isParamItself(v value) bool {
	s, ok := v.(vSeq)
	if !ok || !s.array || len(s.elems) != x.n || x.param == nil {
		return false
	}
	for i, e := range s.elems {
		w, isW := e.(vWord)
		if !isW {
			return false
		}
		if idx, id := w.identityByte(); !id || idx != i {
			return false
		}
	}
	return true
}

// bytePredicate reports whether fd has the shape func([4|16]byte) bool.
func (x *sx) bytePredicate(fd *ast.FuncDecl) (int, bool) {
	if fd.Recv != nil || fd.Type.TypeParams != nil || fd.Body == nil {
		return 0, false
	}
	fo, _ := x.info.Defs[fd.Name].(*types.Func)
	if fo == nil {
		return 0, false
	}
	sig := fo.Type().(*types.Signature)
	if sig.Params().Len() != 1 || sig.Results().Len() != 1 || sig.Variadic() {
		return 0, false
	}
	at, isArr := sig.Params().At(0).Type().Underlying().(*types.Array)
	if !isArr || (at.Len() != 4 && at.Len() != 16) {
		return 0, false
	}
	if w, signed, ok := intKind(at.Elem()); !ok || w != 8 || signed {
		return 0, false
	}
	if b, isB := sig.Results().At(0).Type().Underlying().(*types.Basic); !isB || b.Kind() != types.Bool {
		return 0, false
	}
	return int(at.Len()), true
}

func (x *sx) callExpr(e *ast.CallExpr, fr *frame) (value, error) {
	// f(xs...) passes the slice itself as the variadic parameter (see call)
	// conversion
	if tv, ok := x.info.Types[e.Fun]; ok && tv.IsType() {
		if len(e.Args) != 1 {
			return nil, x.errf(e, "conversion with %d arguments", len(e.Args))
		}
		v, err := x.expr(e.Args[0], fr)
		if err != nil {
			return nil, err
		}
		return x.convert(v, tv.Type, e)
	}
	evalArgs := func() ([]value, error) {
		var vs []value
		for _, a := range e.Args {
			v, err := x.expr(a, fr)
			if err != nil {
				return nil, err
			}
			vs = append(vs, v)
		}
		return vs, nil
	}
	fun := ast.Unparen(e.Fun)
	switch f := fun.(type) {
	case *ast.Ident:
		switch o := x.info.Uses[f].(type) {
		case *types.Builtin:
			if o.Name() == "make" && len(e.Args) >= 2 {
				// the first argument is a type
				args := []value{nil}
				for _, a := range e.Args[1:] {
					v, err := x.expr(a, fr)
					if err != nil {
						return nil, err
					}
					args = append(args, v)
				}
				return x.builtin("make", e, args)
			}
			args, err := evalArgs()
			if err != nil {
				return nil, err
			}
			return x.builtin(o.Name(), e, args)
		case *types.Func:
			fd := x.funcs[o]
			if fd != nil && len(e.Args) == 1 {
				if n, isPred := x.bytePredicate(fd); isPred {
					a, err := x.expr(e.Args[0], fr)
					if err != nil {
						return nil, err
					}
					if n == x.n && x.isParamItself(a) {
						// another predicate of the same array: referenced by name, as before
						if err := x.t.byteFunc(fd.Name.Name); err != nil {
							return nil, err
						}
						return vBool{fd.Name.Name}, nil
					}
					fb, err := x.declBody(o, e)
					if err != nil {
						return nil, err
					}
					return x.call(fb, nil, []value{a}, e, fr.pc)
				}
			}
			fb, err := x.declBody(o, e)
			if err != nil {
				return nil, err
			}
			args, err := evalArgs()
			if err != nil {
				return nil, err
			}
			return x.call(fb, nil, args, e, fr.pc)
		case *types.Var:
			fv, err := x.expr(f, fr)
			if err != nil {
				return nil, err
			}
			return x.callValue(fv, e, evalArgs, fr.pc)
		}
		return nil, x.errf(e, "call of %s", f.Name)
	case *ast.FuncLit:
		fv, err := x.expr(f, fr)
		if err != nil {
			return nil, err
		}
		return x.callValue(fv, e, evalArgs, fr.pc)
	case *ast.SelectorExpr:
		// package-qualified function
		if id := identOf(f.X); id != nil {
			if pn, isPkg := x.info.Uses[id].(*types.PkgName); isPkg {
				args, err := evalArgs()
				if err != nil {
					return nil, err
				}
				return x.stdFunc(pn.Imported().Path(), f.Sel.Name, e, args, fr.pc)
			}
		}
		sel := x.info.Selections[f]
		if sel == nil {
			return nil, x.errf(e, "unresolved selector %s", f.Sel.Name)
		}
		switch sel.Kind() {
		case types.FieldVal, types.MethodExpr:
			fv, err := x.expr(f, fr)
			if err != nil {
				return nil, err
			}
			return x.callValue(fv, e, evalArgs, fr.pc)
		case types.MethodVal:
			mo := sel.Obj().(*types.Func)
			recvT := sel.Recv()
			if p, isPtr := recvT.(*types.Pointer); isPtr {
				recvT = p.Elem()
			}
			// encoding/binary byte orders
			if nt, isNamed := recvT.(*types.Named); isNamed && nt.Obj().Pkg() != nil && nt.Obj().Pkg().Path() == "encoding/binary" {
				args, err := evalArgs()
				if err != nil {
					return nil, err
				}
				return x.byteOrder(nt.Obj().Name(), mo.Name(), e, args)
			}
			recv, err := x.expr(f.X, fr)
			if err != nil {
				return nil, err
			}
			args, err := evalArgs()
			if err != nil {
				return nil, err
			}
			if isNetip(recvT, "Addr") || isNetip(recvT, "Prefix") {
				return x.netipMethod(recv, mo.Name(), e, args)
			}
			if len(sel.Index()) != 1 {
				return nil, x.errf(e, "method %s promoted from an embedded field", mo.Name())
			}
			if _, isIface := recvT.Underlying().(*types.Interface); isIface {
				return nil, x.errf(e, "method call through the interface %s", recvT)
			}
			fb, err := x.declBody(mo, e)
			if err != nil {
				return nil, err
			}
			return x.call(fb, nil, append([]value{recv}, args...), e, fr.pc)
		}
	}
	return nil, x.errf(e, "call of %T", fun)
}

func (x *sx) callValue(fv value, e *ast.CallExpr, evalArgs func() ([]value, error), pc *pcNode) (value, error) {
	args, err := evalArgs()
	if err != nil {
		return nil, err
	}
	return x.apply(fv, args, e, pc)
}

// apply calls a function value (inlined at this call, on the path pc).
func (x *sx) apply(fv value, args []value, at ast.Node, pc *pcNode) (value, error) {
	switch f := fv.(type) {
	case vFunc:
		if f.native != nil {
			return f.native(args, at)
		}
		return x.call(f.body, f.closed, append(append([]value{}, f.bound...), args...), at, pc)
	case vCase:
		// which function is called depends on the parameter: call both
		a, err := x.apply(f.a, args, at, pc.assume(f.cond, true))
		if err != nil {
			return nil, err
		}
		b, err := x.apply(f.b, args, at, pc.assume(f.cond, false))
		if err != nil {
			return nil, err
		}
		return mkCase(f.cond, a, b), nil
	}
	return nil, x.errf(at, "call of something that is not a function of this package")
}

func (x *sx) builtin(name string, e *ast.CallExpr, args []value) (value, error) {
	intT := types.Typ[types.Int]
	switch name {
	case "len", "cap":
		if len(args) == 1 {
			switch a := args[0].(type) {
			case vSeq:
				if name == "cap" && !a.array {
					break
				}
				return constWord(intT, uint64(len(a.elems))), nil
			case vStr:
				if name == "len" {
					return constWord(intT, uint64(len(a.bs))), nil
				}
			}
		}
	case "append":
		if len(args) >= 1 {
			s, ok := args[0].(vSeq)
			if !ok || s.array {
				break
			}
			var add []value
			if e.Ellipsis.IsValid() {
				if len(args) != 2 {
					break
				}
				switch t := args[1].(type) {
				case vSeq:
					add = t.elems
				case vStr:
					for _, b := range t.bs {
						add = append(add, b)
					}
				default:
					return nil, x.errf(e, "append of a spread %T", args[1])
				}
			} else {
				add = args[1:]
			}
			n := len(s.elems)
			if !x.concrete {
				// symbolic mode: slices are values
				r := vSeq{elems: make([]value, 0, n+len(add)), typ: s.typ}
				r.elems = append(append(r.elems, s.elems...), add...)
				return r, nil
			}
			if s.st != nil && s.st.dead {
				return nil, x.writable(s, e)
			}
			if n+len(add) <= cap(s.elems) {
				// fits: Go appends in place
				if len(add) == 0 {
					return s, nil
				}
				if s.st == nil && n == 0 && cap(s.elems) == 0 {
					return s, nil
				}
				if err := x.writable(s, e); err != nil {
					return nil, err
				}
				return vSeq{elems: append(s.elems, add...), typ: s.typ, st: s.st}, nil
			}
			// grows: a new allocation, whose capacity Go rounds up by an amount the executor
			// does not model
			if s.st != nil && !s.st.exact && !s.st.frozen {
				s.st.dead = true
			}
			r := vSeq{elems: make([]value, 0, n+len(add)), typ: s.typ, st: &sstore{}}
			r.elems = append(append(r.elems, s.elems...), add...)
			return r, nil
		}
	case "make":
		if len(args) >= 1 && len(e.Args) >= 2 {
			tv, ok := x.info.Types[e.Args[0]]
			if !ok || tv.Type == nil {
				break
			}
			sl, isSl := tv.Type.Underlying().(*types.Slice)
			if !isSl {
				return nil, x.errf(e, "make of %s", tv.Type)
			}
			dims := []int64{}
			for _, a := range args[1:] {
				w, isW := a.(vWord)
				if !isW {
					return nil, x.errf(e, "make with a non-integer size")
				}
				d, isC := w.sconc()
				if !isC || d < 0 || d > maxUnroll {
					return nil, x.errf(e, "make with a size that is symbolic, negative or too large")
				}
				dims = append(dims, d)
			}
			ln, cp := dims[0], dims[0]
			if len(dims) == 2 {
				cp = dims[1]
			}
			if cp < ln || len(dims) > 2 {
				return nil, x.errf(e, "make: len larger than cap: the code panics")
			}
			r := vSeq{elems: make([]value, ln, cp), typ: tv.Type, st: &sstore{exact: true}}
			full := r.elems[:cp]
			for i := range full {
				z, err := x.zero(sl.Elem(), e)
				if err != nil {
					return nil, err
				}
				full[i] = z
			}
			return r, nil
		}
	case "copy":
		if len(args) == 2 {
			dst, okD := args[0].(vSeq)
			if !okD || dst.array {
				break
			}
			var src []value
			switch t := args[1].(type) {
			case vSeq:
				src = t.elems
			case vStr:
				for _, b := range t.bs {
					src = append(src, b)
				}
			default:
				return nil, x.errf(e, "copy from %T", args[1])
			}
			k := min(len(dst.elems), len(src))
			if k > 0 {
				if err := x.writable(dst, e); err != nil {
					return nil, err
				}
				copy(dst.elems, src) // Go's copy: correct for overlapping slices too
			}
			return constWord(intT, uint64(k)), nil
		}
	case "min", "max":
		if len(args) >= 1 {
			best := args[0]
			for _, a := range args[1:] {
				op := token.LSS
				if name == "max" {
					op = token.GTR
				}
				c, err := x.binary(op, a, best, e)
				if err != nil {
					return nil, err
				}
				cb, isB := c.(vBool)
				if !isB {
					return nil, x.errf(e, "%s of these operands", name)
				}
				best = mkCase(cb.f, a, best)
			}
			return best, nil
		}
	}
	return nil, x.errf(e, "builtin %s", name)
}

func byteSeq(v value) ([]vWord, bool) {
	var res []vWord
	switch s := v.(type) {
	case vStr:
		return s.bs, true
	case vSeq:
		for _, e := range s.elems {
			w, ok := e.(vWord)
			if !ok || len(w.bits) != 8 {
				return nil, false
			}
			res = append(res, w)
		}
		return res, true
	}
	return nil, false
}

func (x *sx) eqBytes(a, b []vWord, at ast.Node) (value, error) {
	if len(a) != len(b) {
		return vBool{fFF}, nil
	}
	var fs []string
	for i := range a {
		f, err := eqBits(a[i].bits, b[i].bits)
		if err != nil {
			return nil, x.errf(at, "%v", err)
		}
		fs = append(fs, f)
	}
	return vBool{conj(fs)}, nil
}

func (x *sx) byteOrder(order, method string, e *ast.CallExpr, args []value) (value, error) {
	var n int
	var t types.Type
	switch method {
	case "Uint16":
		n, t = 2, types.Typ[types.Uint16]
	case "Uint32":
		n, t = 4, types.Typ[types.Uint32]
	case "Uint64":
		n, t = 8, types.Typ[types.Uint64]
	default:
		return nil, x.errf(e, "encoding/binary method %s", method)
	}
	big := order == "bigEndian"
	if !big && order != "littleEndian" {
		return nil, x.errf(e, "encoding/binary type %s", order)
	}
	if len(args) != 1 {
		return nil, x.errf(e, "binary.%s", method)
	}
	s, isSeq := args[0].(vSeq)
	bs, ok := byteSeq(args[0])
	if !ok || !isSeq || s.array {
		return nil, x.errf(e, "argument of binary.%s is not a byte slice", method)
	}
	if len(bs) < n {
		return nil, x.errf(e, "binary.%s of a slice of length %d panics", method, len(bs))
	}
	// encoding/binary: Uint32(b) = b[3] | b[2]<<8 | b[1]<<16 | b[0]<<24 (big endian), the
	// mirror image for little endian; only the first n bytes are read.
	w := vWord{typ: t}
	for k := 0; k < n; k++ {
		src := k
		if big {
			src = n - 1 - k
		}
		w.bits = append(w.bits, bs[src].bits...)
	}
	return w, nil
}

func (x *sx) stdFunc(path, name string, e *ast.CallExpr, args []value, pc *pcNode) (value, error) {
	byteT := types.Typ[types.Uint8]
	constStr := func(v value) (string, bool) {
		s, ok := v.(vStr)
		if !ok {
			return "", false
		}
		raw := make([]byte, len(s.bs))
		for i, b := range s.bs {
			c, isC := b.conc()
			if !isC {
				return "", false
			}
			raw[i] = byte(c)
		}
		return string(raw), true
	}
	switch path + "." + name {
	case "net/netip.MustParsePrefix":
		if len(args) == 1 {
			if s, ok := constStr(args[0]); ok {
				p, err := netip.ParsePrefix(s)
				if err != nil {
					return nil, x.errf(e, "netip.MustParsePrefix(%q) panics: %v", s, err)
				}
				return vPrefix{p}, nil
			}
		}
	case "net/netip.MustParseAddr":
		if len(args) == 1 {
			if s, ok := constStr(args[0]); ok {
				a, err := netip.ParseAddr(s)
				if err != nil {
					return nil, x.errf(e, "netip.MustParseAddr(%q) panics: %v", s, err)
				}
				if a.Zone() != "" {
					return nil, x.errf(e, "address %q has a zone", s)
				}
				return concAddrLeaf(a, byteT), nil
			}
		}
	case "net/netip.PrefixFrom":
		if len(args) == 2 {
			a, okA := args[0].(*vAddr)
			b, okB := args[1].(vWord)
			if okA && okB {
				ca, isC := a.concrete()
				bits, isCB := b.sconc()
				if isC && isCB {
					if bits < -1<<31 || bits > 1<<31-1 {
						bits = -1
					}
					return vPrefix{netip.PrefixFrom(ca, int(bits))}, nil
				}
			}
		}
	case "net/netip.AddrFrom4", "net/netip.AddrFrom16":
		w := 4
		if name == "AddrFrom16" {
			w = 16
		}
		if len(args) == 1 {
			if s, ok := args[0].(vSeq); ok && s.array && len(s.elems) == w {
				if bs, isB := byteSeq(s); isB {
					// netip.AddrFrom16 does NOT unmap: the result is an IPv6 address
					return &vAddr{w: w, bs: bs}, nil
				}
			}
		}
	case "bytes.Equal":
		if len(args) == 2 {
			a, okA := byteSeq(args[0])
			b, okB := byteSeq(args[1])
			if okA && okB {
				return x.eqBytes(a, b, e)
			}
		}
	case "bytes.HasPrefix":
		if len(args) == 2 {
			a, okA := byteSeq(args[0])
			b, okB := byteSeq(args[1])
			if okA && okB {
				if len(b) > len(a) {
					return vBool{fFF}, nil
				}
				return x.eqBytes(a[:len(b)], b, e)
			}
		}
	case "bytes.Compare":
		if len(args) == 2 {
			a, okA := byteSeq(args[0])
			b, okB := byteSeq(args[1])
			if okA && okB {
				return x.compareBytes(a, b, e)
			}
		}
	case "slices.Sort", "slices.SortFunc", "slices.SortStableFunc", "sort.Slice", "sort.SliceStable":
		return x.sortModel(path+"."+name, e, args, pc)
	default:
		if stdSourcePkgs[path] {
			return x.stdSource(path, name, e, args, pc)
		}
		return nil, x.errf(e, "call of %s.%s", path, name)
	}
	return nil, x.errf(e, "%s.%s with arguments the executor cannot evaluate (they must be constants, or the parameter's bytes where an address is built)", path, name)
}

// compareBytes is bytes.Compare(a, b): the lexicographic three-way comparison, as a case
// split  a < b → -1 | a == b → 0 | +1  on the common prefix, then on the lengths.
func (x *sx) compareBytes(a, b []vWord, at ast.Node) (value, error) {
	intT := types.Typ[types.Int]
	k := min(len(a), len(b))
	tail := constWord(intT, 0)
	switch {
	case len(a) < len(b):
		tail = constWord(intT, ^uint64(0))
	case len(a) > len(b):
		tail = constWord(intT, 1)
	}
	if k == 0 {
		return tail, nil
	}
	wa, wb := vWord{}, vWord{}
	for j := k - 1; j >= 0; j-- {
		wa.bits = append(wa.bits, a[j].bits...)
		wb.bits = append(wb.bits, b[j].bits...)
	}
	lt, err := x.wideLess(wa, wb, at)
	if err != nil {
		return nil, err
	}
	eq, err := eqBits(wa.bits, wb.bits)
	if err != nil {
		return nil, x.errf(at, "%v", err)
	}
	return mkCase(lt, constWord(intT, ^uint64(0)), mkCase(eq, tail, constWord(intT, 1))), nil
}

// wideLess is a < b for two unsigned words of the same width (any multiple of 8), one of
// which is constant.
func (x *sx) wideLess(a, b vWord, at ast.Node) (string, error) {
	consts := func(w vWord) ([]int64, bool) {
		n := len(w.bits) / 8
		cb := make([]int64, n)
		for k := 0; k < n; k++ {
			v, ok := vWord{bits: w.bits[(n-1-k)*8 : (n-k)*8]}.conc()
			if !ok {
				return nil, false
			}
			cb[k] = int64(v)
		}
		return cb, true
	}
	if cb, ok := consts(b); ok {
		// a < c  =  !(a >= c)
		f, err := geBytes(a, cb)
		if err != nil {
			return "", x.errf(at, "%v", err)
		}
		return bNot(f), nil
	}
	if ca, ok := consts(a); ok {
		// c < b  =  b >= c+1
		for k := len(ca) - 1; ; k-- {
			if k < 0 {
				return fFF, nil // c is the largest value
			}
			if ca[k] < 255 {
				ca[k]++
				break
			}
			ca[k] = 0
		}
		f, err := geBytes(b, ca)
		if err != nil {
			return "", x.errf(at, "%v", err)
		}
		return f, nil
	}
	return "", x.errf(at, "ordering comparison of two byte strings that both depend on the parameter")
}

// sortModel sorts a slice in place (initialisers only).  The result of every correct
// sorting algorithm is the same as long as elements that compare equal are identical; the
// model sorts stably by insertion, calling the less/cmp function on the live slice as the
// real code does, and for the unstable variants rejects data on which the order of equal
// elements could be seen.
func (x *sx) sortModel(name string, e *ast.CallExpr, args []value, pc *pcNode) (value, error) {
	if len(args) == 0 {
		return nil, x.errf(e, "%s without arguments", name)
	}
	s, ok := args[0].(vSeq)
	if !ok || s.array {
		return nil, x.errf(e, "%s of something other than a slice", name)
	}
	if len(s.elems) > 1 {
		if err := x.writable(s, e); err != nil {
			return nil, err
		}
	}
	intT := types.Typ[types.Int]
	concBool := func(v value) (bool, error) {
		b, isB := v.(vBool)
		if !isB || (b.f != fTT && b.f != fFF) {
			return false, x.errf(e, "%s: the order depends on the parameter", name)
		}
		return b.f == fTT, nil
	}
	var less func(i, j int) (bool, error)
	switch name {
	case "slices.Sort":
		if len(args) != 1 {
			return nil, x.errf(e, "%s arguments", name)
		}
		less = func(i, j int) (bool, error) {
			r, err := x.binary(token.LSS, s.elems[i], s.elems[j], e)
			if err != nil {
				return false, err
			}
			return concBool(r)
		}
	case "slices.SortFunc", "slices.SortStableFunc":
		if len(args) != 2 {
			return nil, x.errf(e, "%s arguments", name)
		}
		less = func(i, j int) (bool, error) {
			c, err := x.apply(args[1], []value{s.elems[i], s.elems[j]}, e, pc)
			if err != nil {
				return false, err
			}
			r, err := x.binary(token.LSS, c, constWord(intT, 0), e)
			if err != nil {
				return false, err
			}
			return concBool(r)
		}
	default: // sort.Slice, sort.SliceStable
		if len(args) != 2 {
			return nil, x.errf(e, "%s arguments", name)
		}
		less = func(i, j int) (bool, error) {
			r, err := x.apply(args[1], []value{constWord(intT, uint64(i)), constWord(intT, uint64(j))}, e, pc)
			if err != nil {
				return false, err
			}
			return concBool(r)
		}
	}
	for i := 1; i < len(s.elems); i++ {
		for j := i; j > 0; j-- {
			lt, err := less(j, j-1)
			if err != nil {
				return nil, err
			}
			if !lt {
				break
			}
			s.elems[j], s.elems[j-1] = s.elems[j-1], s.elems[j]
		}
	}
	stable := name == "slices.SortStableFunc" || name == "sort.SliceStable"
	for i := 1; i < len(s.elems) && !stable; i++ {
		lt, err := less(i-1, i)
		if err != nil {
			return nil, err
		}
		if !lt && !sameValue(s.elems[i-1], s.elems[i]) {
			return nil, x.errf(e, "%s of elements that compare equal but differ: their order depends on the sorting algorithm", name)
		}
	}
	return vTuple{}, nil
}

func (x *sx) netipMethod(recv value, name string, e ast.Node, args []value) (value, error) {
	byteT := types.Typ[types.Uint8]
	intT := types.Typ[types.Int]
	switch r := recv.(type) {
	case vPrefix:
		switch name {
		case "Contains":
			if len(args) == 1 {
				a, ok := args[0].(*vAddr)
				if !ok {
					break
				}
				f, err := boolOfAddr(a, func(l *vAddr) (string, error) { return containsF(r.p, l) })
				if err != nil {
					return nil, x.errf(e, "%v", err)
				}
				return vBool{f}, nil
			}
		case "Addr":
			return concAddrLeaf(r.p.Addr(), byteT), nil
		case "Bits":
			return constWord(intT, uint64(int64(r.p.Bits()))), nil
		case "Masked":
			return vPrefix{r.p.Masked()}, nil
		case "IsValid":
			return vBool{boolF(r.p.IsValid())}, nil
		}
	case *vAddr:
		pred := func(f func(*vAddr) (string, error)) (value, error) {
			s, err := boolOfAddr(r, f)
			if err != nil {
				return nil, x.errf(e, "%v", err)
			}
			return vBool{s}, nil
		}
		switch name {
		case "IsValid":
			return pred(func(l *vAddr) (string, error) { return boolF(l.w != 0), nil })
		case "Is4":
			return pred(func(l *vAddr) (string, error) { return boolF(l.w == 4), nil })
		case "Is6":
			return pred(func(l *vAddr) (string, error) { return boolF(l.w == 16), nil })
		case "Is4In6":
			return pred(is4In6F)
		case "Unmap":
			// netip.Addr.Unmap: a 4in6 address becomes the embedded IPv4 address, every
			// other address is returned unchanged
			a, err := mapAddr(r, func(l *vAddr) (*vAddr, error) {
				c, err := is4In6F(l)
				if err != nil {
					return nil, err
				}
				switch c {
				case fFF:
					return l, nil
				case fTT:
					return &vAddr{w: 4, bs: l.bs[12:]}, nil
				}
				return &vAddr{cond: c, a: &vAddr{w: 4, bs: l.bs[12:]}, b: l}, nil
			})
			if err != nil {
				return nil, x.errf(e, "%v", err)
			}
			return a, nil
		case "As4", "As16", "AsSlice":
			if !r.leaf() {
				return nil, x.errf(e, "%s of an address whose family depends on the parameter", name)
			}
			arrT := func(n int64) types.Type { return types.NewArray(byteT, n) }
			switch {
			case name == "As4" && r.w == 4:
				return vSeq{elems: wordsToVals(r.bs), typ: arrT(4), array: true}, nil
			case name == "As16" && r.w == 16:
				return vSeq{elems: wordsToVals(r.bs), typ: arrT(16), array: true}, nil
			case name == "As16" && r.w == 4:
				var bs []vWord
				for k := 0; k < 12; k++ {
					c := uint64(0)
					if k >= 10 {
						c = 0xFF
					}
					bs = append(bs, constWord(byteT, c))
				}
				return vSeq{elems: wordsToVals(append(bs, r.bs...)), typ: arrT(16), array: true}, nil
			case name == "AsSlice" && r.w != 0:
				return vSeq{elems: wordsToVals(r.bs), typ: types.NewSlice(byteT)}, nil
			}
			return nil, x.errf(e, "%s of a %d-byte address (panics or is not supported)", name, r.w)
		}
	}
	return nil, x.errf(e, "net/netip method %s on this value", name)
}

func wordsToVals(ws []vWord) []value {
	vs := make([]value, len(ws))
	for i, w := range ws {
		vs[i] = w
	}
	return vs
}

func boolF(b bool) string {
	if b {
		return fTT
	}
	return fFF
}

// ---------------------------------------------------------------- expressions

func (x *sx) constant(tv types.TypeAndValue, e ast.Expr) (value, error) {
	switch tv.Value.Kind() {
	case constant.Bool:
		return vBool{boolF(constant.BoolVal(tv.Value))}, nil
	case constant.String:
		s := constant.StringVal(tv.Value)
		var r vStr
		for i := 0; i < len(s); i++ {
			r.bs = append(r.bs, constWord(types.Typ[types.Uint8], uint64(s[i])))
		}
		return r, nil
	case constant.Int:
		w, signed, ok := intKind(tv.Type)
		if !ok {
			return nil, x.errf(e, "integer constant of type %s", tv.Type)
		}
		if u, exact := constant.Uint64Val(tv.Value); exact {
			if w < 64 && u>>uint(w) != 0 {
				return nil, x.errf(e, "constant %s overflows %s", tv.Value, tv.Type)
			}
			return constWord(tv.Type, u), nil
		}
		if i, exact := constant.Int64Val(tv.Value); exact && signed {
			return constWord(tv.Type, uint64(i)), nil
		}
		return nil, x.errf(e, "constant %s does not fit %s", tv.Value, tv.Type)
	}
	return nil, x.errf(e, "constant of kind %s", tv.Value.Kind())
}

func (x *sx) expr(e ast.Expr, fr *frame) (value, error) {
	if err := x.tick(e); err != nil {
		return nil, err
	}
	if tv, ok := x.info.Types[e]; ok && tv.Value != nil {
		return x.constant(tv, e)
	}
	switch e := e.(type) {
	case *ast.ParenExpr:
		return x.expr(e.X, fr)
	case *ast.Ident:
		switch o := x.info.Uses[e].(type) {
		case *types.Var:
			if v, ok := fr.lookup(o); ok {
				if op, bad := v.(vOpaque); bad {
					return nil, x.errf(e, "use of %s", op.what)
				}
				if q, isSeq := v.(vSeq); isSeq && q.st != nil && q.st.dead {
					return nil, x.errf(e, "use of the slice %s after an append that may have extended it in place (its capacity is not known to the executor)", e.Name)
				}
				return v, nil
			}
			if o.Parent() == x.pkg.Scope() || o.Pkg() != x.pkg {
				return x.global(o, e)
			}
			return nil, x.errf(e, "variable %s is not in scope of the executor", e.Name)
		case *types.Func:
			fb, err := x.declBody(o, e)
			if err != nil {
				return nil, err
			}
			return vFunc{body: fb}, nil
		case *types.Nil:
			return nil, x.errf(e, "nil")
		}
		return nil, x.errf(e, "identifier %s", e.Name)
	case *ast.FuncLit:
		// freeze the captured variables: the literal sees the frame as it is now
		ast.Inspect(e.Body, func(n ast.Node) bool {
			if id, ok := n.(*ast.Ident); ok {
				if o := x.info.Uses[id]; o != nil {
					if _, own := fr.vars[o]; own {
						if fr.frozen == nil {
							fr.frozen = map[types.Object]bool{}
						}
						fr.frozen[o] = true
					}
				}
			}
			return true
		})
		return vFunc{body: funcBody{name: "function literal", typ: e.Type, body: e.Body, decl: e}, closed: fr}, nil
	case *ast.UnaryExpr:
		v, err := x.expr(e.X, fr)
		if err != nil {
			return nil, err
		}
		return x.unary(e.Op, v, e)
	case *ast.BinaryExpr:
		if e.Op == token.LAND || e.Op == token.LOR {
			a, err := x.boolExpr(e.X, fr)
			if err != nil {
				return nil, err
			}
			// short circuit: the right operand is not evaluated when the left decides
			if (e.Op == token.LAND && a == fFF) || (e.Op == token.LOR && a == fTT) {
				return vBool{a}, nil
			}
			b, err := x.boolExpr(e.Y, fr.assume(a, e.Op == token.LAND))
			if err != nil {
				return nil, err
			}
			if e.Op == token.LAND {
				return vBool{bAnd(a, b)}, nil
			}
			return vBool{bOr(a, b)}, nil
		}
		a, err := x.expr(e.X, fr)
		if err != nil {
			return nil, err
		}
		b, err := x.expr(e.Y, fr)
		if err != nil {
			return nil, err
		}
		return x.binary(e.Op, a, b, e)
	case *ast.IndexExpr:
		s, err := x.expr(e.X, fr)
		if err != nil {
			return nil, err
		}
		iv, err := x.expr(e.Index, fr)
		if err != nil {
			return nil, err
		}
		return x.elemAt(s, iv, fr.pc, e)
	case *ast.SliceExpr:
		s, err := x.expr(e.X, fr)
		if err != nil {
			return nil, err
		}
		n, limit := 0, 0
		switch q := s.(type) {
		case vSeq:
			n, limit = len(q.elems), len(q.elems)
			if !q.array && q.st != nil && q.st.exact {
				limit = cap(q.elems) // a slice may be re-sliced up to its capacity
			}
		case vStr:
			n, limit = len(q.bs), len(q.bs)
			if e.Slice3 {
				return nil, x.errf(e, "3-index slice of a string")
			}
		default:
			return nil, x.errf(e, "slice of something other than an array, a slice or a string")
		}
		lo, hi, mx := 0, n, limit
		if e.Low != nil {
			if lo, err = x.index(e.Low, limit+1, fr); err != nil {
				return nil, err
			}
		}
		if e.High != nil {
			if hi, err = x.index(e.High, limit+1, fr); err != nil {
				return nil, err
			}
		}
		if e.Max != nil {
			if mx, err = x.index(e.Max, limit+1, fr); err != nil {
				return nil, err
			}
		}
		if lo > hi || hi > mx {
			return nil, x.errf(e, "slice bounds [%d:%d:%d]: the code panics", lo, hi, mx)
		}
		switch q := s.(type) {
		case vSeq:
			var et types.Type
			switch u := q.typ.Underlying().(type) {
			case *types.Array:
				et = u.Elem()
			case *types.Slice:
				et = u.Elem()
			}
			rt := q.typ
			if q.array && et != nil {
				rt = types.NewSlice(et)
			}
			if q.array {
				// the slice shares the cells of an array VALUE: it is never written through
				return vSeq{elems: q.elems[lo:hi:mx], typ: rt}, nil
			}
			if q.st == nil || !q.st.exact {
				// capacity unknown: the result is cut to its length, re-slicing beyond is an error
				return vSeq{elems: q.elems[lo:hi:hi], typ: rt, st: q.st}, nil
			}
			return vSeq{elems: q.elems[lo:hi:mx], typ: rt, st: q.st}, nil
		case vStr:
			return vStr{q.bs[lo:hi]}, nil
		}
	case *ast.SelectorExpr:
		if id := identOf(e.X); id != nil {
			if _, isPkg := x.info.Uses[id].(*types.PkgName); isPkg {
				return nil, x.errf(e, "%s.%s used as a value", id.Name, e.Sel.Name)
			}
		}
		sel := x.info.Selections[e]
		if sel == nil {
			return nil, x.errf(e, "unresolved selector %s", e.Sel.Name)
		}
		if sel.Kind() == types.MethodExpr || sel.Kind() == types.MethodVal {
			return x.methodValue(e, sel, fr)
		}
		v, err := x.expr(e.X, fr)
		if err != nil {
			return nil, err
		}
		var field func(v value, path []int) (value, error)
		field = func(v value, path []int) (value, error) {
			if len(path) == 0 {
				return v, nil
			}
			if c, ok := v.(vCase); ok {
				l, err := field(c.a, path)
				if err != nil {
					return nil, err
				}
				r, err := field(c.b, path)
				if err != nil {
					return nil, err
				}
				return mkCase(c.cond, l, r), nil
			}
			st, ok := v.(vStruct)
			if !ok || path[0] >= len(st.fields) {
				return nil, x.errf(e, "field %s of something that is not a struct value", e.Sel.Name)
			}
			return field(st.fields[path[0]], path[1:])
		}
		if v, err = field(v, sel.Index()); err != nil {
			return nil, err
		}
		if op, bad := v.(vOpaque); bad {
			return nil, x.errf(e, "use of %s", op.what)
		}
		return v, nil
	case *ast.CompositeLit:
		return x.compositeLit(e, fr)
	case *ast.CallExpr:
		return x.callExpr(e, fr)
	}
	return nil, x.errf(e, "expression %T", e)
}

// elemAt is s[i].  An index that is a case split on the parameter (the result of a search)
// selects arm by arm; an arm no address can reach (its condition contradicts the path) is
// dropped, so that `i < n && s[i]…` does not trip over the i == n arm.
func (x *sx) elemAt(s, i value, pc *pcNode, at ast.Node) (value, error) {
	if c, ok := i.(vCase); ok {
		pt, pf := pc.assume(c.cond, true), pc.assume(c.cond, false)
		switch {
		case pt != nil && pt.dead:
			return x.elemAt(s, c.b, pf, at)
		case pf != nil && pf.dead:
			return x.elemAt(s, c.a, pt, at)
		}
		l, err := x.elemAt(s, c.a, pt, at)
		if err != nil {
			return nil, err
		}
		r, err := x.elemAt(s, c.b, pf, at)
		if err != nil {
			return nil, err
		}
		return mkCase(c.cond, l, r), nil
	}
	if c, ok := s.(vCase); ok {
		l, err := x.elemAt(c.a, i, pc.assume(c.cond, true), at)
		if err != nil {
			return nil, err
		}
		r, err := x.elemAt(c.b, i, pc.assume(c.cond, false), at)
		if err != nil {
			return nil, err
		}
		return mkCase(c.cond, l, r), nil
	}
	w, ok := i.(vWord)
	if !ok {
		return nil, x.errf(at, "index is not an integer")
	}
	k, ok := w.sconc()
	if !ok {
		return nil, x.errf(at, "index depends on the parameter")
	}
	n := 0
	switch q := s.(type) {
	case vSeq:
		n = len(q.elems)
	case vStr:
		n = len(q.bs)
	default:
		return nil, x.errf(at, "index of something other than an array, a slice or a string")
	}
	if k < 0 || k >= int64(n) {
		return nil, x.errf(at, "index %d out of range [0,%d): the code panics", k, n)
	}
	if q, isSeq := s.(vSeq); isSeq {
		return q.elems[k], nil
	}
	return s.(vStr).bs[k], nil
}

func (x *sx) unary(op token.Token, v value, e ast.Node) (value, error) {
	if c, ok := v.(vCase); ok {
		l, err := x.unary(op, c.a, e)
		if err != nil {
			return nil, err
		}
		r, err := x.unary(op, c.b, e)
		if err != nil {
			return nil, err
		}
		return mkCase(c.cond, l, r), nil
	}
	switch op {
	case token.NOT:
		if b, ok := v.(vBool); ok {
			return vBool{bNot(b.f)}, nil
		}
	case token.XOR:
		if w, ok := v.(vWord); ok {
			r := vWord{typ: w.typ, signed: w.signed}
			for _, b := range w.bits {
				r.bits = append(r.bits, bitNot(b))
			}
			return r, nil
		}
	case token.ADD:
		if w, ok := v.(vWord); ok {
			return w, nil
		}
	case token.SUB:
		if w, ok := v.(vWord); ok {
			return x.binary(token.SUB, constWord(w.typ, 0), w, e)
		}
	}
	return nil, x.errf(e, "unary operator %s", op)
}

// methodValue is T.m (the receiver becomes the first argument) or v.m (the receiver is
// evaluated now and bound, as in Go) for a method of the package or of net/netip.
func (x *sx) methodValue(e *ast.SelectorExpr, sel *types.Selection, fr *frame) (value, error) {
	mo, ok := sel.Obj().(*types.Func)
	if !ok {
		return nil, x.errf(e, "selector %s is not a method", e.Sel.Name)
	}
	recvT := sel.Recv()
	if _, isPtr := recvT.(*types.Pointer); isPtr {
		return nil, x.errf(e, "method value through a pointer")
	}
	if _, isIface := recvT.Underlying().(*types.Interface); isIface {
		return nil, x.errf(e, "method value of the interface %s", recvT)
	}
	if len(sel.Index()) != 1 {
		return nil, x.errf(e, "method %s promoted from an embedded field", mo.Name())
	}
	if isNetip(recvT, "Addr") || isNetip(recvT, "Prefix") {
		name := mo.Name()
		if sel.Kind() == types.MethodExpr {
			return vFunc{native: func(args []value, at ast.Node) (value, error) {
				if len(args) == 0 {
					return nil, x.errf(at, "method expression without a receiver")
				}
				return x.netipMethod(args[0], name, at, args[1:])
			}}, nil
		}
		recv, err := x.expr(e.X, fr)
		if err != nil {
			return nil, err
		}
		return vFunc{native: func(args []value, at ast.Node) (value, error) { return x.netipMethod(recv, name, at, args) }}, nil
	}
	fb, err := x.declBody(mo, e)
	if err != nil {
		return nil, err
	}
	if sel.Kind() == types.MethodExpr {
		return vFunc{body: fb}, nil
	}
	recv, err := x.expr(e.X, fr)
	if err != nil {
		return nil, err
	}
	return vFunc{body: fb, bound: []value{recv}}, nil
}

func (x *sx) compositeLit(e *ast.CompositeLit, fr *frame) (value, error) {
	tv, ok := x.info.Types[e]
	if !ok || tv.Type == nil {
		return nil, x.errf(e, "composite literal of unknown type")
	}
	t := tv.Type
	if (isNetip(t, "Addr") || isNetip(t, "Prefix")) && len(e.Elts) == 0 {
		return x.zero(t, e)
	}
	switch u := t.Underlying().(type) {
	case *types.Array, *types.Slice:
		var et types.Type
		n := int64(-1)
		if a, isArr := u.(*types.Array); isArr {
			et, n = a.Elem(), a.Len()
		} else {
			et = u.(*types.Slice).Elem()
		}
		var elems []value
		next := 0
		for _, el := range e.Elts {
			ve := el
			if kv, isKV := el.(*ast.KeyValueExpr); isKV {
				ktv, ok := x.info.Types[kv.Key]
				if !ok || ktv.Value == nil {
					return nil, x.errf(kv.Key, "element key is not a constant")
				}
				k, exact := constant.Int64Val(constant.ToInt(ktv.Value))
				if !exact || k < 0 || k > maxUnroll {
					return nil, x.errf(kv.Key, "element key %s", ktv.Value)
				}
				next, ve = int(k), kv.Value
			}
			v, err := x.expr(ve, fr)
			if err != nil {
				return nil, err
			}
			for len(elems) <= next {
				z, err := x.zero(et, e)
				if err != nil {
					return nil, err
				}
				elems = append(elems, z)
			}
			elems[next] = v
			next++
		}
		for n >= 0 && int64(len(elems)) < n {
			z, err := x.zero(et, e)
			if err != nil {
				return nil, err
			}
			elems = append(elems, z)
		}
		if n >= 0 {
			return vSeq{elems: elems[:len(elems):len(elems)], typ: t, array: true}, nil
		}
		return vSeq{elems: elems[:len(elems):len(elems)], typ: t, st: &sstore{exact: true}}, nil
	case *types.Struct:
		z, err := x.zero(t, e)
		if err != nil {
			return nil, err
		}
		st := z.(vStruct)
		for i, el := range e.Elts {
			fi, ve := i, el
			if kv, isKV := el.(*ast.KeyValueExpr); isKV {
				id := identOf(kv.Key)
				fi = -1
				for k := 0; id != nil && k < u.NumFields(); k++ {
					if u.Field(k).Name() == id.Name {
						fi = k
					}
				}
				ve = kv.Value
			}
			if fi < 0 || fi >= len(st.fields) {
				return nil, x.errf(el, "field of a struct literal")
			}
			v, err := x.expr(ve, fr)
			if err != nil {
				return nil, err
			}
			st.fields[fi] = v
		}
		return st, nil
	}
	return nil, x.errf(e, "composite literal of type %s", t)
}

// binary evaluates a non-short-circuit binary operator.
func (x *sx) binary(op token.Token, a, b value, at ast.Node) (value, error) {
	// a value that is a case split on the parameter: the operator is applied arm by arm
	if ca, ok := a.(vCase); ok {
		l, err := x.binary(op, ca.a, b, at)
		if err != nil {
			return nil, err
		}
		r, err := x.binary(op, ca.b, b, at)
		if err != nil {
			return nil, err
		}
		return mkCase(ca.cond, l, r), nil
	}
	if cb, ok := b.(vCase); ok {
		l, err := x.binary(op, a, cb.a, at)
		if err != nil {
			return nil, err
		}
		r, err := x.binary(op, a, cb.b, at)
		if err != nil {
			return nil, err
		}
		return mkCase(cb.cond, l, r), nil
	}
	isCmp := op == token.EQL || op == token.NEQ
	neg := func(f string, err error) (value, error) {
		if err != nil {
			return nil, x.errf(at, "%v", err)
		}
		if op == token.NEQ {
			f = bNot(f)
		}
		return vBool{f}, nil
	}
	switch av := a.(type) {
	case vBool:
		bv, ok := b.(vBool)
		if !ok {
			break
		}
		switch op {
		case token.LAND:
			return vBool{bAnd(av.f, bv.f)}, nil
		case token.LOR:
			return vBool{bOr(av.f, bv.f)}, nil
		case token.EQL, token.NEQ:
			switch {
			case bv.f == fTT:
				return neg(av.f, nil)
			case bv.f == fFF:
				return neg(bNot(av.f), nil)
			case av.f == fTT:
				return neg(bv.f, nil)
			case av.f == fFF:
				return neg(bNot(bv.f), nil)
			}
			return neg(fIte(av.f, bv.f, fNot(bv.f)), nil)
		}
	case vStr:
		bv, ok := b.(vStr)
		if !ok {
			break
		}
		if isCmp {
			r, err := x.eqBytes(av.bs, bv.bs, at)
			if err != nil {
				return nil, err
			}
			return neg(r.(vBool).f, nil)
		}
		if op == token.ADD {
			return vStr{append(append([]vWord{}, av.bs...), bv.bs...)}, nil
		}
		return nil, x.errf(at, "ordering comparison of strings")
	case vSeq:
		bv, ok := b.(vSeq)
		if !ok || !av.array || !bv.array || !isCmp || len(av.elems) != len(bv.elems) {
			break
		}
		var fs []string
		for i := range av.elems {
			r, err := x.binary(token.EQL, av.elems[i], bv.elems[i], at)
			if err != nil {
				return nil, err
			}
			fs = append(fs, r.(vBool).f)
		}
		return neg(conj(fs), nil)
	case vStruct:
		bv, ok := b.(vStruct)
		if !ok || !isCmp || len(av.fields) != len(bv.fields) {
			break
		}
		var fs []string
		for i := range av.fields {
			r, err := x.binary(token.EQL, av.fields[i], bv.fields[i], at)
			if err != nil {
				return nil, err
			}
			fs = append(fs, r.(vBool).f)
		}
		return neg(conj(fs), nil)
	case vWord:
		bv, ok := b.(vWord)
		if !ok {
			break
		}
		return x.wordOp(op, av, bv, at)
	}
	return nil, x.errf(at, "operator %s on these operands (%T, %T)", op, a, b)
}

func (x *sx) wordOp(op token.Token, a, b vWord, at ast.Node) (value, error) {
	n := len(a.bits)
	if op == token.SHL || op == token.SHR {
		sv, ok := b.sconc()
		if !ok {
			return nil, x.errf(at, "shift count depends on the parameter")
		}
		if sv < 0 {
			return nil, x.errf(at, "negative shift count: the code panics")
		}
		s := n
		if sv < int64(n) {
			s = int(sv)
		}
		r := vWord{bits: make([]bit, n), typ: a.typ, signed: a.signed}
		for i := 0; i < n; i++ {
			if op == token.SHL {
				if i >= s {
					r.bits[i] = a.bits[i-s]
				}
				continue
			}
			switch {
			case i+s < n:
				r.bits[i] = a.bits[i+s]
			case a.signed:
				if a.bits[n-1].sym {
					return nil, x.errf(at, "arithmetic shift of a symbolic value")
				}
				r.bits[i] = a.bits[n-1]
			}
		}
		return r, nil
	}
	if len(b.bits) != n {
		return nil, x.errf(at, "operator %s on integers of different widths", op)
	}
	ca, okA := a.conc()
	cb, okB := b.conc()
	switch op {
	case token.AND, token.OR, token.XOR, token.AND_NOT:
		r := vWord{bits: make([]bit, n), typ: a.typ, signed: a.signed}
		for i := range r.bits {
			var err error
			if r.bits[i], err = bitOp(op, a.bits[i], b.bits[i]); err != nil {
				return nil, x.errf(at, "%v", err)
			}
		}
		return r, nil
	case token.EQL, token.NEQ:
		f, err := eqBits(a.bits, b.bits)
		if err != nil {
			return nil, x.errf(at, "%v", err)
		}
		if op == token.NEQ {
			f = bNot(f)
		}
		return vBool{f}, nil
	case token.LSS, token.LEQ, token.GTR, token.GEQ:
		if okA && okB {
			var r bool
			if a.signed {
				sa, _ := a.sconc()
				sb, _ := b.sconc()
				r = map[token.Token]bool{token.LSS: sa < sb, token.LEQ: sa <= sb, token.GTR: sa > sb, token.GEQ: sa >= sb}[op]
			} else {
				r = map[token.Token]bool{token.LSS: ca < cb, token.LEQ: ca <= cb, token.GTR: ca > cb, token.GEQ: ca >= cb}[op]
			}
			return vBool{boolF(r)}, nil
		}
		w, c := a, cb
		if okA {
			// const op w  ==  w (flipped op) const
			w, c = b, ca
			op = map[token.Token]token.Token{token.LSS: token.GTR, token.LEQ: token.GEQ, token.GTR: token.LSS, token.GEQ: token.LEQ}[op]
		} else if !okB {
			return nil, x.errf(at, "ordering comparison of two values that depend on the parameter")
		}
		if w.signed {
			// a symbolic signed value has a constant (zero) sign bit, see resize; the
			// constant must be non-negative for the unsigned reading to be right
			cw := constWord(w.typ, c)
			if sc, _ := cw.sconc(); sc < 0 || w.bits[n-1].sym || w.bits[n-1].c {
				return nil, x.errf(at, "ordering comparison of a signed symbolic value with a negative number")
			}
		}
		max := ^uint64(0)
		if n < 64 {
			max = 1<<uint(n) - 1
		}
		var f string
		var err error
		switch op {
		case token.GEQ:
			f, err = geWord(w, c)
		case token.GTR:
			if c == max {
				f = fFF
			} else {
				f, err = geWord(w, c+1)
			}
		case token.LSS:
			f, err = geWord(w, c)
			f = bNot(f)
		case token.LEQ:
			if c == max {
				f = fTT
			} else {
				f, err = geWord(w, c+1)
				f = bNot(f)
			}
		}
		if err != nil {
			return nil, x.errf(at, "%v", err)
		}
		return vBool{f}, nil
	}
	if !okA || !okB {
		return nil, x.errf(at, "arithmetic operator %s on a value that depends on the parameter", op)
	}
	var r uint64
	switch op {
	case token.ADD:
		r = ca + cb
	case token.SUB:
		r = ca - cb
	case token.MUL:
		r = ca * cb
	case token.QUO, token.REM:
		if cb == 0 {
			return nil, x.errf(at, "division by zero: the code panics")
		}
		if a.signed {
			sa, _ := a.sconc()
			sb, _ := b.sconc()
			if op == token.QUO {
				r = uint64(sa / sb)
			} else {
				r = uint64(sa % sb)
			}
		} else if op == token.QUO {
			r = ca / cb
		} else {
			r = ca % cb
		}
	default:
		return nil, x.errf(at, "operator %s", op)
	}
	res := constWord(a.typ, r)
	res.signed = a.signed
	return res, nil
}
