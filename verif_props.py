"""Per-property configuration of ./check (theorem module, namespace, evidence texts)."""

COMMON_TRUSTED = [
    "Lean 4.33.0 kernel; axioms allowed in property theorems: propext, Classical.choice, Quot.sound (audited by #print axioms on every run)",
    "no sorry/admit/axiom/native_decide/bv_decide/implemented_by/unsafe in any imported project file (grep on every run)",
    "the Go harness /verif/harness (generators, canonicalisation, direct oracles) and the line-protocol driver lean/GolibsVerif/Driver",
    "hand-written Lean models are tied to /repo only by the differential correspondence run on every check (sampled, not proved)",
]

PROPS = {
    "C15": dict(
        module="GolibsVerif.Theorems.C15", namespace="GolibsVerif.C15",
        rule="scripts of Read/Write calls against a scripted wrapped reader/writer (short reads, (0,nil), EOF, injected errors, "
             "negative counts); non-trivial = the limit is reached or a fault is injected; distinct = distinct case line",
        trusted=["the wrapped io.Reader/io.Writer is modelled as an arbitrary per-call response function obeying 0<=n<=len(p)",
                 "uint64/uint arithmetic modelled on Nat; theorem trunc_offset_le_limit and run_budget show no subtraction wraps"],
        level_text="Lean theorems (induction over every history of Read/Write calls and every behaviour of the wrapped object) about an "
                   "executable model of limitedReader.Read and TruncatedWriter.Write; the model is tied to the Go code by running both on "
                   "the same generated scripts on every check",
        level_note="trusted: Lean kernel; the differential correspondence (sampled); wrapped reader obeys io.Reader (n<=len(p)); "
                   "uint arithmetic on Nat with no-wrap shown by invariant",
        assumptions=["wrapped reader obeys the io.Reader contract (n <= len(p)); a reader returning n > len(p) is outside the model"],
    ),
}

# properties not (yet) claimed, with the reason that goes into MANIFEST.not_applicable
_NOT_BUILT = "check not built yet in this round of work (design in DESIGN.md §5; the technique applies)"
NOT_APPLICABLE = {f"C{i:02d}": _NOT_BUILT for i in range(1, 21)}

# commits in /repo that add verif-tagged hooks
HOOK_COMMITS = []
