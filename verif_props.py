"""Per-property configuration of ./check: one file props/Cxx.py per claimed property, each defining
PROP = dict(module, namespace, rule, trusted, assumptions, level_text, level_note[, technique])."""
import glob, importlib.util, os

_HERE = os.path.dirname(os.path.abspath(__file__))

COMMON_TRUSTED = [
    "Lean 4.33.0 kernel; axioms allowed in property theorems: propext, Classical.choice, Quot.sound (audited by #print axioms on every run)",
    "no sorry/admit/axiom/native_decide/bv_decide/implemented_by/unsafe in any imported project file (grep on every run)",
    "the Go harness /verif/harness (generators, canonicalisation, direct oracles) and the line-protocol driver lean/GolibsVerif/Driver",
    "hand-written Lean models are tied to /repo only by the differential correspondence run on every check (sampled, not proved)",
]

PROPS = {}
for _f in sorted(glob.glob(os.path.join(_HERE, "props", "C*.py"))):
    _spec = importlib.util.spec_from_file_location("props_" + os.path.basename(_f)[:-3], _f)
    _m = importlib.util.module_from_spec(_spec)
    _spec.loader.exec_module(_m)
    PROPS[os.path.basename(_f)[:-3]] = _m.PROP

# properties not (yet) claimed, with the reason that goes into MANIFEST.not_applicable
_NOT_BUILT = "check not built yet in this round of work (design in DESIGN.md §5; the technique applies)"
NOT_APPLICABLE = {f"C{i:02d}": _NOT_BUILT for i in range(1, 21) if f"C{i:02d}" not in PROPS}

# commits in /repo that add verif-tagged hooks
HOOK_COMMITS = ["710d639", "0437c86", "b1f3fc3", "f8d7807"]
