"""Per-property configuration of ./check (theorem module, namespace, evidence texts)."""

COMMON_TRUSTED = [
    "Lean 4.33.0 kernel; axioms allowed in property theorems: propext, Classical.choice, Quot.sound (audited by #print axioms on every run)",
    "no sorry/admit/axiom/native_decide/bv_decide/implemented_by/unsafe in any imported project file (grep on every run)",
    "the Go harness /verif/harness (generators, canonicalisation, direct oracles) and the line-protocol driver lean/GolibsVerif/Driver",
    "hand-written Lean models are tied to /repo only by the differential correspondence run on every check (sampled, not proved)",
]

PROPS = {
    "C15": dict(
        module="GolibsVerif.Theorems.C15", namespace="GolibsVerif.C15",
        rule="scripts of Read/Write calls against a scripted wrapped reader/writer (short reads, (0,nil), EOF, injected errors, "
             "negative counts); non-trivial = the limit is reached or a fault is injected; distinct = distinct case line",
        trusted=["the wrapped io.Reader/io.Writer is modelled as an arbitrary per-call response function obeying 0<=n<=len(p)",
                 "uint64/uint arithmetic modelled on Nat; theorem trunc_offset_le_limit and run_budget show no subtraction wraps"],
        level_text="Lean theorems (induction over every history of Read/Write calls and every behaviour of the wrapped object) about an "
                   "executable model of limitedReader.Read and TruncatedWriter.Write; the model is tied to the Go code by running both on "
                   "the same generated scripts on every check",
        level_note="trusted: Lean kernel; the differential correspondence (sampled); wrapped reader obeys io.Reader (n<=len(p)); "
                   "uint arithmetic on Nat with no-wrap shown by invariant",
        assumptions=["wrapped reader obeys the io.Reader contract (n <= len(p)); a reader returning n > len(p) is outside the model"],
    ),
}

# properties not (yet) claimed, with the reason that goes into MANIFEST.not_applicable
_NOT_BUILT = "check not built yet in this round of work (design in DESIGN.md §5; the technique applies)"
NOT_APPLICABLE = {f"C{i:02d}": _NOT_BUILT for i in range(1, 21)}
NOT_APPLICABLE.pop("C15", None)

# commits in /repo that add verif-tagged hooks
HOOK_COMMITS = []

PROPS["C03"] = dict(
    module="GolibsVerif.Theorems.C03", namespace="GolibsVerif.C03",
    rule="names built from a label grammar (lengths 0,1,62,63,64; totals 252..255; '-', '_', digits at first/inner/last; all-digit TLD; "
         "xn--; IDN; invalid UTF-8; empty labels; trailing/leading dots) and single labels; non-trivial = idna.ToASCII succeeds and the "
         "length gate passes, so that a label rule decides; distinct = distinct case line",
    trusted=["idna.ToASCII is a parameter of the model (its answer for the input travels with each case as an oracle field)",
             "constants MaxDomainLabelLen / MaxDomainNameLen / MaxServiceLabelLen are regenerated from netutil on every run (Gen/Consts.lean)",
             "strings.Cut loop modelled as a fold over the '.'-split (lemma splitOn_cut)"],
    assumptions=["rune iteration over labels is modelled byte-wise (equivalent because every accepted rune is ASCII); RuneError.Rune of "
                 "non-ASCII runes is compared only as 'nonascii'"],
    level_text="Lean theorems characterising the three validators by the documented grammar for every string and every idna.ToASCII "
               "behaviour, plus inclusion chain and error shape; model tied to the Go code differentially on every run",
    level_note="trusted: Lean kernel; differential correspondence (sampled); idna.ToASCII as a parameter",
)
NOT_APPLICABLE.pop("C03", None)

PROPS["C02"] = dict(
    module="GolibsVerif.Theorems.C02", namespace="GolibsVerif.C02",
    rule="IP texts from a shape grammar (0-9 fields x ellipsis position x IPv4 tail x zone x brackets x port digits) with byte mutations; "
         "every string over {0,1,9,a,f,g,:,.,%,[,]} up to length 3 (quick) / 4 (thorough) through model AND implementation; direct-only "
         "exhaustive comparison with netip up to length 5 (quick) / 8 (thorough); hostnames from the C03 grammar. non-trivial = accepted by "
         "one side or a near miss (>=2 separators); distinct = distinct case line",
    trusted=["Lean model of net/netip ParseAddr/ParseAddrPort (go1.24 source, statement by statement), validated against the real functions by std.* ops every run",
             "unexported helpers reached through netutil/export_verif.go (build tag verif)"],
    assumptions=["rune loops over digits/hex digits are modelled byte-wise (equivalent because the accepted characters are ASCII)"],
    level_text="Lean theorems: the allocation-free hostname validators equal their error-returning counterparts for every input and every "
               "idna behaviour; the IPv4 validator equals the netip IPv4 parser model for every string; IPv6/zone/port agreement is "
               "established by correspondence plus exhaustive enumeration (partial, see level_note)",
    level_note="IPv6 scanner equivalence with netip.parseIPv6 is NOT yet a theorem: it is checked by exhaustive enumeration over an "
               "11-letter alphabet and a grammar-directed stream on every run; trusted: Lean kernel, netip model, correspondence",
)
NOT_APPLICABLE.pop("C02", None)

PROPS["C04"] = dict(
    module="GolibsVerif.Theorems.C04", namespace="GolibsVerif.C04",
    rule="addresses (random, single non-zero byte at every position, 4in6, bad lengths) encoded and decoded in four spellings; ARPA names from "
         "a label grammar and near-canonical mutations of real PTR names (leading zeros, '+', 4/5 labels, 31/33 nibbles, two-char labels, "
         "non-ASCII look-alikes); non-trivial = the name carries an .arpa suffix or the address is valid; distinct = distinct case line",
    trusted=["Lean model of netip.ParseAddr (validated by std.parseaddr ops)", "idna.ToASCII as a parameter (oracle field)",
             "constants arpaV4Suffix/arpaV6Suffix/arpaV6MaxLen regenerated from netutil on every run"],
    assumptions=["net.IP.To4/To16, strconv.Itoa/FormatUint of a byte are modelled (ipTo4, ipTo16, itoa, hexDigit), sampled by the tie"],
    level_text="Lean theorems about the model of reversed.go: encoder produces the canonical PTR name; decoder inverts it in any case and with "
               "a trailing dot; whatever the decoder accepts is canonical; tie by differential correspondence on every run",
    level_note="trusted: Lean kernel; correspondence (sampled); netip model; idna.ToASCII contract IDNA-1 where stated",
)
PROPS["C05"] = dict(
    module="GolibsVerif.Theorems.C05", namespace="GolibsVerif.C05",
    rule="all label sequences of length 0..3 (quick) / 0..5 (thorough) over {0,7,10,255,00,256,01,x,a,F,aa,1a} under both roots for "
         "PrefixFromReversedAddr and ExtractReversedAddr, plus grammar-directed names (0..36 labels, case variants, look-alike roots, "
         "non-ASCII) and the unexported helpers; non-trivial = the name has an ARPA root suffix; distinct = distinct case line",
    trusted=["Lean model of netip.ParseAddr", "idna.ToASCII as a parameter (oracle field)", "strconv.ParseUint(s,10,8) modelled as parseUintDec"],
    assumptions=["the independent Go decoder written from the property text (specArpaPrefix/specExtract) is the direct oracle"],
    level_text="Lean theorems about the model of reversed.go's prefix decoders (totality for every input, masked result, agreement with the "
               "label-level specification); tie by differential correspondence and bounded-exhaustive label sequences on every run",
    level_note="trusted: Lean kernel; correspondence (sampled + bounded exhaustive); netip model; idna.ToASCII contracts IDNA-1/2 where stated",
)
NOT_APPLICABLE.pop("C04", None)
NOT_APPLICABLE.pop("C05", None)
