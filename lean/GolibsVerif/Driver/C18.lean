import GolibsVerif.Driver.Util
import GolibsVerif.Model.C18
import GolibsVerif.Model.C18Fine

/-!
Line protocol of C18 (see `harness/c18.go` for the Go side):

* `C18.sh <signals> <outcomes>` — `SignalHandler.Handle`.  `<signals>`: comma-separated, `<n>` is
  `syscall.Signal(n)`, `o<n>` is a foreign `os.Signal` value, `-` is none.  `<outcomes>`: one
  letter per registered service in registration order, `n` nil / `e` error / `p` panic, `-` none.
  Answer: `blocked` or `ret status=<s> calls=<i,j,…>`.
* `C18.rw <ros> <schedule> <events> <reps>` — `RefreshWorker`.  `<ros>` 0/1 RefreshOnShutdown;
  `<schedule>`: the answers of successive `UntilNext` calls, `<d>` or `<d>!` (`!`: the timer
  made for it is ready at once), default `1` when the list runs out; `<events>`: `t` tick, `s`
  Shutdown, `l<e>` the loop's refresh returns error code e (0 = nil), `f<e>` the final refresh
  returns e; `<reps>` (how often the harness repeats the scenario) is ignored by the model.
  Answer: the outputs of `Start` and of every event, groups separated by `|`.
* `C18.fine <ros> <steps> <reps>` — statement-level scripts on the fine-grained system of
  `Model/C18Fine.lean` (`runScript`).  `<steps>`: `tick`, `untL<d>` / `untL<d>!`, `newL`, `refL<e>`,
  `hdlL`, `shut`, `newF`, `refF<e>` (see `harness/c18fine.go`); `<reps>` is ignored by the model.
  Answer: the call / return events of the callbacks and of `Shutdown` (the model's internal events
  — select, re-check, `close(done)`, timer delivery — are not printed), one group for `Start`, one
  per step, one for the final drain, separated by `|`.
-/

namespace GolibsVerif.Driver.C18
open GolibsVerif GolibsVerif.C18 GolibsVerif.Driver

def parseSignal (s : String) : Option Signal :=
  if s.startsWith "o" then (s.drop 1).toNat?.map Signal.other else s.toNat?.map Signal.sys

def parseOutcome : Char → Option Outcome
  | 'n' => some .nil
  | 'e' => some .err
  | 'p' => some .panic
  -- a service that waits for the shutdown deadline first: the handler's loop does not look at
  -- the deadline, so for the model these are a nil / an error return
  | 'w' => some .nil
  | 'W' => some .err
  -- an error that is or wraps a standard-library sentinel is an error; a panic with one is a panic
  | 'c' => some .err
  | 'C' => some .err
  | 'P' => some .panic
  | _ => none

def listArg (s : String) : List String := if s = "-" then [] else s.splitOn ","

def showNats (xs : List Nat) : String :=
  if xs.isEmpty then "-" else joinWith "," (xs.map toString)

def sh (args : List String) : String :=
  match args with
  | [sigs, outs] =>
    match allSome ((listArg sigs).map parseSignal),
          allSome ((if outs = "-" then [] else outs.toList).map parseOutcome) with
    | some sg, some os =>
      match handle sg os with
      | .blocked => "blocked"
      | .returned st calls => s!"ret status={st} calls={showNats calls}"
    | _, _ => "bad-op"
  | _ => "bad-op"

def parseSched (s : String) : Option (Nat × Bool) :=
  if s.endsWith "!" then (s.dropEnd 1).toNat?.map (·, true) else s.toNat?.map (·, false)

def parseEv (s : String) : Option Ev :=
  if s = "t" then some .tick
  else if s = "s" then some .shutdown
  else if s.startsWith "l" then (s.drop 1).toNat?.map (Ev.refreshReturns .loop)
  else if s.startsWith "f" then (s.drop 1).toNat?.map (Ev.refreshReturns .shutdown)
  else none

def showCtx : Ctx → String
  | .start => "start"
  | .shutdown => "shutdown"
  | .cons p => s!"c({showCtx p})"

def showOut : Out → String
  | .untilNext => "U"
  | .after d => s!"A{d}"
  | .refresh c => s!"R:{showCtx c}"
  | .handle _ e => s!"H{e}"
  | .shutdownReturns e => s!"S{e}"
  | .panicClose => "P"

def showGroup (g : List Out) : String :=
  if g.isEmpty then "-" else joinWith "," (g.map showOut)

def mkEnv (sched : List (Nat × Bool)) : Env :=
  { dur := fun k => match sched[k]? with | some (d, _) => d | none => 1
    imm := fun k => match sched[k]? with | some (_, i) => i | none => false
    -- irrelevant for the repaired code (theorem `select_choice_irrelevant`)
    pick := fun _ => true }

def rw (args : List String) : String :=
  match args with
  | [ros, sched, evs, _reps] =>
    match allSome ((listArg sched).map parseSched), allSome ((listArg evs).map parseEv) with
    | some sc, some es =>
      if ros = "0" ∨ ros = "1" then
        joinWith "|" ((run (mkEnv sc) (ros = "1") es).2.map showGroup)
      else "bad-op"
    | _, _ => "bad-op"
  | _ => "bad-op"

def parseCmd (s : String) : Option Fine.Cmd :=
  if s = "tick" then some .tick
  else if s = "newL" then some .newL
  else if s = "hdlL" then some .hdlL
  else if s = "shut" then some .shut
  else if s = "newF" then some .newF
  else if s.startsWith "untL" then
    let r := (s.drop 4).toString
    if r.endsWith "!" then (r.dropEnd 1).toNat?.map (Fine.Cmd.untL · true) else r.toNat?.map (Fine.Cmd.untL · false)
  else if s.startsWith "refL" then (s.drop 4).toNat?.map Fine.Cmd.refL
  else if s.startsWith "refF" then (s.drop 4).toNat?.map Fine.Cmd.refF
  else none

def showCaller : Caller → String
  | .loop => "L"
  | .shutdown => "F"

/-- the label of a `Refresh` call is read off the context it got -/
def showRefreshCtx : Ctx → String
  | .cons .start => "L"
  | .cons .shutdown => "F"
  | _ => "?"

/-- observable events only: calls and returns of the callbacks and of `Shutdown` -/
def showFEv : Fine.FEv → Option String
  | .untilCall => some "Uc"
  | .untilRet d => some s!"Ur{d}"
  | .after d _ => some s!"A{d}"
  | .newCall c => some s!"Nc:{showCaller c}"
  | .newRet c => some s!"Nr:{showCaller c}"
  | .refreshCall _ ctx => some s!"Rc:{showRefreshCtx ctx}"
  | .refreshRet c e => some s!"Rr:{showCaller c}:{e}"
  | .handleCall e => some s!"Hc{e}"
  | .handleRet => some "Hr"
  | .shutCall => some "Sc"
  | .shutRet e => some s!"Sr{e}"
  | .fire | .selTimer | .selDone | .recheckOpen | .recheckClosed | .closeDone => none

def showFGroup (g : List Fine.FEv) : String :=
  let xs := g.filterMap showFEv
  if xs.isEmpty then "-" else joinWith "," xs

def fine (args : List String) : String :=
  match args with
  | [ros, steps, _reps] =>
    match allSome ((listArg steps).map parseCmd) with
    | some cs =>
      if ros = "0" ∨ ros = "1" then joinWith "|" ((Fine.runScript (ros = "1") cs).map showFGroup)
      else "bad-op"
    | none => "bad-op"
  | _ => "bad-op"

def handle (op : String) (args : List String) : Option String :=
  match op with
  | "C18.sh" => some (sh args)
  | "C18.rw" => some (rw args)
  | "C18.fine" => some (fine args)
  | _ => none

end GolibsVerif.Driver.C18
