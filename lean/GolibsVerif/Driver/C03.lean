import GolibsVerif.Driver.NetErr

namespace GolibsVerif.Driver.C03
open GolibsVerif GolibsVerif.Netutil GolibsVerif.Driver

/-- ops: `C03.host|domain|srv <name> <toascii>`; `C03.lhost|ldomain|ltld|lsrv <label>`;
`C03.ishost <name> <toascii>`; `C03.islhost <label>` -/
def handle (op : String) (args : List String) : Option String :=
  let nameOp (f : (Bytes → Option Bytes) → Bytes → GoM (Option Err)) : String :=
    match args with
    | [n, t] =>
      match hexDecode n with
      | some name =>
        let toA : Bytes → Option Bytes := fun q =>
          if q = name then (if t = "!" then none else hexDecode t) else none
        if t ≠ "!" ∧ (hexDecode t).isNone then "bad-op" else showGoErr (f toA name)
      | none => "bad-op"
    | _ => "bad-op"
  let labelOp (f : Bytes → GoM (Option Err)) : String :=
    match args with
    | [l] => match hexDecode l with
      | some label => showGoErr (f label)
      | none => "bad-op"
    | _ => "bad-op"
  match op with
  | "C03.host" => some (nameOp validateHostname)
  | "C03.domain" => some (nameOp validateDomainName)
  | "C03.srv" => some (nameOp validateSRVDomainName)
  | "C03.lhost" => some (labelOp validateHostnameLabel)
  | "C03.ldomain" => some (labelOp fun l => pure (validateDomainNameLabel l))
  | "C03.ltld" => some (labelOp validateTLDLabel)
  | "C03.lsrv" => some (labelOp validateServiceNameLabel)
  | "C03.ishost" =>
    match args with
    | [n, t] =>
      match hexDecode n with
      | some name =>
        let toA : Bytes → Option Bytes := fun q =>
          if q = name then (if t = "!" then none else hexDecode t) else none
        some (showGoBool (isValidHostname toA name))
      | none => some "bad-op"
    | _ => some "bad-op"
  | "C03.islhost" =>
    match args with
    | [l] => match hexDecode l with
      | some label => some (showGoBool (isValidHostnameLabel label))
      | none => some "bad-op"
    | _ => some "bad-op"
  | _ => none

end GolibsVerif.Driver.C03
