/-
C16 driver.  Case lines (see `harness/c16.go`):

  C16.redact <rest> <user1> <user2> <oracle>
  C16.err    <rest> <user1> <user2> <kind> <op> <oldtext> <oracle>

  rest    = scheme,opaque,host,path,rawpath,omithost,forcequery,rawquery,fragment,rawfragment
            (hex strings, `-` = empty; booleans 0/1)
  user    = `nil` | <hex name>:<hex password>:<0|1 password set>
  oracle  = `;`-separated <user>/<hex>: the answers of the real `(*url.URL).String()` for this
            `rest` with that userinfo — the finite table standing for the `render` parameter
  kind    = nil | url | urlnil | wrap | join | annot | custom | plain
  oldtext = `self` (the error's URL text is String() of the input URL) | hex
-/
import GolibsVerif.Driver.Util
import GolibsVerif.Model.C16

namespace GolibsVerif.Driver.C16
open GolibsVerif GolibsVerif.C16 GolibsVerif.Driver

def parseBool (s : String) : Option Bool :=
  if s = "0" then some false else if s = "1" then some true else none

def parseUser (s : String) : Option (Option Userinfo) :=
  if s = "nil" then some none else
  match s.splitOn ":" with
  | [a, b, c] => do
    let n ← hexDecode a
    let p ← hexDecode b
    let ps ← parseBool c
    pure (some { username := n, password := p, passwordSet := ps })
  | _ => none

def showUser : Option Userinfo → String
  | none => "nil"
  | some i => s!"{hexEncode i.username}:{hexEncode i.password}:{if i.passwordSet then "1" else "0"}"

def parseRest (s : String) : Option Rest :=
  match s.splitOn "," with
  | [a, b, c, d, e, f, g, h, i, j] => do
    let scheme ← hexDecode a
    let opq ← hexDecode b
    let host ← hexDecode c
    let path ← hexDecode d
    let rawPath ← hexDecode e
    let omitHost ← parseBool f
    let forceQuery ← parseBool g
    let rawQuery ← hexDecode h
    let fragment ← hexDecode i
    let rawFragment ← hexDecode j
    pure { scheme := scheme, opaqueStr := opq, host := host, path := path, rawPath := rawPath,
           omitHost := omitHost, forceQuery := forceQuery, rawQuery := rawQuery,
           fragment := fragment, rawFragment := rawFragment }
  | _ => none

def parseOracle (s : String) : Option (List (Option Userinfo × Bytes)) :=
  allSome ((s.splitOn ";").map fun ent =>
    match ent.splitOn "/" with
    | [u, v] => do
      let u ← parseUser u
      let v ← hexDecode v
      pure (u, v)
    | _ => none)

/-- a byte string no real `String()` can return (999 is not a byte): the oracle was asked
for a point the harness did not supply -/
def oracleMiss : Bytes := [999]

/-- the `render` parameter as the finite table of the line, valid for the line's `rest` -/
def renderOf (rest : Rest) (tbl : List (Option Userinfo × Bytes)) : Option Userinfo → Rest → Bytes :=
  fun u r =>
    if r = rest then
      match tbl.find? (fun e => e.1 = u) with
      | some e => e.2
      | none => oracleMiss
    else oracleMiss

def showText (b : Bytes) : String := if b = oracleMiss then "ORACLE-MISS" else hexEncode b

/-- does cell `p` hold exactly `u`? -/
def holds (h : Heap) (p : Ptr) (u : URL) : Bool :=
  match h.get p with
  | .ok v => v == u
  | .error _ => false

/-- one `RedactUserinfo` record -/
def showRedact (render : Option Userinfo → Rest → Bytes) (hEnd : Heap) (p q : Ptr) (u : URL) : String :=
  match hEnd.get q with
  | .error e => showPanic e
  | .ok r =>
    let ptr := match u.user with
      | none => if q = p then "same" else "other"
      | some _ => "-"
    let inp := if holds hEnd p u then "same" else "modified"
    let rest := if r.rest = u.rest then "same" else "diff"
    s!"u={showUser r.user};rest={rest};ptr={ptr};in={inp};s={showText (render r.user r.rest)}"

def redactOp (args : List String) : String :=
  match args with
  | [rest, u1, u2, orc] =>
    match parseRest rest, parseUser u1, parseUser u2, parseOracle orc with
    | some rest, some u1, some u2, some tbl =>
      let render := renderOf rest tbl
      let v1 : URL := { user := u1, rest := rest }
      let v2 : URL := { user := u2, rest := rest }
      let h0 : Heap := { cells := [v1, v2] }
      match redact h0 (some 0) with
      | .error e => showPanic e
      | .ok (h1, q1) =>
        match redact h1 (some 1) with
        | .error e => showPanic e
        | .ok (h2, q2) =>
          showRedact render h2 (some 0) q1 v1 ++ "|" ++ showRedact render h2 (some 1) q2 v2
    | _, _, _, _ => "bad-op"
  | _ => "bad-op"

/-- the error value the harness builds for a kind -/
def mkErr (kind : String) (ue : URLError) : Option Err :=
  match kind with
  | "nil" => some .nil
  | "url" => some (.urlError ue)
  -- a top-level `*url.Error` whose `Err` is itself a `*url.Error` (same / different URL text):
  -- for the model the inner error is the opaque identity `err`, which must come back unchanged
  | "nested" => some (.urlError ue)
  | "nesteddiff" => some (.urlError ue)
  | "urlnil" => some .urlErrorNilPtr
  | "wrap" => some (.wrapped 1 ue)
  | "join" => some (.wrapped 2 ue)
  | "annot" => some (.wrapped 3 ue)
  | "custom" => some (.wrapped 4 ue)
  | "plain" => some (.other 1)
  | _ => none

def sameOr (b : Bool) : String := if b then "same" else "changed"

def showErr (before after : Err) : String :=
  match after with
  | .nil => "kind=nil;text=none;op=same;err=same"
  | .other c => s!"kind=other;text=none;op=same;err={sameOr (decide (before = .other c))}"
  | .urlErrorNilPtr => "kind=urlnil;text=none;op=same;err=same"
  | .urlError a =>
    let (o, e) := match before with
      | .urlError b => (b.op == a.op, b.err == a.err)
      | _ => (false, false)
    s!"kind=url;text={showText a.url};op={sameOr o};err={sameOr e}"
  | .wrapped w a =>
    let (o, e) := match before with
      | .wrapped w' b => (b.op == a.op, b.err == a.err && w == w')
      | _ => (false, false)
    s!"kind=wrapped;text={showText a.url};op={sameOr o};err={sameOr e}"

def errOne (render : Option Userinfo → Rest → Bytes) (rest : Rest) (u : Option Userinfo)
    (kind : String) (op : Bytes) (old : String) : String :=
  let v : URL := { user := u, rest := rest }
  let oldText : Option Bytes := if old = "self" then some (render u rest) else hexDecode old
  match oldText with
  | none => "bad-op"
  | some t =>
    match mkErr kind { op := op, url := t, err := 7 } with
    | none => "bad-op"
    | some e =>
      let h0 : Heap := { cells := [v] }
      match redactInURLError render h0 (some 0) e with
      | .error pe => showPanic pe
      | .ok (h1, e') =>
        let inp := if holds h1 (some 0) v then "same" else "modified"
        s!"{showErr e e'};in={inp}"

def errOp (args : List String) : String :=
  match args with
  | [rest, u1, u2, kind, op, old, orc] =>
    match parseRest rest, parseUser u1, parseUser u2, hexDecode op, parseOracle orc with
    | some rest, some u1, some u2, some op, some tbl =>
      let render := renderOf rest tbl
      errOne render rest u1 kind op old ++ "|" ++ errOne render rest u2 kind op old
    | _, _, _, _, _ => "bad-op"
  | _ => "bad-op"

def handle (op : String) (args : List String) : Option String :=
  match op with
  | "C16.redact" => some (redactOp args)
  | "C16.err" => some (errOp args)
  | _ => none

end GolibsVerif.Driver.C16
