import GolibsVerif.Driver.C02
import GolibsVerif.Model.NetReversed

namespace GolibsVerif.Driver.C04
open GolibsVerif GolibsVerif.Netutil GolibsVerif.Netip GolibsVerif.Driver GolibsVerif.Driver.C02

def showPrefix (p : Prefix) : String := s!"{showAddr p.addr}/{p.bits}"

def showR {α} (f : α → String) : GoM (Except Err α) → String
  | .ok (.ok a) => s!"ok:{f a}"
  | .ok (.error e) => s!"err:{showErr e}"
  | .error p => showPanic p

def showE {α} (f : α → String) : Except Err α → String
  | .ok a => s!"ok:{f a}"
  | .error e => s!"err:{showErr e}"

/-- `<name> <toascii>` where the oracle answer is for the name minus one trailing dot -/
def arpaOp {α} (args : List String) (sh : α → String)
    (f : (Bytes → Option Bytes) → Bytes → GoM (Except Err α)) : String :=
  match args with
  | [n, t] =>
    match hexDecode n with
    | some name =>
      if t ≠ "!" ∧ (hexDecode t).isNone then "bad-op"
      else
        let trimmed := Str.trimSuffix name [46]
        let toA : Bytes → Option Bytes := fun q =>
          if q = trimmed then (if t = "!" then none else hexDecode t) else none
        showR sh (f toA name)
    | none => "bad-op"
  | _ => "bad-op"

def showGoInt : GoM Int → String
  | .ok i => toString i
  | .error p => showPanic p

def handle (op : String) (args : List String) : Option String :=
  match op with
  | "C04.fromrev" => some (arpaOp args showAddr ipFromReversedAddr)
  | "C04.torev" => some (bytesOp args fun ip =>
      match ipToReversedAddr ip with
      | .ok (some s) => s!"ok:{hexEncode s}"
      | .ok none => "err"
      | .error p => showPanic p)
  | "C04.v4rev" => some (bytesOp args fun s => showE showAddr (ipv4FromReversed s))
  | "C04.v6rev" => some (bytesOp args fun s => showR showAddr (ipv6FromReversed s))
  | "C05.prefix" => some (arpaOp args showPrefix prefixFromReversedAddr)
  | "C05.extract" => some (arpaOp args showPrefix extractReversedAddr)
  | "C05.subv4" => some (bytesOp args fun s => showR showPrefix (subnetFromReversedV4 s))
  | "C05.subv6" => some (bytesOp args fun s => showR showPrefix (subnetFromReversedV6 s))
  | "C05.v4net" => some (bytesOp args fun s => showR showPrefix (ipv4NetFromReversed s))
  | "C05.v6net" => some (bytesOp args fun s => showR showPrefix (ipv6NetFromReversed s))
  | "C05.idxv4" => some (bytesOp args fun s => showGoInt (indexFirstV4Label s))
  | "C05.idxv6" => some (bytesOp args fun s => showGoInt (indexFirstV6Label s))
  | _ => none

end GolibsVerif.Driver.C04
