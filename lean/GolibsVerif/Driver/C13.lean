import GolibsVerif.Driver.Util
import GolibsVerif.Model.C13
import GolibsVerif.Spec.C13
import GolibsVerif.Go.Unicode

/-!
Line protocol of C13 (byte strings in hex, `-` = empty; runes in hex without prefix):

* `C13.cf <s> <sub> <orbits>`      `ContainsFold(s, sub)` with `fold := Unicode.simpleFold`, the model
  of `unicode.SimpleFold` (`Go/Unicode.lean`) — the function the `…_unicode` theorems are about.
  `<orbits>` is the oracle field: the real `unicode.SimpleFold` cycles of every rune that can
  be decoded at any byte offset of `s` or `sub`, plus U+FFFD, as `a:b:c,d,e:f` (`a→b→c→a`,
  `d→d`, …).  The field must cover those runes (`ORACLE-MISS` otherwise) and the model must
  agree with it entry by entry (`ORACLE-DISAGREES` otherwise).
* `C13.st <s> <sep>`               `SplitTrimmed(s, sep)` → `nonnil[p,q,…]` / `nil[]`
* `C13.std.dec <s>`                `DecodeRuneInString`, `DecodeLastRuneInString`
* `C13.std.runes <s>`              `range s`, `utf8.ValidString`, absence of U+FFFD
* `C13.std.ef <s> <t> <orbits>`    `strings.EqualFold`
* `C13.std.idx <s> <r:r:…>`        `strings.IndexFunc(s, r ∈ set)`
* `C13.std.trim <s>`               `strings.TrimSpace`
* `C13.std.split <s> <sep>`        `strings.Split`
* `C13.std.fold1 <orbits>`         the ASCII clause of FOLD-1 on the shipped table
* `C13.std.simplefold <lo> <hi>`   the model `Unicode.simpleFold` on the runes `[lo, hi)`: the pairs
  `r:f` with `f = SimpleFold(r) ≠ r`, comma-separated (`-` if there are none).  The harness
  generates cases that cover every rune `0 … MaxRune` and values above, on every run.
-/

namespace GolibsVerif.Driver.C13
open GolibsVerif GolibsVerif.C13 GolibsVerif.Driver

def hexNat? (s : String) : Option Nat :=
  if s.isEmpty then none else
  s.toList.foldl (fun acc c => do
    let a ← acc
    let d ← hexDigitVal c
    pure (a * 16 + d)) (some 0)

def hexNat (n : Nat) : String := String.ofList (Nat.toDigits 16 n)

/-- successor table of a cycle `a:b:c` -/
def cycleTable (c : List Nat) : List (Nat × Nat) :=
  match c with
  | [] => []
  | a :: _ => c.zip (c.drop 1 ++ [a])

def parseRunes (s : String) : Option (List Nat) :=
  if s = "-" then some [] else allSome ((s.splitOn ":").map hexNat?)

def parseOrbits (s : String) : Option (List (Nat × Nat)) :=
  if s = "-" then some [] else
  (allSome ((s.splitOn ",").map parseRunes)).map fun cs => cs.flatMap cycleTable

/-- a value no rune has: the answer of the table outside its domain -/
def missRune : Nat := 0xFFFFFFFF

def tableFold (tbl : List (Nat × Nat)) (r : Nat) : Nat :=
  match tbl.lookup r with
  | some x => x
  | none => missRune

/-- every rune `DecodeRuneInString` can return at some byte offset of `s` -/
def runesAtOffsets (s : Bytes) : List Nat :=
  (List.range s.length).map fun i => (decodeRune (s.drop i)).1

def covered (tbl : List (Nat × Nat)) (ss : List Bytes) : Bool :=
  (RuneError :: ss.flatMap runesAtOffsets).all fun r => (tbl.lookup r).isSome

/-- the model of `unicode.SimpleFold` agrees with the oracle table on every entry -/
def agrees (tbl : List (Nat × Nat)) : Bool := tbl.all fun e => Unicode.simpleFold e.1 == e.2

def showGoMBool : GoM Bool → String
  | .ok b => showBool b
  | .error e => showPanic e

def showList (xs : List Bytes) : String := "[" ++ joinWith "," (xs.map hexEncode) ++ "]"

def showSlice (x : StrSlice) : String := (if x.isNil then "nil" else "nonnil") ++ showList x.elems

def cf (args : List String) : String :=
  match args with
  | [s, sub, orb] =>
    match hexDecode s, hexDecode sub, parseOrbits orb with
    | some s, some sub, some tbl =>
      if !covered tbl [s, sub] then "ORACLE-MISS"
      else if !agrees tbl then "ORACLE-DISAGREES"
      else showGoMBool (containsFold Unicode.simpleFold s sub)
    | _, _, _ => "bad-op"
  | _ => "bad-op"

def st (args : List String) : String :=
  match args with
  | [s, sep] =>
    match hexDecode s, hexDecode sep with
    | some s, some sep =>
      match splitTrimmed trimSpace split s sep with
      | .ok r => showSlice r
      | .error e => showPanic e
    | _, _ => "bad-op"
  | _ => "bad-op"

def stdDec (args : List String) : String :=
  match args.map hexDecode with
  | [some s] =>
    let d := decodeRune s
    let l := decodeLastRune s
    s!"{hexNat d.1}/{d.2};{hexNat l.1}/{l.2}"
  | _ => "bad-op"

def stdRunes (args : List String) : String :=
  match args.map hexDecode with
  | [some s] =>
    joinWith ":" ((runes s).map hexNat) ++ s!";valid={showBool (validUtf8 s)};nofffd={showBool (noFFFD s)}"
  | _ => "bad-op"

def stdEf (args : List String) : String :=
  match args with
  | [s, t, orb] =>
    match hexDecode s, hexDecode t, parseOrbits orb with
    | some s, some t, some tbl =>
      if !covered tbl [s, t] then "ORACLE-MISS"
      else if !agrees tbl then "ORACLE-DISAGREES"
      else showBool (equalFold Unicode.simpleFold s t)
    | _, _, _ => "bad-op"
  | _ => "bad-op"

def stdIdx (args : List String) : String :=
  match args with
  | [s, rs] =>
    match hexDecode s, parseRunes rs with
    | some s, some rs => showInt (indexFunc (fun r => rs.contains r) s)
    | _, _ => "bad-op"
  | _ => "bad-op"

def stdTrim (args : List String) : String :=
  match args.map hexDecode with
  | [some s] => hexEncode (trimSpace s)
  | _ => "bad-op"

def stdSplit (args : List String) : String :=
  match args.map hexDecode with
  | [some s, some sep] => "nonnil" ++ showList (split s sep)
  | _ => "bad-op"

def stdFold1 (args : List String) : String :=
  match args with
  | [orb] =>
    match parseOrbits orb with
    | some tbl =>
      let fold := tableFold tbl
      let bad := (List.range 128).flatMap fun a => (List.range 128).filterMap fun b =>
        if orbitMem fold a b = (lowerASCII a == lowerASCII b) then none else some s!"{a}/{b}"
      let fffd := decide (fold RuneError = RuneError)
      if bad.isEmpty && fffd then "fold1-ok" else s!"fold1-bad({joinWith "," (bad.take 4)};fffd={showBool fffd})"
    | none => "bad-op"
  | _ => "bad-op"

/-- at most this many runes per `C13.std.simplefold` case -/
def simpleFoldMaxSpan : Nat := 0x10000

def stdSimpleFold (args : List String) : String :=
  match args.map hexNat? with
  | [some lo, some hi] =>
    if hi < lo || hi - lo > simpleFoldMaxSpan then "bad-op" else
    let moved := (List.range' lo (hi - lo)).filterMap fun r =>
      let f := Unicode.simpleFold r
      if f = r then none else some (hexNat r ++ ":" ++ hexNat f)
    if moved.isEmpty then "-" else joinWith "," moved
  | _ => "bad-op"

def handle (op : String) (args : List String) : Option String :=
  match op with
  | "C13.cf" => some (cf args)
  | "C13.st" => some (st args)
  | "C13.std.dec" => some (stdDec args)
  | "C13.std.runes" => some (stdRunes args)
  | "C13.std.ef" => some (stdEf args)
  | "C13.std.idx" => some (stdIdx args)
  | "C13.std.trim" => some (stdTrim args)
  | "C13.std.split" => some (stdSplit args)
  | "C13.std.fold1" => some (stdFold1 args)
  | "C13.std.simplefold" => some (stdSimpleFold args)
  | _ => none

end GolibsVerif.Driver.C13
