/-
Driver for the op `std.idna <name-hex> <table>`: runs the model `Idna.process` of
`idna.ToASCII` (`Go/Idna.lean`) with the punycode functions read from the oracle table of the
case (see `harness/c03idna.go`):

  table = "-" | entry{","entry};  entry = ("d"|"e") ":" <in-hex> "=" (<out-hex> | "!")

`d:x=u` is `decode(x) = (u, nil)`, `d:x=!` a failing `decode`; `e:x=a` is
`encode("xn--", x) = (a, nil)`, `e:x=!` a failing `encode`.  A punycode value the model asks
for and the table lacks is answered by a marker string that can never equal the real output.

Answer: `ok:<hex>` / `err:<hex>` — the string Go returns and whether `err != nil`.
-/
import GolibsVerif.Driver.Util
import GolibsVerif.Go.Idna

namespace GolibsVerif.Driver.C03Idna
open GolibsVerif GolibsVerif.Driver

structure Entry where
  kind : String
  input : Bytes
  output : Option Bytes

/-- hex with the empty token standing for the empty string -/
def hex0 (s : String) : Option Bytes := if s = "" then some [] else hexDecode s

def parseEntry (e : String) : Option Entry :=
  match e.splitOn ":" with
  | [k, rest] =>
    match rest.splitOn "=" with
    | [i, o] =>
      match hex0 i with
      | some inp =>
        if o = "!" then some ⟨k, inp, none⟩
        else match hex0 o with
          | some out => some ⟨k, inp, some out⟩
          | none => none
      | none => none
    | _ => none
  | _ => none

def parseTable (t : String) : Option (List Entry) :=
  if t = "-" then some [] else allSome ((t.splitOn ",").map parseEntry)

def lookup (tbl : List Entry) (kind : String) (missing : String) (x : Bytes) : Option Bytes :=
  match tbl.find? (fun e => e.kind = kind ∧ e.input = x) with
  | some e => e.output
  | none => some (ascii missing)

def hex1 (b : Bytes) : String := hexEncode b

def handle (op : String) (args : List String) : Option String :=
  match op with
  | "std.idna" =>
    match args with
    | [n, t] =>
      match hexDecode n, parseTable t with
      | some name, some tbl =>
        match Idna.process (lookup tbl "e" "<no-encode-entry>") (lookup tbl "d" "<no-decode-entry>") name with
        | .ok (s, false) => some ("ok:" ++ hex1 s)
        | .ok (s, true) => some ("err:" ++ hex1 s)
        | .error p => some (showPanic p)
      | _, _ => some "bad-op"
    | _ => some "bad-op"
  | _ => none

end GolibsVerif.Driver.C03Idna
