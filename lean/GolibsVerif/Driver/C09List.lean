import GolibsVerif.Driver.Util
import GolibsVerif.Model.C09List

/-!
Driver for the pointer-level list tie of C09.  Case line:

  `C09.list <script>`      `script := op (';' op)*`

  `I` | `N<i>` | `A<i>` | `U<i>` | `M<i>` | `P` | `a<i>,<j>` | `L<i>,<j>`   (see `harness/c09list.go`)

Slot 0 is the sentinel `&c.usage` of a `cache` object at address 4096; the k-th item created
lives at address `8192 + 64·k`, its list node is its `used` field (`usedOf`).  Output, per
op: `F<ids>/B<ids>` — `walkNext` / `walkPrev` from the sentinel with `nobj + 2` steps, every
node named by the number of the item that `itemOf` (`structPtr`) finds for it, ended by `.`
(sentinel), `~` (nil), `*` (step bound); `P` prefixes `<first>=`; a panic ends the output
with `PANIC(nil)`.
-/

namespace GolibsVerif.Driver.C09List
open GolibsVerif GolibsVerif.C09.LL GolibsVerif.Driver

def cacheAddr : Ptr := 4096
def sent : Ptr := fieldPtr cacheAddr usageOff
def itemBase : Ptr := 8192
def nodeAddr (k : Nat) : Ptr := usedOf (itemBase + 64 * k)

/-- the number of the object at node address `a` (through `structPtr`) -/
def idOf (a : Ptr) : Nat := if a = sent then 0 else (itemOf a - itemBase) / 64

structure LS where
  heap : Heap
  slots : List (Nat × Ptr)
  nobj : Nat

def LS.slot (st : LS) (i : Nat) : Option Ptr :=
  if i = 0 then some sent else (st.slots.find? (·.1 = i)).map (·.2)

inductive Cmd where
  | init | new (i : Nat) | app (i : Nat) | unl (i : Nat) | mov (i : Nat) | pop
  | appAfter (i j : Nat) | link (i j : Nat)

def parseCmd (t : String) : Option Cmd :=
  match t.toList with
  | ['I'] => some .init
  | ['P'] => some .pop
  | c :: rest =>
    let arg := String.ofList rest
    match c with
    | 'N' => arg.toNat?.bind fun i => if i = 0 then none else some (.new i)
    | 'A' => arg.toNat?.map .app
    | 'U' => arg.toNat?.map .unl
    | 'M' => arg.toNat?.map .mov
    | 'a' | 'L' =>
      match arg.splitOn "," with
      | [x, y] =>
        match x.toNat?, y.toNat? with
        | some i, some j => some (if c = 'a' then .appAfter i j else .link i j)
        | _, _ => none
      | _ => none
    | _ => none
  | [] => none

/-- one op on the model: the new state and the `P` prefix -/
def exec (st : LS) : Cmd → GoM (LS × String)
  | .init => do
    let h ← listInit (some sent) st.heap
    pure ({ st with heap := h }, "")
  | .new i =>
    let k := st.nobj + 1
    pure ({ heap := st.heap.alloc (nodeAddr k), slots := (i, nodeAddr k) :: st.slots, nobj := k }, "")
  | .app i => do
    let last ← listLast (some sent) st.heap
    let h ← listAppend (st.slot i) last st.heap
    pure ({ st with heap := h }, "")
  | .unl i => do
    let h ← listUnlink (st.slot i) st.heap
    pure ({ st with heap := h }, "")
  | .mov i => do
    let h ← listUnlink (st.slot i) st.heap
    let last ← listLast (some sent) h
    let h ← listAppend (st.slot i) last h
    pure ({ st with heap := h }, "")
  | .pop => do
    let (first, h) ← popFront sent st.heap
    pure ({ st with heap := h }, (match first with | some a => toString (idOf a) | none => "-1") ++ "=")
  | .appAfter i j => do
    let h ← listAppend (st.slot i) (st.slot j) st.heap
    pure ({ st with heap := h }, "")
  | .link i j => do
    let h ← listLink2 (st.slot i) (st.slot j) st.heap
    pure ({ st with heap := h }, "")

def showEnd : WalkEnd → String
  | .sentinel => "."
  | .nil => "~"
  | .fuel => "*"
  | .wild => "?"

def showWalk (r : List Ptr × WalkEnd) : String :=
  joinWith "," (r.1.map fun a => toString (idOf a)) ++ showEnd r.2

def obs (st : LS) : String :=
  let fuel := st.nobj + 2
  "F" ++ showWalk (walkNext st.heap sent fuel (st.heap.nx sent)) ++
  "/B" ++ showWalk (walkPrev st.heap sent fuel (st.heap.pv sent))

def runCmds : List Cmd → LS → List String → List String
  | [], _, acc => acc.reverse
  | c :: rest, st, acc =>
    match exec st c with
    | .ok (st', pre) => runCmds rest st' ((pre ++ obs st') :: acc)
    | .error p => (showPanic p :: acc).reverse

def run (args : List String) : String :=
  match args with
  | [script] =>
    match allSome ((script.splitOn ";").map parseCmd) with
    | some cmds =>
      joinWith ";" (runCmds cmds { heap := Heap.empty.alloc sent, slots := [], nobj := 0 } [])
    | none => "bad-op"
  | _ => "bad-op"

def handle (op : String) (args : List String) : Option String :=
  match op with
  | "C09.list" => some (run args)
  | _ => none

end GolibsVerif.Driver.C09List
