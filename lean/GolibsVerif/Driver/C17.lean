import GolibsVerif.Driver.Util
import GolibsVerif.Model.C17

/-!
Driver for C17.  Case lines:

* `C17.once <seqs> <slow> <seed>` — goroutine `g` calls `Get` on the keys of its `.`-separated
  sequence, one after the other (`seqs` is `,`-separated); constructors of the keys in `slow`
  (`,`-separated or `-`) do not return until every call that does not depend on a slow key has
  returned.  The transition system is run under a pseudo-random scheduler seeded by `seed`;
  the printed summary is schedule independent (theorems `once_inv`, `once_exactly_once`,
  `once_blocked_only_by_own_key`).
* `C17.sema <cap> <mode> <n> <rounds> <seed>` — scripted use of a semaphore, see `programs`.
* `C17.handoff` — capacity 0: a parked `Acquire` completed by a concurrent `Release`.
* `C17.hist.once <events>` / `C17.hist.sema <cap> <events>` — a history recorded from the
  real code, checked by the acceptors.
-/
namespace GolibsVerif.Driver.C17
open GolibsVerif GolibsVerif.C17 GolibsVerif.Driver

def lcg (x : Nat) : Nat := (x * 6364136223846793005 + 1442695040888963407) % 18446744073709551616

def pickIdx (x n : Nat) : Nat := (x / 8589934592) % n

/-! ### OnceConstructor scenarios -/

structure Call where
  tid : Nat
  g : Nat
  idx : Nat
  key : Nat
  free : Bool   -- no slow key among this and the earlier calls of the goroutine

def mkCalls (seqs : List (List Nat)) (slow : List Nat) : List Call :=
  let rec goSeq (g idx tid : Nat) (free : Bool) : List Nat → List Call
    | [] => []
    | k :: ks =>
      let fr := free && !slow.contains k
      { tid := tid, g := g, idx := idx, key := k, free := fr } :: goSeq g (idx + 1) (tid + 1) fr ks
  let rec goAll (g tid : Nat) : List (List Nat) → List Call
    | [] => []
    | sq :: rest => goSeq g 0 tid true sq ++ goAll (g + 1) (tid + sq.length) rest
  goAll 0 0 seqs

def isDone (s : OState Nat Nat) (t : Nat) : Bool :=
  match s.pc t with
  | .done .. => true
  | _ => false

/-- the input thread `c.tid` would take next, if it is eligible -/
def candidate (s : OState Nat Nat) (slow : List Nat) (gated : Bool) (c : Call) : Option (In Nat Nat) :=
  match s.pc c.tid with
  | .idle => if c.idx = 0 || isDone s (c.tid - 1) then some (.call c.key) else none
  | .inCtor k _ =>
    if gated && slow.contains k then none else some (.ctorRet (1000 * k + s.ctorCalls k))
  | .done .. => none
  | .panicked _ => none
  | _ => some .tau

def enabledSteps (s : OState Nat Nat) (slow : List Nat) (gated : Bool) (calls : List Call) :
    List (Nat × In Nat Nat) :=
  calls.filterMap fun c =>
    match candidate s slow gated c with
    | some i => if (next s c.tid i).isSome then some (c.tid, i) else none
    | none => none

def runSched (slow : List Nat) (gated : Bool) (calls : List Call) :
    Nat → Nat → OState Nat Nat → OState Nat Nat × Nat
  | 0, x, s => (s, x)
  | fuel + 1, x, s =>
    match enabledSteps s slow gated calls with
    | [] => (s, x)
    | en =>
      let x' := lcg x
      match en[pickIdx x' en.length]? with
      | some (t, i) =>
        match next s t i with
        | some (s', _) => runSched slow gated calls fuel x' s'
        | none => (s, x')
      | none => (s, x')

def allEq : List (Option Nat) → Bool
  | [] => true
  | r :: rs => r.isSome && rs.all (· == r)

def once (args : List String) : String :=
  match args with
  | [seqsS, slowS, seedS] =>
    let seqs? := allSome ((seqsS.splitOn ",").map fun sq => allSome ((sq.splitOn ".").map (·.toNat?)))
    let slow? := if slowS = "-" then some [] else allSome ((slowS.splitOn ",").map (·.toNat?))
    match seqs?, slow?, seedS.toNat? with
    | some seqs, some slow, some seed =>
      let calls := mkCalls seqs slow
      let total := calls.length
      let nkeys := (calls.foldl (fun m c => max m (c.key + 1)) 0)
      let fuel := 16 * total + 16
      let (s1, x1) := runSched slow true calls fuel (seed + 1) OState.init
      let noblock := calls.all fun c => !c.free || isDone s1 c.tid
      let (s2, _) := runSched slow false calls fuel x1 s1
      let ctor := (List.range nkeys).map fun k => toString (s2.ctorCalls k)
      let same := (List.range nkeys).all fun k =>
        allEq (calls.filterMap fun c =>
          if c.key = k then (match s2.pc c.tid with | .done _ r => some r | _ => none) else none)
      let done := (calls.filter fun c => isDone s2 c.tid).length
      let panicked := calls.any fun c => match s2.pc c.tid with | .panicked _ => true | _ => false
      s!"ctor={joinWith "," ctor} same={if same then 1 else 0} done={done}/{total} noblock={if noblock then 1 else 0} panic={if panicked then 1 else 0}"
    | _, _, _ => "bad-op"
  | _ => "bad-op"

/-! ### Semaphore scenarios -/

inductive SOp where
  | acq (ctx : Nat)   -- `Acquire(ctx)`, remember whether it succeeded
  | relIfHeld         -- `Release()` if the last `Acquire` succeeded
  | rel               -- `Release()` unconditionally
  | cancel (ctx : Nat)
  | waitStart         -- worker: wait until main has finished its set-up (fill, early cancel)
  | waitParked        -- main: wait until every worker has entered its `Acquire` (or finished)
  | waitDone          -- main: wait until every worker has finished
  | waitOk (k : Nat)  -- main: wait until `k` calls of `Acquire` have succeeded

structure SThread where
  ops : List SOp
  issued : Bool := false
  held : Bool := false

structure SRun where
  s : SState
  ths : Array SThread
  ok : Nat := 0
  err : Nat := 0
  bgok : Nat := 0
  bound : Bool := true
  errdone : Bool := true

/-- thread programs of a scenario: workers `0 … n-1`, main is thread `n`; context 0 is never
cancelled, context 1 is the cancellable one -/
def programs (cap : Nat) (mode : String) (n rounds : Nat) : Option (Array SThread) :=
  let rep (k : Nat) (ops : List SOp) : List SOp := (List.replicate k ops).flatten
  let workers (f : Nat → List SOp) : Array SThread := (Array.range n).map fun i => { ops := f i }
  match mode with
  | "plain" => some ((workers fun _ => rep rounds [.acq 0, .relIfHeld]).push { ops := [] })
  | "fullpre" =>
    some ((workers fun _ => .waitStart :: rep rounds [.acq 1, .relIfHeld]).push
      { ops := rep cap [.acq 0] ++ [.cancel 1, .waitDone] ++ rep cap [.rel] })
  | "fulllate" =>
    some ((workers fun _ => [.waitStart, .acq 1, .relIfHeld]).push
      { ops := rep cap [.acq 0] ++ [.waitParked, .cancel 1, .waitDone] ++ rep cap [.rel] })
  | "freepre" =>
    some ((workers fun _ => .waitStart :: rep rounds [.acq 1, .relIfHeld]).push
      { ops := [.cancel 1, .waitDone] })
  | "mixed" =>
    some ((workers fun i => rep rounds [.acq (i % 2), .relIfHeld]).push { ops := [.cancel 1] })
  | "xrel" =>
    some ((workers fun _ => .waitStart :: rep rounds [.rel]).push
      { ops := rep cap [.acq 0] ++ [.waitDone] })
  | "lastslot" =>
    -- racers for the last free slot; the winner keeps it, then the context is cancelled
    some ((workers fun _ => [.waitStart, .acq 1]).push
      { ops := rep (cap - 1) [.acq 0] ++ [.waitOk cap, .cancel 1, .waitDone] ++ rep cap [.rel] })
  | "ownctx" =>
    -- a context per waiter (2 + i); all parked on a full semaphore, cancelled one by one,
    -- the latest arrival first
    some ((workers fun i => [.waitStart, .acq (i + 2), .relIfHeld]).push
      { ops := rep cap [.acq 0] ++ [.waitParked] ++ ((List.range n).reverse.map fun i => SOp.cancel (i + 2))
                ++ [.waitDone] ++ rep cap [.rel] })
  | "idlerel" =>
    some ((workers fun _ => []).push
      { ops := rep rounds [.rel] ++ rep cap [.acq 0] ++ [.cancel 1, .acq 1] ++ rep cap [.rel] })
  | _ => none

def mainSetUp (r : SRun) (n : Nat) : Bool :=
  match r.ths[n]? with
  | some th => match th.ops with
    | .acq _ :: _ => false
    | .cancel _ :: _ => false
    | _ => true
  | none => true

def workersParked (r : SRun) (n : Nat) : Bool :=
  (List.range n).all fun i => match r.ths[i]? with
    | some th => th.issued || th.ops.isEmpty
    | none => true

def workersDone (r : SRun) (n : Nat) : Bool :=
  (List.range n).all fun i => match r.ths[i]? with
    | some th => th.ops.isEmpty
    | none => true

inductive SAct where
  | lab (i : Nat) (l : SLabel)
  | skip (i : Nat)

def actionsOf (r : SRun) (n i : Nat) (th : SThread) : List SAct :=
  match th.ops with
  | [] => []
  | .acq ctx :: _ =>
    if !th.issued then [.lab i (.acquire i ctx)]
    else
      (if (snext r.s (.acqOk i)).isSome then [SAct.lab i (.acqOk i)] else []) ++
      (if (snext r.s (.acqErr i)).isSome then [SAct.lab i (.acqErr i)] else [])
  | .relIfHeld :: _ => if th.held then [.lab i (.release i)] else [.skip i]
  | .rel :: _ => [.lab i (.release i)]
  | .cancel ctx :: _ => [.lab i (.cancel ctx)]
  | .waitStart :: _ => if mainSetUp r n then [.skip i] else []
  | .waitParked :: _ => if workersParked r n then [.skip i] else []
  | .waitDone :: _ => if workersDone r n then [.skip i] else []
  | .waitOk k :: _ => if r.ok ≥ k then [.skip i] else []

def applyAct (r : SRun) : SAct → SRun
  | .skip i =>
    match r.ths[i]? with
    | some th => { r with ths := r.ths.set! i { th with ops := th.ops.drop 1 } }
    | none => r
  | .lab i l =>
    match r.ths[i]?, snext r.s l with
    | some th, some s' =>
      let r := { r with s := s', bound := r.bound && decide (s'.c ≤ s'.cap) }
      match l, th.ops with
      | .acquire _ _, _ => { r with ths := r.ths.set! i { th with issued := true } }
      | .acqOk _, .acq ctx :: rest =>
        { r with ths := r.ths.set! i { ops := rest, issued := false, held := true },
                 ok := r.ok + 1, bgok := r.bgok + (if ctx = 0 then 1 else 0) }
      | .acqErr _, .acq ctx :: rest =>
        { r with ths := r.ths.set! i { ops := rest, issued := false, held := false },
                 err := r.err + 1, errdone := r.errdone && r.s.done ctx }
      | _, _ :: rest => { r with ths := r.ths.set! i { th with ops := rest, held := false } }
      | _, [] => r
    | _, _ => r

def runSema (n : Nat) : Nat → Nat → SRun → SRun
  | 0, _, r => r
  | fuel + 1, x, r =>
    let acts := (List.range r.ths.size).flatMap fun i =>
      match r.ths[i]? with
      | some th => actionsOf r n i th
      | none => []
    match acts with
    | [] => r
    | _ =>
      let x' := lcg x
      match acts[pickIdx x' acts.length]? with
      | some a => runSema n fuel x' (applyAct r a)
      | none => r

def sema (args : List String) : String :=
  match args with
  | [capS, mode, nS, roundsS, seedS] =>
    match capS.toNat?, nS.toNat?, roundsS.toNat?, seedS.toNat? with
    | some cap, some n, some rounds, some seed =>
      match programs cap mode n rounds with
      | some ths =>
        let fuel := 8 * (n + 1) * (rounds + cap + 4) + 64
        let r := runSema n fuel (seed + 1) { s := SState.init cap, ths := ths }
        let stuck := r.ths.any fun th => !th.ops.isEmpty
        let det := mode != "freepre" && mode != "mixed"
        let okS := if det then toString r.ok else "*"
        let errS := if det then toString r.err else "*"
        s!"ok={okS} err={errS} bgok={r.bgok} total={r.ok + r.err} bound={if r.bound then 1 else 0} errdone={if r.errdone then 1 else 0} stuck={if stuck then 1 else 0}"
      | none => "bad-op"
    | _, _, _, _ => "bad-op"
  | _ => "bad-op"

def handoff : String :=
  if acceptsSema 0 [.acquire 0 0, .handoff 1 0] && !acceptsSema 0 [.acquire 0 0, .acqOk 0] then "handoff=ok"
  else "handoff=impossible"

/-! ### Histories -/

def parseOnceEv (tok : String) : Option (Ev Nat Nat) :=
  let body := (tok.drop 1).toString
  let parts := body.splitOn ":"
  match (tok.take 1).toString, parts with
  | "C", [t, k] => do pure (.call (← t.toNat?) (← k.toNat?))
  | "S", [k] => do pure (.ctorStart (← k.toNat?))
  | "E", [k, v] => do pure (.ctorEnd (← k.toNat?) (← v.toNat?))
  | "R", [t, k, v] =>
    if v = "-" then do pure (.ret (← t.toNat?) (← k.toNat?) none)
    else do pure (.ret (← t.toNat?) (← k.toNat?) (some (← v.toNat?)))
  | _, _ => none

def histOnce (args : List String) : String :=
  match args with
  | [evS] =>
    match allSome ((if evS = "-" then [] else evS.splitOn ",").map parseOnceEv) with
    | some evs =>
      match firstRejected (MState.init : MState Nat Nat) 0 evs with
      | none => if acceptsOnce evs then "accept" else "reject"
      | some i => s!"reject@{i}"
    | none => "bad-op"
  | _ => "bad-op"

def parseSemaEv (tok : String) : Option SLabel :=
  let body := (tok.drop 1).toString
  let parts := body.splitOn ":"
  match (tok.take 1).toString, parts with
  | "A", [t, c] => do pure (.acquire (← t.toNat?) (← c.toNat?))
  | "O", [t] => do pure (.acqOk (← t.toNat?))
  | "X", [t] => do pure (.acqErr (← t.toNat?))
  | "L", [t] => do pure (.release (← t.toNat?))
  | "N", [c] => do pure (.cancel (← c.toNat?))
  | _, _ => none

def histSema (args : List String) : String :=
  match args with
  | [capS, evS] =>
    match capS.toNat?, allSome ((if evS = "-" then [] else evS.splitOn ",").map parseSemaEv) with
    | some cap, some evs =>
      match sfirstRejected (SState.init cap) 0 evs with
      | none => if acceptsSemaD cap evs then "accept" else "reject"
      | some i => s!"reject@{i}"
    | _, _ => "bad-op"
  | _ => "bad-op"

def handle (op : String) (args : List String) : Option String :=
  match op with
  | "C17.once" => some (once args)
  | "C17.sema" => some (sema args)
  | "C17.handoff" => some handoff
  | "C17.hist.once" => some (histOnce args)
  | "C17.hist.sema" => some (histSema args)
  | _ => none

end GolibsVerif.Driver.C17
