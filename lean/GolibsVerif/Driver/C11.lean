import GolibsVerif.Driver.Util
import GolibsVerif.Spec.C11
import GolibsVerif.Go.Sort

/-!
Line protocol of C11 (see `harness/c11.go` for the grammar):

  C11.ring <cap|nil|zero> <op>,…      ops: p<int> c u l r<k> v<k>
  C11.sss  <op>,…                     three registers 0..2 (initially nil) holding *SortedSliceSet[int]
  C11.sssf <op>,…                     the same on *SortedSliceSet[float64]; values nan, -inf, inf, <int>
  C11.ms   <op>,…                     the same on *MapSet[int]
      set ops: <r>n<v;v;…> <r>z <r>a<v> <r>d<v> <r>h<v> <r>l <r>v <r>r<k> <r>x <r>k<j> <r>e<j> <r>q
  C11.std.sort <v>,<v>,…              the model of `slices.Sort` (`Go/Sort.lean`) on []int
  C11.std.bsearch <target> <v>,<v>,…  the model of `slices.BinarySearch` on []int (sorted or not)

Values travel as decimal integers; `nan < -inf < every int < inf` is the order `cmp.Compare`
puts on float64, so the float family runs on the `Int` model through the order embedding
below.
-/

namespace GolibsVerif.Driver.C11
open GolibsVerif GolibsVerif.C11 GolibsVerif.Driver

def nanKey : Int := -2000000000
def negInfKey : Int := -1000000000
def posInfKey : Int := 1000000000

def parseVal (s : String) : Option Int :=
  if s = "nan" then some nanKey
  else if s = "-inf" then some negInfKey
  else if s = "inf" then some posInfKey
  else parseInt? s

def showVal (i : Int) : String :=
  if i = nanKey then "nan" else if i = negInfKey then "-inf" else if i = posInfKey then "inf" else toString i

def showList (l : List Int) : String := "[" ++ joinWith ";" (l.map showVal) ++ "]"

def splitOps (s : String) : List String := if s = "-" then [] else s.splitOn ","

/-- first character and the rest -/
def uncons (s : String) : Option (Char × String) :=
  match s.toList with
  | [] => none
  | c :: rest => some (c, String.ofList rest)

/-! ### ring -/

abbrev CbSt := Nat × List Int

def parseRingOp (tok : String) : Option (ROp CbSt Int) := do
  let (c, rest) ← uncons tok
  match c with
  | 'p' => (parseVal rest).map .push
  | 'c' => if rest = "" then some .clear else none
  | 'u' => if rest = "" then some .current else none
  | 'l' => if rest = "" then some .len else none
  | 'r' => rest.toNat?.map fun k => .range (stopAt k) (0, [])
  | 'v' => rest.toNat?.map fun k => .reverseRange (stopAt k) (0, [])
  | _ => none

def showROut : GoM (ROut CbSt Int) → String
  | .error p => showPanic p
  | .ok .unit => "_"
  | .ok (.val e) => showVal e
  | .ok (.len n) => toString n
  | .ok (.st (_, acc)) => showList acc

def parseRecv (s : String) : Option (Option (Ring Int)) :=
  if s = "nil" then some none
  else if s = "zero" then some (some { buf := [], cur := 0, full := false })   -- `&RingBuffer[int]{}`
  else s.toNat?.map fun n => some (Ring.new 0 n)

def ring (args : List String) : String :=
  match args with
  | [recv, ops] =>
    match parseRecv recv, allSome ((splitOps ops).map parseRingOp) with
    | some rb, some ops => joinWith "," ((Ring.run 0 rb ops).2.map showROut)
    | _, _ => "bad-op"
  | _ => "bad-op"

/-! ### sets -/

structure Regs (α : Type) where
  r0 : Option α
  r1 : Option α
  r2 : Option α

def Regs.get {α} (r : Regs α) : Nat → Option α
  | 0 => r.r0
  | 1 => r.r1
  | _ => r.r2

def Regs.set {α} (r : Regs α) (i : Nat) (v : Option α) : Regs α :=
  match i with
  | 0 => { r with r0 := v }
  | 1 => { r with r1 := v }
  | _ => { r with r2 := v }

def parseReg (c : Char) : Option Nat :=
  if c = '0' then some 0 else if c = '1' then some 1 else if c = '2' then some 2 else none

def parseVals (s : String) : Option (List Int) :=
  if s = "" then some [] else allSome ((s.splitOn ";").map parseVal)

/-- the methods of one set type, through possibly nil receivers -/
structure SetApi (α : Type) where
  new : List Int → α
  add : Option α → Int → GoM (Option α)
  delete : Option α → Int → GoM (Option α)
  clear : Option α → Option α
  clone : Option α → Option α
  has : Option α → Int → Bool
  len : Option α → Nat
  values : Option α → Option (List Int)
  range : Option α → Callback CbSt Int → CbSt → CbSt
  equal : Option α → Option α → Bool
  /-- how the arguments passed to the `Range` callback are reported -/
  showRange : CbSt → String
  /-- canonical form of `Values()` -/
  canon : List Int → List Int

def sssApi : SetApi (SSS Int) where
  new := SSS.new
  add := SSS.addP
  delete := SSS.deleteP
  clear := SSS.clearP
  clone := SSS.cloneP
  has := SSS.hasP
  len := SSS.lenP
  values := SSS.valuesP
  range := SSS.rangeP
  equal := SSS.equalP
  showRange := fun (_, acc) => showList acc
  canon := id

def msApi : SetApi (MS Int) where
  new := MS.new
  add := MS.addP
  delete := fun s v => .ok (MS.deleteP s v)
  clear := MS.clearP
  clone := MS.cloneP
  has := MS.hasP
  len := MS.lenP
  values := MS.valuesP
  range := MS.rangeP
  equal := MS.equalP
  showRange := fun (c, _) => s!"#{c}"       -- map iteration order is undefined: count only
  canon := sort                              -- … and `Values()` is sorted before comparison

def mutate {α} (regs : Regs α) (i : Nat) : GoM (Option α) → Regs α × String
  | .ok s => (regs.set i s, "_")
  | .error p => (regs, showPanic p)

def setStep {α} (api : SetApi α) (regs : Regs α) (tok : String) : Option (Regs α × String) := do
  let (rc, rest) ← uncons tok
  let i ← parseReg rc
  let (c, arg) ← uncons rest
  let recv := regs.get i
  match c with
  | 'n' => (parseVals arg).map fun vs => (regs.set i (some (api.new vs)), "_")
  | 'z' => if arg = "" then some (regs.set i none, "_") else none
  | 'a' => (parseVal arg).map fun v => mutate regs i (api.add recv v)
  | 'd' => (parseVal arg).map fun v => mutate regs i (api.delete recv v)
  | 'x' => if arg = "" then some (regs.set i (api.clear recv), "_") else none
  | 'k' => do
    let (jc, r2) ← uncons arg
    let j ← parseReg jc
    if r2 = "" then some (regs.set j (api.clone recv), "_") else none
  | 'h' => (parseVal arg).map fun v => (regs, showBool (api.has recv v))
  | 'l' => if arg = "" then some (regs, toString (api.len recv)) else none
  | 'v' => if arg = "" then some (regs, match api.values recv with
      | none => "nil"
      | some l => showList (api.canon l)) else none
  | 'r' => arg.toNat?.map fun k => (regs, api.showRange (api.range recv (stopAt k) (0, [])))
  | 'e' => do
    let (jc, r2) ← uncons arg
    let j ← parseReg jc
    if r2 = "" then some (regs, showBool (api.equal recv (regs.get j))) else none
  | 'q' => if arg = "" then some (regs, if recv.isSome then "set" else "nil") else none
  | _ => none

def setRun {α} (api : SetApi α) : Regs α → List String → Option (List String)
  | _, [] => some []
  | regs, tok :: rest => do
    let (regs', out) ← setStep api regs tok
    let outs ← setRun api regs' rest
    pure (out :: outs)

def setScript {α} (api : SetApi α) (args : List String) : String :=
  match args with
  | [ops] =>
    match setRun api ⟨none, none, none⟩ (splitOps ops) with
    | some outs => joinWith "," outs
    | none => "bad-op"
  | _ => "bad-op"

def parseIntList (s : String) : Option (List Int) :=
  if s = "-" then some [] else allSome ((s.splitOn ",").map parseInt?)

def stdSort (args : List String) : String :=
  match args with
  | [l] =>
    match parseIntList l with
    | none => "bad-op"
    | some xs =>
      match Slices.sortOrdered (fun a b : Int => decide (a < b)) xs with
      | .error e => showPanic e
      | .ok r => if r.isEmpty then "-" else joinWith "," (r.map toString)
  | _ => "bad-op"

def stdBsearch (args : List String) : String :=
  match args with
  | [t, l] =>
    match parseInt? t, parseIntList l with
    | some tv, some xs =>
      match Slices.binarySearchBy (fun e : Int => decide (e < tv)) (fun e => e == tv) xs with
      | .error e => showPanic e
      | .ok (i, found) => s!"{i}/{showBool found}"
    | _, _ => "bad-op"
  | _ => "bad-op"

def handle (op : String) (args : List String) : Option String :=
  match op with
  | "C11.std.sort" => some (stdSort args)
  | "C11.std.bsearch" => some (stdBsearch args)
  | "C11.ring" => some (ring args)
  | "C11.sss" => some (setScript sssApi args)
  | "C11.sssf" => some (setScript sssApi args)
  | "C11.ms" => some (setScript msApi args)
  | _ => none

end GolibsVerif.Driver.C11
