/-
C20 driver.

  C20.wrap <id><p|b>,…                 middleware list (`p` passes on, `b` answers itself); `-` = none
  C20.mw <P> <mode> <seed> <req>;…      one scenario of concurrent requests through one LogMiddleware
       req = <host>:<method>:<raddr>:<uri>:<rest>:<delay>:<op>.<op>…   (hex fields)
       op  = o | l | h<code> | w<hex> | s<n> | y | R | P

`P`, `mode`, `delay`, `s<n>`, `y` steer the real goroutines only.  The model runs the
scenario under a pseudo-random schedule derived from `seed` (interleaving, which idle
object a pool `Get` returns or whether it allocates, GC of idle objects) and prints, per
request, what that request's invocation observed and what its client received.  By the
theorems of `Theorems/C20.lean` this output does not depend on the schedule.
-/
import GolibsVerif.Driver.Util
import GolibsVerif.Model.C20

namespace GolibsVerif.Driver.C20
open GolibsVerif GolibsVerif.C20 GolibsVerif.Driver

/-! ### middleware order -/

def parseMw (s : String) : Option MwSpec :=
  if s.endsWith "p" then (s.dropEnd 1).toString.toNat?.map fun id => ⟨id, false⟩
  else if s.endsWith "b" then (s.dropEnd 1).toString.toNat?.map fun id => ⟨id, true⟩
  else none

def showEv : Ev Unit → String
  | .enter id _ => s!"e{id}"
  | .exit id _ => s!"x{id}"
  | .handler _ => "h"

def wrapCase (args : List String) : String :=
  match args with
  | [l] =>
    match allSome ((if l = "-" then [] else l.splitOn ",").map parseMw) with
    | some ms =>
      match wrap baseHandler (ms.map (MwSpec.mw (ρ := Unit))) with
      | .ok w => joinWith "," ((w ()).map showEv)
      | .error p => showPanic p
    | none => "bad-op"
  | _ => "bad-op"

/-! ### scenarios -/

structure ReqSpec where
  data : ReqData
  script : List HOp

def parseOp (s : String) : Option (Option HOp) :=
  if s = "o" then some (some .observe)
  else if s = "l" then some (some .log)
  else if s = "R" then some (some .ret)
  else if s = "P" then some (some .panic)
  else if s = "y" then some none
  else if s.startsWith "h" then (s.drop 1).toString.toNat?.map fun c => some (.writeHeader c)
  else if s.startsWith "w" then (hexDecode (s.drop 1).toString).map fun b => some (.write b)
  else if s.startsWith "s" then (s.drop 1).toString.toNat?.map fun _ => none
  else none

def parseReq (s : String) : Option ReqSpec :=
  match s.splitOn ":" with
  | [h, m, ra, u, rest, _delay, ops] => do
    let h ← hexDecode h
    let m ← hexDecode m
    let ra ← hexDecode ra
    let u ← hexDecode u
    let rest ← hexDecode rest
    let ops ← allSome ((ops.splitOn ".").map parseOp)
    pure { data := ⟨h, m, ra, u, rest⟩, script := ops.filterMap id }
  | _ => none

def lcg (x : Nat) : Nat := (x * 6364136223846793005 + 1442695040888963407) % 18446744073709551616
def rnd (x : Nat) (n : Nat) : Nat := if n = 0 then 0 else (x / 8589934592) % n

structure Sched where
  st : St
  scripts : Array (List HOp)  -- what is left of each request's handler script
  rng : Nat
  obs : List Obs              -- reversed
  excl : Bool                 -- no pooled object was ever owned by two requests
  stuck : Bool

/-- The model keeps its state in functions, which grow by one closure per step.  The
driver re-tabulates them after every step (requests `< n`, objects `< fresh`); outside
that range they still have their initial values, so this is the identity extensionally. -/
def compact (n : Nat) (s : St) : St :=
  let th := Array.ofFn (n := n) fun i => s.th i
  let mA := Array.ofFn (n := s.pA.fresh) fun o => s.mA o
  let mQ := Array.ofFn (n := s.pQ.fresh) fun o => s.mQ o
  let mW := Array.ofFn (n := s.pW.fresh) fun o => s.mW o
  { s with th := fun i => th.getD i ⟨.idle, 0, 0, 0, 0⟩,
           mA := fun o => mA.getD o [],
           mQ := fun o => mQ.getD o none,
           mW := fun o => mW.getD o ⟨none, 0⟩ }

def pickObj (p : Pool) (x : Nat) : Obj :=
  if p.free.isEmpty || rnd x 4 = 0 then p.fresh
  else (p.free[rnd (lcg x) p.free.length]?).getD p.fresh

/-- the next action of request `i`, and the rest of its script -/
def nextAct (s : St) (i : Rid) (script : List HOp) (x : Nat) : Act × List HOp :=
  match (s.th i).pc with
  | .idle => (.arrive i, script)
  | .getAttr => (.get i (pickObj s.pA x), script)
  | .getReq => (.get i (pickObj s.pQ x), script)
  | .getRw => (.get i (pickObj s.pW x), script)
  | .serve =>
    match script with
    | [] => (.handler i .ret, [])
    | op :: rest => (.handler i op, rest)
  | _ => (.tick i, script)

/-- request `i` shares none of the objects it owns with another request `< n` -/
def exclFor (n : Nat) (s : St) (i : Rid) : Bool :=
  let ok (own : Rid → Option Obj) : Bool :=
    own i = none || (List.range n).all fun j => j = i || own j ≠ own i
  ok (ownedA s.th) && ok (ownedQ s.th) && ok (ownedW s.th)

def schedLoop (inp : Rid → ReqData) (n : Nat) : Nat → Sched → Sched
  | 0, sc => { sc with stuck := true }
  | fuel + 1, sc =>
    let live := (List.range n).filter fun i => (sc.st.th i).pc ≠ .done
    if live.isEmpty then sc else
    let x := lcg sc.rng
    -- now and then the pools forget an idle object
    let gcAct : Option Act :=
      if rnd x 12 = 0 then
        match rnd (lcg x) 3 with
        | 0 => sc.st.pA.free.head?.map (Act.gc .attr)
        | 1 => sc.st.pQ.free.head?.map (Act.gc .req)
        | _ => sc.st.pW.free.head?.map (Act.gc .rw)
      else none
    match gcAct with
    | some a =>
      match step inp sc.st a with
      | some (s', o) => schedLoop inp n fuel { sc with st := s', rng := lcg (lcg x), obs := o :: sc.obs }
      | none => { sc with stuck := true }
    | none =>
      let i := (live[rnd (lcg x) live.length]?).getD 0
      let (a, rest) := nextAct sc.st i (sc.scripts.getD i []) (lcg (lcg x))
      match step inp sc.st a with
      | some (s', o) =>
        let s' := compact n s'
        schedLoop inp n fuel { st := s', scripts := sc.scripts.setIfInBounds i rest, rng := lcg (lcg (lcg x)),
                               obs := o :: sc.obs, excl := sc.excl && exclFor n s' i, stuck := false }
      | none => { sc with stuck := true }

def showAttrs (la : List Attr) : String :=
  joinWith "/" (la.map fun (k, v) => s!"{k}={hexEncode v}")

def showData : Option ReqData → String
  | none => "nil"
  | some d => joinWith "/" [hexEncode d.host, hexEncode d.method, hexEncode d.raddr, hexEncode d.uri, hexEncode d.rest]

def showCl (i : Rid) (cl : Option Rid) : String :=
  if cl = some i then "" else match cl with | some j => s!">{j}" | none => ">nil"

def evOf (i : Rid) : Obs → Option String
  | .started j la => if j = i then some s!"S({showAttrs la})" else none
  | .seen j d la => if j = i then some s!"O({showData d}|{showAttrs la})" else none
  | .hlog j la => if j = i then some s!"L({showAttrs la})" else none
  | .wroteHeader j cl c => if j = i then some s!"H{c}{showCl i cl}" else none
  | .wrote j cl b => if j = i then some s!"W{hexEncode b}{showCl i cl}" else none
  | .finished j la c => if j = i then some s!"F{c}({showAttrs la})" else none
  | .handlerPanic j => if j = i then some "P" else none
  | .goPanic j => if j = i then some "PANIC(index)" else none
  | .silent => none

/-- `httptest.ResponseRecorder`: the first `WriteHeader` (or the implicit 200 of the first
`Write`) fixes the status; 200 if nothing was written -/
def recorder (ws : List (Nat ⊕ Bytes)) : Nat × Bytes :=
  let (st, body) := ws.foldl (fun (acc : Option Nat × Bytes) w =>
    match w with
    | .inl c => (acc.1.orElse fun _ => some c, acc.2)
    | .inr b => (acc.1.orElse fun _ => some 200, acc.2 ++ b)) (none, [])
  (st.getD 200, body)

/-- modes `d0`, `d1`: the middleware's own level is below the logger's minimum, so its two
records ("started", "finished") are not emitted; nothing else changes -/
def isMwRecord : Obs → Bool
  | .started .. => true
  | .finished .. => true
  | _ => false

def summary (disabled : Bool) (n : Nat) (tr : List Obs) : String :=
  let tr := if disabled then tr.filter (fun o => !isMwRecord o) else tr
  joinWith ";" ((List.range n).map fun i =>
    let (code, body) := recorder (received i tr)
    s!"{joinWith "," (tr.filterMap (evOf i))}|cli={code}/{hexEncode body}")

def mwCase (args : List String) : String :=
  match args with
  | [_p, mode, seed, reqs] =>
    match seed.toNat?, allSome ((reqs.splitOn ";").map parseReq) with
    | some sd, some rs =>
      let inp : Rid → ReqData := fun i => ((rs[i]?).map (·.data)).getD ⟨[], [], [], [], []⟩
      let n := rs.length
      let fuel := rs.foldl (fun acc r => acc + 2 * (r.script.length + 24)) 16
      let sc := schedLoop inp n fuel
        { st := init, scripts := (rs.map (·.script)).toArray, rng := sd, obs := [], excl := true, stuck := false }
      if sc.stuck then "MODEL-STUCK"
      else summary (mode.startsWith "d") n sc.obs.reverse ++ " excl=" ++ (if sc.excl then "ok" else "VIOLATED")
    | _, _ => "bad-op"
  | _ => "bad-op"

def handle (op : String) (args : List String) : Option String :=
  match op with
  | "C20.wrap" => some (wrapCase args)
  | "C20.mw" => some (mwCase args)
  -- real-server op of the harness (direct oracle only): the summary is a constant
  | "C20.server" =>
    match args with
    | [n, _] => some s!"served={n}/{n}"
    | _ => some "bad-op"
  | _ => none

end GolibsVerif.Driver.C20
