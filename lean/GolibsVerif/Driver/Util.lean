/-
Line-protocol helpers shared by the per-property drivers (core Lean only).
A case is one line: `<op> <arg> <arg> …` separated by single spaces; byte strings travel as
lower-case hex, `-` for the empty string.  A driver answers one line per case.
-/
import GolibsVerif.Go.Basic

namespace GolibsVerif.Driver

def splitOn (s : String) (sep : String) : List String := (s.splitOn sep)

def parseInt? (s : String) : Option Int :=
  if s.startsWith "-" then (s.drop 1).toNat?.map fun n => -(n : Int)
  else s.toNat?.map fun n => (n : Int)

def showInt (i : Int) : String := toString i

def joinWith (sep : String) (xs : List String) : String := sep.intercalate xs

def showBool (b : Bool) : String := if b then "true" else "false"

def showPanic : GoPanic → String
  | .indexOutOfRange .. => "PANIC(index)"
  | .sliceOutOfRange .. => "PANIC(slice)"
  | .nilDeref => "PANIC(nil)"
  | .typeAssert => "PANIC(typeassert)"
  | .explicit m => s!"PANIC(explicit:{m})"

/-- sequence a list of options -/
def allSome {α} : List (Option α) → Option (List α)
  | [] => some []
  | none :: _ => none
  | some a :: rest => (allSome rest).map (a :: ·)

end GolibsVerif.Driver
