/-
C08 driver.  Case lines (see `harness/c08.go`):

  C08.parse <hs> <src> <readerr> <stream> <table>
      hs       1 = dst implements HandleSet, 0 = plain Set
      src      name of the NamedReader (hex; `-` = not a NamedReader or empty name)
      readerr  1 = the reader ends with a non-EOF error
      stream   the whole byte stream (hex)
      table    idna.ToASCII answers for every blank-separated token of every comment-stripped line
  C08.store <script> <qaddrs> <qnames> <lower>
      script   `;`-separated steps  A<i>/<addr>/<names>   (storage i ∈ {0,1}; names `_` or `,`-separated hex)
      qaddrs   `,`-separated addresses queried with ByAddr after every step
      qnames   `,`-separated names queried with ByName after every step
      lower    strings.ToLower answers: `;`-separated <hex>/<hex> for every name of the script and of qnames
  std.scanlines <stream>        the tokens of bufio.Scanner/ScanLines
  C08.std.scan <stream> <script> <bufcap>
      the model of bufio.Scanner (Go/Scanner.lean) over a scripted reader; script = `,`-separated
      read results `<n>` = (n, nil), `<n>/e` = (n, io.EOF), `<n>/<id>` = (n, error id), each optionally
      followed by `*<count>`; `_` = empty script; the buffer is `make([]byte, 0, bufcap)` with
      `bufio.MaxScanTokenSize` as in Parse
-/
import GolibsVerif.Driver.C07
import GolibsVerif.Model.C08Scan

namespace GolibsVerif.Driver.C08
open GolibsVerif GolibsVerif.Netip GolibsVerif.C07 GolibsVerif.C08 GolibsVerif.Driver

def showLineErr (e : LineError) : String := s!"{e.line}:{C07.showRecErr (some e.err)}"

def showCall : Call → String
  | .add r => s!"A({C02.showAddr r.addr};{hexEncode r.source};{C07.showNames r.names})"
  | .handleInvalid src data e => s!"H({hexEncode src};{hexEncode data};{showLineErr e})"

def showRet : Ret → String
  | .nil => "nil"
  | .scanning => "scanning"
  | .parsing errs => s!"parsing[{",".intercalate (errs.map showLineErr)}]"

def showParse : GoM (List Call × Ret) → String
  | .error p => showPanic p
  | .ok (calls, ret) => s!"calls=[{" ".intercalate (calls.map showCall)}];ret={showRet ret}"

/-! #### storage scripts -/

def insertSorted (x : String) : List String → List String
  | [] => [x]
  | y :: ys => if x ≤ y then x :: y :: ys else y :: insertSorted x ys

def sortStrings (xs : List String) : List String := xs.foldr insertSorted []

def showAddrs (as : List Addr) : String :=
  if as.isEmpty then "[]" else ",".intercalate (as.map C02.showAddr)

def parseLower (s : String) : Option (List (Bytes × Bytes)) :=
  if s = "_" then some [] else
  allSome ((s.splitOn ";").map fun ent =>
    match ent.splitOn "/" with
    | [k, v] => do
      let k ← hexDecode k
      let v ← hexDecode v
      pure (k, v)
    | _ => none)

/-- bytes no `strings.ToLower` can return -/
def lowerMiss : Bytes := [999]

def lowerOf (tbl : List (Bytes × Bytes)) : Bytes → Bytes :=
  fun q => match tbl.find? (fun e => e.1 = q) with
    | some e => e.2
    | none => lowerMiss

structure Step where
  idx : Nat
  r : Record

def parseStep (s : String) : Option Step :=
  match s.splitOn "/" with
  | [op, a, ns] => do
    let idx ← if op = "A0" then some 0 else if op = "A1" then some 1 else none
    let a ← C07.parseAddrSpec a
    let ns ← C07.parseNames ns
    pure { idx := idx, r := { addr := a, source := [], names := ns } }
  | _ => none

def parseList {α} (f : String → Option α) (s : String) : Option (List α) :=
  if s = "_" then some [] else allSome ((s.splitOn ",").map f)

def observe (lower : Bytes → Bytes) (qa : List Addr) (qn : List Bytes) (s : Storage) : String :=
  let ba := qa.map fun a => s!"{C02.showAddr a}={C07.showNames (byAddr s a)}"
  let bn := qn.map fun n => s!"{hexEncode n}={showAddrs (byName lower s n)}"
  let rn := sortStrings ((rangeNames s).map fun e => s!"{C02.showAddr e.1}={C07.showNames e.2}")
  let ra := sortStrings ((rangeAddrs s).map fun e => s!"{hexEncode e.1}={showAddrs e.2}")
  "{ba:" ++ " ".intercalate ba ++ ";bn:" ++ " ".intercalate bn ++ ";rn:" ++ " ".intercalate rn ++
    ";ra:" ++ " ".intercalate ra ++ "}"

def runScript (lower : Bytes → Bytes) (qa : List Addr) (qn : List Bytes) :
    List Step → Storage → Storage → List String → String
  | [], _, _, out => " | ".intercalate out.reverse
  | st :: rest, s0, s1, out =>
    let r := if st.idx = 0 then add lower s0 st.r else add lower s1 st.r
    match r with
    | .error p => " | ".intercalate ((showPanic p) :: out).reverse
    | .ok s' =>
      let s0 := if st.idx = 0 then s' else s0
      let s1 := if st.idx = 0 then s1 else s'
      let eq := s!"{showBool (equal (some s0) (some s1))},{showBool (equal (some s1) (some s0))},{showBool (equal (some s0) none)}"
      runScript lower qa qn rest s0 s1
        (s!"S0{observe lower qa qn s0} S1{observe lower qa qn s1} eq={eq}" :: out)

/-! #### scanner scripts -/

def parseReadResult (s : String) : Option (Nat × Option Bufio.Err) :=
  match s.splitOn "/" with
  | [n] => n.toNat?.map fun n => (n, none)
  | [n, e] => do
    let n ← n.toNat?
    if e = "e" then pure (n, some .eof) else
    let id ← e.toNat?
    pure (n, some (.reader id))
  | _ => none

def parseScriptEntry (s : String) : Option Bufio.Script :=
  match s.splitOn "*" with
  | [e] => (parseReadResult e).map fun r => [r]
  | [e, c] => do
    let r ← parseReadResult e
    let c ← c.toNat?
    pure (List.replicate c r)
  | _ => none

def parseScript (s : String) : Option Bufio.Script :=
  if s = "_" then some [] else (allSome ((s.splitOn ",").map parseScriptEntry)).map List.flatten

def showScanErr : Option Bufio.Err → String
  | none => "nil"
  | some .eof => "eof"
  | some (.reader id) => s!"reader{id}"
  | some .tooLong => "toolong"
  | some .noProgress => "noprogress"
  | some .badReadCount => "badreadcount"
  | some _ => "other"

def showScan : GoM (List Bytes × Option Bufio.Err) → String
  | .error p => showPanic p
  | .ok (toks, e) => s!"toks={C07.showNames toks};err={showScanErr e}"

def handle (op : String) (args : List String) : Option String :=
  match op with
  | "std.scanlines" => some (C02.bytesOp args fun s => C07.showNames (scanLines s))
  | "C08.std.scan" =>
    match args with
    | [stream, script, bufCap] =>
      match hexDecode stream, parseScript script, bufCap.toNat? with
      | some stream, some script, some bufCap =>
        some (showScan (Bufio.scanStream bufCap Bufio.maxScanTokenSize stream script))
      | _, _, _ => some "bad-op"
    | _ => some "bad-op"
  | "C08.parse" =>
    match args with
    | [hs, src, re, stream, tbl] =>
      match hexDecode src, hexDecode stream, C07.parseTable tbl with
      | some src, some stream, some tbl =>
        some (C07.withTable tbl fun toA => showParse (parse toA (hs = "1") src (re = "1") stream))
      | _, _, _ => some "bad-op"
    | _ => some "bad-op"
  | "C08.store" =>
    match args with
    | [script, qa, qn, low] =>
      match allSome ((script.splitOn ";").map parseStep), parseList C07.parseAddrSpec qa, parseList hexDecode qn, parseLower low with
      | some steps, some qa, some qn, some low =>
        let needed := steps.flatMap (fun st => st.r.names) ++ qn
        if needed.any (fun n => (low.find? (fun e => e.1 = n)).isNone) then some "ORACLE-MISS"
        else some (runScript (lowerOf low) qa qn steps Storage.empty Storage.empty [])
      | _, _, _, _ => some "bad-op"
    | _ => some "bad-op"
  | _ => none

end GolibsVerif.Driver.C08
