import GolibsVerif.Driver.Util
import GolibsVerif.Model.C14
import GolibsVerif.Model.C14Parse

/-!
Line protocol of C14 (tokens separated by one space; byte strings in hex, `-` = empty):

  C14.std.durstr <d>                      time.Duration(d).String()
  C14.std.parsedur <text>                 time.ParseDuration(text): `err` or the int64
  C14.std.fmtu <n>                        strconv.FormatUint(n, 10)
  C14.std.parseu16 <s>                    strconv.ParseUint(s, 10, 16)
  C14.std.join <host> <port>              net.JoinHostPort
  C14.std.split <s>                       net.SplitHostPort
  C14.dur <d> <tbl>                       Duration.String, MarshalText→UnmarshalText (on the model
                                          of time.ParseDuration); tbl: text=value,… answers of the
                                          real time.ParseDuration, cross-checked
  C14.hp <host> <port>                    HostPort.String, ParseHostPort of it
  C14.php <s>                             ParseHostPort
  C14.prefix <s> <pfx> <addr>             Prefix.UnmarshalText; answers of netip.ParsePrefix(s)
                                          and netip.ParseAddr(s)
  C14.url <raw> <parse> <quote> <unquote> urlutil.Parse, text and JSON round trips; tables of
                                          url.Parse(·).String(), json.Marshal(string),
                                          json.Unmarshal(·, &string)
  C14.ujson <token> <parse> <unquote>     (*URL).UnmarshalJSON(token)

A table is `-` or `key=value,…`; the value `!` is "the stdlib call returned an error".  A
key that is not in the table answers with a marker that prints as `ORACLE-MISS`.
-/

namespace GolibsVerif.Driver.C14
open GolibsVerif GolibsVerif.C14 GolibsVerif.Driver

/-- marker byte (not a byte) for an oracle question that has no answer on the line -/
def missByte : Nat := 65535
def missInt : Int := 1180591620717411303424   -- 2^70, not an int64

def hasMiss (b : Bytes) : Bool := b.any (· ≥ 256)

def hx (b : Bytes) : String := if hasMiss b then "ORACLE-MISS" else hexEncode b

def parseTable (s : String) : Option (List (Bytes × String)) :=
  if s = "-" then some [] else
  allSome ((s.splitOn ",").map fun kv =>
    match kv.splitOn "=" with
    | [k, v] => (hexDecode k).map fun kb => (kb, v)
    | _ => none)

def lookup (t : List (Bytes × String)) (k : Bytes) : Option String :=
  (t.find? fun kv => kv.1 == k).map (·.2)

/-- table with byte-string answers (`!` = error) -/
def bytesOracle (t : List (Bytes × String)) (k : Bytes) : Option Bytes :=
  match lookup t k with
  | none => some [missByte]
  | some "!" => none
  | some v => match hexDecode v with
    | some b => some b
    | none => some [missByte]

def intOracle (t : List (Bytes × String)) (k : Bytes) : Option Int :=
  match lookup t k with
  | none => some missInt
  | some "!" => none
  | some v => match parseInt? v with
    | some i => some i
    | none => some missInt

def showGoM {α} (f : α → String) : GoM α → String
  | .ok a => f a
  | .error p => showPanic p

/-! ### std ops -/

def showNumErr : NumErr → String
  | .syntax => "syntax"
  | .range => "range"

def showSplitErr : SplitErr → String
  | .missingPort => "missingport"
  | .tooManyColons => "toomanycolons"
  | .missingBracket => "missingbracket"
  | .unexpectedLB => "unexpectedlb"
  | .unexpectedRB => "unexpectedrb"

def showHPErr : HPErr → String
  | .split e => showSplitErr e
  | .port e => "port" ++ showNumErr e

def stdOp (op : String) (args : List String) : Option String :=
  match op, args with
  | "C14.std.durstr", [d] => some <| match parseInt? d with
    | some d => hexEncode (stdString d)
    | none => "bad-op"
  | "C14.std.parsedur", [s] => some <| match hexDecode s with
    | some s => (match parseDuration s with
      | some d => s!"{d}"
      | none => "err")
    | none => "bad-op"
  | "C14.std.fmtu", [n] => some <| match n.toNat? with
    | some n => hexEncode (formatUint n)
    | none => "bad-op"
  | "C14.std.parseu16", [s] => some <| match hexDecode s with
    | some s => (match parseUint16 s with
      | .ok n => s!"ok:{n}"
      | .error e => "err:" ++ showNumErr e)
    | none => "bad-op"
  | "C14.std.join", [h, p] => some <| match hexDecode h, hexDecode p with
    | some h, some p => hexEncode (netJoinHostPort h p)
    | _, _ => "bad-op"
  | "C14.std.split", [s] => some <| match hexDecode s with
    | some s => showGoM (fun r => match r with
        | .ok (h, p) => s!"ok:{hexEncode h}:{hexEncode p}"
        | .error e => "err:" ++ showSplitErr e) (netSplitHostPort s)
    | none => "bad-op"
  | _, _ => none

/-! ### Duration -/

/-- `UnmarshalText` runs on the Lean model of `time.ParseDuration`; the table of the case line
(answers of the real `time.ParseDuration`, computed by the generator from the standard
library only) is a second witness: an entry for the text that differs from the model's
answer prints as `PARSE-MODEL-DISAGREES`. -/
def durOp (d : Int) (t : List (Bytes × String)) : String :=
  match durationMarshalText d with
  | .error p => showPanic p
  | .ok s =>
    let m := durationUnmarshalText parseDuration s
    let agrees := match lookup t s with
      | none => true
      | some _ => intOracle t s == m
    let rt := if !agrees then "PARSE-MODEL-DISAGREES" else match m with
      | none => "err"
      | some v => s!"ok:{v}"
    s!"{hexEncode s}/{rt}"

/-! ### HostPort -/

def showHP : Except HPErr HostPort → String
  | .ok hp => s!"ok:{hexEncode hp.host}:{hp.port}"
  | .error e => "err:" ++ showHPErr e

def hpOp (h : Bytes) (p : Nat) : String :=
  let s := (HostPort.mk h p).string
  s!"{hexEncode s}/{showGoM showHP (parseHostPort s)}"

/-! ### Prefix -/

def parseAddrTok (s : String) : Option Addr :=
  match s.splitOn "." with
  | [k, b, z] => do
    let k ← k.toNat?
    let b ← hexDecode b
    let z ← hexDecode z
    pure ⟨k, b, z⟩
  | _ => none

def parsePrefixTok (s : String) : Option Prefix :=
  match s.splitOn "." with
  | [k, b, z, bits] => do
    let k ← k.toNat?
    let b ← hexDecode b
    let z ← hexDecode z
    let bits ← parseInt? bits
    pure ⟨⟨k, b, z⟩, bits⟩
  | _ => none

def showPrefix (p : Prefix) : String :=
  s!"{p.addr.kind}.{hexEncode p.addr.bytes}.{hexEncode p.addr.zone}.{p.bits}"

def missAddr : Addr := ⟨99, [], []⟩

def prefixOp (s : Bytes) (pfx addr : String) : String :=
  let S : NetipStd := {
    parsePrefix := fun k =>
      if k == s then (if pfx = "!" then none else some ((parsePrefixTok pfx).getD ⟨missAddr, 0⟩))
      else some ⟨missAddr, 0⟩
    parseAddr := fun k =>
      if k == s then (if addr = "!" then none else some ((parseAddrTok addr).getD missAddr))
      else some missAddr }
  match prefixUnmarshalText S s with
  | none => "err"
  | some p => if p.addr.kind = 99 then "ORACLE-MISS" else "ok:" ++ showPrefix p

/-! ### URL: in the driver a `url.URL` is represented by its `String()` -/

def urlStd (t : List (Bytes × String)) : UrlStd Bytes :=
  { parse := bytesOracle t, str := id }

def jsonStd (q uq : List (Bytes × String)) : JsonStd :=
  { quote := fun s => (bytesOracle q s).getD [missByte], unquote := bytesOracle uq }

def showUrlErr : UrlErr → String
  | .emptyURL => "emptyurl"
  | .emptyJSON => "emptyjson"
  | .typeErr => "type"
  | .jsonSyntax => "jsonsyntax"
  | .parse => "parse"

def showU : Except UrlErr Bytes → String
  | .ok u => "ok:" ++ hx u
  | .error e => "err:" ++ showUrlErr e

def showUJ : Except UrlErr (Option Bytes) → String
  | .ok none => "ok:null"
  | .ok (some u) => "ok:" ++ hx u
  | .error e => "err:" ++ showUrlErr e

def urlOp (raw : Bytes) (pt qt ut : List (Bytes × String)) : String :=
  let S := urlStd pt
  let J := jsonStd qt ut
  match urlParse S raw with
  | .error e => s!"err:{showUrlErr e}/-/-"
  | .ok u =>
    let text := urlMarshalText S u
    let tr := urlUnmarshalText S text
    let tok := urlMarshalJSON S J u
    let jr := urlUnmarshalJSON S J tok
    s!"ok:{hx u}/{showU tr}/{hx tok}>{showGoM showUJ jr}"

def handle (op : String) (args : List String) : Option String :=
  match stdOp op args with
  | some r => some r
  | none =>
    match op, args with
    | "C14.dur", [d, t] => some <| match parseInt? d, parseTable t with
      | some d, some t => durOp d t
      | _, _ => "bad-op"
    | "C14.hp", [h, p] => some <| match hexDecode h, p.toNat? with
      | some h, some p => hpOp h p
      | _, _ => "bad-op"
    | "C14.php", [s] => some <| match hexDecode s with
      | some s => showGoM showHP (parseHostPort s)
      | none => "bad-op"
    | "C14.prefix", [s, pfx, addr] => some <| match hexDecode s with
      | some s => prefixOp s pfx addr
      | none => "bad-op"
    | "C14.url", [raw, pt, qt, ut] => some <| match hexDecode raw, parseTable pt, parseTable qt, parseTable ut with
      | some raw, some pt, some qt, some ut => urlOp raw pt qt ut
      | _, _, _, _ => "bad-op"
    | "C14.ujson", [tok, pt, ut] => some <| match hexDecode tok, parseTable pt, parseTable ut with
      | some tok, some pt, some ut => showGoM showUJ (urlUnmarshalJSON (urlStd pt) (jsonStd [] ut) tok)
      | _, _, _ => "bad-op"
    | _, _ => none

end GolibsVerif.Driver.C14
