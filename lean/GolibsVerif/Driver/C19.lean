import GolibsVerif.Driver.Util
import GolibsVerif.Model.C19
import GolibsVerif.Model.C19Lts
import GolibsVerif.Spec.C19

/-!
C19 — driver ops (the case lines are documented at the top of `harness/c19.go`).

  C19.tree <lvl> <attrs> <recs> <script> <oracle>
      lvl     <int>   the options hold the constant `slog.Level` (`Leveler.const`)
              v<int>  the options hold a `*slog.LevelVar` with that value (`Leveler.var`); the root
                      is `newHandler`, i.e. the code's constructor, which reads the variable once
      script  W<parent>:<ids|->  H<node>:<rid>  E<node>:<level>  L<level> (= `levelVar.Set`; always
              legal; without effect on the answers of the handlers the code makes)
    answer: per op "w" | hex of the emitted line | true/false | "l"
  C19.conc <G> <K> <R> <oracle>, C19.jsonenc <sevhex> <msghex>
-/

namespace GolibsVerif.Driver.C19
open GolibsVerif GolibsVerif.C19 GolibsVerif.Driver

/-- growth policy used by the driver: 0, 1 or 2 spare slots depending on the allocation, so
that both exact and roomy arrays occur (the theorems say the choice is unobservable) -/
def polDrv : Policy := fun n len _ k => (n + len + k) % 3

def splitList (s : String) (sep : String) : List String :=
  if s = "-" || s = "" then [] else s.splitOn sep

def parseIds (s : String) : Option (List Nat) :=
  allSome ((splitList s ".").map String.toNat?)

def parseAttrs (s : String) : Option (List Attr) :=
  let items := splitList s ","
  allSome ((List.range items.length).zip items |>.map fun (i, it) =>
    match it.splitOn ":" with
    | kind :: _ :: _ =>
      if kind = "e" then some (.user i true)
      else if kind = "z" then some Attr.zero
      else some (.user i false)
    | _ => none)

def attrsOf (tbl : List Attr) (ids : List Nat) : Option (List Attr) :=
  allSome (ids.map fun i => tbl[i]?)

/-- `level:unix:msghex:chunks` → the record built by one `AddAttrs` call per chunk -/
def buildRec (tbl : List Attr) (hp : Heap) (rid : Nat) (s : String) : Option (Heap × Record) :=
  match s.splitOn ":" with
  | [lvl, _, _, chunks] => do
    let l ← parseInt? lvl
    let chs ← allSome ((splitList chunks "/").map fun ch => (parseIds ch).bind (attrsOf tbl))
    pure (chs.foldl (fun (p : Heap × Record) as => p.2.addAttrs polDrv p.1 as) (hp, newRecord l rid))
  | _ => none

def buildRecs (tbl : List Attr) : Heap → Nat → List String → Option (Heap × List Record)
  | hp, _, [] => some (hp, [])
  | hp, rid, s :: rest => do
    let (hp1, r) ← buildRec tbl hp rid s
    let (hp2, rs) ← buildRecs tbl hp1 (rid + 1) rest
    pure (hp2, r :: rs)

/-- `<int>` = a constant level, `v<int>` = a `*slog.LevelVar` holding that value; the second
component is the initial value of the world's LevelVar (0, as `new(slog.LevelVar)`, when the
root does not use it) -/
def parseLeveler (s0 : String) : Option (Leveler × Int) :=
  -- a trailing "s" = HandlerOptions.AddSource and records with a program counter: it only changes
  -- what the text handler prints, which is the `text` parameter (the oracle field of the case)
  -- (and a trailing "r" = HandlerOptions.ReplaceAttr, likewise only visible in `text`)
  let s00 := if s0.endsWith "R" then String.ofList (s0.toList.dropLast) else s0
  let s1 := if s00.endsWith "r" then String.ofList (s00.toList.dropLast) else s00
  let s := if s1.endsWith "s" then String.ofList (s1.toList.dropLast) else s1
  if s.startsWith "v" then (parseInt? (s.drop 1).toString).map fun l => (Leveler.var, l)
  else (parseInt? s).map fun l => (Leveler.const l, 0)

def parseOp (tbl : List Attr) (s : String) : Option Op :=
  let body := (s.drop 1).toString
  match body.splitOn ":" with
  | [a] =>
    if s.startsWith "L" then (parseInt? a).map Op.setLevel else none
  | [a, b] =>
    if s.startsWith "W" then do
      let p ← a.toNat?
      let ids ← parseIds b
      let as ← attrsOf tbl ids
      pure (.withAttrs p as)
    else if s.startsWith "H" then do
      let n ← a.toNat?
      let r ← b.toNat?
      pure (.handle n r)
    else if s.startsWith "E" then do
      let n ← a.toNat?
      let l ← parseInt? b
      pure (.enabled n l)
    else none
  | _ => none

def attrKey : Attr → String
  | .zero => "z"
  | .bug => "!"
  | .user i _ => toString i

def keyOf (rid : Nat) (as : List Attr) : String :=
  s!"{rid};" ++ (if as.isEmpty then "-" else ".".intercalate (as.map attrKey))

def parseOracle (s : String) : Option (List (String × Bytes)) :=
  allSome ((splitList s ",").map fun e =>
    match e.splitOn "=" with
    | [k, v] => (hexDecode v).map fun b => (k, b)
    | _ => none)

/-- what the model's `text` parameter answers outside the supplied table -/
def missLine : Bytes := [0] ++ ascii "ORACLE-MISS" ++ [10]

def missMark : Bytes := ascii "\\u0000ORACLE-MISS"

def textOf (tbl : List (String × Bytes)) : Int → Nat → List Attr → Bytes :=
  fun _ rid as => ((tbl.find? fun p => p.1 = keyOf rid as).map (·.2)).getD missLine

def isInfix (p : Bytes) : Bytes → Bool
  | [] => p.isEmpty
  | c :: s => p.isPrefixOf (c :: s) || isInfix p s

def showOut : Out → String
  | .derived => "w"
  | .line b => if isInfix missMark b then "ORACLE-MISS" else hexEncode b
  | .panic p => showPanic p
  | .en b => showBool b
  | .set => "l"

def tree (args : List String) : String :=
  match args with
  | [lvl, attrs, recs, script, oracle] =>
    match parseLeveler lvl, parseAttrs attrs, parseOracle oracle with
    | some (l, lv0), some tbl, some orc =>
      match buildRecs tbl [] 0 (splitList recs ","), allSome ((splitList script ",").map (parseOp tbl)) with
      | some (hp, rs), some ops =>
        match World.run polDrv (textOf orc) goJsonEncode rs { heap := hp, handlers := [newHandler l lv0], lvar := lv0 } ops with
        | some (_, outs) => if outs.isEmpty then "-" else joinWith "," (outs.map showOut)
        | none => "bad-op"
      | _, _ => "bad-op"
    | _, _, _ => "bad-op"
  | _ => "bad-op"

/-! ### concurrent emission: run the LTS under a pseudo-random schedule -/

def splitLines : Bytes → Bytes → List Bytes
  | [], acc => if acc.isEmpty then [] else [acc.reverse]
  | c :: rest, acc => if c = 10 then (10 :: acc).reverse :: splitLines rest [] else splitLines rest (c :: acc)

def groupCounts : List String → List (String × Nat)
  | [] => []
  | x :: xs =>
    match groupCounts xs with
    | (y, n) :: rest => if x = y then (y, n + 1) :: rest else (x, 1) :: (y, n) :: rest
    | [] => [(x, 1)]

def conc (args : List String) : String :=
  match args with
  | [g, k, r, oracle] =>
    match g.toNat?, k.toNat?, r.toNat?,
        allSome ((splitList oracle ",").map fun e =>
          match e.splitOn ":" with
          | [l, v] => do
            let lv ← parseInt? l
            let b ← hexDecode v
            pure (lv, b)
          | _ => none) with
    | some G, some K, some R, some calls =>
      let n := calls.length
      let P : Lts.Prog :=
        { line := fun i => ((calls[i]?).map (·.2)).getD []
          enc := fun i buf =>
            match GoM.sliceTo buf ((buf.length : Int) - 1) with
            | .ok m => goJsonEncode (severity (((calls[i]?).map (·.1)).getD 0)) m
            | .error _ => [] }
      let fuel := calls.foldl (fun acc c => acc + 2 * c.2.length + 40) 100
      let s := Lts.schedRun P n fuel Lts.init (G * 1000003 + K * 10007 + R)
      if (List.range n).all fun i => (s.th i).pc == .done then
        let lines := ((splitLines s.out []).map hexEncode).mergeSort (fun a b => decide (a ≤ b))
        joinWith "," ((groupCounts lines).map fun (l, c) => s!"{l}*{c}")
      else "STUCK"
    | _, _, _, _ => "bad-op"
  | _ => "bad-op"

def jsonenc (args : List String) : String :=
  match args with
  | [sev, msg] =>
    match hexDecode sev, hexDecode msg with
    | some s, some m =>
      let out := goJsonEncode s m
      match parseLine out with
      | some (s', m') => s!"{hexEncode out}/{hexEncode s'}/{hexEncode m'}"
      | none => s!"{hexEncode out}/noparse"
    | _, _ => "bad-op"
  | _ => "bad-op"

def handle (op : String) (args : List String) : Option String :=
  match op with
  | "C19.tree" => some (tree args)
  | "C19.conc" => some (conc args)
  | "C19.jsonenc" => some (jsonenc args)
  | _ => none

end GolibsVerif.Driver.C19
