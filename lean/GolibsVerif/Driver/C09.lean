import GolibsVerif.Driver.Util
import GolibsVerif.Model.C09

/-!
Driver for C09.  Case line:

  `C09.run <MaxSize> <MaxElementSize> <MaxCount> <lru 0|1> <cb 0|1> <script>`

script (one token):  `ops  := '-' | op (';' op)*`
                     `op   := 'S' hex ':' hex [ '[' ops ('|' ops)* ']' ] | 'G' hex | 'D' hex | 'C' | 'T'`
hex is plain lower-case hex, the empty byte string is the empty word.  The bracket after a
`Set` lists what the i-th `OnDelete` call made by that `Set` does.

Output: the chronological events, `;`-separated, each `<event>@<observation>`:
  `S=0|1` (Set returned), `E<k>:<v>` (OnDelete called), `G=<hex>|nil`, `D`, `C` (in the output the
  empty byte string is `-`),
  `T=<count>/<size>/<hit>/<miss>`;
observation `count/size/hit/miss/L<usage-list keys, oldest first>/M<map keys, sorted>`.
-/

namespace GolibsVerif.Driver.C09
open GolibsVerif GolibsVerif.C09 GolibsVerif.Driver

def hx0 (b : Bytes) : String := hexEncode b   -- `-` for the empty string

def isHexChar (c : Char) : Bool := ('0' ≤ c && c ≤ '9') || ('a' ≤ c && c ≤ 'f')

/-- read a (possibly empty) hex word -/
def pHex (cs : List Char) : Option (Bytes × List Char) :=
  let w := cs.takeWhile isHexChar
  let rest := cs.dropWhile isHexChar
  if w.isEmpty then some ([], rest) else (hexDecodeAux w []).map fun b => (b, rest)

mutual

partial def pOps (cs : List Char) : Option (List Op × List Char) :=
  match cs with
  | '-' :: rest => some ([], rest)
  | _ =>
    match pOp cs with
    | none => none
    | some (op, rest) =>
      match rest with
      | ';' :: rest' =>
        match pOps rest' with
        | some (ops, rest'') => some (op :: ops, rest'')
        | none => none
      | _ => some ([op], rest)

partial def pOp (cs : List Char) : Option (Op × List Char) :=
  match cs with
  | 'S' :: rest =>
    match pHex rest with
    | some (k, ':' :: rest1) =>
      match pHex rest1 with
      | some (v, '[' :: rest2) =>
        match pCbs rest2 with
        | some (cbs, ']' :: rest3) => some (.set k v cbs, rest3)
        | _ => none
      | some (v, rest2) => some (.set k v [], rest2)
      | none => none
    | _ => none
  | 'G' :: rest => (pHex rest).map fun (k, r) => (.get k, r)
  | 'D' :: rest => (pHex rest).map fun (k, r) => (.del k, r)
  | 'C' :: rest => some (.clear, rest)
  | 'T' :: rest => some (.stats, rest)
  | _ => none

partial def pCbs (cs : List Char) : Option (List (List Op) × List Char) :=
  match pOps cs with
  | none => none
  | some (ops, '|' :: rest) =>
    match pCbs rest with
    | some (more, rest') => some (ops :: more, rest')
    | none => none
  | some (ops, rest) => some ([ops], rest)

end

def bytesLt : Bytes → Bytes → Bool
  | [], [] => false
  | [], _ :: _ => true
  | _ :: _, [] => false
  | a :: as, b :: bs => if a < b then true else if b < a then false else bytesLt as bs

def insertSorted (k : Bytes) : List Bytes → List Bytes
  | [] => [k]
  | x :: xs => if bytesLt k x then k :: x :: xs else x :: insertSorted k xs

def sortKeys (ks : List Bytes) : List Bytes := ks.foldr insertSorted []

def showObs (s : St) : String :=
  let listed := (s.lru.filter (·.linked)).map (·.key)
  let keys := sortKeys (s.lru.map (·.key))
  s!"{s.lru.length}/{s.size}/{s.hit}/{s.miss}/L{joinWith "," (listed.map hx0)}/M{joinWith "," (keys.map hx0)}"

def showEv : Ev → Option String
  | .refused .. => some "S=0"
  | .commit _ _ r => some (if r then "S=1" else "S=0")
  | .evict .. => none
  | .onDelete k v => some s!"E{hx0 k}:{hx0 v}"
  | .get _ none => some "G=nil"
  | .get _ (some v) => some s!"G={hx0 v}"
  | .del _ => some "D"
  | .clear => some "C"
  | .stats st => some s!"T={st.count}/{st.size}/{st.hit}/{st.miss}"

def showRec (r : Rec) : Option String := (showEv r.ev).map fun e => s!"{e}@{showObs r.after}"

def run (args : List String) : String :=
  match args with
  | [ms, me, mc, lru, cb, script] =>
    match ms.toNat?, me.toNat?, mc.toNat?, pOps script.toList with
    | some ms, some me, some mc, some (ops, []) =>
      let r : RawConf := { maxSize := ms, maxElem := me, maxCount := mc, lru := lru == "1", hasCb := cb == "1" }
      match runScript r ops with
      | .ok (_, log) =>
        let evs := log.filterMap showRec
        if evs.isEmpty then "-" else joinWith ";" evs
      | .error p => showPanic p
    | _, _, _, _ => "bad-op"
  | _ => "bad-op"

def handle (op : String) (args : List String) : Option String :=
  match op with
  | "C09.run" => some (run args)
  | _ => none

end GolibsVerif.Driver.C09
