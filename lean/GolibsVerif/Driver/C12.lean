import GolibsVerif.Driver.Util
import GolibsVerif.Model.C12
import GolibsVerif.Spec.C12

/-!
Line protocol of C12 (see `harness/c12.go` for the Go side).

Tokens: a byte slice is `nil`, `-` (empty, non-nil) or lower-case hex; a `netip.Addr` is
`z` (zero Addr), 8 hex digits (IPv4), 32 hex digits (IPv6) or 32 hex digits `%` zone-hex.
-/
namespace GolibsVerif.Driver.C12
open GolibsVerif GolibsVerif.C12 GolibsVerif.Driver

def parseSlice (s : String) : Option (Option Bytes) :=
  if s = "nil" then some none else (hexDecode s).map some

def parseAddr (s : String) : Option Addr :=
  if s = "z" then some .zero
  else match s.splitOn "%" with
    | [h] => do
      let b ← hexDecode h
      if b.length = 4 then some (.v4 b) else if b.length = 16 then some (.v6 b []) else none
    | [h, z] => do
      let b ← hexDecode h
      let zb ← hexDecode z
      if b.length = 16 then some (.v6 b zb) else none
    | _ => none

def showAddr : Addr → String
  | .zero => "z"
  | .v4 b => hexEncode b
  | .v6 b z => if z.isEmpty then hexEncode b else hexEncode b ++ "%" ++ hexEncode z

def showOptSlice : Option Bytes → String
  | none => "nil"
  | some b => hexEncode b

def showConv : GoM (Except ConvErr Addr) → String
  | .error _ => "panic(badfam)"
  | .ok (.error .nilIP) => "err(nilip)"
  | .ok (.error _) => "err(bad)"
  | .ok (.ok a) => s!"ok({showAddr a})"

def showPfx : GoM (Except NetErr Prefix) → String
  | .error _ => "panic(badfam)"
  | .ok (.error .nilSubnet) => "err(nilsubnet)"
  | .ok (.error (.badIP .nilIP)) => "err(ip:nilip)"
  | .ok (.error (.badIP _)) => "err(ip:bad)"
  | .ok (.error _) => "err(subnet)"
  | .ok (.ok p) => s!"ok({showAddr p.addr}/{p.bits})"

def showAP (ap : AddrPort) : String := s!"{showAddr ap.addr}:{ap.port}"

def parseNet (ip mask : String) : Option (Option IPNet) :=
  if ip = "nilnet" then some none
  else do
    let i ← parseSlice ip
    let m ← parseSlice mask
    pure (some { ip := i, mask := m })

def parseAddrList (s : String) : Option (List Addr) :=
  if s = "-" then some [] else allSome ((s.splitOn ",").map parseAddr)

def famFunc (s : String) : Option (Addr → Addr → Int) :=
  if s = "4" then some preferIPv4 else if s = "6" then some preferIPv6 else none

def sign (i : Int) : String := if i < 0 then "-1" else if i > 0 then "1" else "0"

def orBad (o : Option String) : String := o.getD "bad-op"

def handle (op : String) (args : List String) : Option String :=
  match op, args with
  | "C12.ip2addr", [fam, ip] => some <| orBad do
      let f ← fam.toNat?
      let i ← parseSlice ip
      pure (showConv (ipToAddr i f))
  | "C12.ip2addrnm", [ip] => some <| orBad do
      let i ← parseSlice ip
      pure (showConv (ipToAddrNoMapped i))
  | "C12.net2pfx", [fam, ip, mask, _] => some <| orBad do
      let f ← fam.toNat?
      let n ← parseNet ip mask
      pure (showPfx (ipNetToPrefix n f))
  | "C12.net2pfxnm", [ip, mask, _] => some <| orBad do
      let n ← parseNet ip mask
      pure (showPfx (ipNetToPrefixNoMapped n))
  | "C12.netaddr", [kind, ip, port, zone] => some <| orBad do
      let p ← parseInt? port
      let z ← hexDecode zone
      let a ← match kind with
        | "nil" => some NetAddr.nil
        | "tcpnil" => some .tcpNil
        | "udpnil" => some .udpNil
        | "ipaddr" => some .other
        | "unix" => some .other
        | "tcp" => (parseSlice ip).map fun i => .tcp (orNil i) p z
        | "udp" => (parseSlice ip).map fun i => .udp (orNil i) p z
        | "custom" => (parseAddr ip).map fun a => .custom { addr := a, port := (p % 65536).toNat }
        | _ => none
      pure (showAP (netAddrToAddrPort a))
  | "C12.prefer", [fam, a, b] => some <| orBad do
      let f ← famFunc fam
      let x ← parseAddr a
      let y ← parseAddr b
      pure (sign (f x y))
  | "C12.sort", [fam, l] => some <| orBad do
      let f ← famFunc fam
      let xs ← parseAddrList l
      let r := sortBy f xs
      pure (if r.isEmpty then "-" else joinWith "," (r.map showAddr))
  -- models of standard-library functions against the real ones
  | "C12.std.to4", [ip] => some <| orBad do
      let i ← parseSlice ip
      pure (showOptSlice (to4 (orNil i)))
  | "C12.std.to16", [ip] => some <| orBad do
      let i ← parseSlice ip
      pure (showOptSlice (to16 (orNil i)))
  | "C12.std.masksize", [m] => some <| orBad do
      let mm ← parseSlice m
      let r := maskSize (orNil mm)
      pure s!"{r.1}/{r.2}"
  | "C12.std.ipnetcontains", [ip, mask, x] => some <| orBad do
      let i ← parseSlice ip
      let m ← parseSlice mask
      let xx ← parseSlice x
      pure (showBool (ipNetContains { ip := i, mask := m } (orNil xx)))
  | "C12.std.addrfromslice", [b] => some <| orBad do
      let s ← parseSlice b
      pure (match addrFromSlice (orNil s) with | some a => showAddr a | none => "false")
  | "C12.std.unmap", [a] => some <| orBad do
      let x ← parseAddr a
      pure s!"{showBool x.is4In6}/{showAddr x.unmap}"
  | "C12.std.prefixfrom", [a, bits] => some <| orBad do
      let x ← parseAddr a
      let b ← parseInt? bits
      let p := prefixFrom x b
      pure s!"{showAddr p.addr}/{p.bits}"
  | "C12.std.prefixcontains", [a, bits, x] => some <| orBad do
      let pa ← parseAddr a
      let b ← parseInt? bits
      let xx ← parseAddr x
      pure (showBool ((prefixFrom pa b).contains xx))
  | "C12.std.compare", [a, b] => some <| orBad do
      let x ← parseAddr a
      let y ← parseAddr b
      pure (sign (x.compare y))
  | "C12.std.sockaddrport", [ip, port, zone] => some <| orBad do
      let i ← parseSlice ip
      let p ← parseInt? port
      let z ← hexDecode zone
      pure (showAP (sockAddrPort (orNil i) p z))
  -- the specification's `cidrMask` against `net.CIDRMask`
  | "C12.std.cidrmask", [ones, len] => some <| orBad do
      let o ← ones.toNat?
      let l ← len.toNat?
      pure (hexEncode (cidrMask o l))
  | _, _ => none

end GolibsVerif.Driver.C12
