import GolibsVerif.Driver.Util
import GolibsVerif.Model.C12
import GolibsVerif.Spec.C12
import GolibsVerif.Go.Sort

/-!
Line protocol of C12 (see `harness/c12.go` for the Go side).

Tokens: a byte slice is `nil`, `-` (empty, non-nil) or lower-case hex; a `netip.Addr` is
`z` (zero Addr), 8 hex digits (IPv4), 32 hex digits (IPv6) or 32 hex digits `%` zone-hex.
-/
namespace GolibsVerif.Driver.C12
open GolibsVerif GolibsVerif.C12 GolibsVerif.Driver

def parseSlice (s : String) : Option (Option Bytes) :=
  if s = "nil" then some none else (hexDecode s).map some

def parseAddr (s : String) : Option Addr :=
  if s = "z" then some .zero
  else match s.splitOn "%" with
    | [h] => do
      let b ← hexDecode h
      if b.length = 4 then some (.v4 b) else if b.length = 16 then some (.v6 b []) else none
    | [h, z] => do
      let b ← hexDecode h
      let zb ← hexDecode z
      if b.length = 16 then some (.v6 b zb) else none
    | _ => none

def showAddr : Addr → String
  | .zero => "z"
  | .v4 b => hexEncode b
  | .v6 b z => if z.isEmpty then hexEncode b else hexEncode b ++ "%" ++ hexEncode z

def showOptSlice : Option Bytes → String
  | none => "nil"
  | some b => hexEncode b

def showConv : GoM (Except ConvErr Addr) → String
  | .error _ => "panic(badfam)"
  | .ok (.error .nilIP) => "err(nilip)"
  | .ok (.error _) => "err(bad)"
  | .ok (.ok a) => s!"ok({showAddr a})"

def showPfx : GoM (Except NetErr Prefix) → String
  | .error _ => "panic(badfam)"
  | .ok (.error .nilSubnet) => "err(nilsubnet)"
  | .ok (.error (.badIP .nilIP)) => "err(ip:nilip)"
  | .ok (.error (.badIP _)) => "err(ip:bad)"
  | .ok (.error _) => "err(subnet)"
  | .ok (.ok p) => s!"ok({showAddr p.addr}/{p.bits})"

def showAP (ap : AddrPort) : String := s!"{showAddr ap.addr}:{ap.port}"

def parseNet (ip mask : String) : Option (Option IPNet) :=
  if ip = "nilnet" then some none
  else do
    let i ← parseSlice ip
    let m ← parseSlice mask
    pure (some { ip := i, mask := m })

def parseAddrList (s : String) : Option (List Addr) :=
  if s = "-" then some [] else allSome ((s.splitOn ",").map parseAddr)

def famFunc (s : String) : Option (Addr → Addr → Int) :=
  if s = "4" then some preferIPv4 else if s = "6" then some preferIPv6 else none

def sign (i : Int) : String := if i < 0 then "-1" else if i > 0 then "1" else "0"

def orBad (o : Option String) : String := o.getD "bad-op"

/-! #### `C12.std.sortfunc`: the model of `slices.SortFunc` (`Go/Sort.lean`) against the real one

`C12.std.sortfunc <cmp> <v>,<v>,…` — the elements are the values in the order given, each tagged
with its position; the answer is the slice after the call as `<v>:<tag>,…` (so that any
difference in the permutation performed is visible, not only a difference of the values).
For `p4` / `p6` the values are address tokens and the comparator is `PreferIPv4` / `PreferIPv6`;
otherwise they are small naturals. -/

/-- the comparators on naturals, by id; `rps`, `neg`, `one`, `tagx`, `le` are not strict weak orders -/
def natCmp (id : String) : Option (Nat × Nat → Nat × Nat → Int) :=
  match id with
  | "num" => some fun a b => (a.1 : Int) - b.1
  | "rev" => some fun a b => (b.1 : Int) - a.1
  | "mod3" => some fun a b => ((a.1 % 3 : Nat) : Int) - ((b.1 % 3 : Nat) : Int)
  | "rps" => some fun a b =>
      if a.1 % 3 = b.1 % 3 then 0 else if (a.1 % 3 + 1) % 3 = b.1 % 3 then -1 else 1
  | "neg" => some fun _ _ => -1
  | "one" => some fun _ _ => 1
  | "zero" => some fun _ _ => 0
  | "tagx" => some fun a b => ((a.1 + b.2) % 5 : Nat) - (2 : Int)
  | "le" => some fun a b => if a.1 ≤ b.1 then -1 else 1
  | _ => none

def tagged {β} (l : List β) : List (β × Nat) := l.zipIdx

def showTagged {β} (sh : β → String) (r : GoM (List (β × Nat))) : String :=
  match r with
  | .error e => showPanic e
  | .ok l => if l.isEmpty then "-" else joinWith "," (l.map fun x => s!"{sh x.1}:{x.2}")

def parseNatList (s : String) : Option (List Nat) :=
  if s = "-" then some [] else allSome ((s.splitOn ",").map String.toNat?)

def sortfuncOp (id l : String) : Option String :=
  if id = "p4" ∨ id = "p6" then do
    let xs ← parseAddrList l
    let f := if id = "p4" then preferIPv4 else preferIPv6
    pure (showTagged showAddr (Slices.sortFunc (fun a b => f a.1 b.1) (tagged xs)))
  else do
    let c ← natCmp id
    let xs ← parseNatList l
    pure (showTagged toString (Slices.sortFunc c (tagged xs)))

def handle (op : String) (args : List String) : Option String :=
  match op, args with
  | "C12.std.sortfunc", [id, l] => some <| orBad (sortfuncOp id l)
  | "C12.ip2addr", [fam, ip] => some <| orBad do
      let f ← fam.toNat?
      let i ← parseSlice ip
      pure (showConv (ipToAddr i f))
  | "C12.ip2addrnm", [ip] => some <| orBad do
      let i ← parseSlice ip
      pure (showConv (ipToAddrNoMapped i))
  | "C12.net2pfx", [fam, ip, mask, _] => some <| orBad do
      let f ← fam.toNat?
      let n ← parseNet ip mask
      pure (showPfx (ipNetToPrefix n f))
  | "C12.net2pfxnm", [ip, mask, _] => some <| orBad do
      let n ← parseNet ip mask
      pure (showPfx (ipNetToPrefixNoMapped n))
  | "C12.netaddr", [kind, ip, port, zone] => some <| orBad do
      let p ← parseInt? port
      let z ← hexDecode zone
      let a ← match kind with
        | "nil" => some NetAddr.nil
        | "tcpnil" => some .tcpNil
        | "udpnil" => some .udpNil
        | "ipaddr" => some .other
        | "unix" => some .other
        | "tcp" => (parseSlice ip).map fun i => .tcp (orNil i) p z
        | "udp" => (parseSlice ip).map fun i => .udp (orNil i) p z
        | "custom" => (parseAddr ip).map fun a => .custom { addr := a, port := (p % 65536).toNat }
        | _ => none
      pure (showAP (netAddrToAddrPort a))
  | "C12.prefer", [fam, a, b] => some <| orBad do
      let f ← famFunc fam
      let x ← parseAddr a
      let y ← parseAddr b
      pure (sign (f x y))
  | "C12.sort", [fam, l] => some <| orBad do
      let f ← famFunc fam
      let xs ← parseAddrList l
      let r := Slices.sortFuncVal f xs
      pure (if r.isEmpty then "-" else joinWith "," (r.map showAddr))
  -- models of standard-library functions against the real ones
  | "C12.std.to4", [ip] => some <| orBad do
      let i ← parseSlice ip
      pure (showOptSlice (to4 (orNil i)))
  | "C12.std.to16", [ip] => some <| orBad do
      let i ← parseSlice ip
      pure (showOptSlice (to16 (orNil i)))
  | "C12.std.masksize", [m] => some <| orBad do
      let mm ← parseSlice m
      let r := maskSize (orNil mm)
      pure s!"{r.1}/{r.2}"
  | "C12.std.ipnetcontains", [ip, mask, x] => some <| orBad do
      let i ← parseSlice ip
      let m ← parseSlice mask
      let xx ← parseSlice x
      pure (showBool (ipNetContains { ip := i, mask := m } (orNil xx)))
  | "C12.std.addrfromslice", [b] => some <| orBad do
      let s ← parseSlice b
      pure (match addrFromSlice (orNil s) with | some a => showAddr a | none => "false")
  | "C12.std.unmap", [a] => some <| orBad do
      let x ← parseAddr a
      pure s!"{showBool x.is4In6}/{showAddr x.unmap}"
  | "C12.std.prefixfrom", [a, bits] => some <| orBad do
      let x ← parseAddr a
      let b ← parseInt? bits
      let p := prefixFrom x b
      pure s!"{showAddr p.addr}/{p.bits}"
  | "C12.std.prefixcontains", [a, bits, x] => some <| orBad do
      let pa ← parseAddr a
      let b ← parseInt? bits
      let xx ← parseAddr x
      pure (showBool ((prefixFrom pa b).contains xx))
  | "C12.std.compare", [a, b] => some <| orBad do
      let x ← parseAddr a
      let y ← parseAddr b
      pure (sign (x.compare y))
  | "C12.std.sockaddrport", [ip, port, zone] => some <| orBad do
      let i ← parseSlice ip
      let p ← parseInt? port
      let z ← hexDecode zone
      pure (showAP (sockAddrPort (orNil i) p z))
  -- the specification's `cidrMask` against `net.CIDRMask`
  | "C12.std.cidrmask", [ones, len] => some <| orBad do
      let o ← ones.toNat?
      let l ← len.toNat?
      pure (hexEncode (cidrMask o l))
  | _, _ => none

end GolibsVerif.Driver.C12
