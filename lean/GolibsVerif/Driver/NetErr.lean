import GolibsVerif.Driver.Util
import GolibsVerif.Model.NetAddr

/-! Canonical rendering of the netutil error trees (must match `showNetErr` of the harness). -/
namespace GolibsVerif.Driver
open GolibsVerif GolibsVerif.Netutil

def showKind : Kind → String
  | .arpa => "arpa" | .cidr => "cidr" | .hostport => "hostport" | .ip => "ip" | .ipport => "ipport"
  | .ipv4 => "ipv4" | .mac => "mac" | .name => "name" | .domainName => "domain" | .srvName => "srv"
  | .lblDomain => "ldomain" | .lblHost => "lhost" | .lblSRV => "lsrv" | .lblTLD => "ltld"

def showConst : ConstErr → String
  | .notAReversedIP => "notreversedip" | .notAReversedSubnet => "notreversedsubnet"
  | .allNumeric => "allnumeric" | .leadingZero => "leadingzero"
  | .idna => "opaque" | .parseAddr => "opaque" | .parseUint => "opaque"

def showRune (r : Nat) : String := if r < 128 then toString r else "nonascii"

partial def showErr : Err → String
  | .addr k a none => s!"Addr({showKind k},{hexEncode a},nil)"
  | .addr k a (some i) => s!"Addr({showKind k},{hexEncode a},{showErr i})"
  | .label k l i => s!"Label({showKind k},{hexEncode l},{showErr i})"
  | .length k al m n => s!"Length({showKind k},{al},{m},{n})"
  | .rune k r => s!"Rune({showKind k},{showRune r})"
  | .const c => s!"Const({showConst c})"

def showOptErr : Option Err → String
  | none => "nil"
  | some e => showErr e

def showGoErr : GoM (Option Err) → String
  | .ok e => showOptErr e
  | .error p => showPanic p

def showGoBool : GoM Bool → String
  | .ok b => showBool b
  | .error p => showPanic p

/-- oracle field for `idna.ToASCII`: `!` = error, otherwise hex of the result; the table has
exactly one entry, any other query is an ORACLE-MISS (rendered by failing the whole op) -/
def toASCIITable (input : Bytes) (field : String) : Option (Bytes → Option (Option Bytes)) :=
  if field = "!" then some fun q => if q = input then some none else none
  else (hexDecode field).map fun out => fun q => if q = input then some (some out) else none

end GolibsVerif.Driver
