import GolibsVerif.Driver.C04
import GolibsVerif.Model.NetMisc
import GolibsVerif.Gen.C01Inventory

namespace GolibsVerif.Driver.C01
open GolibsVerif GolibsVerif.Netutil GolibsVerif.Driver GolibsVerif.Gen.C01Inventory

def inputKinds : List String := ["text", "netip", "url", "reader"]

def two (args : List String) (f : Bytes → Bytes → String) : String :=
  match args with
  | [a, b] => match hexDecode a, hexDecode b with
    | some x, some y => f x y
    | _, _ => "bad-op"
  | _ => "bad-op"

/-- ops: `C01.call <name> <seed>` (the model's prediction for every call is "returns
normally"); `C01.list`; and the small netutil functions of `Model/NetMisc.lean` -/
def handle (op : String) (args : List String) : Option String :=
  match op with
  | "C01.call" => some "ok"
  | "C01.list" => some (joinWith "," ((inventory.filter fun e => e.consumes.any (fun k => inputKinds.contains k)).map (·.name)))
  | "C01.issub" => some (two args fun d t => showGoBool (isSubdomain d t))
  | "C01.isimm" => some (two args fun d t => showGoBool (isImmediateSubdomain d t))
  | "C01.subdomains" => some (C02.bytesOp args fun d =>
      match subdomains d with
      | .ok none => "nil"
      | .ok (some l) => joinWith "," (l.map hexEncode)
      | .error p => showPanic p)
  | "C01.parseipv4" =>
    match args with
    | [s, o] => match hexDecode s with
      | some sb =>
        let np : Bytes → Option Bytes := fun q => if q = sb ∧ o ≠ "!" then hexDecode o else none
        some (C04.showR hexEncode (parseIPv4 np sb))
      | none => some "bad-op"
    | _ => some "bad-op"
  | "C01.cloneips" =>
    match args with
    | [l] =>
      let ips : Option (List Bytes) := if l = "nil" then none
        else if l = "empty" then some [] else allSome ((l.splitOn ",").map hexDecode)
      if l ≠ "nil" ∧ ips.isNone then some "bad-op" else
      some (match cloneIPs ips with
        | .ok none => "nil"
        | .ok (some []) => "empty"
        | .ok (some r) => joinWith "," (r.map hexEncode)
        | .error p => showPanic p)
    | _ => some "bad-op"
  | _ => none

end GolibsVerif.Driver.C01
