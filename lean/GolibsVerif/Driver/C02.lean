import GolibsVerif.Driver.NetErr
import GolibsVerif.Model.NetIP

namespace GolibsVerif.Driver.C02
open GolibsVerif GolibsVerif.Netutil GolibsVerif.Netip GolibsVerif.Driver

def showAddr : Addr → String
  | .invalid => "invalid"
  | .v4 b => s!"v4:{hexEncode b}"
  | .v6 b z => s!"v6:{hexEncode b}:{hexEncode z}"

def showOptAddr : Option Addr → String
  | none => "err"
  | some a => showAddr a

def bytesOp (args : List String) (f : Bytes → String) : String :=
  match args with
  | [x] => match hexDecode x with
    | some b => f b
    | none => "bad-op"
  | _ => "bad-op"

/-- ops: `C02.ip|ipport|v4|v6|v4label|uint16|splitaddrport <s>`; `std.parseaddr|parseaddrport <s>` -/
def handle (op : String) (args : List String) : Option String :=
  match op with
  | "C02.ip" => some (bytesOp args fun s => showGoBool (isValidIPString s))
  | "C02.ipport" => some (bytesOp args fun s => showGoBool (isValidIPPortString s))
  | "C02.v4" => some (bytesOp args fun s => showGoBool (isValidIPv4String s))
  | "C02.v6" => some (bytesOp args fun s => showGoBool (isValidIPv6String s))
  | "C02.v4label" => some (bytesOp args fun s => showGoBool (isIPv4Label s))
  | "C02.uint16" => some (bytesOp args fun s => showBool (isUint16 s))
  | "C02.splitaddrport" => some (bytesOp args fun s =>
      match splitAddrPort s with
      | .ok none => "none"
      | .ok (some (ip, port)) => s!"{hexEncode ip}|{hexEncode port}"
      | .error p => showPanic p)
  | "C02.enum" => some "enum"
  | "std.parseaddr" => some (bytesOp args fun s => showOptAddr (parseAddr s))
  | "std.parseaddrport" => some (bytesOp args fun s =>
      match parseAddrPort s with
      | none => "err"
      | some (a, p) => s!"{showAddr a}|{p}")
  | _ => none

end GolibsVerif.Driver.C02
