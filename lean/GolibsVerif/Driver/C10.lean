import GolibsVerif.Driver.Util
import GolibsVerif.Driver.C09
import GolibsVerif.Model.C10
import GolibsVerif.Model.C10Hist

/-!
Driver for C10 (Package H).  Case lines:

* `C10.sched <MaxSize> <MaxElementSize> <MaxCount> <lru 0|1> <cb 0|1> <steps>` — a scheduled
  script (`Model/C10.lean`, `runSched`).  `steps` is `-` or `;`-separated:
  `S<hex>:<hex>` start the next `Set` (number 0, 1, … in order of appearance) and let it run
  until it parks in an `OnDelete` call or returns; `R<n>` resume parked `Set` n likewise;
  `G<hex>`, `D<hex>`, `C`, `T`.  (`-` is the empty byte string.)
  Output, `;`-separated, one item per step and per implicit final resume:
  `S<n>=E<k>:<v>` (parked in `OnDelete(k, v)`) | `S<n>=0|1` (returned), `R<n>=…` likewise,
  `R<n>!` (not parked), `G=<hex>|nil`, `D`, `C`, `T=<count>/<size>/<hit>/<miss>`, each followed
  by `@<count>/<size>/L<usage-list keys, oldest first>/M<map keys, sorted>`.
* `C10.stress …` — free-running goroutines; the summary is schedule independent: `ok`.
* `C10.hist <MaxSize> <MaxElementSize> <MaxCount> <lru> <cb> <events>` — a recorded history,
  `,`-separated: `i<id>S<k>:<v>`, `i<id>G<k>`, `i<id>D<k>`, `i<id>C`, `i<id>T` (invocations),
  `r<id>S0|S1`, `r<id>G<hex>|Gnil`, `r<id>D`, `r<id>C`, `r<id>T<count>/<size>` (responses).
  Output `lin` if `acceptHist` accepts it, else `notlin`.
-/

namespace GolibsVerif.Driver.C10
open GolibsVerif GolibsVerif.C09 GolibsVerif.C10 GolibsVerif.Driver

def hx0 (b : Bytes) : String := hexEncode b

def showObs (s : St) : String :=
  let listed := (s.lru.filter (·.linked)).map (·.key)
  let keys := C09.sortKeys (s.lru.map (·.key))
  s!"{s.lru.length}/{s.size}/L{joinWith "," (listed.map hx0)}/M{joinWith "," (keys.map hx0)}"

def pStep (tok : String) : Option SStep :=
  match tok.toList with
  | 'S' :: rest =>
    match (String.ofList rest).splitOn ":" with
    | [k, v] =>
      match hexDecode k, hexDecode v with
      | some k, some v => some (.set k v)
      | _, _ => none
    | _ => none
  | 'R' :: rest => (String.ofList rest).toNat?.map .resume
  | 'G' :: rest => (hexDecode (String.ofList rest)).map .get
  | 'D' :: rest => (hexDecode (String.ofList rest)).map .del
  | ['C'] => some .clear
  | ['T'] => some .stats
  | _ => none

def pSteps (s : String) : Option (List SStep) :=
  if s = "-" then some [] else allSome ((s.splitOn ";").map pStep)

def showRes : Res → String
  | .set b => if b then "S=1" else "S=0"
  | .get none => "G=nil"
  | .get (some v) => s!"G={hx0 v}"
  | .del => "D"
  | .clear => "C"
  | .stats st => s!"T={st.count}/{st.size}/{st.hit}/{st.miss}"

def showOut : SOut → String
  | .parked resumed n k v => s!"{if resumed then "R" else "S"}{n}=E{hx0 k}:{hx0 v}"
  | .setRet resumed n r => s!"{if resumed then "R" else "S"}{n}={if r then "1" else "0"}"
  | .notParked n => s!"R{n}!"
  | .one r => showRes r

def parseConf (ms me mc lru cb : String) : Option RawConf :=
  match ms.toNat?, me.toNat?, mc.toNat? with
  | some ms, some me, some mc =>
    some { maxSize := ms, maxElem := me, maxCount := mc, lru := lru == "1", hasCb := cb == "1" }
  | _, _, _ => none

def sched (args : List String) : String :=
  match args with
  | [ms, me, mc, lru, cb, script] =>
    match parseConf ms me mc lru cb, pSteps script with
    | some r, some steps =>
      match runSched r steps with
      | .ok s =>
        let items := s.out.map fun (o, st) => s!"{showOut o}@{showObs st}"
        if items.isEmpty then "-" else joinWith ";" items
      | .error p => showPanic p
    | _, _ => "bad-op"
  | _ => "bad-op"

/-! ### recorded histories -/

def pNatPrefix (cs : List Char) : Option (Nat × List Char) :=
  let ds := cs.takeWhile Char.isDigit
  if ds.isEmpty then none else (String.ofList ds).toNat?.map fun n => (n, cs.dropWhile Char.isDigit)

def pEvent (tok : String) : Option HEv :=
  match tok.toList with
  | 'i' :: rest =>
    match pNatPrefix rest with
    | some (id, 'S' :: r) =>
      match (String.ofList r).splitOn ":" with
      | [k, v] =>
        match hexDecode k, hexDecode v with
        | some k, some v => some (.inv id (.set k v))
        | _, _ => none
      | _ => none
    | some (id, 'G' :: r) => (hexDecode (String.ofList r)).map fun k => .inv id (.get k)
    | some (id, 'D' :: r) => (hexDecode (String.ofList r)).map fun k => .inv id (.del k)
    | some (id, ['C']) => some (.inv id .clear)
    | some (id, ['T']) => some (.inv id .stats)
    | _ => none
  | 'r' :: rest =>
    match pNatPrefix rest with
    | some (id, ['S', '0']) => some (.ret id (.set false))
    | some (id, ['S', '1']) => some (.ret id (.set true))
    | some (id, ['G', 'n', 'i', 'l']) => some (.ret id (.get none))
    | some (id, 'G' :: r) => (hexDecode (String.ofList r)).map fun v => .ret id (.get (some v))
    | some (id, ['D']) => some (.ret id .del)
    | some (id, ['C']) => some (.ret id .clear)
    | some (id, 'T' :: r) =>
      match (String.ofList r).splitOn "/" with
      | [cnt, sz] =>
        match cnt.toNat?, sz.toNat? with
        | some cnt, some sz => some (.ret id (.stats { count := cnt, size := sz, hit := 0, miss := 0 }))
        | _, _ => none
      | _ => none
    | _ => none
  | _ => none

def hist (args : List String) : String :=
  match args with
  | [ms, me, mc, lru, cb, evs] =>
    let toks := if evs = "-" then [] else evs.splitOn ","
    match parseConf ms me mc lru cb, allSome (toks.map pEvent) with
    | some r, some h => if acceptHist (newConf r) h then "lin" else "notlin"
    | _, _ => "bad-op"
  | _ => "bad-op"

def handle (op : String) (args : List String) : Option String :=
  match op with
  | "C10.sched" => some (sched args)
  | "C10.stress" => some "ok"
  | "C10.hist" => some (hist args)
  | _ => none

end GolibsVerif.Driver.C10
