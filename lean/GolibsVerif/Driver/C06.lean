import GolibsVerif.Driver.Util
import GolibsVerif.Model.C06

/-!
C06 driver.  Case lines:

* `C06.addr <hex of 4 or 16 bytes | invalid> <zone flag 0|1>` — evaluate the REGENERATED
  dispatchers/formulas (`Gen.Subnets`) on the address and the regenerated doc lists:
  `ls=<bool> sp=<bool> doc=<bool>:<bool>` (or `PANIC`).
* `C06.cex` — run the counterexample finder on the four (formula, doc formula) pairs:
  `lsV4=<hex|none> lsV6=… spV4=… spV6=…`.
* `C06.sweep4-exhaustive <lo> <hi>` — what the model says about "number of IPv4 addresses
  with first octet in [lo,hi] on which function and documentation disagree": `disagree=0`
  when both IPv4 checker runs accept (that is the theorem), else the model's witness.
-/

namespace GolibsVerif.Driver.C06
open GolibsVerif GolibsVerif.C06 GolibsVerif.Driver
open GolibsVerif.Gen.Subnets

def parseAddr (a z : String) : Option Addr :=
  if a = "invalid" then (if z = "0" then some .invalid else none)
  else match hexDecode a with
    | none => none
    | some bs =>
      if bs.length = 4 then (if z = "0" then some (.v4 (BitVec.ofNat 32 (beNat bs))) else none)
      else if bs.length = 16 then
        (if z = "0" then some (.v6 (BitVec.ofNat 128 (beNat bs)) "")
         else if z = "1" then some (.v6 (BitVec.ofNat 128 (beNat bs)) "eth0") else none)
      else none

def addr (args : List String) : String :=
  match args with
  | [a, z] =>
    match parseAddr a z with
    | none => "bad-op"
    | some x =>
      match isLocallyServed x, isSpecialPurpose x with
      | .ok ls, .ok sp =>
        s!"ls={showBool ls} sp={showBool sp} doc={showBool (x.inDocB locallyServedDoc)}:{showBool (x.inDocB specialPurposeDoc)}"
      | _, _ => "PANIC"
  | _ => "bad-op"

def showCex (o : Option (List Nat)) : String :=
  match o with
  | none => "none"
  | some v => hexEncode v

def cex : String :=
  s!"lsV4={showCex (F.cexVec 4 isLocallyServedV4 (docF 4 locallyServedDoc))} " ++
  s!"lsV6={showCex (F.cexVec 16 isLocallyServedV6 (docF 16 locallyServedDoc))} " ++
  s!"spV4={showCex (F.cexVec 4 isSpecialPurposeV4 (docF 4 specialPurposeDoc))} " ++
  s!"spV6={showCex (F.cexVec 16 isSpecialPurposeV6 (docF 16 specialPurposeDoc))}"

def sweep4 (args : List String) : String :=
  match args.map String.toNat? with
  | [some lo, some hi] =>
    if lo ≤ hi ∧ hi ≤ 255 then
      let c1 := F.cexVec 4 isLocallyServedV4 (docF 4 locallyServedDoc)
      let c2 := F.cexVec 4 isSpecialPurposeV4 (docF 4 specialPurposeDoc)
      let inRange (o : Option (List Nat)) : Bool :=
        match o with
        | some (b :: _) => decide (lo ≤ b ∧ b ≤ hi)
        | _ => false
      if F.check 4 0 isLocallyServedV4 (docF 4 locallyServedDoc) &&
         F.check 4 0 isSpecialPurposeV4 (docF 4 specialPurposeDoc) then "disagree=0"
      else if inRange c1 || inRange c2 then s!"disagree=model ls:{showCex c1} sp:{showCex c2}"
      else "disagree=0"
    else "bad-op"
  | _ => "bad-op"

def handle (op : String) (args : List String) : Option String :=
  match op with
  | "C06.addr" => some (addr args)
  | "C06.cex" => some cex
  | "C06.sweep4-exhaustive" => some (sweep4 args)
  | _ => none

end GolibsVerif.Driver.C06
