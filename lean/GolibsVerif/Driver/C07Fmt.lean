/-
Driver for the `net/netip` formatter model (`Go/NetipFmt.lean`).  Case line:

  std.addrstring <addr>        -> <Addr.String() hex>|<Addr.MarshalText() hex>

  addr = invalid | v4:<hex> | v6:<hex>:<zone hex>   (the encoding printed by `std.parseaddr`)
-/
import GolibsVerif.Driver.C07
import GolibsVerif.Go.NetipFmt

namespace GolibsVerif.Driver.C07Fmt
open GolibsVerif GolibsVerif.Netip GolibsVerif.Driver

def handle (op : String) (args : List String) : Option String :=
  match op with
  | "std.addrstring" =>
    match args with
    | [a] =>
      match C07.parseAddrSpec a with
      | some a => some s!"{hexEncode (addrString a)}|{hexEncode (addrMarshalText a)}"
      | none => some "bad-op"
    | _ => some "bad-op"
  | _ => none

end GolibsVerif.Driver.C07Fmt
