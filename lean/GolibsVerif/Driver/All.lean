import GolibsVerif.Driver.C15
import GolibsVerif.Driver.C03
import GolibsVerif.Driver.C02
import GolibsVerif.Driver.C04

namespace GolibsVerif.Driver

def handlers : List (String → List String → Option String) := [C15.handle, C03.handle, C02.handle, C04.handle]

def dispatch (line : String) : String :=
  match (line.trimAscii.toString).splitOn " " with
  | [] => "bad-op"
  | op :: args =>
    match handlers.findSome? (fun h => h op args) with
    | some out => out
    | none => "bad-op"

end GolibsVerif.Driver
