/-
C07 driver.  Case lines (see `harness/c07.go`):

  C07.cut  <data>                         cutField        -> <field>|<tail>
  C07.cuts <data>                         cutStringField  -> <field>|<tail>
  C07.unmarshal <pre> <line> <table>      (*Record).UnmarshalText on a zero record (pre=0) or on
                                          a record holding Addr 9.9.9.9, Names ["old"] (pre=1)
  C07.marshal <addr> <names> <fmt>        Record.MarshalText
  C07.roundtrip <line> <table> <fmt>      parse, MarshalText, parse again

  table = `_` or `;`-separated <field hex>/<answer>: the answers of idna.ToASCII (`!` = error)
          for every blank-separated token of the comment-stripped line
  fmt   = Addr.MarshalText() of the record's address as the real code printed it; ignored by the
          model since `netip.Addr.MarshalText` is modelled (`Go/NetipFmt.lean`, `addrMarshalText`):
          the marshalled line the model prints is built with the model's own address text
  addr  = invalid | v4:<hex> | v6:<hex>:<zone hex>
  names = `_` or `,`-separated hex
-/
import GolibsVerif.Driver.C02
import GolibsVerif.Model.C07
import GolibsVerif.Go.NetipFmt

namespace GolibsVerif.Driver.C07
open GolibsVerif GolibsVerif.Netutil GolibsVerif.Netip GolibsVerif.C07 GolibsVerif.Driver

def parseTable (s : String) : Option (List (Bytes × Option Bytes)) :=
  if s = "_" then some [] else
  allSome ((s.splitOn ";").map fun ent =>
    match ent.splitOn "/" with
    | [k, v] => do
      let k ← hexDecode k
      if v = "!" then pure (k, none) else do
        let v ← hexDecode v
        pure (k, some v)
    | _ => none)

/-- the `toASCII` parameter as the finite table of the line; a query outside the table is
answered by `miss` -/
def toASCIIOf (tbl : List (Bytes × Option Bytes)) (miss : Option Bytes) : Bytes → Option Bytes :=
  fun q => match tbl.find? (fun e => e.1 = q) with
    | some e => e.2
    | none => miss

/-- Run `f` with the oracle table.  A lookup outside the table is detected by running the
model twice with two different answers for missing keys (an error, and a one-byte label
`"!"` that no `ToASCII` answer recorded for a *valid* name can equal): every consulted
answer reaches the printed result (the error tree is printed, a success continues the scan),
so the two renderings agree iff no missing key was consulted. -/
def withTable (tbl : List (Bytes × Option Bytes)) (f : (Bytes → Option Bytes) → String) : String :=
  let a := f (toASCIIOf tbl none)
  let b := f (toASCIIOf tbl (some [33]))
  if a = b then a else "ORACLE-MISS"

def showRecErr : Option RecErr → String
  | none => "nil"
  | some .emptyLine => "EmptyLine"
  | some .noHosts => "NoHosts"
  | some .addrParse => "AddrParse"
  | some (.name n e) => s!"Name({n},{showErr e})"

def showNames (ns : List Bytes) : String :=
  if ns.isEmpty then "[]" else ",".intercalate (ns.map hexEncode)

def showResult : GoM (Record × Option RecErr) → String
  | .error p => showPanic p
  | .ok (r, e) => s!"addr={C02.showAddr r.addr};names={showNames r.names};err={showRecErr e}"

def showCut : GoM (Bytes × Bytes) → String
  | .error p => showPanic p
  | .ok (f, t) => s!"{hexEncode f}|{hexEncode t}"

def zeroRec : Record := { addr := .invalid, source := [], names := [] }
def oldRec : Record := { addr := .v4 [9, 9, 9, 9], source := [], names := [[111, 108, 100]] }

def parseAddrSpec (s : String) : Option Addr :=
  match s.splitOn ":" with
  | ["invalid"] => some .invalid
  | ["v4", b] => (hexDecode b).map .v4
  | ["v6", b, z] => do
    let b ← hexDecode b
    let z ← hexDecode z
    pure (.v6 b z)
  | _ => none

def parseNames (s : String) : Option (List Bytes) :=
  if s = "_" then some [] else allSome ((s.splitOn ",").map hexDecode)

def handle (op : String) (args : List String) : Option String :=
  match op with
  | "C07.cut" => some (C02.bytesOp args fun d => showCut (cutField d))
  | "C07.cuts" => some (C02.bytesOp args fun d => showCut (cutStringField d))
  | "C07.unmarshal" =>
    match args with
    | [pre, line, tbl] =>
      match hexDecode line, parseTable tbl with
      | some line, some tbl =>
        -- the receiver: zero record, or a record used before (the model has no capacities, so the
        -- states 1/2 and 0-with-old-address/4 differ only on the Go side)
        let r0 : Record :=
          if pre = "1" || pre = "2" then oldRec
          else if pre = "3" then { oldRec with names := [[111, 49], [111, 50], [111, 51]] }
          else if pre = "4" then { oldRec with names := [] }
          else zeroRec
        some (withTable tbl fun toA => showResult (unmarshalText toA r0 line))
      | _, _ => some "bad-op"
    | _ => some "bad-op"
  | "C07.marshal" =>
    match args with
    | [a, ns, fmt] =>
      match parseAddrSpec a, parseNames ns, hexDecode fmt with
      | some a, some ns, some _ =>
        some (hexEncode (marshalText addrMarshalText { addr := a, source := [], names := ns }))
      | _, _, _ => some "bad-op"
    | _ => some "bad-op"
  | "C07.roundtrip" =>
    match args with
    | [line, tbl, fmt] =>
      match hexDecode line, parseTable tbl, hexDecode fmt with
      | some line, some tbl, some _ =>
        some (withTable tbl fun toA =>
          match unmarshalText toA zeroRec line with
          | .error p => showPanic p
          | .ok (r, e) =>
            let m := marshalText addrMarshalText r
            s!"{showResult (.ok (r, e))} => {hexEncode m} => {showResult (unmarshalText toA zeroRec m)}")
      | _, _, _ => some "bad-op"
    | _ => some "bad-op"
  | _ => none

end GolibsVerif.Driver.C07
