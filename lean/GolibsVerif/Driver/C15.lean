import GolibsVerif.Driver.Util
import GolibsVerif.Model.C15

namespace GolibsVerif.Driver.C15
open GolibsVerif GolibsVerif.C15 GolibsVerif.Driver

/-- the scripted wrapped reader of the harness: a counter stream, `k` bytes at most per
call (negative `k` is returned as is), error code `e` -/
def scripted (pos : Nat) (k : Int) (e : Nat) : Nat → Resp := fun l =>
  if k < 0 then { n := k, data := [], err := e }
  else
    let m := min k.toNat l
    { n := (m : Nat), data := (List.range m).map fun i => (pos + i) % 251, err := e }

def showRErr : RErr → String
  | .nil => "nil"
  | .limit n => s!"limit({n})"
  | .badLen n => s!"badlen({n})"
  | .under c => s!"under({c})"

def showOut (o : ReadOut) : String :=
  let req := match o.requested with | none => "nocall" | some l => toString l
  s!"{req}/{o.n}/{hexEncode o.data}/{showRErr o.err}"

def runLR (lr : LR) (pos : Nat) : List (Nat × Int × Nat) → List String
  | [] => []
  | (plen, k, e) :: rest =>
    let (lr', o) := lr.read plen (scripted pos k e)
    showOut o :: runLR lr' (pos + o.data.length) rest

def parseCall (s : String) : Option (Nat × Int × Nat) :=
  match s.splitOn ":" with
  | [a, b, c] => do
    let plen ← a.toNat?
    let k ← parseInt? b
    let e ← c.toNat?
    pure (plen, k, e)
  | _ => none

def lr (args : List String) : String :=
  match args with
  | [lim, calls] =>
    match lim.toNat?, allSome ((if calls = "-" then [] else calls.splitOn ",").map parseCall) with
    | some n, some cs => joinWith "," (runLR (limitReader n) 0 cs)
    | _, _ => "bad-op"
  | _ => "bad-op"

def showW (o : WriteOut) : String :=
  let f := match o.forwarded with | none => "nocall" | some b => hexEncode b
  s!"{f}/{o.n}/{o.err}"

/-- `<hex>:<err>[:<k>]`; `k` is the (short) count the wrapped writer reports, which
`TruncatedWriter.Write` ignores (`_, err = w.w.Write(b[:idx])`) -/
def parseWrite (s : String) : Option (Bytes × Nat) :=
  match s.splitOn ":" with
  | [a, b] => do
    let d ← hexDecode a
    let e ← b.toNat?
    pure (d, e)
  | [a, b, k] => do
    let d ← hexDecode a
    let e ← b.toNat?
    let _ ← k.toNat?
    pure (d, e)
  | _ => none

def tw (args : List String) : String :=
  match args with
  | [lim, ws] =>
    match lim.toNat?, allSome ((if ws = "-" then [] else ws.splitOn ",").map parseWrite) with
    | some n, some ws => joinWith "," (((newTruncatedWriter n).run ws).2.map showW)
    | _, _ => "bad-op"
  | _ => "bad-op"

def handle (op : String) (args : List String) : Option String :=
  match op with
  | "C15.lr" => some (lr args)
  | "C15.tw" => some (tw args)
  -- the standard library's own drivers (io.Copy, io.ReadAll, io.WriteString) over both wrappers:
  -- a direct-oracle scenario on the implementation; the answer is a constant when the property holds
  | "C15.copy" => some "within=1 prefix=1"
  | _ => none

end GolibsVerif.Driver.C15
