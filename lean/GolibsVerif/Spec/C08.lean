/-
C08 — reference definitions written from the property text.

Parse: every line of the source has exactly one outcome — its record is delivered (the line
is well-formed in the sense of C07) or the line is reported with its 1-based number.
Storage: "first-seen order without duplicates" of the names added with an address, and of
the addresses added with a (case-insensitively equal) name.
-/
import GolibsVerif.Model.C08
import GolibsVerif.Spec.C07

namespace GolibsVerif.C08
open GolibsVerif GolibsVerif.Netip GolibsVerif.C07

/-! ### Parse -/

/-- the outcome of one line -/
inductive Event where
  | delivered (r : Record)
  | reported (data : Bytes) (line : Nat) (e : RecErr)
  deriving Repr

/-- the line is a well-formed record (C07 grammar) -/
def IsWF (toASCII : Bytes → Option Bytes) (l : Bytes) : Prop := ∃ a names, WellFormed toASCII l a names

/-- the outcome the property demands for the line with 0-based index `idx`: a well-formed
line is delivered as its record tagged with the source name; any other line is reported with
its own text and `idx + 1` -/
def LineOutcome (toASCII : Bytes → Option Bytes) (srcName : Bytes) (idx : Nat) (l : Bytes) : Event → Prop
  | .delivered r => WellFormed toASCII l r.addr r.names ∧ r.source = srcName
  | .reported data line _ => ¬ IsWF toASCII l ∧ data = l ∧ line = idx + 1

/-- one outcome per line, in order -/
def Outcomes (toASCII : Bytes → Option Bytes) (srcName : Bytes) : Nat → List Bytes → List Event → Prop
  | _, [], [] => True
  | k, l :: ls, ev :: evs => LineOutcome toASCII srcName k l ev ∧ Outcomes toASCII srcName (k + 1) ls evs
  | _, _, _ => False

/-- the calls on `dst` that correspond to the outcomes: every delivered record is `Add`ed;
with a `HandleSet` every reported line is one `HandleInvalid` call, in source order -/
def callsOf (isHandleSet : Bool) (srcName : Bytes) (evs : List Event) : List Call :=
  evs.filterMap fun
    | .delivered r => some (.add r)
    | .reported d n e => if isHandleSet then some (.handleInvalid srcName d { line := n, err := e }) else none

/-- the line errors of the reported lines, in order -/
def errsOf (evs : List Event) : List LineError :=
  evs.filterMap fun
    | .delivered _ => none
    | .reported _ n e => some { line := n, err := e }

/-- the returned error: nothing with a `HandleSet`; otherwise the reported lines joined, or
nil when there is none -/
def retOf (isHandleSet : Bool) (evs : List Event) : Ret :=
  if isHandleSet then .nil
  else if (errsOf evs).length = 0 then .nil else .parsing (errsOf evs)

/-! ### Storage -/

/-- keep the first element of every key class, in order; `seen` are the keys already taken -/
def firstSeenAux {α β : Type} [DecidableEq β] (key : α → β) : List β → List α → List α
  | _, [] => []
  | seen, x :: xs =>
    if key x ∈ seen then firstSeenAux key seen xs
    else x :: firstSeenAux key (seen ++ [key x]) xs

/-- first-seen order without duplicates with respect to `key` -/
def firstSeenBy {α β : Type} [DecidableEq β] (key : α → β) (l : List α) : List α := firstSeenAux key [] l

/-- the `(address, name)` pairs a sequence of records contributes, in order -/
def pairs (rs : List Record) : List (Addr × Bytes) := rs.flatMap fun r => r.names.map fun n => (r.addr, n)

/-- the names added with address `a`, in order of addition -/
def namesFor (rs : List Record) (a : Addr) : List Bytes := ((pairs rs).filter fun p => p.1 = a).map (·.2)

/-- the addresses added with a name whose lower-cased form equals that of `n` -/
def addrsFor (lower : Bytes → Bytes) (rs : List Record) (n : Bytes) : List Addr :=
  ((pairs rs).filter fun p => lower p.2 = lower n).map (·.1)

/-- everything a client can observe of a storage -/
structure Obs where
  byAddr : Addr → List Bytes
  byName : Bytes → List Addr
  rangeNames : List (Addr × List Bytes)
  rangeAddrs : List (Bytes × List Addr)
  equalTo : Option Storage → Bool        -- s.Equal(other)
  equalFrom : Option Storage → Bool      -- other.Equal(s)

def observe (lower : Bytes → Bytes) (s : Storage) : Obs :=
  { byAddr := byAddr s, byName := byName lower s, rangeNames := rangeNames s, rangeAddrs := rangeAddrs s,
    equalTo := fun o => equal (some s) o, equalFrom := fun o => equal o (some s) }

end GolibsVerif.C08
