/-
C06 — what the property is stated against: bit-level prefix containment on the big-endian
number of an address, and membership in a documented list of networks.
-/
import GolibsVerif.Model.C06

namespace GolibsVerif.C06

/-- The `8*w`-bit address `n` lies in the network `p`: its `p.bits` leading bits are those of
the network address (`netip.Prefix.Contains` for an address of the same family without
zone). -/
def Pfx.contains (w : Nat) (p : Pfx) (n : Nat) : Prop :=
  n / 2 ^ (8 * w - p.bits) = p.addr / 2 ^ (8 * w - p.bits)

/-- `x` lies in one of the networks of `doc` that belong to its address family.  The zero
`Addr` lies in none; the zone of an IPv6 address plays no role; a 4in6 address is an IPv6
address (that is how `netip` treats it: `Is4` is false, `BitLen` is 128). -/
def Addr.InDoc (x : Addr) (doc : List Pfx) : Prop :=
  match x with
  | .invalid => False
  | .v4 a => ∃ p ∈ doc, p.bytes.length = 4 ∧ p.contains 4 a.toNat
  | .v6 a _ => ∃ p ∈ doc, p.bytes.length = 16 ∧ p.contains 16 a.toNat

end GolibsVerif.C06
