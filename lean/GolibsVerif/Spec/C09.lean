/-
C09 — what the property is stated against: a reference "map + recency list" driven by the
events of a history, the notion "latest surviving Set", and the well-formedness of the
`OnDelete` calls.  Nothing here looks at the cache model's state.
-/
import GolibsVerif.Model.C09

namespace GolibsVerif.C09

/-- Reference state: live `(key, value)` pairs, least recently used first, and the two
counters. -/
structure Abs where
  live : List (Bytes × Bytes)
  hit : Nat
  miss : Nat
  deriving Repr, DecidableEq

def Abs.empty : Abs := { live := [], hit := 0, miss := 0 }

def aRemove (l : List (Bytes × Bytes)) (k : Bytes) : List (Bytes × Bytes) :=
  l.filter (fun p => p.1 ≠ k)

def aLookup (l : List (Bytes × Bytes)) (k : Bytes) : Option Bytes :=
  (l.find? (fun p => p.1 = k)).map (·.2)

/-- `Σ (|k| + |v|)` over the live entries -/
def aSize (l : List (Bytes × Bytes)) : Nat := (l.map fun p => p.1.length + p.2.length).sum

/-- Effect of one event on the reference.  Entries disappear only by `evict`, `del`,
`clear` and replacement (`commit` of the same key); a `Set` that stores and — with LRU — a
`Get` that hits make the key the most recently used one. -/
def absStep (lruOn : Bool) (a : Abs) : Ev → Abs
  | .commit k v _ => { a with live := aRemove a.live k ++ [(k, v)] }
  | .evict k _ => { a with live := aRemove a.live k }
  | .del k => { a with live := aRemove a.live k }
  | .clear => Abs.empty
  | .get k (some _) =>
    { a with
      hit := a.hit + 1
      live := if lruOn then
          match aLookup a.live k with
          | some v => aRemove a.live k ++ [(k, v)]
          | none => a.live
        else a.live }
  | .get _ none => { a with miss := a.miss + 1 }
  | .refused .. => a
  | .onDelete .. => a
  | .stats _ => a

/-- The reference after a chronological list of events, starting empty. -/
def absOf (lruOn : Bool) (evs : List Ev) : Abs := evs.foldl (absStep lruOn) Abs.empty

/-- "The value of the latest surviving Set of `k`", read off the history newest event
first: the most recent event that concerns `k` decides. -/
def lastSurvivingRev : List Ev → Bytes → Option Bytes
  | [], _ => none
  | .commit k' v _ :: rest, k => if k' = k then some v else lastSurvivingRev rest k
  | .evict k' _ :: rest, k => if k' = k then none else lastSurvivingRev rest k
  | .del k' :: rest, k => if k' = k then none else lastSurvivingRev rest k
  | .clear :: _, _ => none
  | .get .. :: rest, k => lastSurvivingRev rest k
  | .refused .. :: rest, k => lastSurvivingRev rest k
  | .onDelete .. :: rest, k => lastSurvivingRev rest k
  | .stats _ :: rest, k => lastSurvivingRev rest k

/-- `lastSurviving evs k` for a chronological history `evs`. -/
def lastSurviving (evs : List Ev) (k : Bytes) : Option Bytes := lastSurvivingRev evs.reverse k

/-- does this event *use* key `k` in the LRU sense: a `Set` that stores it, or (with LRU
enabled) a `Get` that finds it -/
def usesKey (lruOn : Bool) : Ev → Bytes → Bool
  | .commit k' _ _, k => k' = k
  | .get k' (some _), k => lruOn && k' = k
  | _, _ => false

/-- last-use stamp of `k` in a history given newest event first: the 1-based position (in
chronological order) of the most recent event using `k`, `0` if there is none -/
def lastUseRev (lruOn : Bool) : List Ev → Bytes → Nat
  | [], _ => 0
  | e :: rest, k => if usesKey lruOn e k then rest.length + 1 else lastUseRev lruOn rest k

def lastUse (lruOn : Bool) (evs : List Ev) (k : Bytes) : Nat := lastUseRev lruOn evs.reverse k

/-- Number of `Get`s that returned a value / nil since the last `Clear` (newest first). -/
def hitsRev : List Ev → Nat
  | [] => 0
  | .clear :: _ => 0
  | .get _ (some _) :: rest => hitsRev rest + 1
  | _ :: rest => hitsRev rest

def missesRev : List Ev → Nat
  | [] => 0
  | .clear :: _ => 0
  | .get _ none :: rest => missesRev rest + 1
  | _ :: rest => missesRev rest

def hitsSinceClear (evs : List Ev) : Nat := hitsRev evs.reverse
def missesSinceClear (evs : List Ev) : Nat := missesRev evs.reverse

/-- `OnDelete` discipline of a chronological history, as a scan with one cell of memory:
`pending = some (k, v)` means "the previous event was the eviction of `(k, v)` and a callback
is configured", and then the very next event must be `onDelete k v`.  So with a callback
every eviction is immediately followed by exactly one `OnDelete` call carrying the evicted
key and value and there is no other `OnDelete` call; without a callback there is none. -/
def cbScan (hasCb : Bool) : Option (Bytes × Bytes) → List Ev → Bool
  | none, [] => true
  | some _, [] => false
  | some p, .onDelete k v :: rest => p.1 = k && p.2 = v && cbScan hasCb none rest
  | some _, _ :: _ => false
  | none, .evict k v :: rest => cbScan hasCb (if hasCb then some (k, v) else none) rest
  | none, .onDelete .. :: _ => false
  | none, _ :: rest => cbScan hasCb none rest

def cbOK (hasCb : Bool) (evs : List Ev) : Bool := cbScan hasCb none evs

/-- The normalised configuration facts the proofs need (established by `newConf`). -/
structure ConfOk (c : Conf) : Prop where
  elem_le : c.maxElem ≤ c.maxSize
  count_pos : 0 < c.maxCount

/-- The cache invariant. -/
structure Inv (c : Conf) (s : St) : Prop where
  nodup : (s.lru.map Entry.key).Nodup
  size_eq : s.size = sumSz s.lru
  size_le : s.size ≤ c.maxSize
  count_le : s.lru.length ≤ c.maxCount
  linked : ∀ e ∈ s.lru, e.linked = c.lru

def pairs (l : List Entry) : List (Bytes × Bytes) := l.map fun e => (e.key, e.val)

/-- the model state agrees with the reference -/
structure Agree (s : St) (a : Abs) : Prop where
  live : pairs s.lru = a.live
  hit : s.hit = a.hit
  miss : s.miss = a.miss

def evsOf (log : List Rec) : List Ev := log.map (·.ev)

end GolibsVerif.C09
