/-
C10 — what "the cache is linearizable" means (Herlihy–Wing), stated without looking at the
cache model's state or at its critical sections.

* a *history* is a sequence of invocation and response events of API calls, identified by call
  ids (a call made from inside an `OnDelete` callback is just another call);
* the *sequential specification* is a **lossy register per key**: `Reg = Key → Option Val`;
  `Set` stores (and says whether the key was present) or refuses, `Get` reads, `Del`/`Clear`
  empty, `Stats` counts; between two operations the register may silently LOSE entries
  (`Run.drop`, the eviction) — it never invents or changes one;
* `Linearizable h`: the completed calls of `h` (plus some of the pending ones, completed with
  some result) can be totally ordered so that the order extends the real-time order of `h` and is
  a legal run of the sequential specification from the empty register.
-/
import GolibsVerif.Spec.C09

namespace GolibsVerif.C10
open GolibsVerif.C09

/-- an API call as invoked -/
inductive Call where
  | set (k v : Bytes)
  | get (k : Bytes)
  | del (k : Bytes)
  | clear
  | stats
  deriving Repr, DecidableEq

/-- what a call returned -/
inductive Res where
  | set (replaced : Bool)
  | get (r : Option Bytes)
  | del
  | clear
  | stats (st : Stats)
  deriving Repr, DecidableEq

/-- history events -/
inductive HEv where
  | inv (id : Nat) (op : Call)
  | ret (id : Nat) (r : Res)
  deriving Repr, DecidableEq

abbrev History := List HEv

/-! ### the sequential specification -/

/-- one register per key -/
abbrev Reg := Bytes → Option Bytes

def Reg.empty : Reg := fun _ => none
def Reg.put (m : Reg) (k v : Bytes) : Reg := fun k' => if k' = k then some v else m k'
def Reg.erase (m : Reg) (k : Bytes) : Reg := fun k' => if k' = k then none else m k'

/-- `l` lists the entries present in `m`, each key once -/
def Lists (l : List (Bytes × Bytes)) (m : Reg) : Prop :=
  (l.map (·.1)).Nodup ∧ ∀ k v, (k, v) ∈ l ↔ m k = some v

/-- one operation of the sequential object: state, call, result, state after.  `hit`/`miss` of a
`Stats` result are not constrained (they are not part of the property). -/
inductive SeqStep (c : Conf) : Reg → Call → Res → Reg → Prop where
  | store (m : Reg) (k v : Bytes) : SeqStep c m (.set k v) (.set (m k).isSome) (m.put k v)
  | refuse (m : Reg) (k v : Bytes) : SeqStep c m (.set k v) (.set false) m
  | get (m : Reg) (k : Bytes) : SeqStep c m (.get k) (.get (m k)) m
  | del (m : Reg) (k : Bytes) : SeqStep c m (.del k) .del (m.erase k)
  | clear (m : Reg) : SeqStep c m .clear .clear Reg.empty
  | stats (m : Reg) (l : List (Bytes × Bytes)) (st : Stats) :
      Lists l m → st.count = l.length → st.size = aSize l →
      st.count ≤ c.maxCount → st.size ≤ c.maxSize → SeqStep c m .stats (.stats st) m

/-- a linearized call: which call, what it was, what it returned -/
structure LinOp where
  id : Nat
  op : Call
  res : Res
  deriving Repr, DecidableEq

/-- a legal sequential run from register `m` to register `m'`; entries may be lost between
operations, one key at a time -/
inductive Run (c : Conf) : Reg → List LinOp → Reg → Prop where
  | nil (m : Reg) : Run c m [] m
  | drop {m m' : Reg} {l : List LinOp} (k : Bytes) : Run c (m.erase k) l m' → Run c m l m'
  | op {m m1 m' : Reg} {x : LinOp} {l : List LinOp} :
      SeqStep c m x.op x.res m1 → Run c m1 l m' → Run c m (x :: l) m'

/-! ### linearizability -/

def invIds (h : History) : List Nat :=
  h.filterMap fun e => match e with | .inv id _ => some id | .ret .. => none

def retIds (h : History) : List Nat :=
  h.filterMap fun e => match e with | .ret id _ => some id | .inv .. => none

/-- a well-formed history: call ids are issued in order of invocation (so every id is invoked
once), a call returns at most once, only if it was invoked, and not before its invocation -/
def WellFormed (h : History) : Prop :=
  invIds h = List.range (invIds h).length ∧ (retIds h).Nodup ∧
  (∀ id r, HEv.ret id r ∈ h → ∃ op, HEv.inv id op ∈ h) ∧
  (∀ h1 h2 id r op, h = h1 ++ .ret id r :: h2 → HEv.inv id op ∉ h2)

/-- `a` occurs before `b` in `l` -/
def Before (l : List Nat) (a b : Nat) : Prop := ∃ l1 l2 l3, l = l1 ++ a :: l2 ++ b :: l3

/-- real-time order of a history: call `a` returned before call `b` was invoked -/
def RtBefore (h : History) (a b : Nat) : Prop :=
  ∃ h1 h2 h3 r op, h = h1 ++ .ret a r :: h2 ++ .inv b op :: h3

/-- **Linearizability** of a history for the lossy-register specification.  `lin` is the
linearization: each call at most once; only calls invoked in `h` with their actual arguments,
a call that returned in `h` with its actual result (a pending call — invoked, not returned — may
be given any result, or be left out); every call that returned is there; the order extends the
real-time order; and it is a legal sequential run from the empty register. -/
def Linearizable (c : Conf) (h : History) : Prop :=
  ∃ lin : List LinOp,
    (lin.map (·.id)).Nodup ∧
    (∀ x ∈ lin, .inv x.id x.op ∈ h ∧ ∀ r, .ret x.id r ∈ h → r = x.res) ∧
    (∀ id r, .ret id r ∈ h → id ∈ lin.map (·.id)) ∧
    (∀ a b, RtBefore h a b → b ∈ lin.map (·.id) → Before (lin.map (·.id)) a b) ∧
    ∃ m, Run c Reg.empty lin m

end GolibsVerif.C10
