/-
C11 — the abstract models the property is stated against.

Ring: the abstract state is simply the list `l` of all values pushed since creation or the
last `Clear`; what a buffer of capacity `n` retains is `lastN n l`.  Sets: the abstract
state is the membership predicate "added and not deleted since".
-/
import GolibsVerif.Model.C11

namespace GolibsVerif.C11

/-- the last `min n (length l)` elements of `l`, oldest first -/
def lastN {T} (n : Nat) (l : List T) : List T := l.drop (l.length - n)

/-- Call `f` on the elements of `xs` in order until it returns `false`; the result is the
final state of the callback's closure.  (Early termination: nothing after the first
`false` is ever passed to `f`.) -/
def callUntil {σ T} (f : Callback σ T) : σ → List T → σ
  | s, [] => s
  | s, e :: rest =>
    let r := f s e
    if r.2 then callUntil f r.1 rest else r.1

/-- the prefix of `xs` up to and including the first element on which `p` is false -/
def takeThrough {T} (p : T → Bool) : List T → List T
  | [] => []
  | e :: rest => if p e then e :: takeThrough p rest else [e]

/-- the callback that records its arguments and answers `p` -/
def recorder {T} (p : T → Bool) : Callback (List T) T := fun acc e => (acc ++ [e], p e)

/-- the callback that records its arguments and returns `false` on its `k`-th call
(`k = 0`: never); state = (calls so far, recorded arguments).  This is the family of
callbacks the harness uses. -/
def stopAt {T} (k : Nat) : Callback (Nat × List T) T :=
  fun (c, acc) e => ((c + 1, acc ++ [e]), !(c + 1 == k))

/-! ### Ring -/

/-- the effect of one call on the abstract state -/
def absStep {σ T} (l : List T) : ROp σ T → List T
  | .push e => l ++ [e]
  | .clear => []
  | _ => l

/-- the values pushed since creation or the last `Clear` -/
def pushesSinceClear {σ T} (ops : List (ROp σ T)) : List T := ops.foldl absStep []

/-- `Current` of the abstract ring: the oldest retained value when `n` values are retained
(and `n > 0`), the zero value otherwise -/
def oldest {T} (zero : T) (n : Nat) (l : List T) : T :=
  if n ≤ l.length then
    match lastN n l with
    | x :: _ => x
    | [] => zero
  else zero

/-- one call on the abstract ring of capacity `n` whose pushes since the last clear are `l` -/
def specStep {σ T} (zero : T) (n : Nat) (l : List T) : ROp σ T → List T × ROut σ T
  | .push e => (l ++ [e], .unit)
  | .clear => ([], .unit)
  | .current => (l, .val (oldest zero n l))
  | .len => (l, .len (min l.length n))
  | .range f s => (l, .st (callUntil f s (lastN n l)))
  | .reverseRange f s => (l, .st (callUntil f s (lastN n l).reverse))

def specRun {σ T} (zero : T) (n : Nat) : List T → List (ROp σ T) → List (ROut σ T)
  | _, [] => []
  | l, op :: rest =>
    let r := specStep zero n l op
    r.2 :: specRun zero n r.1 rest

/-! ### Sets -/

/-- membership after one mutation -/
def memStep {T} [DecidableEq T] (m : T → Bool) : SetOp T → T → Bool
  | .add w => fun v => if v = w then true else m v
  | .delete w => fun v => if v = w then false else m v
  | .clear => fun _ => false

/-- "added and not deleted": membership after a script of mutations, starting from `m` -/
def memAfter {T} [DecidableEq T] (m : T → Bool) (ops : List (SetOp T)) : T → Bool :=
  ops.foldl memStep m

/-- strictly ascending w.r.t. `cmp.Less` -/
def StrictAsc {T} [GoOrdered T] (l : List T) : Prop := l.Pairwise GoOrdered.lt

end GolibsVerif.C11
