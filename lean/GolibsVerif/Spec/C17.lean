/-
C17 — definitions the property statements are phrased with (on top of `Model/C17.lean`).
-/
import GolibsVerif.Model.C17

namespace GolibsVerif.C17

variable {K V : Type}

/-- key the invocation works on -/
def PC.key : PC K V → Option K
  | .idle => none
  | .load k | .mk k | .send k | .los k | .recv k _ | .construct k _ | .inCtor k _ | .close k _
  | .readCached k _ | .done k _ | .panicked k => some k

/-- the invocation has received the token of loader `l` and not yet closed the channel -/
def PC.holds : PC K V → Option (K × Nat)
  | .construct k l | .inCtor k l | .close k l => some (k, l)
  | _ => none

/-- the part of the state that belongs to key `k`: its map entry and the `done` channels
created by invocations on `k` -/
def AgreeOn (k : K) (s₁ s₂ : OState K V) : Prop :=
  s₁.stored k = s₂.stored k ∧ ∀ l, (s₁.pc l).key = some k → s₁.chan l = s₂.chan l

/-! ### The synchronisation skeletons the transition systems were written against

`gen/c17sync.go` re-extracts these lists from `/repo`'s working tree on every run into
`Gen/SyncC17.lean`; `skel_*` in `Theorems/C17.lean` state that they are still the same. -/
namespace Expected

/-- `syncutil/onceconstructor.go`: NewOnceConstructor -/
def newOnceConstructor : List String := [
  "func func[K comparable, V any](newFunc func(k K) (v V)) (c *OnceConstructor[K, V])",
  "return &OnceConstructor[K, V]{loaders: &sync.Map{}, new: newFunc}"
]

/-- `syncutil/onceconstructor.go`: OnceConstructor.Get -/
def onceGet : List String := [
  "func func(key K) (v V)",
  "assign loaderVal, inited := c.loaders.Load(key)",
  "if inited",
  "return loaderVal.(func() (v V))()",
  "endif",
  "var cached V = ",
  "assign done := make(chan struct{}, 1)",
  "send done <- struct{}{}",
  "assign loaderVal, _ = c.loaders.LoadOrStore(key, func() (loaded V) { })",
  "func{ func() (loaded V)",
  "assign _, ok := <-done",
  "if ok",
  "assign cached = c.new(key)",
  "expr close(done)",
  "endif",
  "return cached",
  "}func",
  "return loaderVal.(func() (v V))()"
]

/-- `syncutil/sema.go`: NewChanSemaphore -/
def newChanSemaphore : List String := [
  "func func(maxRes uint) (c *ChanSemaphore)",
  "return &ChanSemaphore{c: make(chan unit, maxRes)}"
]

/-- `syncutil/sema.go`: ChanSemaphore.Acquire -/
def semaAcquire : List String := [
  "func func(ctx context.Context) (err error)",
  "select{",
  "case send c.c <- unit{}",
  "return nil",
  "case recv <-ctx.Done()",
  "return ctx.Err()",
  "}select"
]

/-- `syncutil/sema.go`: ChanSemaphore.Release -/
def semaRelease : List String := [
  "func func()",
  "select{",
  "case recv <-c.c",
  "default",
  "}select"
]

end Expected

end GolibsVerif.C17
