/-
C17 — definitions the property statements are phrased with (on top of `Model/C17.lean`).
-/
import GolibsVerif.Model.C17

namespace GolibsVerif.C17

variable {K V : Type}

/-- key the invocation works on -/
def PC.key : PC K V → Option K
  | .idle => none
  | .load k | .mk k | .send k | .los k | .recv k _ | .construct k _ | .inCtor k _ | .close k _
  | .readCached k _ | .done k _ | .panicked k => some k

/-- the invocation has received the token of loader `l` and not yet closed the channel -/
def PC.holds : PC K V → Option (K × Nat)
  | .construct k l | .inCtor k l | .close k l => some (k, l)
  | _ => none

/-- the part of the state that belongs to key `k`: its map entry and the `done` channels
created by invocations on `k` -/
def AgreeOn (k : K) (s₁ s₂ : OState K V) : Prop :=
  s₁.stored k = s₂.stored k ∧ ∀ l, (s₁.pc l).key = some k → s₁.chan l = s₂.chan l

/-! ### The synchronisation skeletons the transition systems were written against

`gen/c17sync.go` re-extracts these lists from `/repo`'s working tree on every run into
`Gen/SyncC17.lean`; `skel_*` in `Theorems/C17.lean` state that they are still the same.

The lists are in the NORMAL FORM of `gen/nfskel.go` (read its header): the tree of control paths
of the function, printed depth first.  A line `#n …` is the n-th synchronisation event of its
path (channel operation, `sync.Map` call, call of the user's constructor or of a `Context`
method, read/write of a shared cell); `if v … else … endif` splits a path on the value `v` (the
code after the `if` is repeated in both branches, the positive branch comes first);
`#n select{ case … }select` splits it into the cases, sorted by their text.  Operands are
symbolic values: `recv`, `param0`, `recv.field(T)` (an immutable field, named by its type),
`#n.i` (i-th result of event `#n`), `chan#n` (made by event `#n`), `val#n` (loaded from the
`sync.Map` by event `#n`), `val#n.slot(d)` (the component of the loaded loader that the storing
invocation initialised as `d`: `madeChan(cap=1,…)` is the `done` channel, `cell(init=zero)` is
`cached`, `copy(param0)` is the captured `key`).  Helpers of the package, function literals and
the loader stored in the map are inlined, so the lists do not depend on how the code is cut
into functions, on names, on the polarity of conditions or on the order of select cases.

How to read `onceGet` against `Model/C17.lean`: `#0 Load` is `PC.load`; the `else` branch
(`makeChan`, `send`, `LoadOrStore` of an object holding exactly that channel and a fresh cell)
is `mk`, `send`, `los`; the events on `val#0` / `val#3` are the loader that was found / that
`LoadOrStore` returned (NOT the one just created): `recv` is `PC.recv`, the `if #k.1` branch is
`construct` → `inCtor` (`callFunc recv.field(func($0) $1)` is `c.new`) → store of `cached` →
`close` → `readCached`; the `else` branch is `readCached` alone. -/
namespace Expected

/-- `syncutil/onceconstructor.go`: NewOnceConstructor -/
def newOnceConstructor : List String := [
  "func NewOnceConstructor : func(func($0) $1) *OnceConstructor[$0,$1]",
  "  return obj0:&OnceConstructor[$0,$1]{field(*sync.Map)=obj1:&sync.Map{}, field(func($0) $1)=param0}"
]

/-- `syncutil/onceconstructor.go`: OnceConstructor.Get -/
def onceGet : List String := [
  "func (*OnceConstructor[$0,$1]).Get : func($0) $1",
  "  #0 call (*sync.Map).Load recv.field(*sync.Map) (param0)",
  "  if #0.1",
  "    #1 recv val#0.slot(madeChan(cap=1,elem=struct{}))",
  "    if #1.1",
  "      #2 callFunc recv.field(func($0) $1)(val#0.slot(copy(param0)))",
  "      #3 store val#0.slot(cell(init=zero)) <- #2",
  "      #4 close val#0.slot(madeChan(cap=1,elem=struct{}))",
  "      #5 load val#0.slot(cell(init=zero))",
  "      return #5",
  "    else",
  "      #2 load val#0.slot(cell(init=zero))",
  "      return #2",
  "    endif",
  "  else",
  "    #1 makeChan cap=1 elem=struct{}",
  "    #2 send chan#1 <- zero(struct{})",
  "    #3 call (*sync.Map).LoadOrStore recv.field(*sync.Map) (param0, store{cell(init=zero), copy(param0)=param0, madeChan(cap=1,elem=struct{})=chan#1})",
  "    #4 recv val#3.slot(madeChan(cap=1,elem=struct{}))",
  "    if #4.1",
  "      #5 callFunc recv.field(func($0) $1)(val#3.slot(copy(param0)))",
  "      #6 store val#3.slot(cell(init=zero)) <- #5",
  "      #7 close val#3.slot(madeChan(cap=1,elem=struct{}))",
  "      #8 load val#3.slot(cell(init=zero))",
  "      return #8",
  "    else",
  "      #5 load val#3.slot(cell(init=zero))",
  "      return #5",
  "    endif",
  "  endif"
]

/-- `syncutil/sema.go`: NewChanSemaphore -/
def newChanSemaphore : List String := [
  "func NewChanSemaphore : func(uint) *ChanSemaphore",
  "  #0 makeChan cap=param0 elem=struct{}",
  "  return obj0:&ChanSemaphore{field(chan struct{})=chan#0}"
]

/-- `syncutil/sema.go`: ChanSemaphore.Acquire -/
def semaAcquire : List String := [
  "func (*ChanSemaphore).Acquire : func(context.Context) error",
  "  #0 call (context.Context).Done param0 ()",
  "  #1 select{",
  "  case recv #0",
  "    #2 call (context.Context).Err param0 ()",
  "    return #2",
  "  case send recv.field(chan struct{}) <- zero(struct{})",
  "    return nil",
  "  }select"
]

/-- `syncutil/sema.go`: ChanSemaphore.Release -/
def semaRelease : List String := [
  "func (*ChanSemaphore).Release : func()",
  "  #0 select{",
  "  case recv recv.field(chan struct{})",
  "    return",
  "  default",
  "    return",
  "  }select"
]

end Expected

end GolibsVerif.C17
