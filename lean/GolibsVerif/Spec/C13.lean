/-
C13 — the reference definitions the property is stated against, and the named stdlib
contract FOLD-1 about `unicode.SimpleFold`.  Core Lean only.
-/
import GolibsVerif.Model.C13

namespace GolibsVerif.C13

/-! ## Valid UTF-8 free of U+FFFD -/

/-- `utf8.ValidString`: decoding left to right never meets an invalid byte, i.e. never
yields `(RuneError, 1)` (a genuine U+FFFD decodes to `(RuneError, 3)`). -/
def validUtf8 (s : Bytes) : Bool :=
  match s with
  | [] => true
  | b :: t =>
    (decodeRune (b :: t) != (RuneError, 1)) && validUtf8 ((b :: t).drop (decodeRune (b :: t)).2)
termination_by s.length
decreasing_by
  have := decodeRune_width_pos b t
  simp only [List.length_drop, List.length_cons]; omega

/-- `!strings.ContainsRune(s, utf8.RuneError)` (ranging over `s` yields no U+FFFD). -/
def noFFFD (s : Bytes) : Bool := !(runes s).contains RuneError

/-- Byte offset `i` of `s` is a rune boundary: `i = len(s)` or `utf8.RuneStart(s[i])`. -/
def boundary (s : Bytes) (i : Nat) : Prop :=
  i ≤ s.length ∧ ∀ b, s[i]? = some b → ¬ isCont b

instance (s : Bytes) (i : Nat) : Decidable (boundary s i) := by
  unfold boundary
  cases h : s[i]? with
  | none => exact decidable_of_iff (i ≤ s.length) (by simp)
  | some b => exact decidable_of_iff (i ≤ s.length ∧ ¬ isCont b) (by simp)

/-- The window `s[i : i+n]` (for `i + n ≤ len(s)`). -/
def window (s : Bytes) (i n : Nat) : Bytes := (s.drop i).take n

/-- The reference definition of the property: `s` has a substring of the same byte length
as `sub`, starting at a rune boundary, that equals `sub` under simple case folding. -/
def RefContainsFold (fold : Nat → Nat) (s sub : Bytes) : Prop :=
  ∃ i, boundary s i ∧ i + sub.length ≤ s.length ∧ equalFold fold (window s i sub.length) sub = true

/-! ## FOLD-1 -/

/-- `f` applied `n` times. -/
def iter (f : Nat → Nat) : Nat → Nat → Nat
  | 0, a => a
  | n + 1, a => iter f n (f a)

/-- ASCII lower-casing of one byte / rune (`strings.ToLower` on ASCII input). -/
def lowerASCII (b : Nat) : Nat := if 0x41 ≤ b ∧ b ≤ 0x5A then b + 32 else b

/-- Contract FOLD-1 on `fold = unicode.SimpleFold`: it permutes the runes in cycles of at
most `orbitFuel` members (so "same orbit" is an equivalence, the `strings.EqualFold`
classes); U+FFFD folds to itself; and two ASCII runes are in one orbit exactly when they
have the same ASCII lower case (the non-ASCII members U+212A, U+017F of the orbits of `k`
and `s` do not connect different ASCII letters).  The harness checks the first two clauses
over every rune, and the third on the table it ships, on every run (`C13.std.fold1`). -/
structure Fold1 (fold : Nat → Nat) : Prop where
  period : ∀ a, ∃ n, 0 < n ∧ n ≤ orbitFuel ∧ iter fold n a = a
  fffd : fold RuneError = RuneError
  ascii : ∀ a b, a < 128 → b < 128 → ((∃ n, iter fold n a = b) ↔ lowerASCII a = lowerASCII b)

/-! ## `SplitTrimmed` -/

/-- The reference: the non-empty trimmed pieces of `Split(TrimSpace(s), sep)`, in order. -/
def refSplitTrimmed (trim : Bytes → Bytes) (split : Bytes → Bytes → List Bytes) (s sep : Bytes) :
    List Bytes :=
  ((split (trim s) sep).map trim).filter (fun p => p ≠ [])

/-- Invariant of the in-place filter after `i` iterations over the original `split` result
`orig`: `strs` still aliases `split` (`append` never reallocated), its length `j` is at
most `i` (the write index never overtakes the read index), every element not yet read is
still the original one, the array has not changed size, and `strs` holds the filtered
prefix. -/
structure FilterInv (trim : Bytes → Bytes) (orig : List Bytes) (i : Nat) (st : FState) : Prop where
  aliased : st.own = none
  write_le_read : st.j ≤ i
  same_len : st.A.length = orig.length
  unread_intact : ∀ m, i ≤ m → st.A[m]? = orig[m]?
  filtered : st.A.take st.j = ((orig.take i).map trim).filter (fun p => p ≠ [])

end GolibsVerif.C13
