/-
C07 — reference definitions written from the property text: the hosts(5) field grammar.

  fields line := split of (strip comment line) on {space, tab} without empty pieces

and what a line "consists of": one address field followed by one or more name fields.
-/
import GolibsVerif.Model.C07
import GolibsVerif.Spec.C03

namespace GolibsVerif.C07
open GolibsVerif GolibsVerif.Str GolibsVerif.Netutil GolibsVerif.Netip

/-- everything before the first `'#'` -/
def stripComment (line : Bytes) : Bytes := line.takeWhile (fun b => b != hash)

/-- split at every blank (space or tab), keeping empty pieces: always at least one piece -/
def splitBlank : Bytes → List Bytes
  | [] => [[]]
  | b :: rest =>
    if isSpace b then [] :: splitBlank rest
    else match splitBlank rest with
      | [] => [[b]]           -- unreachable
      | p :: ps => (b :: p) :: ps

/-- the blank-separated fields of a text: the non-empty pieces, in order -/
def fieldsOf (s : Bytes) : List Bytes := (splitBlank s).filter (fun p => p != [])

/-- the fields of a hosts-file line -/
def fields (line : Bytes) : List Bytes := fieldsOf (stripComment line)

/-- a name accepted by `netutil.ValidateDomainName` (the C03 grammar) -/
def NameOK (toASCII : Bytes → Option Bytes) (n : Bytes) : Prop := C03.DomainNameOK toASCII n

/-- the line is a well-formed record: an address field and at least one name field, all
names valid -/
def WellFormed (toASCII : Bytes → Option Bytes) (line : Bytes) (a : Addr) (names : List Bytes) : Prop :=
  ∃ f, fields line = f :: names ∧ names ≠ [] ∧ parseAddr f = some a ∧ ∀ n ∈ names, NameOK toASCII n

/-- a byte that may not occur inside a field: blank or `'#'` -/
def isSep (b : Nat) : Bool := isSpace b || b == hash

end GolibsVerif.C07
