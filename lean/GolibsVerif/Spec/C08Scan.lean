/-
C08 — reference definitions for the scanner theorems (`Theorems/C08Scan.lean`): what a
fragmentation script delivers, and what "lines shorter than the maximum token size" means.
-/
import GolibsVerif.Model.C08Scan

namespace GolibsVerif.C08
open GolibsVerif GolibsVerif.Bufio

/-- the number of bytes a script delivers before the input ends: everything up to and
including the first read result that carries an error -/
def delivered : Script → Nat
  | [] => 0
  | (n, none) :: tl => n + delivered tl
  | (n, some _) :: _ => n

/-- the error that ends the input: the first error of the script (`io.EOF` from a reader whose
script is exhausted) -/
def ending : Script → Err
  | [] => .eof
  | (_, none) :: tl => ending tl
  | (_, some e) :: _ => e

/-- the script never answers more than `maxConsecutiveEmptyReads = 100` times `(0, nil)` in a
row (before the input ends); `k` = the number of `(0, nil)` results immediately before -/
def NoStall : Nat → Script → Prop
  | _, [] => True
  | _, (_, some _) :: _ => True
  | k, (n, none) :: tl => if n = 0 then k < maxConsecutiveEmptyReads ∧ NoStall (k + 1) tl else NoStall 0 tl

instance : ∀ k sc, Decidable (NoStall k sc)
  | _, [] => isTrue trivial
  | _, (_, some _) :: _ => isTrue trivial
  | k, (n, none) :: tl =>
    if h : n = 0 then
      match (inferInstance : Decidable (k < maxConsecutiveEmptyReads)), (instDecidableNoStall (k + 1) tl) with
      | isTrue a, isTrue b => isTrue (by simp only [NoStall, h, if_true]; exact ⟨a, b⟩)
      | isFalse a, _ => isFalse (by simp only [NoStall, h, if_true]; exact fun x => a x.1)
      | _, isFalse b => isFalse (by simp only [NoStall, h, if_true]; exact fun x => b x.2)
    else
      match instDecidableNoStall 0 tl with
      | isTrue b => isTrue (by simp only [NoStall, h, if_false]; exact b)
      | isFalse b => isFalse (by simp only [NoStall, h, if_false]; exact b)

/-- what the scanner makes of a script, the 101st consecutive `(0, nil)` included: the number
of bytes it gets and the error that ends the input (`io.ErrNoProgress` for a stall);
`k` = the number of `(0, nil)` results immediately before -/
def outcome : Nat → Script → Nat × Err
  | _, [] => (0, .eof)
  | _, (n, some e) :: _ => (n, e)
  | k, (n, none) :: tl =>
    if n = 0 then (if maxConsecutiveEmptyReads ≤ k then (0, .noProgress) else outcome (k + 1) tl)
    else ((outcome 0 tl).1 + n, (outcome 0 tl).2)

/-- `(*Scanner).Err()` for the error that ended the input: `io.EOF` is reported as nil -/
def errOf (e : Err) : Option Err := if e = .eof then none else some e

/-- every line of `s`, its `'\r'` included and its `'\n'` excluded, is shorter than `lim`:
there is no run of `lim` or more bytes without `'\n'` -/
def LinesShort (s : Bytes) (lim : Nat) : Prop := ∀ l : Bytes, l <:+: s → 10 ∉ l → l.length < lim

end GolibsVerif.C08
