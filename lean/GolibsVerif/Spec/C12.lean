/-
C12 — the reference notions the property is stated against: byte ranges, canonical
(CIDR) masks, the sort key of `PreferIPv4/PreferIPv6`, strict weak orders and the
`slices.SortFunc` contract (SORT-1 of DESIGN.md §3).
-/
import GolibsVerif.Model.C12

namespace GolibsVerif.C12

/-- every element is a Go `byte` -/
def IsByte (b : Bytes) : Prop := ∀ x ∈ b, x < 256

/-- a well-formed `netip.Addr`: 4 resp. 16 bytes -/
def Addr.WF : Addr → Prop
  | .zero => True
  | .v4 b => b.length = 4 ∧ IsByte b
  | .v6 b _ => b.length = 16 ∧ IsByte b

/-- the byte with `k ≤ 8` leading one bits -/
def topBits (k : Nat) : Nat := 256 - 2 ^ (8 - k)

/-- `net.CIDRMask(ones, 8*len)`: `ones` one bits followed by zero bits (compared with the
real function by `C12.std.cidrmask`) -/
def cidrMask : Nat → Nat → Bytes
  | _, 0 => []
  | ones, len + 1 => topBits (min ones 8) :: cidrMask (ones - 8) len

/-- a mask "is a contiguous run of ones" (followed by zeros) -/
def Contiguous (m : Bytes) : Prop := ∃ ones, ones ≤ 8 * m.length ∧ m = cidrMask ones m.length

/-- the normal form the conversion is specified against: `To4` for IPv4, `To16` for IPv6 -/
def normalised (fam : Nat) (ip : Option Bytes) : Option Bytes :=
  match ip with
  | none => none
  | some b => if fam = famV4 then to4 b else to16 b

/-! ### Sort key -/

/-- group of an address under a family predicate: 0 = valid and of the preferred family,
1 = valid and of the other family, 2 = invalid -/
def cls (famFunc : Addr → Bool) (a : Addr) : Nat :=
  if !a.isValid then 2 else if famFunc a then 0 else 1

/-- `key = (class, address)`; the address is its numeric value, then (IPv6) the zone -/
def key (famFunc : Addr → Bool) (a : Addr) : Nat × Nat × Bytes :=
  (cls famFunc a, beNat a.bytes, if a.is6 then a.zoneOf else [])

/-- lexicographic order on keys (zones compare as Go strings) -/
def keyLt (k1 k2 : Nat × Nat × Bytes) : Prop :=
  k1.1 < k2.1 ∨ (k1.1 = k2.1 ∧ (k1.2.1 < k2.2.1 ∨ (k1.2.1 = k2.2.1 ∧ lexCmp k1.2.2 k2.2.2 < 0)))

structure StrictWeakOrder {α : Type} (lt : α → α → Prop) : Prop where
  irrefl : ∀ a, ¬ lt a a
  trans : ∀ a b c, lt a b → lt b c → lt a c
  incomp_trans : ∀ a b c, (¬ lt a b ∧ ¬ lt b a) → (¬ lt b c ∧ ¬ lt c b) → (¬ lt a c ∧ ¬ lt c a)

/-- sorted w.r.t. a three-way comparison: no later element is strictly less than an
earlier one (`slices.IsSortedFunc`) -/
def Sorted {α : Type} (cmp : α → α → Int) (l : List α) : Prop :=
  l.Pairwise (fun a b => ¬ cmp b a < 0)

/-- SORT-1: the contract of `slices.SortFunc` (for any element type; `sortFunc_order` uses it
for `netip.Addr`).  It is a theorem about the model of `pdqsortCmpFunc` in `Go/Sort.lean`:
`sort_contract_model` in `Theorems/C12Sort.lean`. -/
structure SortContract {α : Type} (sort : (α → α → Int) → List α → List α) : Prop where
  perm : ∀ cmp l, StrictWeakOrder (fun a b => cmp a b < 0) → (sort cmp l).Perm l
  sorted : ∀ cmp l, StrictWeakOrder (fun a b => cmp a b < 0) → Sorted cmp (sort cmp l)

/-- the order the property states for a family predicate: groups in the order preferred
family, other family, invalid; ascending by `Addr.Compare` inside a group of valid
addresses -/
def StatedOrder (famFunc : Addr → Bool) (l : List Addr) : Prop :=
  l.Pairwise (fun a b => cls famFunc a < cls famFunc b ∨
    (cls famFunc a = cls famFunc b ∧ (cls famFunc a = 2 ∨ a.compare b ≤ 0)))

end GolibsVerif.C12
