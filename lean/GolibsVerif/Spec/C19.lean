/-
C19 — what the property is stated against.

* `specLine`, `specStep`, `specRun`: the *heap-free* reference semantics of a derivation tree:
  a node's attributes are the concatenation of the `WithAttrs` arguments along its path from
  the root; `Handle` on node `n` prints `encode (severity level) (text(record attrs ++ kept
  path attrs) without its last byte)`; `Enabled l` is `l ≥` what the `slog.Leveler` stored in
  the root answers *now* (the root the code makes stores the constant read at construction;
  `newHandlerDyn` stores the leveler itself, so that a `*slog.LevelVar` is followed).
* `TextContract` (TEXT-1): what is assumed of `slog.TextHandler`.
* A byte-level reader of the emitted line: `parseLine` accepts exactly
  `{"severity":<string>,"message":<string>}\n` with RFC 8259 string literals and returns
  the two decoded strings (`JsonContract` = JSON-RT says a decoder inverts the encoder; for
  the executable encoder model `goJsonEncode` this is *proved*, see `Lemmas/C19Json.lean`).
* `validUtf8`, `sanitize` (what `encoding/json` does to invalid bytes).
-/
import GolibsVerif.Model.C19
import GolibsVerif.Lemmas.C19Heap

namespace GolibsVerif.C19

/-! ### reference semantics of handlers in a derivation tree -/

/-- the line for a record (level, identity) whose final attribute list is `as` -/
def specLine (text : Int → Nat → List Attr → Bytes) (encode : Bytes → Bytes → Bytes)
    (lvl : Int) (rid : Nat) (as : List Attr) : GoM Bytes := do
  let line := text lvl rid as
  let msg ← GoM.sliceTo line ((line.length : Int) - 1)
  pure (encode (severity lvl) msg)

/-- what a record is, independent of where its attributes are stored -/
structure RecInfo where
  level : Int
  rid : Nat
  attrs : List Attr
  deriving Repr, DecidableEq

def Record.info (hp : Heap) (r : Record) : RecInfo :=
  { level := r.level, rid := r.rid, attrs := r.attrs hp }

def toOut : GoM Bytes → Out
  | .ok b => .line b
  | .error p => .panic p

/-- The abstract tree: `paths[i]` is the attribute list of node `i`; `lvar` is the current
value of the `*slog.LevelVar` (the last `setLevel`, or its initial value). -/
structure SpecWorld where
  paths : List (List Attr)
  lvar : Int
  deriving Repr, DecidableEq

/-- One operation on the abstract tree.  `lvl0` is the `slog.Leveler` the root stores: every
node answers `Enabled` for what it reports at the time of the call. -/
def specStep (text : Int → Nat → List Attr → Bytes) (encode : Bytes → Bytes → Bytes)
    (lvl0 : Leveler) (recs : List RecInfo) (s : SpecWorld) : Op → Option (SpecWorld × Out)
  | .withAttrs p as => do
    let pa ← s.paths[p]?
    pure ({ s with paths := s.paths ++ [pa ++ as] }, .derived)
  | .handle n ri => do
    let pa ← s.paths[n]?
    let r ← recs[ri]?
    pure (s, toOut (specLine text encode r.level r.rid (r.attrs ++ keep pa)))
  | .enabled n l => do
    let _ ← s.paths[n]?
    pure (s, .en (decide (l ≥ lvl0.get s.lvar)))
  | .setLevel l => pure ({ s with lvar := l }, .set)

def specRun (text : Int → Nat → List Attr → Bytes) (encode : Bytes → Bytes → Bytes)
    (lvl0 : Leveler) (recs : List RecInfo) : SpecWorld → List Op → Option (SpecWorld × List Out)
  | s, [] => some (s, [])
  | s, op :: ops => do
    let (s1, o) ← specStep text encode lvl0 recs s op
    let (s2, os) ← specRun text encode lvl0 recs s1 ops
    pure (s2, o :: os)

/-- the value of the `*slog.LevelVar` after a script: the argument of the last `Set`, the
initial value when there was none -/
def lastLevel : Int → List Op → Int
  | lv, [] => lv
  | _, .setLevel l :: ops => lastLevel l ops
  | lv, _ :: ops => lastLevel lv ops

/-- A record value is meaningful in a heap: its `back` slice is, and — the invariant of
`slog.Record` — `back` is used only once the inline array is full. -/
structure Record.wf (hp : Heap) (r : Record) : Prop where
  back : r.back.wf hp
  full : r.back.len = 0 ∨ r.front.length = nAttrsInline

/-! ### UTF-8 -/

/-- well-formed UTF-8 (RFC 3629), by the same table as `utf8.DecodeRune` -/
def validUtf8 : Bytes → Bool
  | [] => true
  | b :: rest =>
    if b < 0x80 then validUtf8 rest
    else
      let n := utf8SeqLen (b :: rest)
      n ≠ 0 && validUtf8 (rest.drop (n - 1))
termination_by s => s.length
decreasing_by all_goals (simp only [List.length_cons, List.length_drop]; omega)

/-- every byte that does not start a well-formed sequence replaced by U+FFFD -/
def sanitize : Bytes → Bytes
  | [] => []
  | b :: rest =>
    if b < 0x80 then b :: sanitize rest
    else
      let n := utf8SeqLen (b :: rest)
      if n = 0 then [0xEF, 0xBF, 0xBD] ++ sanitize rest
      else (b :: rest.take (n - 1)) ++ sanitize (rest.drop (n - 1))
termination_by s => s.length
decreasing_by all_goals (simp only [List.length_cons, List.length_drop]; omega)

/-! ### TEXT-1 -/

/-- Contract TEXT-1 for `slog.TextHandler.Handle` writing into the pooled buffer: exactly one
newline-terminated line, no raw newline inside, valid UTF-8; a function of (record, attrs). -/
structure TextContract (text : Int → Nat → List Attr → Bytes) : Prop where
  line : ∀ l rid as, ∃ body, text l rid as = body ++ [10] ∧ 10 ∉ body ∧ validUtf8 body = true

/-! ### reading the emitted line back -/

def hexVal (c : Nat) : Option Nat :=
  if 48 ≤ c ∧ c ≤ 57 then some (c - 48)
  else if 97 ≤ c ∧ c ≤ 102 then some (c - 87)
  else if 65 ≤ c ∧ c ≤ 70 then some (c - 55)
  else none

/-- UTF-8 encoding of a code point of the Basic Multilingual Plane -/
def utf8Enc (cp : Nat) : Bytes :=
  if cp < 0x80 then [cp]
  else if cp < 0x800 then [0xC0 + cp / 64, 0x80 + cp % 64]
  else [0xE0 + cp / 4096, 0x80 + cp / 64 % 64, 0x80 + cp % 64]

/-- two-character escapes of RFC 8259 §7 -/
def simpleEsc (c : Nat) : Option Nat :=
  if c = 34 then some 34 else if c = 92 then some 92 else if c = 47 then some 47
  else if c = 98 then some 8 else if c = 102 then some 12 else if c = 110 then some 10
  else if c = 114 then some 13 else if c = 116 then some 9 else none

/-- Read a JSON string literal after its opening quote, up to and including the closing
quote: the decoded bytes and the rest of the input.  Raw control bytes are rejected. -/
def unquoteBody : Bytes → Option (Bytes × Bytes)
  | [] => none
  | b :: rest =>
    if b = 34 then some ([], rest)
    else if b = 92 then
      match rest with
      | [] => none
      | c :: rest1 =>
        if c = 117 then
          match rest1 with
          | h1 :: h2 :: h3 :: h4 :: rest2 =>
            match hexVal h1, hexVal h2, hexVal h3, hexVal h4 with
            | some x1, some x2, some x3, some x4 =>
              (unquoteBody rest2).map fun p => (utf8Enc (((x1 * 16 + x2) * 16 + x3) * 16 + x4) ++ p.1, p.2)
            | _, _, _, _ => none
          | _ => none
        else
          match simpleEsc c with
          | some x => (unquoteBody rest1).map fun p => (x :: p.1, p.2)
          | none => none
    else if b < 0x20 then none
    else (unquoteBody rest).map fun p => (b :: p.1, p.2)
termination_by s => s.length
decreasing_by all_goals (simp only [List.length_cons]; omega)

def stripPrefix : Bytes → Bytes → Option Bytes
  | [], s => some s
  | _ :: _, [] => none
  | p :: ps, c :: s => if p = c then stripPrefix ps s else none

/-- `{"severity":"…","message":"…"}\n` and nothing else → (severity, message) -/
def parseLine (l : Bytes) : Option (Bytes × Bytes) := do
  let r1 ← stripPrefix (ascii "{\"severity\":\"") l
  let (sev, r2) ← unquoteBody r1
  let r3 ← stripPrefix (ascii ",\"message\":\"") r2
  let (msg, r4) ← unquoteBody r3
  if r4 = ascii "}\n" then some (sev, msg) else none

/-- Contract JSON-RT for an encoder of the two-field message: one line, and a reader gets
back exactly the two fields when they are valid UTF-8. -/
structure JsonContract (encode : Bytes → Bytes → Bytes) : Prop where
  oneLine : ∀ sev msg, ∃ body, encode sev msg = body ++ [10] ∧ 10 ∉ body
  roundTrip : ∀ sev msg, validUtf8 sev = true → validUtf8 msg = true →
    parseLine (encode sev msg) = some (sev, msg)

end GolibsVerif.C19
