/-
C14 — reference definitions the property is stated against, and the named standard-library
contracts (structures of hypotheses) the round-trip theorems depend on.
-/
import GolibsVerif.Model.C14

namespace GolibsVerif.C14

/-! ### "time.Duration's text with redundant trailing zero units removed" -/

/-- drop the last two bytes of `s` when `s` ends with `suf` -/
def cut2If (suf s : Bytes) : Bytes := if suf <:+ s then s.take (s.length - 2) else s

/-- Remove a trailing `0s` that follows an `m`, and then a trailing `0m` that follows an
`h`: `…m0s ↦ …m`, `…h0m ↦ …h` (bytes: `h`=104, `m`=109, `s`=115, `0`=48). -/
def stripRedundant (s : Bytes) : Bytes := cut2If [104, 48, 109] (cut2If [109, 48, 115] s)

/-! ### Contracts -/

/-- **DUR-RT**: `time.ParseDuration` inverts `time.Duration.String` on every `int64`, and a
text that parses with a zero unit appended after a complete `…m` / `…h` group parses to the
same value without it. -/
structure DurRT (parseDuration : Bytes → Option Int) : Prop where
  rt : ∀ d, inInt64 d → parseDuration (stdString d) = some d
  drop0s : ∀ s d, s.getLast? = some 109 → parseDuration (s ++ [48, 115]) = some d → parseDuration s = some d
  drop0m : ∀ s d, s.getLast? = some 104 → parseDuration (s ++ [48, 109]) = some d → parseDuration s = some d

variable {U : Type}

/-- **URL-ID at `u`**: `url.Parse(u.String())` succeeds and re-renders to the same string. -/
def UrlIdAt (S : UrlStd U) (u : U) : Prop := ∃ u', S.parse (S.str u) = some u' ∧ S.str u' = S.str u

/-- **JSON-RT at `s`**: `encoding/json` renders the text `s` as a quoted token which is not
`null`, and decoding that token gives `s` back.  (True of `encoding/json` for every valid
UTF-8 `s`; false for invalid UTF-8, which it replaces by U+FFFD.) -/
structure JsonRtAt (J : JsonStd) (s : Bytes) : Prop where
  shape : ∃ mid, J.quote s = 34 :: (mid ++ [34])
  rt : J.unquote (J.quote s) = some s

end GolibsVerif.C14
