/-
C09 — what the pointer-level usage list (`Model/C09List.lean`) is stated against:

* `Repr h s l`: the heap `h` with sentinel `s` *represents* the list `l` of node addresses
  (oldest first) — the representation invariant of `cache.usage`;
* the abstract list machine: what each list instruction of the cache does to that list
  (`absStep`), and the side condition under which the cache executes it (`Legal`).
-/
import GolibsVerif.Model.C09List
import GolibsVerif.Spec.C09

namespace GolibsVerif.C09.LL

/-- `a.next == b` and `b.prev == a` (so both objects are live and neither field is nil) -/
def Link (h : Heap) (a b : Ptr) : Prop := h.nx a = some b ∧ h.pv b = some a

/-- From `a`, following `next`, one visits exactly the nodes of `l` in order and then
reaches `b`; following `prev` from `b` goes back the same way. -/
def Path (h : Heap) : Ptr → List Ptr → Ptr → Prop
  | a, [], b => Link h a b
  | a, x :: xs, b => Link h a x ∧ Path h x xs b

/-- **Representation invariant.**  Starting at the sentinel and following `next` visits
exactly the nodes of `l`, in order, and returns to the sentinel; `prev` is the inverse;
the nodes are pairwise distinct and different from the sentinel. -/
structure Repr (h : Heap) (s : Ptr) (l : List Ptr) : Prop where
  path : Path h s l s
  nodup : (s :: l).Nodup

/-! ### The abstract list machine -/

/-- Abstract state: the usage list (node addresses, oldest first) and the addresses at
which an `item.used` object has been created so far (linked or not). -/
structure LAbs where
  list : List Ptr
  objs : List Ptr
  deriving DecidableEq

def LAbs.init : LAbs := { list := [], objs := [] }

/-- what an instruction does to the abstract list -/
def absStep : LOp → LAbs → LAbs
  | .alloc x, a => { a with objs := x :: a.objs }
  | .append x, a => { a with list := a.list ++ [x] }
  | .unlink x, a => { a with list := a.list.erase x }
  | .moveBack x, a => { a with list := a.list.erase x ++ [x] }
  | .popFront, a => { a with list := a.list.tail }
  | .clear, a => { a with list := [] }

def absRun : List LOp → LAbs → LAbs
  | [], a => a
  | op :: rest, a => absRun rest (absStep op a)

/-- The side conditions under which `data.go` executes the list instructions (where each
comes from in `Model/C09.lean` is spelled out in `Theorems/C09List.lean`):

* `alloc x`: Go allocates at an address that is not reachable — in particular not the
  sentinel and not a node of the list (an address of an *unlinked*, dropped item may be
  re-used);
* `append x`: `x` is an existing item node that is not in the list (fresh from `alloc`, or
  just unlinked by the first half of `Get`);
* `unlink x`, `moveBack x`: `x` is in the list;
* `popFront`: the list is not empty;
* `clear`: always. -/
def Legal (s : Ptr) : LOp → LAbs → Prop
  | .alloc x, a => x ∉ s :: a.list
  | .append x, a => x ∈ a.objs ∧ x ∉ s :: a.list
  | .unlink x, a => x ∈ a.list
  | .moveBack x, a => x ∈ a.list
  | .popFront, a => a.list ≠ []
  | .clear, _ => True

def LegalRun (s : Ptr) : List LOp → LAbs → Prop
  | [], _ => True
  | op :: rest, a => Legal s op a ∧ LegalRun s rest (absStep op a)

/-- the simulation relation: the heap represents the abstract list and every item node
created so far is a live object -/
structure Sim (h : Heap) (s : Ptr) (a : LAbs) : Prop where
  repr : Repr h s a.list
  objs : ∀ x ∈ a.objs, h.live x

/-! ### Which list instructions a critical section of `Model/C09.lean` executes

The cache model's `St.lru : List Entry` is *annotated*: every entry is paired with the
address of the `used` field of the Go `item` that holds it.  `annFind` is the map lookup
`c.items[string(k)]` (the model keeps map and list in one Lean list), `opsOf` lists the list
instructions `data.go` executes in the critical section that produces event `ev` when
`EnableLRU` is on, `annNext` is the annotated list afterwards (the new item of a storing
`Set` lives at the fresh address `x`). -/

/-- the model's list, each entry with the address of its `item.used` -/
abbrev Ann := List (Entry × Ptr)

/-- `c.items[string(k)]` -/
def annFind (z : Ann) (k : Bytes) : Option (Entry × Ptr) := z.find? (fun p => p.1.key = k)

/-- `delete(c.items, string(k))` + the entry leaves the list -/
def annRemove (z : Ann) (k : Bytes) : Ann := z.filter (fun p => p.1.key ≠ k)

/-- The list instructions of one critical section (`EnableLRU = true`):

* `evict`  — the loop body of `Set`: `first := listFirst(&c.usage)`, `listUnlink(first)`;
* `commit` — `it := item{}` (before the lock), `listAppend(&it.used, listLast(&c.usage))`,
  then `it2, exists := c.items[k]; if exists { listUnlink(&it2.used) }` — in this order;
* `get` that hits — `listUnlink(&val.used); listAppend(&val.used, listLast(&c.usage))`;
* `del` of a present key — `listUnlink(&it.used)`;
* `clear` — `listInit(&c.usage)`;
* a refused `Set`, a missing `Get`/`Del`, `Stats`, an `OnDelete` call: nothing. -/
def opsOf (z : Ann) (x : Ptr) : Ev → List LOp
  | .evict _ _ => [.popFront]
  | .commit k _ _ =>
    [.alloc x, .append x] ++
      (match annFind z k with
       | some (_, o) => [.unlink o]
       | none => [])
  | .get k (some _) =>
    (match annFind z k with
     | some (_, o) => [.moveBack o]
     | none => [])
  | .del k =>
    (match annFind z k with
     | some (_, o) => [.unlink o]
     | none => [])
  | .clear => [.clear]
  | _ => []

/-- the annotated list after that critical section -/
def annNext (z : Ann) (x : Ptr) : Ev → Ann
  | .evict _ _ => z.tail
  | .commit k v _ => annRemove z k ++ [(⟨k, v, true⟩, x)]
  | .get k (some _) =>
    (match annFind z k with
     | some p => annRemove z k ++ [p]
     | none => z)
  | .del k => annRemove z k
  | .clear => []
  | _ => z

/-- Run a whole log: `ν i l` is the address the Go allocator hands out for the item created
by the `i`-th critical section when the list nodes are `l` (any address that is not live in
the structure).  Returns the final annotated list and all list instructions executed. -/
def runAnn (ν : Nat → List Ptr → Ptr) : Nat → Ann → List Rec → Ann × List LOp
  | _, z, [] => (z, [])
  | i, z, r :: rest =>
    let x := ν i (z.map Prod.snd)
    let res := runAnn ν (i + 1) (annNext z x r.ev) rest
    (res.1, opsOf z x r.ev ++ res.2)

/-- The list instructions of one critical section when `EnableLRU = false`: `Set` still
creates its item, every list call is guarded off, only `Clear` runs `listInit`. -/
def opsOfOff (x : Ptr) : Ev → List LOp
  | .commit _ _ _ => [.alloc x]
  | .clear => [.clear]
  | _ => []

/-- all list instructions of a log with LRU off; `ν i` is the address of the item created by
the `i`-th critical section -/
def runOff (ν : Nat → Ptr) : Nat → List Rec → List LOp
  | _, [] => []
  | i, r :: rest => opsOfOff (ν i) r.ev ++ runOff ν (i + 1) rest

end GolibsVerif.C09.LL
