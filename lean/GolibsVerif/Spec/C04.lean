/-
C04 — the canonical PTR owner name of an IP address, written from RFC 1035 §3.5
("IN-ADDR.ARPA domain": the four octets of the address in reverse order, each as a
decimal number, followed by `in-addr.arpa`) and RFC 3596 §2.5 ("IP6.ARPA domain": the 32
nibbles of the address, least significant first, each as one hexadecimal digit, followed
by `ip6.arpa`), independently of the model of `reversed.go`.  An IPv4-mapped IPv6 address
(`::ffff:a.b.c.d`) is encoded as the IPv4 address `a.b.c.d`.

Nothing here mentions the functions of `Model/NetReversed.lean`.
-/
import GolibsVerif.Go.Netip

namespace GolibsVerif.C04
open GolibsVerif.Netip

/-- decimal numeral of `n` without leading zeros (`0` is `"0"`) -/
def dec (n : Nat) : Bytes :=
  if n < 10 then [48 + n] else dec (n / 10) ++ [48 + n % 10]
decreasing_by omega

/-- the lower-case hexadecimal digit of a nibble: `"0123456789abcdef"[n]` -/
def hexChar (n : Nat) : Nat :=
  [48, 49, 50, 51, 52, 53, 54, 55, 56, 57, 97, 98, 99, 100, 101, 102].getD n 0

/-- labels joined by `'.'` (no trailing dot) -/
def joinDot : List Bytes → Bytes
  | [] => []
  | [l] => l
  | l :: ls => l ++ 46 :: joinDot ls

/-- `"in-addr"` -/
def lblInAddr : Bytes := [105, 110, 45, 97, 100, 100, 114]
/-- `"ip6"` -/
def lblIp6 : Bytes := [105, 112, 54]
/-- `"arpa"` -/
def lblArpa : Bytes := [97, 114, 112, 97]

/-- RFC 1035 §3.5: for the address `[a, b, c, d]`, the name `d.c.b.a.in-addr.arpa` -/
def ptr4 (b : List Nat) : Bytes := joinDot (b.reverse.map dec ++ [lblInAddr, lblArpa])

/-- the two nibble labels of one byte, low nibble first -/
def nibbleLabels (x : Nat) : List Bytes := [[hexChar (x % 16)], [hexChar (x / 16)]]

/-- RFC 3596 §2.5: the 32 nibbles, least significant first, then `ip6.arpa` -/
def ptr6 (b : List Nat) : Bytes := joinDot (b.reverse.flatMap nibbleLabels ++ [lblIp6, lblArpa])

/-- the sixteen bytes are `::ffff:a.b.c.d` -/
def is4in6 (b : List Nat) : Prop :=
  b.length = 16 ∧ b.take 12 = [0, 0, 0, 0, 0, 0, 0, 0, 0, 0, 255, 255]

instance (b : List Nat) : Decidable (is4in6 b) := by unfold is4in6; exact inferInstance

/-- the canonical PTR name of an address; an IPv4-mapped IPv6 address is encoded as IPv4;
the zone of a scoped IPv6 address has no representation (the theorems separately state
that a decoded address has no zone) -/
def canonPTR : Addr → Bytes
  | .invalid => []
  | .v4 b => ptr4 b
  | .v6 b _ => if is4in6 b then ptr4 (b.drop 12) else ptr6 b

/-- a well-formed address value: four or sixteen bytes -/
def WF : Addr → Prop
  | .invalid => False
  | .v4 b => b.length = 4 ∧ ∀ x ∈ b, x < 256
  | .v6 b _ => b.length = 16 ∧ ∀ x ∈ b, x < 256

/-- the address a `net.IP` byte slice denotes: 4 bytes are IPv4, 16 bytes are IPv6 unless
they are IPv4-mapped, in which case the slice denotes the IPv4 address (`net.IP` does not
distinguish the two forms) -/
def denotes (ip : Bytes) (a : Addr) : Prop :=
  (ip.length = 4 ∧ a = .v4 ip) ∨
  (is4in6 ip ∧ a = .v4 (ip.drop 12)) ∨
  (ip.length = 16 ∧ ¬ is4in6 ip ∧ a = .v6 ip [])

/-- no `'.'`-separated label starts with `xn--` in any letter case (no A-label, so
`idna.ToASCII` has nothing to check or convert in an ASCII name) -/
def NoXnLabel (s : Bytes) : Prop :=
  ∀ l ∈ Str.splitOn 46 s, ¬ ([120, 110, 45, 45] <+: Str.asciiLower l)

end GolibsVerif.C04
