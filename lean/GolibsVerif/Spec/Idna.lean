/-
Reference description of `idna.ToASCII` (raw `Punycode` profile of golang.org/x/net/idna),
label by label, against which the statement-by-statement model `Go/Idna.lean` is proved
(`Theorems/Idna.lean`, `process_eq_spec`):

  split the name at every '.', and for every label, in order,
  1. if it starts with the lower-case ACE prefix "xn--": punycode-decode the rest; if that
     fails the name is in error and the label is kept, otherwise the label is REPLACED by the
     decoded text (for a valid A-label step 2 then encodes it back);
  2. if the label (now) contains a byte ≥ 0x80: replace it by its punycode encoding with the
     prefix; if that fails the name is in error and the label becomes empty;
  join the labels with '.'.

`dec` / `enc` are the punycode functions (`decode(x)`, `encode("xn--", x)`), parameters.
-/
import GolibsVerif.Go.Idna

namespace GolibsVerif.Idna
open GolibsVerif GolibsVerif.Str

/-- step 1 on one label: the new label and whether there was an error -/
def step1 (dec : Bytes → Option Bytes) (x : Bytes) : Bytes × Bool :=
  if hasPrefix x acePrefix then
    match dec (x.drop 4) with
    | none => (x, true)
    | some u => (u, false)
  else (x, false)

/-- step 2 on one label -/
def step2 (enc : Bytes → Option Bytes) (x : Bytes) : Bytes × Bool :=
  if isAscii x then (x, false)
  else match enc x with
    | some a => (a, false)
    | none => ([], true)

/-- the labels after step 1 -/
def labels1 (dec : Bytes → Option Bytes) (s : Bytes) : List Bytes :=
  (splitOn 46 s).map (fun x => (step1 dec x).1)

/-- the name `idna.ToASCII(s)` returns, and whether it returns an error with it -/
def spec (enc dec : Bytes → Option Bytes) (s : Bytes) : Bytes × Bool :=
  ([46].intercalate ((labels1 dec s).map (fun x => (step2 enc x).1)),
   (splitOn 46 s).any (fun x => (step1 dec x).2) || (labels1 dec s).any (fun x => (step2 enc x).2))

end GolibsVerif.Idna
