/-
C05 — reference decoder for ARPA reverse-zone names, written from the property text, on the
list of `'.'`-separated labels of the lower-cased name (one trailing dot removed).

* `k ≤ 4` labels that are decimal octets `0..255` without leading zeros, followed by
  `in-addr`, `arpa` ↦ the IPv4 prefix of `8k` bits whose leading octets are the labels in
  reverse order, the remaining bytes zero;
* `k ≤ 32` labels that are one lower-case hexadecimal digit each, followed by `ip6`, `arpa` ↦
  the IPv6 prefix of `4k` bits whose leading nibbles are the labels in reverse order, the
  remaining nibbles zero;
* `longestArpaSuffix`: the value of the longest label-aligned suffix on which the above is
  defined.

Nothing here refers to the model's decoders (only to the data types `Addr`, `Prefix`).
-/
import GolibsVerif.Model.NetReversed

namespace GolibsVerif.C05
open GolibsVerif.Netutil GolibsVerif.Str GolibsVerif.Netip GolibsVerif

/-- `"arpa"` -/
def lblArpa : Bytes := [97, 114, 112, 97]
/-- `"in-addr"` -/
def lblInAddr : Bytes := [105, 110, 45, 97, 100, 100, 114]
/-- `"ip6"` -/
def lblIp6 : Bytes := [105, 112, 54]

example : lblArpa = ascii "arpa" ∧ lblInAddr = ascii "in-addr" ∧ lblIp6 = ascii "ip6" := by decide

/-- decimal value of a digit string -/
def decVal (l : Bytes) : Nat := l.foldl (fun a c => a * 10 + (c - 48)) 0

/-- a canonical decimal octet: non-empty, digits only, no leading zero unless it is the single
digit `0`..`9`, value at most 255 -/
def octetOK (l : Bytes) : Bool :=
  !l.isEmpty && l.all isDigit && (l.length == 1 || l.head? != some 48) && decide (decVal l ≤ 255)

def octetVal (l : Bytes) : Option Nat := if octetOK l then some (decVal l) else none

/-- a label that is exactly one lower-case hexadecimal digit -/
def nibbleVal : Bytes → Option Nat
  | [c] =>
    if 48 ≤ c ∧ c ≤ 57 then some (c - 48)
    else if 97 ≤ c ∧ c ≤ 102 then some (c - 87)
    else none
  | _ => none

/-- all labels decode, in order -/
def traverse (f : Bytes → Option Nat) : List Bytes → Option (List Nat)
  | [] => some []
  | l :: ls =>
    match f l, traverse f ls with
    | some v, some vs => some (v :: vs)
    | _, _ => none

/-- the IPv4 prefix whose leading octets are `os` (address order), remaining bytes zero -/
def v4Prefix (os : List Nat) : Prefix :=
  { addr := .v4 ((List.range 4).map fun i => os.getD i 0), bits := 8 * os.length }

/-- the IPv6 prefix whose leading nibbles are `ns` (address order), remaining nibbles zero -/
def v6Prefix (ns : List Nat) : Prefix :=
  { addr := .v6 ((List.range 16).map fun i => 16 * ns.getD (2 * i) 0 + ns.getD (2 * i + 1) 0) [],
    bits := 4 * ns.length }

/-- the reference decoder on the labels `ls` (name order, so the address digits are the
leading labels *reversed*) -/
def arpaPrefixSpec (ls : List Bytes) : Option Prefix :=
  match ls.reverse with
  | root :: fam :: digits =>      -- `digits` is in address order
    if root = lblArpa then
      if fam = lblInAddr then
        match traverse octetVal digits with
        | some os => if os.length ≤ 4 then some (v4Prefix os) else none
        | none => none
      else if fam = lblIp6 then
        match traverse nibbleVal digits with
        | some ns => if ns.length ≤ 32 then some (v6Prefix ns) else none
        | none => none
      else none
    else none
  | _ => none

/-- the reference decoder applied to the longest label-aligned suffix on which it is defined -/
def longestArpaSuffix : List Bytes → Option Prefix
  | [] => none
  | l :: ls =>
    match arpaPrefixSpec (l :: ls) with
    | some p => some p
    | none => longestArpaSuffix ls

/-- the labels the property talks about: trim one trailing dot, lower-case ASCII, split -/
def labelsOf (s : Bytes) : List Bytes := splitOn 46 (asciiLower (trimSuffix s [46]))

/-! ### "All host bits are zero" -/

def addrBytes : Addr → List Nat
  | .v4 b => b
  | .v6 b _ => b
  | .invalid => []

/-- bit `j` (0 = most significant bit of the first byte) of a byte string -/
def bitAt (b : List Nat) (j : Nat) : Nat := b.getD (j / 8) 0 / 2 ^ (7 - j % 8) % 2

/-- a well-formed IPv4 / IPv6 prefix all of whose host bits (bit positions `≥ bits`) are 0 -/
structure Masked (p : Prefix) : Prop where
  fam : (∃ b, p.addr = .v4 b ∧ b.length = 4 ∧ p.bits ≤ 32 ∧ p.bits % 8 = 0) ∨
        (∃ b, p.addr = .v6 b [] ∧ b.length = 16 ∧ p.bits ≤ 128 ∧ p.bits % 4 = 0)
  bytes : ∀ x ∈ addrBytes p.addr, x < 256
  host : ∀ j, p.bits ≤ j → bitAt (addrBytes p.addr) j = 0

/-! ### Contracts on `idna.ToASCII` used by the theorems -/

/-- `"xn--"` -/
def xnPrefix : Bytes := [120, 110, 45, 45]

/-- no label starts with the ACE prefix `xn--` (in any letter case) -/
def NoXnLabel (s : Bytes) : Prop := ∀ l ∈ splitOn 46 s, ¬ xnPrefix <+: asciiLower l

/-- IDNA-1: an all-ASCII name without `xn--` labels is returned unchanged -/
def IdnaAsciiId (toASCII : Bytes → Option Bytes) : Prop :=
  ∀ s, (∀ b ∈ s, b < 128) → NoXnLabel s → toASCII s = some s

/-- (consequence of) IDNA-2, labels are mapped position-wise: a name that starts with a dot
(empty first label) is mapped to a name that starts with a dot -/
def IdnaKeepsLeadingDot (toASCII : Bytes → Option Bytes) : Prop :=
  ∀ s t, toASCII s = some t → s.head? = some 46 → t.head? = some 46

end GolibsVerif.C05
