/-
C03 — the documented grammar of host names, domain names and SRV domain names, written
from the property text (RFC 952/1035/1123/3696/6335 as quoted in netutil/addr.go's docs).
-/
import GolibsVerif.Model.NetAddr

namespace GolibsVerif.C03
open GolibsVerif.Netutil GolibsVerif.Str GolibsVerif.Gen.Consts

/-- a hostname label: 1..63 letters, digits or *inner* hyphens -/
structure HostLabel (l : Bytes) : Prop where
  len_pos : 1 ≤ l.length
  len_le : l.length ≤ 63
  chars : ∀ b ∈ l, isValidHostInnerRune b = true
  first : l.head? ≠ some 45
  last : l.getLast? ≠ some 45

/-- a domain-name label: any 1..63 bytes -/
def DomainLabel (l : Bytes) : Prop := 1 ≤ l.length ∧ l.length ≤ 63

/-- a service label: `'_'` followed by a hostname label, at most 16 bytes in total -/
def SRVLabel (l : Bytes) : Prop := l.length ≤ 16 ∧ ∃ r, l = 95 :: r ∧ HostLabel r

/-- the last label must be a hostname label that is not all digits -/
def TLDLabel (l : Bytes) : Prop := HostLabel l ∧ ∃ b ∈ l, isDigit b = false

/-- every label but the last satisfies `P`, the last one is a TLD label -/
def LabelsOK (P : Bytes → Prop) : List Bytes → Prop
  | [] => False
  | [last] => TLDLabel last
  | l :: rest => P l ∧ LabelsOK P rest

/-- the grammar of a whole name, after `idna.ToASCII` -/
def NameOK (P : Bytes → Prop) (toASCII : Bytes → Option Bytes) (s : Bytes) : Prop :=
  ∃ t, toASCII s = some t ∧ 1 ≤ t.length ∧ t.length ≤ 253 ∧ LabelsOK P (splitOn 46 t)

def HostnameOK := NameOK HostLabel
def DomainNameOK := NameOK DomainLabel
def SRVNameOK := NameOK (fun l => HostLabel l ∨ SRVLabel l)

end GolibsVerif.C03
