/-
Go-semantics layer, part 2: models of the `strings` / `bytes` functions golibs calls on
byte strings.  Each is validated against the real function by `std.*` ops of the harness.
-/
import GolibsVerif.Go.Basic

namespace GolibsVerif.Str

/-- `strings.IndexByte(s, c)` (−1 when absent). -/
def indexByteFrom (c : Nat) : Bytes → Nat → Int
  | [], _ => -1
  | b :: rest, i => if b = c then (i : Int) else indexByteFrom c rest (i + 1)

def indexByte (s : Bytes) (c : Nat) : Int := indexByteFrom c s 0

/-- `strings.Cut(s, sep)` for a one-byte separator. -/
def cut (c : Nat) : Bytes → Bytes × Bytes × Bool
  | [] => ([], [], false)
  | b :: rest =>
    if b = c then ([], rest, true)
    else
      let (before, after, found) := cut c rest
      (b :: before, after, found)

/-- `strings.HasPrefix`. -/
def hasPrefix (s p : Bytes) : Bool := p.isPrefixOf s

/-- `strings.HasSuffix`. -/
def hasSuffix (s p : Bytes) : Bool := p.isSuffixOf s

/-- `strings.TrimSuffix`. -/
def trimSuffix (s p : Bytes) : Bytes :=
  if hasSuffix s p then s.take (s.length - p.length) else s

/-- `strings.LastIndexByte(s, c)` (−1 when absent). -/
def lastIndexByte (s : Bytes) (c : Nat) : Int :=
  match indexByte s.reverse c with
  | .negSucc _ => -1
  | .ofNat i => (s.length : Int) - 1 - i

/-- `strings.Count(s, string(c))` for a one-byte, non-empty separator. -/
def countByte (s : Bytes) (c : Nat) : Nat := s.count c

/-- `strings.Contains(s, string(c))`. -/
def containsByte (s : Bytes) (c : Nat) : Bool := s.contains c

def lowerByte (b : Nat) : Nat := if 65 ≤ b ∧ b ≤ 90 then b + 32 else b

/-- ASCII-only lower-casing, byte-wise; every non-ASCII byte is left as it is. -/
def asciiLower (s : Bytes) : Bytes := s.map lowerByte

/-- Reference splitting on a one-byte separator (as `strings.Split(s, string(c))`): always
at least one piece. -/
def splitOn (c : Nat) : Bytes → List Bytes
  | [] => [[]]
  | b :: rest =>
    if b = c then [] :: splitOn c rest
    else match splitOn c rest with
      | [] => [[b]]           -- unreachable: `splitOn` never returns `[]`
      | p :: ps => (b :: p) :: ps

def isDigit (b : Nat) : Bool := 48 ≤ b && b ≤ 57
def isLower (b : Nat) : Bool := 97 ≤ b && b ≤ 122
def isUpper (b : Nat) : Bool := 65 ≤ b && b ≤ 90

end GolibsVerif.Str
