/-
Model of `unicode.SimpleFold` (Go 1.24.2, `$GOROOT/src/unicode/letter.go`), statement by
statement, over the tables `asciiFold`, `caseOrbit`, `CaseRanges` that the translator
`gen/unifold.go` reads from `$GOROOT/src/unicode/tables.go` of the toolchain that builds
/repo on every run of `./check` (`Gen/UniFold.lean`).

A rune is a `Nat`.  Go's `rune` is `int32`; a negative rune is returned unchanged by the first
statement of `SimpleFold` and has no counterpart here (the harness op `C13.std.simplefold`
checks that on the real function).  All other `int32` values are covered: the model is
compared with the real function on every rune `0 … MaxRune` and on values above `MaxRune` on
every run of the check.

The two `for lo < hi` binary searches are structural recursions on a fuel argument (so that
the Lean kernel can evaluate them); started with `fuel = hi - lo = len(table)` the fuel never
runs out, since `hi - lo` decreases in every iteration (`orbitSearch_spec`,
`lookupCaseRangeLoop_none` in `Lemmas/UnicodeSearch.lean` are proved for every `fuel ≥ hi - lo`).
Every index expression carries the proof that it is in range: no Go panic is possible.

Core Lean only (this file is linked into the driver executable).
-/
import GolibsVerif.Gen.UniFold

namespace GolibsVerif.Unicode
open GolibsVerif.Gen.UniFold

/-- `unicode.CaseRange`: `(Lo, Hi, Delta[UpperCase], Delta[LowerCase], Delta[TitleCase])` -/
abbrev CaseRange := Nat × Nat × Int × Int × Int

/-- `unicode.UpperCase`, `unicode.LowerCase` (indices into `Delta`; the translator checks the
values 0, 1, 2 of `UpperCase`, `LowerCase`, `TitleCase`) -/
def UpperCase : Nat := 0
def LowerCase : Nat := 1

/-- the tables as arrays (`O(1)` indexing in the compiled driver) -/
def asciiFoldA : Array Nat := asciiFold.toArray
def caseOrbitA : Array (Nat × Nat) := caseOrbit.toArray
def caseRangesA : Array CaseRange := caseRanges.toArray

/-- The loop
```go
for lo < hi {
    m := int(uint(lo+hi) >> 1)
    if rune(caseOrbit[m].From) < r { lo = m + 1 } else { hi = m }
}
```
of `SimpleFold`; the value is `lo` after the loop. -/
def orbitSearch (tbl : Array (Nat × Nat)) (r : Nat) :
    (fuel lo hi : Nat) → hi ≤ tbl.size → Nat
  | 0, lo, _, _ => lo
  | fuel + 1, lo, hi, hh =>
    if h : lo < hi then
      let m := (lo + hi) >>> 1
      have hm : m < tbl.size := by
        simp only [m, Nat.shiftRight_eq_div_pow]; omega
      if tbl[m].1 < r then orbitSearch tbl r fuel (m + 1) hi hh
      else orbitSearch tbl r fuel lo m (Nat.le_of_lt hm)
    else lo

/-- `lookupCaseRange(r, caseRange)`:
```go
lo := 0
hi := len(caseRange)
for lo < hi {
    m := int(uint(lo+hi) >> 1)
    cr := &caseRange[m]
    if rune(cr.Lo) <= r && r <= rune(cr.Hi) { return cr }
    if r < rune(cr.Lo) { hi = m } else { lo = m + 1 }
}
return nil
``` -/
def lookupCaseRangeLoop (tbl : Array CaseRange) (r : Nat) :
    (fuel lo hi : Nat) → hi ≤ tbl.size → Option CaseRange
  | 0, _, _, _ => none
  | fuel + 1, lo, hi, hh =>
    if h : lo < hi then
      let m := (lo + hi) >>> 1
      have hm : m < tbl.size := by
        simp only [m, Nat.shiftRight_eq_div_pow]; omega
      let cr := tbl[m]
      if cr.1 ≤ r ∧ r ≤ cr.2.1 then some cr
      else if r < cr.1 then lookupCaseRangeLoop tbl r fuel lo m (Nat.le_of_lt hm)
      else lookupCaseRangeLoop tbl r fuel (m + 1) hi hh
    else none

def lookupCaseRange (r : Nat) (tbl : Array CaseRange) : Option CaseRange :=
  lookupCaseRangeLoop tbl r tbl.size 0 tbl.size (Nat.le_refl _)

/-- `cr.Delta[_case]` for `_case` = `UpperCase` (0), `LowerCase` (1), `TitleCase` (2) -/
def CaseRange.delta (cr : CaseRange) (case : Nat) : Int :=
  match case with
  | 0 => cr.2.2.1
  | 1 => cr.2.2.2.1
  | _ => cr.2.2.2.2

/-- `x &^ 1` on a non-negative `x` -/
def andNot1 (x : Nat) : Nat := x - (x &&& 1)

/-- `convertCase(_case, r, cr)`:
```go
delta := cr.Delta[_case]
if delta > MaxRune {
    return rune(cr.Lo) + ((r-rune(cr.Lo))&^1 | rune(_case&1))
}
return r + delta
```
It is only called with `cr.Lo ≤ r ≤ cr.Hi` (`lookupCaseRange_some`), so `r - cr.Lo` is the
natural-number difference; `r + delta` is not negative and does not leave `int32` for any
range of the table (`caseRanges_delta_ok` in `Lemmas/UnicodeSearch.lean`, and checked by the translator), so `Int.toNat` is
the identity on it. -/
def convertCase (case : Nat) (r : Nat) (cr : CaseRange) : Nat :=
  let delta := cr.delta case
  if delta > (maxRune : Int) then
    cr.1 + (andNot1 (r - cr.1) ||| (case &&& 1))
  else ((r : Int) + delta).toNat

/-- The tail of `SimpleFold` after the `caseOrbit` lookup:
```go
if cr := lookupCaseRange(r, CaseRanges); cr != nil {
    if l := convertCase(LowerCase, r, cr); l != r { return l }
    return convertCase(UpperCase, r, cr)
}
return r
``` -/
def foldByCaseRange (r : Nat) : Nat :=
  match lookupCaseRange r caseRangesA with
  | some cr =>
    let l := convertCase LowerCase r cr
    if l ≠ r then l else convertCase UpperCase r cr
  | none => r

/-- `unicode.SimpleFold(r)` for `r ≥ 0`:
```go
if r < 0 || r > MaxRune { return r }
if int(r) < len(asciiFold) { return rune(asciiFold[r]) }
lo := 0
hi := len(caseOrbit)
for lo < hi { … }                                  // orbitSearch
if lo < len(caseOrbit) && rune(caseOrbit[lo].From) == r { return rune(caseOrbit[lo].To) }
…                                                  // foldByCaseRange
``` -/
def simpleFold (r : Nat) : Nat :=
  if r > maxRune then r
  else if h : r < asciiFoldA.size then asciiFoldA[r]
  else
    let lo := orbitSearch caseOrbitA r caseOrbitA.size 0 caseOrbitA.size (Nat.le_refl _)
    if h : lo < caseOrbitA.size then
      if caseOrbitA[lo].1 = r then caseOrbitA[lo].2 else foldByCaseRange r
    else foldByCaseRange r

end GolibsVerif.Unicode
