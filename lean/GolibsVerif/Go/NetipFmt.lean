/-
Go-semantics layer, part 4: a Lean model of `net/netip`'s address formatters
(`Addr.String`, `Addr.MarshalText` = `AppendText` = `AppendTo`, `appendTo4`, `appendTo4In6`,
`appendTo6`, `appendDecimal`, `appendHex`, `Is4In6`; go1.24), written to follow the Go source
statement by statement.  It is validated against the real functions by the `std.addrstring`
op of the harness on every C02 / C07 run ("modelled, sampled"), and proved to be inverted by
the parser model of `Go/Netip.lean` in `Lemmas/NetipFmt*.lean`.

Representation (as in `Go/Netip.lean`): `Addr.v4 b` has the 4 bytes of `ip.v4(i)`,
`Addr.v6 b zone` the 16 bytes of `ip.As16()`; `zone = []` is `z6noz` (netip cannot represent
an empty zone: `WithZone("")` removes it and `ParseAddr("…%")` is an error).  The Go values
are fixed-size (`uint128`), so no index expression of the modelled code can panic; the
accessors below read a missing list element as 0 only for lists that are not the image of a
Go value (the theorems carry `WF`).

Integer types: `appendDecimal` takes a `uint8`, `appendHex` a `uint16`; shifts and masks are
written as divisions and remainders by powers of two (`x>>8&0xf = x / 256 % 16`).  The
`uint8` arithmetic of the zero-run search never wraps: `j ≥ i` and `zeroEnd ≥ zeroStart`
hold throughout (initially `255 - 255 = 0`).
-/
import GolibsVerif.Go.Netip

namespace GolibsVerif.Netip
open GolibsVerif.Str

/-- `digits[k]` for `const digits = "0123456789abcdef"` (every call site has `k < 16`) -/
def digitAt (k : Nat) : Nat := if k < 10 then 48 + k else 87 + k

/-- `appendDecimal(b, x)` -/
def appendDecimal (b : Bytes) (x : Nat) : Bytes :=
  let b := if x ≥ 100 then b ++ [digitAt (x / 100)] else b
  let b := if x ≥ 10 then b ++ [digitAt (x / 10 % 10)] else b
  b ++ [digitAt (x % 10)]

/-- `appendHex(b, x)` -/
def appendHex (b : Bytes) (x : Nat) : Bytes :=
  let b := if x ≥ 0x1000 then b ++ [digitAt (x / 0x1000)] else b
  let b := if x ≥ 0x100 then b ++ [digitAt (x / 0x100 % 16)] else b
  let b := if x ≥ 0x10 then b ++ [digitAt (x / 0x10 % 16)] else b
  b ++ [digitAt (x % 16)]

/-- `ip.v4(i)` on the four bytes -/
def v4At (b : List Nat) (i : Nat) : Nat := b.getD i 0

/-- `ip.v6u16(i)` on the sixteen bytes -/
def v6u16 (b : List Nat) (i : Nat) : Nat := b.getD (2 * i) 0 * 256 + b.getD (2 * i + 1) 0

/-- `ip.appendTo4(ret)`; `v` is `ip.v4` -/
def appendTo4 (ret : Bytes) (v : Nat → Nat) : Bytes :=
  let ret := appendDecimal ret (v 0)
  let ret := ret ++ [46]
  let ret := appendDecimal ret (v 1)
  let ret := ret ++ [46]
  let ret := appendDecimal ret (v 2)
  let ret := ret ++ [46]
  let ret := appendDecimal ret (v 3)
  ret

/-- `ip.Is4In6()`: `ip.addr.hi == 0 && ip.addr.lo>>32 == 0xffff` on the sixteen bytes -/
def is4In6 (b : List Nat) : Bool :=
  (b.take 10).all (· == 0) && b.getD 10 0 == 255 && b.getD 11 0 == 255

/-- `if ip.z != z6noz { ret = append(ret, '%'); ret = append(ret, ip.Zone()...) }` -/
def appendZone (ret zone : Bytes) : Bytes :=
  if zone ≠ [] then ret ++ [37] ++ zone else ret

/-- `ip.appendTo4In6(ret)`: `ip.Unmap().v4(i)` is byte `12 + i` -/
def appendTo4In6 (ret : Bytes) (b : List Nat) (zone : Bytes) : Bytes :=
  let ret := ret ++ [58, 58, 102, 102, 102, 102, 58]        -- "::ffff:"
  let ret := appendTo4 ret (fun i => b.getD (12 + i) 0)
  appendZone ret zone

/-- the inner loop `for j < 8 && ip.v6u16(j) == 0 { j++ }`; `g` is `ip.v6u16` -/
def zeroRunEnd (g : Nat → Nat) : Nat → Nat → Nat
  | 0, j => j
  | fuel + 1, j => if j < 8 ∧ g j = 0 then zeroRunEnd g fuel (j + 1) else j

/-- the first loop of `appendTo6`, from `i` with the current `(zeroStart, zeroEnd)` -/
def findZeroRun (g : Nat → Nat) : Nat → Nat → Nat × Nat → Nat × Nat
  | 0, _, z => z
  | fuel + 1, i, z =>
    if i < 8 then
      let j := zeroRunEnd g 8 i
      let l := j - i
      findZeroRun g fuel (i + 1) (if l ≥ 2 ∧ l > z.2 - z.1 then (i, j) else z)
    else z

/-- the second loop of `appendTo6` (note the assignment `i = zeroEnd` to the loop variable,
followed by the loop's own `i++`) -/
def emit6 (g : Nat → Nat) (zeroStart zeroEnd : Nat) : Nat → Nat → Bytes → Bytes
  | 0, _, ret => ret
  | fuel + 1, i, ret =>
    if i < 8 then
      if i = zeroStart then
        let ret := ret ++ [58, 58]
        let i := zeroEnd
        if i ≥ 8 then ret
        else emit6 g zeroStart zeroEnd fuel (i + 1) (appendHex ret (g i))
      else
        let ret := if i > 0 then ret ++ [58] else ret
        emit6 g zeroStart zeroEnd fuel (i + 1) (appendHex ret (g i))
    else ret

/-- `ip.appendTo6(ret)` -/
def appendTo6 (ret : Bytes) (b : List Nat) (zone : Bytes) : Bytes :=
  let z := findZeroRun (v6u16 b) 8 0 (255, 255)
  let ret := emit6 (v6u16 b) z.1 z.2 8 0 ret
  appendZone ret zone

/-- `ip.AppendTo(b)` (= `AppendText`) -/
def addrAppendTo (ret : Bytes) : Addr → Bytes
  | .invalid => ret
  | .v4 b => appendTo4 ret (v4At b)
  | .v6 b zone => if is4In6 b then appendTo4In6 ret b zone else appendTo6 ret b zone

/-- `ip.MarshalText()`: the empty text for the zero `Addr` -/
def addrMarshalText (a : Addr) : Bytes := addrAppendTo [] a

/-- `ip.String()`: `"invalid IP"` for the zero `Addr`, otherwise the same text as
`MarshalText` (`string4` / `string4In6` / `string6` call the `appendTo…` functions on an
empty buffer) -/
def addrString : Addr → Bytes
  | .invalid => [105, 110, 118, 97, 108, 105, 100, 32, 73, 80]   -- "invalid IP"
  | a => addrAppendTo [] a

end GolibsVerif.Netip
