/-
Go-semantics layer: model of `golang.org/x/net/idna.ToASCII` (x/net v0.39.0,
`idna/idna10.0.0.go`), i.e. `Punycode.process(s, true)` for the package-level profile
`Punycode = &Profile{}` — the zero value of `options`.

Which branches of `process` are dead for this profile (every field of `options` is its zero
value: `transitional`, `useSTD3Rules`, `checkHyphens`, `checkJoiners`, `verifyDNSLength`,
`removeLeadingDots` are `false`; `trie`, `fromPuny`, `mapping`, `bidirule` are `nil`):

* `if p.mapping != nil { s, isBidi, err = p.mapping(p, s) }`            — dead (`mapping == nil`):
  no UTS-46 mapping, no NFC normalisation, no case folding, no rune validation;
* `if p.removeLeadingDots { … }`                                         — dead;
* `if err == nil && p.verifyDNSLength && s == ""`                        — dead;
* in the first loop, `if err == nil && p.verifyDNSLength` on an empty label — dead, only the
  `continue` remains;
* `isBidi = isBidi || bidirule.DirectionString(u) != bidi.LeftToRight` is computed but `isBidi`
  is read only under `p.bidirule != nil`, which is dead — `isBidi` is not modelled;
* `if err == nil && p.fromPuny != nil`                                    — dead (`fromPuny == nil`);
* `p.validateLabel(x)` returns `nil` for every `x`: `s == ""` returns `nil` because
  `verifyDNSLength` is off, `checkHyphens` is off, and `if !p.checkJoiners { return nil }` is
  taken — modelled by `validateLabel` below (constant "no error");
* `if isBidi && p.bidirule != nil && err == nil`                          — dead;
* in the `toASCII` loop, `if p.verifyDNSLength && err == nil && (n == 0 || n > 63)` — dead;
* `if toASCII && p.verifyDNSLength && err == nil` (total length)          — dead.

What is left, and is modelled statement by statement: the `labelIter` (both of its modes: the
index mode over `orig` while `slice == nil`, and the slice mode after the first `set`), the
first loop (empty label: `continue`; label with the ACE prefix `"xn--"`, lower case only —
`strings.HasPrefix` is case-sensitive —: `decode`, on failure record the error and keep the
label, on success REPLACE the label by the decoded text), the second loop (every label that
contains a byte ≥ 0x80 is replaced by `encode(acePrefix, label)`; on failure `encode` returns
`""`, which becomes the label, and the error is recorded), and `labels.result()`.

The punycode functions themselves are parameters:

* `dec x` = `decode(x)` of `punycode.go` (`none` = it returned an error),
* `enc x` = `encode("xn--", x)` INCLUDING the prefix (`none` = it returned `("", err)`).

The errors are modelled as a Boolean "`err != nil`" (the only error values that can arise in
this profile are punycode `labelError{…, "A3"}`; `netutil` only tests `err != nil`).

`process` returns the pair Go returns (`s`, `err != nil`) — Go returns the partially processed
name also when there is an error.  `toASCII`, the function the C03/C04/C05 models take as
their parameter, is `some s` when `err == nil` and `none` otherwise.

Go panics (`l.slice[l.i]`, `l.orig[a:b]`, `l.orig[i]`) are `GoM` errors, the two `for` loops
carry fuel (`explicit "fuel"` when exhausted); `Theorems/Idna.lean` proves that neither happens.
-/
import GolibsVerif.Go.Strings

namespace GolibsVerif.Idna
open GolibsVerif GolibsVerif.Str

/-- `const acePrefix = "xn--"` -/
def acePrefix : Bytes := [120, 110, 45, 45]

/-- `func ascii(s string) bool`: no byte `>= utf8.RuneSelf` -/
def isAscii (s : Bytes) : Bool := s.all (fun b => decide (b < 128))

/-- `p.validateLabel(s)` for the `Punycode` profile, as "`err != nil`": always `nil` (see the
header: `verifyDNSLength`, `checkHyphens`, `checkJoiners` are all off). -/
def validateLabel (_s : Bytes) : Bool := false

/-- `xs[i]` on a slice of strings with Go's bounds check -/
def idxL (xs : List Bytes) (i : Int) : GoM Bytes :=
  if i < 0 then .error (.indexOutOfRange i xs.length)
  else match xs[i.toNat]? with
    | some x => .ok x
    | none => .error (.indexOutOfRange i xs.length)

/-- `type labelIter struct { orig string; slice []string; curStart, curEnd, i int }`;
`slice == nil` is `none`. -/
structure LabelIter where
  orig : Bytes
  slice : Option (List Bytes)
  curStart : Int
  curEnd : Int
  i : Int
  deriving Repr, DecidableEq

namespace LabelIter

/-- `func (l *labelIter) reset()` -/
def reset (l : LabelIter) : LabelIter := { l with curStart := 0, curEnd := 0, i := 0 }

/-- `func (l *labelIter) done() bool { return l.curStart >= len(l.orig) }` -/
def done (l : LabelIter) : Bool := decide (l.curStart ≥ (l.orig.length : Int))

/-- `func (l *labelIter) result() string`: `strings.Join(l.slice, ".")` or `l.orig` -/
def result (l : LabelIter) : Bytes :=
  match l.slice with
  | some sl => [46].intercalate sl
  | none => l.orig

/-- `func (l *labelIter) label() string` (it assigns `l.curEnd`, so the iterator is returned
too):
```go
if l.slice != nil { return l.slice[l.i] }
p := strings.IndexByte(l.orig[l.curStart:], '.')
l.curEnd = l.curStart + p
if p == -1 { l.curEnd = len(l.orig) }
return l.orig[l.curStart:l.curEnd]
``` -/
def label (l : LabelIter) : GoM (Bytes × LabelIter) :=
  match l.slice with
  | some sl => do
    let x ← idxL sl l.i
    pure (x, l)
  | none => do
    let tail ← GoM.sliceFrom l.orig l.curStart
    let p := indexByte tail 46
    let l := { l with curEnd := l.curStart + p }
    let l := if p = -1 then { l with curEnd := (l.orig.length : Int) } else l
    let x ← GoM.slice l.orig l.curStart l.curEnd
    pure (x, l)

/-- `func (l *labelIter) next()` ("skips the last label if it is empty"):
```go
l.i++
if l.slice != nil {
    if l.i >= len(l.slice) || l.i == len(l.slice)-1 && l.slice[l.i] == "" { l.curStart = len(l.orig) }
} else {
    l.curStart = l.curEnd + 1
    if l.curStart == len(l.orig)-1 && l.orig[l.curStart] == '.' { l.curStart = len(l.orig) }
}
``` -/
def next (l : LabelIter) : GoM LabelIter := do
  let l := { l with i := l.i + 1 }
  match l.slice with
  | some sl =>
    if l.i ≥ (sl.length : Int) then pure { l with curStart := (l.orig.length : Int) }
    else if l.i = (sl.length : Int) - 1 then do
      let x ← idxL sl l.i
      if x = [] then pure { l with curStart := (l.orig.length : Int) } else pure l
    else pure l
  | none =>
    let l := { l with curStart := l.curEnd + 1 }
    if l.curStart = (l.orig.length : Int) - 1 then do
      let b ← GoM.idx l.orig l.curStart
      if b = 46 then pure { l with curStart := (l.orig.length : Int) } else pure l
    else pure l

/-- `func (l *labelIter) set(s string)`:
```go
if l.slice == nil { l.slice = strings.Split(l.orig, ".") }
l.slice[l.i] = s
``` -/
def set (l : LabelIter) (s : Bytes) : GoM LabelIter :=
  let sl := match l.slice with
    | some sl => sl
    | none => splitOn 46 l.orig
  if 0 ≤ l.i ∧ l.i < (sl.length : Int) then pure { l with slice := some (sl.set l.i.toNat s) }
  else .error (.indexOutOfRange l.i sl.length)

end LabelIter

/-- `for ; !labels.done(); labels.next() { body }` where the body updates the iterator and
`err` (as "`err != nil`"); `continue` in the body is the body returning early. -/
def forLabels (body : LabelIter → Bool → GoM (LabelIter × Bool)) :
    Nat → LabelIter → Bool → GoM (LabelIter × Bool)
  | 0, _, _ => .error (.explicit "fuel")
  | fuel + 1, l, err =>
    if l.done then .ok (l, err)
    else do
      let (l, err) ← body l err
      let l ← l.next
      forLabels body fuel l err

/-- body of the first loop of `process`:
```go
label := labels.label()
if label == "" { continue }                       // verifyDNSLength is off
if strings.HasPrefix(label, acePrefix) {
    u, err2 := decode(label[len(acePrefix):])
    if err2 != nil {
        if err == nil { err = err2 }
        continue                                   // "Spec says keep the old label."
    }
    labels.set(u)
    if err == nil { err = p.validateLabel(u) }     // fromPuny == nil
} else if err == nil {
    err = p.validateLabel(label)
}
``` -/
def body1 (dec : Bytes → Option Bytes) (l : LabelIter) (err : Bool) : GoM (LabelIter × Bool) := do
  let (label, l) ← l.label
  if label = [] then pure (l, err)
  else if hasPrefix label acePrefix then do
    let x ← GoM.sliceFrom label acePrefix.length
    match dec x with
    | none => pure (l, true)
    | some u =>
      let l ← l.set u
      pure (l, if err then err else validateLabel u)
  else pure (l, if err then err else validateLabel label)

/-- body of the `toASCII` loop of `process`:
```go
label := labels.label()
if !ascii(label) {
    a, err2 := encode(acePrefix, label)
    if err == nil { err = err2 }
    label = a
    labels.set(a)
}
n := len(label)                                    // only used under verifyDNSLength
``` -/
def body2 (enc : Bytes → Option Bytes) (l : LabelIter) (err : Bool) : GoM (LabelIter × Bool) := do
  let (label, l) ← l.label
  if !isAscii label then
    match enc label with
    | some a =>
      let l ← l.set a
      pure (l, err)
    | none =>
      let l ← l.set []
      pure (l, true)
  else pure (l, err)

/-- loop fuel: each loop visits at most one label per byte plus one -/
def fuelFor (s : Bytes) : Nat := s.length + 2

/-- `Punycode.process(s, true)`: the returned string and "`err != nil`". -/
def process (enc dec : Bytes → Option Bytes) (s : Bytes) : GoM (Bytes × Bool) := do
  let labels : LabelIter := { orig := s, slice := none, curStart := 0, curEnd := 0, i := 0 }
  let (labels, err) ← forLabels (body1 dec) (fuelFor s) labels false
  let (labels, err) ← forLabels (body2 enc) (fuelFor s) labels.reset err
  pure (labels.result, err)

/-- `idna.ToASCII(s)` as the C03/C04/C05 models consume it: `some t` when it returns
`(t, nil)`, `none` when it returns an error.  (A Go panic or fuel exhaustion would also be
`none`; `Idna.process_total` shows there is none.) -/
def toASCII (enc dec : Bytes → Option Bytes) (s : Bytes) : Option Bytes :=
  match process enc dec s with
  | .ok (t, false) => some t
  | _ => none

end GolibsVerif.Idna
