/-
Go-semantics layer, part 1: byte strings, the panic monad and checked indexing.

Go strings and `[]byte` are modelled as `List Nat` (elements < 256 by construction in the
driver; theorems that need the range carry it as a hypothesis).  Go run-time panics are
values of `GoM`: every index / slice expression of the modelled code goes through `idx`,
`slice`, … below, which fail exactly when Go panics.
-/

namespace GolibsVerif

abbrev Bytes := List Nat

inductive GoPanic where
  | indexOutOfRange (i : Int) (len : Nat)
  | sliceOutOfRange (lo hi : Int) (len : Nat)
  | nilDeref
  | typeAssert
  | explicit (msg : String)
  deriving Repr, DecidableEq

abbrev GoM := Except GoPanic

instance {ε α} [DecidableEq ε] [DecidableEq α] : DecidableEq (Except ε α)
  | .ok a, .ok b => if h : a = b then isTrue (by rw [h]) else isFalse (by intro h'; cases h'; exact h rfl)
  | .error a, .error b => if h : a = b then isTrue (by rw [h]) else isFalse (by intro h'; cases h'; exact h rfl)
  | .ok _, .error _ => isFalse (by intro h; cases h)
  | .error _, .ok _ => isFalse (by intro h; cases h)

namespace GoM

/-- `s[i]` with Go's bounds check; the index is an `Int` because the code computes it by
subtraction. -/
def idx (s : Bytes) (i : Int) : GoM Nat :=
  if i < 0 then .error (.indexOutOfRange i s.length)
  else match s[i.toNat]? with
    | some b => .ok b
    | none => .error (.indexOutOfRange i s.length)

/-- `s[lo:hi]` with Go's bounds check (`0 ≤ lo ≤ hi ≤ len s`). -/
def slice (s : Bytes) (lo hi : Int) : GoM Bytes :=
  if 0 ≤ lo ∧ lo ≤ hi ∧ hi ≤ s.length then .ok ((s.drop lo.toNat).take (hi.toNat - lo.toNat))
  else .error (.sliceOutOfRange lo hi s.length)

/-- `s[lo:]`. -/
def sliceFrom (s : Bytes) (lo : Int) : GoM Bytes := slice s lo s.length

/-- `s[:hi]`. -/
def sliceTo (s : Bytes) (hi : Int) : GoM Bytes := slice s 0 hi

def isOk {α} : GoM α → Bool
  | .ok _ => true
  | .error _ => false

end GoM

/-! ### Hex transport encoding used by the line protocol -/

def hexDigitVal (c : Char) : Option Nat :=
  if '0' ≤ c ∧ c ≤ '9' then some (c.toNat - '0'.toNat)
  else if 'a' ≤ c ∧ c ≤ 'f' then some (c.toNat - 'a'.toNat + 10)
  else none

def hexDecodeAux : List Char → List Nat → Option (List Nat)
  | [], acc => some acc.reverse
  | [_], _ => none
  | a :: b :: rest, acc =>
    match hexDigitVal a, hexDigitVal b with
    | some x, some y => hexDecodeAux rest ((x * 16 + y) :: acc)
    | _, _ => none

/-- Decode a hex token; `-` stands for the empty byte string. -/
def hexDecode (s : String) : Option Bytes :=
  if s = "-" then some [] else hexDecodeAux s.toList []

def hexNibble (n : Nat) : Char :=
  if n < 10 then Char.ofNat (n + '0'.toNat) else Char.ofNat (n - 10 + 'a'.toNat)

def hexEncode (b : Bytes) : String :=
  if b.isEmpty then "-" else
  String.ofList (b.flatMap fun x => [hexNibble (x / 16 % 16), hexNibble (x % 16)])

/-- ASCII bytes of a Lean string literal (used for constants such as `".in-addr.arpa"`). -/
def ascii (s : String) : Bytes := s.toList.map Char.toNat

end GolibsVerif
