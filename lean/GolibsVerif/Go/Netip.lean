/-
Go-semantics layer, part 3: a Lean model of `net/netip`'s address parsers
(`ParseAddr`, `parseIPv4Fields`, `parseIPv6`, `ParseAddrPort`, go1.24), written to follow
the Go source statement by statement.  It is validated against the real functions by the
`std.parseaddr` / `std.parseaddrport` ops of the harness on every run ("modelled, sampled").
-/
import GolibsVerif.Go.Strings

namespace GolibsVerif.Netip
open GolibsVerif.Str

/-- `netip.Addr`: the zero value, an IPv4 address (4 bytes) or an IPv6 address (16 bytes)
with an optional zone. -/
inductive Addr where
  | invalid
  | v4 (b : List Nat)
  | v6 (b : List Nat) (zone : Bytes)
  deriving Repr, DecidableEq

def Addr.is4 : Addr → Bool | .v4 _ => true | _ => false
def Addr.is6 : Addr → Bool | .v6 .. => true | _ => false

def hexVal (c : Nat) : Option Nat :=
  if 48 ≤ c ∧ c ≤ 57 then some (c - 48)
  else if 97 ≤ c ∧ c ≤ 102 then some (c - 97 + 10)
  else if 65 ≤ c ∧ c ≤ 70 then some (c - 65 + 10)
  else none

/-- `parseIPv4Fields(in, off, end, fields)` on `s = in[off:end]`; `first` says `i == 0`,
`prevDot` says `s[i-1] == '.'`.  `none` = any of its errors. -/
def parseIPv4FieldsAux : Bytes → Bool → Bool → Nat → Nat → Nat → List Nat → Option (List Nat)
  | [], _, _, val, pos, _, fields => if pos < 3 then none else some (fields ++ [val])
  | c :: rest, first, prevDot, val, pos, digLen, fields =>
    if isDigit c then
      if digLen = 1 ∧ val = 0 then none
      else
        let val' := val * 10 + (c - 48)
        if val' > 255 then none
        else parseIPv4FieldsAux rest false false val' pos (digLen + 1) fields
    else if c = 46 then
      if first ∨ rest = [] ∨ prevDot then none
      else if pos = 3 then none
      else parseIPv4FieldsAux rest false true 0 (pos + 1) 0 (fields ++ [val])
    else none

def parseIPv4Fields (s : Bytes) : Option (List Nat) := parseIPv4FieldsAux s true false 0 0 0 []

def parseIPv4 (s : Bytes) : Option Addr := (parseIPv4Fields s).map .v4

/-- state of the main loop of `parseIPv6` -/
structure V6State where
  s : Bytes
  ip : List Nat            -- the first `i` bytes written so far (`i = ip.length`)
  ellipsis : Option Nat
  deriving Repr

/-- one iteration of `for i < 16 { … }`; `.inl none` = error, `.inl (some st)` = `break`,
`.inr st` = continue -/
def v6Step (st : V6State) : (Option V6State) ⊕ V6State :=
  let s := st.s
  let i := st.ip.length
  let digits := s.takeWhile (fun c => (hexVal c).isSome)
  if digits.length > 4 then .inl none        -- more than 4 digits in group
  else
    let off := digits.length
    let acc := digits.foldl (fun a c => a * 16 + (hexVal c).getD 0) 0
    if off = 0 then .inl none
    else
      let rest := s.drop off
      if rest.head? = some 46 then
        -- followed by dot: trailing IPv4
        if st.ellipsis.isNone ∧ i ≠ 12 then .inl none
        else if i + 4 > 16 then .inl none
        else match parseIPv4Fields s with
          | none => .inl none
          | some f => .inl (some { st with s := [], ip := st.ip ++ f })
      else
        let ip := st.ip ++ [acc / 256, acc % 256]
        let i := i + 2
        match rest with
        | [] => .inl (some { st with s := [], ip := ip })
        | c :: rest1 =>
          if c ≠ 58 then .inl none
          else match rest1 with
            | [] => .inl none              -- colon must be followed by more characters
            | c2 :: rest2 =>
              if c2 = 58 then
                if st.ellipsis.isSome then .inl none
                else if rest2 = [] then .inl (some { s := [], ip := ip, ellipsis := some i })
                else .inr { s := rest2, ip := ip, ellipsis := some i }
              else .inr { st with s := c2 :: rest2, ip := ip }

def v6Loop : Nat → V6State → Option V6State
  | 0, st => some st
  | fuel + 1, st =>
    if st.ip.length < 16 then
      match v6Step st with
      | .inl r => r
      | .inr st' => v6Loop fuel st'
    else some st

/-- `parseIPv6(in)` -/
def parseIPv6 (input : Bytes) : Option Addr :=
  let zi := indexByte input 37
  let sz : Option (Bytes × Bytes) :=
    if zi = -1 then some (input, [])
    else
      let zone := input.drop (zi.toNat + 1)
      if zone = [] then none else some (input.take zi.toNat, zone)
  match sz with
  | none => none
  | some (s, zone) =>
    let lead : Bool := match s with | 58 :: 58 :: _ => true | _ => false
    let s' := if lead then s.drop 2 else s
    if lead ∧ s' = [] then some (.v6 (List.replicate 16 0) zone)
    else
      match v6Loop 9 { s := s', ip := [], ellipsis := if lead then some 0 else none } with
      | none => none
      | some st =>
        if st.s ≠ [] then none
        else
          let i := st.ip.length
          if i < 16 then
            match st.ellipsis with
            | none => none
            | some e => some (.v6 (st.ip.take e ++ List.replicate (16 - i) 0 ++ st.ip.drop e) zone)
          else if st.ellipsis.isSome then none
          else some (.v6 st.ip zone)

/-- first of `.`, `:`, `%` decides the parser -/
def parseAddrDispatch : Bytes → Bytes → Option Addr
  | [], _ => none
  | c :: rest, whole =>
    if c = 46 then parseIPv4 whole
    else if c = 58 then parseIPv6 whole
    else if c = 37 then none
    else parseAddrDispatch rest whole

/-- `netip.ParseAddr` -/
def parseAddr (s : Bytes) : Option Addr := parseAddrDispatch s s

/-- decimal `strconv.ParseUint(s, 10, bits)` for a digit-only grammar (no sign, no `_`) -/
def parseUintDec (s : Bytes) (max : Nat) : Option Nat :=
  if s = [] then none
  else if s.all isDigit then
    let v := s.foldl (fun a c => a * 10 + (c - 48)) 0
    if v > max then none else some v
  else none

/-- `netip.ParseAddrPort` (only success/failure and the parsed pair) -/
def parseAddrPort (s : Bytes) : Option (Addr × Nat) :=
  let i := lastIndexByte s 58
  if i = -1 then none
  else
    let ip := s.take i.toNat
    let port := s.drop (i.toNat + 1)
    if ip = [] ∨ port = [] then none
    else
      let r : Option (Bytes × Bool) :=
        if ip.head? = some 91 then
          if ip.length < 2 ∨ ip.getLast? ≠ some 93 then none
          else some ((ip.drop 1).dropLast, true)
        else some (ip, false)
      match r with
      | none => none
      | some (ip, v6) =>
        match parseUintDec port 65535 with
        | none => none
        | some p =>
          match parseAddr ip with
          | none => none
          | some a =>
            if v6 ∧ a.is4 then none
            else if ¬ v6 ∧ a.is6 then none
            else some (a, p)

end GolibsVerif.Netip
