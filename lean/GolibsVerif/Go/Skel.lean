/-
Go-semantics layer: synchronisation skeletons (DESIGN.md §4, "T-gen", `gen-sync` (b)).

A skeleton is the ordered list of the sync-relevant AST events of one Go function, in
evaluation order, with nesting expressed by bracket tokens (`select … endSelect`,
`loop … endLoop`, `ifBegin … elseBegin … endIf`, `switchBegin … endSwitch`,
`deferFunc … endFunc`, `funcLit … endFunc`).  The translator `/verif/gen/syncskel.go`
re-emits the skeletons of the functions listed in its table from `/repo`'s working tree on
every run (`Gen/SyncSkel.lean`); each hand-written transition system keeps the skeleton it
was written against (`Model/CxxSkel.lean`), and `theorem skel_X : Gen.X = Expected.X := by
decide` makes any edit of the synchronisation structure a broken obligation.

The type is flat (no nested inductive) so that `DecidableEq` is derived and `decide`
evaluates in the kernel.  Expressions (conditions, channel operands, results) are the
source text as printed by go/printer with white space collapsed.
-/

namespace GolibsVerif.Skel

inductive Tok where
  /-- header: receiver type (`""` for a plain function) and name -/
  | fn (recv name : String)
  /-- call of a tracked function or method, by its (selector) name; emitted after the
  events of its arguments -/
  | call (name : String)
  /-- `go f(…)`; `name` is the callee's (selector) name, `"func"` for a literal (whose body
  follows between `funcLit`/`endFunc`) -/
  | goCall (name : String)
  /-- `defer f(…)` of a named callee -/
  | deferCall (name : String)
  /-- `defer func() { … }()`; the body follows, closed by `endFunc` -/
  | deferFunc
  /-- a function literal that is not directly deferred; the body follows -/
  | funcLit
  | endFunc
  /-- `<-ch` outside a select case head -/
  | recv (ch : String)
  /-- `ch <- v` outside a select case head -/
  | send (ch : String)
  /-- `close(ch)` -/
  | close (ch : String)
  /-- `make(chan T, cap)`; `cap = ""` for an unbuffered channel -/
  | makeChan (cap : String)
  | select
  /-- `case … <-ch:`; the events of evaluating `ch` precede the `select` token, as Go
  evaluates all channel operands on entry -/
  | caseRecv (ch : String)
  | caseSend (ch : String)
  | caseDefault
  | endSelect
  /-- `for` loop: kind is `"for"` (no condition), `"for-cond"` or `"range"`; `head` is the
  printed condition / range operand -/
  | loop (kind head : String)
  | endLoop
  | ifBegin (cond : String)
  | elseBegin
  | endIf
  | switchBegin (tag : String)
  /-- `case e₁, e₂, …:` of an expression switch; `[]` is `default:` -/
  | caseExprs (exprs : List String)
  | endSwitch
  /-- `return e₁, …` (printed results, `""` for a bare return) -/
  | ret (results : String)
  | brk
  | cont
  /-- assignment to a named result of the enclosing function -/
  | assignResult (lhs rhs : String)
  /-- `panic(…)` -/
  | panic
  /-- `recover()` -/
  | recover
  /-- emitted by the translator in place of a skeleton it could not produce (function
  missing or defined twice, construct outside the subset); never part of an expected
  skeleton, so the corresponding `skel_…` obligation breaks -/
  | untranslatable (why : String)
  deriving DecidableEq, Repr

abbrev Skeleton := List Tok

end GolibsVerif.Skel
