/-
Go-semantics layer: synchronisation skeletons in normal form (DESIGN.md §4, "T-gen",
`gen-sync` (b)).

A skeleton is the *event graph* of one entry point: a finite, deterministic labelled
transition system whose edges are the synchronisation-relevant events of the function — with
every function of the same package it calls inlined — in Go's evaluation order, on every
control path.  The translator `/verif/gen/syncskel.go` re-emits the graphs of the entry points
listed in its table from `/repo`'s working tree on every run (`Gen/SyncSkel.lean`); each
hand-written transition system keeps the graph it was written against (`Model/CxxSkel.lean`),
and `theorem skel_X : Gen.X = Expected.X := by decide` makes any edit of the synchronisation
structure a broken obligation.

The graph is a NORMAL FORM: ε-steps are contracted, bisimilar states are identified, a
condition whose two arms lead to the same state is dropped, states are numbered breadth-first
from the entry (state `0`) with edges sorted by label.  It therefore does not change under
rewrites that leave the order of events on every path and the choices offered at every point
unchanged (if/else vs. early return / `continue`, switch vs. if-chain, order of select cases,
loop rotation, extracting or inlining helpers, renaming, statements that are not events).
What is an event, how values are described without names (`recv.<chan unit>`, `After()`,
`New().1`, `range backward recv.services`) and what is normalised is documented at the top of
`gen/syncskel.go`.

`Graph` is a list of adjacency lists, so `DecidableEq` is structural and `decide` evaluates in
the kernel.
-/

namespace GolibsVerif.Skel

inductive Lbl where
  /-- a dynamic call (a method of an interface value, by its name; a function value, by its
  description, e.g. `New().1` for the `cancel` returned by `New`) or a static call into another
  package that is not known to be free of synchronisation (`WithTimeout`, `Mutex.Lock`);
  emitted after the events of its operands -/
  | call (name : String)
  /-- `go f(…)` of a dynamic / external callee -/
  | goCall (name : String)
  /-- `go` of a function literal or of a function of the same package: its body follows,
  closed by `endFunc` -/
  | goFunc
  /-- `defer f(…)` of a dynamic / external callee (registration; runs when the enclosing
  frame returns, last registered first) -/
  | deferCall (name : String)
  /-- `defer` of a function literal or of a function of the same package: the body of the
  deferred frame follows, closed by `endFunc` -/
  | deferFunc
  /-- an inlined call whose body registers a defer or calls `recover()`: the body follows,
  closed by `endFunc`.  (Inlined calls without defer / recover leave no trace.) -/
  | frame
  /-- a function literal (or method value of the same package) that escapes as a value; the
  body follows, closed by `endFunc` -/
  | funcLit
  | endFunc
  /-- `<-ch` outside a select case head -/
  | recv (ch : String)
  /-- `ch <- v` outside a select case head -/
  | send (ch : String)
  /-- `close(ch)` -/
  | close (ch : String)
  /-- `make(chan T, cap)`; `cap = ""` for an unbuffered channel -/
  | makeChan (cap : String)
  /-- entering a `select`; the target state offers one `case…` edge per case.  The events of
  evaluating the channel operands precede it, as Go evaluates all of them on entry -/
  | select
  | caseRecv (ch : String)
  | caseSend (ch : String)
  | caseDefault
  /-- a residual condition `c` (canonical description) evaluating to `val`; a state has
  either exactly the two `cond c true` / `cond c false` edges or none.  Loops over a slice
  appear as `cond "range backward s"` / `cond "range forward s"` (`true` = there is a next
  element) -/
  | cond (c : String) (val : Bool)
  /-- return of the ENTRY POINT; `val` is `"true"` / `"false"` for a function with a single
  boolean result, `""` otherwise -/
  | ret (val : String)
  /-- `panic(…)` -/
  | panic
  /-- `recover()` -/
  | recover
  /-- emitted by the translator in place of a graph it could not produce (function missing,
  construct outside the subset); never part of an expected graph, so the corresponding
  `skel_…` obligation breaks -/
  | untranslatable (why : String)
  deriving DecidableEq, Repr

/-- state `i` is the `i`-th entry: its outgoing edges (label, target state) -/
abbrev Graph := List (List (Lbl × Nat))

/-- the edges of a state (none for a state outside the graph) -/
def Graph.edges (g : Graph) (n : Nat) : List (Lbl × Nat) := g.getD n []

/-- `accepts g silent fuel n ls`: from state `n` there is a path (of fewer than `fuel` edges)
on which the labels `ls` occur in this order, every other label on it being `silent`: a silent
label may be skipped, any other label must be the next expected one. -/
def accepts (g : Graph) (silent : Lbl → Bool) : Nat → Nat → List Lbl → Bool
  | 0, _, _ => false
  | _ + 1, _, [] => true
  | fuel + 1, n, l :: ls =>
    (g.edges n).any fun e =>
      (e.1 == l && accepts g silent fuel e.2 ls) || (silent e.1 && accepts g silent fuel e.2 (l :: ls))

/-- as `accepts`, and after the last expected label a terminal state (the function has
returned) is reached through silent labels only -/
def acceptsEnd (g : Graph) (silent : Lbl → Bool) : Nat → Nat → List Lbl → Bool
  | 0, _, _ => false
  | fuel + 1, n, [] =>
    (g.edges n).isEmpty || (g.edges n).any fun e => silent e.1 && acceptsEnd g silent fuel e.2 []
  | fuel + 1, n, l :: ls =>
    (g.edges n).any fun e =>
      (e.1 == l && acceptsEnd g silent fuel e.2 ls) || (silent e.1 && acceptsEnd g silent fuel e.2 (l :: ls))

end GolibsVerif.Skel
