/-
Go-semantics layer: `slices.SortFunc` of Go 1.24.2, i.e. `pdqsortCmpFunc` and everything it
calls in `$GOROOT/src/slices/zsortanyfunc.go` (`insertionSortCmpFunc`, `siftDownCmpFunc`,
`heapSortCmpFunc`, `partitionCmpFunc`, `partitionEqualCmpFunc`, `partialInsertionSortCmpFunc`,
`breakPatternsCmpFunc`, `choosePivotCmpFunc`, `order2CmpFunc`, `medianCmpFunc`,
`medianAdjacentCmpFunc`, `reverseRangeCmpFunc`) and, from `sort.go`, `SortFunc`, `xorshift.Next`,
`nextPowerOfTwo`, the `sortedHint` constants (`bits.Len` is `bitsLen`).  At the end of the file:
`slices.Sort` (`zsortordered.go` is the same text with `cmp.Less(x, y)` for `cmp(x, y) < 0`) and
`slices.BinarySearch` / `BinarySearchFunc`.

The model is written statement by statement after the Go source:

* the slice is an `Array α`, indices are Go `int`s (`Int`); every `data[i]` is `get`, every
  `data[i], data[j] = data[j], data[i]` is `swap`, and both fail (a `GoM` error) exactly when
  the index is outside `0 ≤ i < len(data)`;
* a `for` loop whose guard alone makes a measure decrease is a well-founded recursion with that
  measure; the other loops (`siftDown`, the outer loops of `partition` / `partitionEqual`, and
  the loop-plus-recursion of `pdqsort`) take a fuel argument and fail with `fuelPanic` when it
  runs out — `Lemmas/Sort*.lean` prove that it never does and that no index is ever out of
  range, for every comparator (`sortFunc_total` in `Theorems/C12Sort.lean`);
* a compound statement whose result feeds the next one is a small named function
  (`siftChild`, `pdqBreak`, `pdqPivot`, `pdqPartial`, `pdqEqTest`), quoted in its doc comment;
* `int` is unbounded (`len(data) < 2^62` on every real machine, so `2*root+1`, `a+b` … do not
  overflow); `uint64` in `xorshift` is `UInt64`; Go's `/` on ints is `Int.tdiv`.

The comparator is any function `α → α → Int`; nothing is assumed about it here.
The model is compared with the real `slices.SortFunc` on every run (`C12.std.sortfunc`), also
for inconsistent comparators; `slices.Sort` and `slices.BinarySearch` by `C11.std.sort` /
`C11.std.bsearch`.
-/
import GolibsVerif.Go.Basic

namespace GolibsVerif.Slices

variable {α : Type}

/-! ### checked slice accesses -/

/-- the element at a Go index, if the index is in range -/
def at? (d : Array α) (i : Int) : Option α := if i < 0 then none else d[i.toNat]?

/-- `data[i]` -/
def get (d : Array α) (i : Int) : GoM α :=
  match at? d i with
  | some x => .ok x
  | none => .error (.indexOutOfRange i d.size)

/-- `data[i], data[j] = data[j], data[i]` -/
def swap (d : Array α) (i j : Int) : GoM (Array α) :=
  if h : 0 ≤ i ∧ i < d.size ∧ 0 ≤ j ∧ j < d.size then
    .ok (d.swap i.toNat j.toNat (by omega) (by omega))
  else .error (.indexOutOfRange (if 0 ≤ i ∧ i < d.size then j else i) d.size)

/-- what a loop of the model returns when its fuel is exhausted (proved unreachable) -/
def fuelPanic : GoPanic := .explicit "fuel"

/-- `bits.Len(uint(n))` for `n ≥ 0` -/
def bitsLen (n : Nat) : Nat := if n = 0 then 0 else Nat.log2 n + 1

/-! ### insertionSortCmpFunc -/

/-- `for j := i; j > a && cmp(data[j], data[j-1]) < 0; j-- { swap(j, j-1) }` -/
def insertionInner (cmp : α → α → Int) (d : Array α) (a j : Int) : GoM (Array α) :=
  if j > a then do
    let x ← get d j
    let y ← get d (j - 1)
    if cmp x y < 0 then do
      let d ← swap d j (j - 1)
      insertionInner cmp d a (j - 1)
    else pure d
  else pure d
termination_by (j - a).toNat
decreasing_by omega

/-- `for i := …; i < b; i++ { inner loop }` -/
def insertionOuter (cmp : α → α → Int) (d : Array α) (a b i : Int) : GoM (Array α) :=
  if i < b then do
    let d ← insertionInner cmp d a i
    insertionOuter cmp d a b (i + 1)
  else pure d
termination_by (b - i).toNat
decreasing_by omega

def insertionSort (cmp : α → α → Int) (d : Array α) (a b : Int) : GoM (Array α) :=
  insertionOuter cmp d a b (a + 1)

/-! ### siftDownCmpFunc, heapSortCmpFunc -/

/-- `if child+1 < hi && cmp(data[first+child], data[first+child+1]) < 0 { child++ }`: the new
value of `child` -/
def siftChild (cmp : α → α → Int) (d : Array α) (first hi child : Int) : GoM Int :=
  if child + 1 < hi then do
    let x ← get d (first + child)
    let y ← get d (first + child + 1)
    pure (if cmp x y < 0 then child + 1 else child)
  else pure child

/-- the `for { … }` of `siftDownCmpFunc`, `root` being the loop variable -/
def siftDownLoop (cmp : α → α → Int) : Nat → Array α → Int → Int → Int → GoM (Array α)
  | 0, _, _, _, _ => .error fuelPanic
  | fuel + 1, d, root, hi, first =>
    let child := 2 * root + 1
    if child ≥ hi then pure d
    else do
      let child ← siftChild cmp d first hi child
      let x ← get d (first + root)
      let y ← get d (first + child)
      if !(cmp x y < 0) then pure d
      else do
        let d ← swap d (first + root) (first + child)
        siftDownLoop cmp fuel d child hi first

def siftDown (cmp : α → α → Int) (d : Array α) (lo hi first : Int) : GoM (Array α) :=
  siftDownLoop cmp (hi - lo).toNat.succ d lo hi first

/-- `for i := (hi - 1) / 2; i >= 0; i-- { siftDown(data, i, hi, first) }` -/
def heapBuild (cmp : α → α → Int) (d : Array α) (i hi first : Int) : GoM (Array α) :=
  if i ≥ 0 then do
    let d ← siftDown cmp d i hi first
    heapBuild cmp d (i - 1) hi first
  else pure d
termination_by (i + 1).toNat
decreasing_by omega

/-- `for i := hi - 1; i >= 0; i-- { swap(first, first+i); siftDown(data, lo, i, first) }` -/
def heapPop (cmp : α → α → Int) (d : Array α) (i lo first : Int) : GoM (Array α) :=
  if i ≥ 0 then do
    let d ← swap d first (first + i)
    let d ← siftDown cmp d lo i first
    heapPop cmp d (i - 1) lo first
  else pure d
termination_by (i + 1).toNat
decreasing_by omega

def heapSort (cmp : α → α → Int) (d : Array α) (a b : Int) : GoM (Array α) := do
  let first := a
  let lo := 0
  let hi := b - a
  let d ← heapBuild cmp d ((hi - 1).tdiv 2) hi first
  heapPop cmp d (hi - 1) lo first

/-! ### partitionCmpFunc -/

/-- `for i <= j && cmp(data[i], data[a]) < 0 { i++ }` -/
def scanLess (cmp : α → α → Int) (d : Array α) (a i j : Int) : GoM Int :=
  if i ≤ j then do
    let x ← get d i
    let p ← get d a
    if cmp x p < 0 then scanLess cmp d a (i + 1) j else pure i
  else pure i
termination_by (j + 1 - i).toNat
decreasing_by omega

/-- `for i <= j && !(cmp(data[j], data[a]) < 0) { j-- }` -/
def scanNotLess (cmp : α → α → Int) (d : Array α) (a i j : Int) : GoM Int :=
  if i ≤ j then do
    let x ← get d j
    let p ← get d a
    if !(cmp x p < 0) then scanNotLess cmp d a i (j - 1) else pure j
  else pure j
termination_by (j + 1 - i).toNat
decreasing_by omega

/-- the second `for { … }` of `partitionCmpFunc`; returns the array and `j` -/
def partitionLoop (cmp : α → α → Int) : Nat → Array α → Int → Int → Int → GoM (Array α × Int)
  | 0, _, _, _, _ => .error fuelPanic
  | fuel + 1, d, a, i, j => do
    let i ← scanLess cmp d a i j
    let j ← scanNotLess cmp d a i j
    if i > j then pure (d, j)
    else do
      let d ← swap d i j
      partitionLoop cmp fuel d a (i + 1) (j - 1)

/-- `partitionCmpFunc`: `(data, newpivot, alreadyPartitioned)` -/
def partition (cmp : α → α → Int) (d : Array α) (a b pivot : Int) : GoM (Array α × Int × Bool) := do
  let d ← swap d a pivot
  let i := a + 1
  let j := b - 1
  let i ← scanLess cmp d a i j
  let j ← scanNotLess cmp d a i j
  if i > j then do
    let d ← swap d j a
    pure (d, j, true)
  else do
    let d ← swap d i j
    let i := i + 1
    let j := j - 1
    let (d, j) ← partitionLoop cmp (b - a).toNat.succ d a i j
    let d ← swap d j a
    pure (d, j, false)

/-! ### partitionEqualCmpFunc -/

/-- `for i <= j && !(cmp(data[a], data[i]) < 0) { i++ }` -/
def scanEqUp (cmp : α → α → Int) (d : Array α) (a i j : Int) : GoM Int :=
  if i ≤ j then do
    let p ← get d a
    let x ← get d i
    if !(cmp p x < 0) then scanEqUp cmp d a (i + 1) j else pure i
  else pure i
termination_by (j + 1 - i).toNat
decreasing_by omega

/-- `for i <= j && cmp(data[a], data[j]) < 0 { j-- }` -/
def scanEqDown (cmp : α → α → Int) (d : Array α) (a i j : Int) : GoM Int :=
  if i ≤ j then do
    let p ← get d a
    let x ← get d j
    if cmp p x < 0 then scanEqDown cmp d a i (j - 1) else pure j
  else pure j
termination_by (j + 1 - i).toNat
decreasing_by omega

/-- the `for { … }` of `partitionEqualCmpFunc`; returns the array and `i` -/
def partitionEqualLoop (cmp : α → α → Int) : Nat → Array α → Int → Int → Int → GoM (Array α × Int)
  | 0, _, _, _, _ => .error fuelPanic
  | fuel + 1, d, a, i, j => do
    let i ← scanEqUp cmp d a i j
    let j ← scanEqDown cmp d a i j
    if i > j then pure (d, i)
    else do
      let d ← swap d i j
      partitionEqualLoop cmp fuel d a (i + 1) (j - 1)

def partitionEqual (cmp : α → α → Int) (d : Array α) (a b pivot : Int) : GoM (Array α × Int) := do
  let d ← swap d a pivot
  partitionEqualLoop cmp (b - a).toNat.succ d a (a + 1) (b - 1)

/-! ### partialInsertionSortCmpFunc -/

/-- `for i < b && !(cmp(data[i], data[i-1]) < 0) { i++ }` -/
def scanSorted (cmp : α → α → Int) (d : Array α) (i b : Int) : GoM Int :=
  if i < b then do
    let x ← get d i
    let y ← get d (i - 1)
    if !(cmp x y < 0) then scanSorted cmp d (i + 1) b else pure i
  else pure i
termination_by (b - i).toNat
decreasing_by omega

/-- `for j := i - 1; j >= 1; j-- { if !(cmp(data[j], data[j-1]) < 0) { break }; swap(j, j-1) }`
(the bound is the literal `1` of the source, not `a + 1`) -/
def shiftLeft (cmp : α → α → Int) (d : Array α) (j : Int) : GoM (Array α) :=
  if j ≥ 1 then do
    let x ← get d j
    let y ← get d (j - 1)
    if !(cmp x y < 0) then pure d
    else do
      let d ← swap d j (j - 1)
      shiftLeft cmp d (j - 1)
  else pure d
termination_by j.toNat
decreasing_by omega

/-- `for j := i + 1; j < b; j++ { if !(cmp(data[j], data[j-1]) < 0) { break }; swap(j, j-1) }` -/
def shiftRight (cmp : α → α → Int) (d : Array α) (j b : Int) : GoM (Array α) :=
  if j < b then do
    let x ← get d j
    let y ← get d (j - 1)
    if !(cmp x y < 0) then pure d
    else do
      let d ← swap d j (j - 1)
      shiftRight cmp d (j + 1) b
  else pure d
termination_by (b - j).toNat
decreasing_by omega

/-- `maxSteps = 5`, `shortestShifting = 50` -/
def maxSteps : Int := 5
def shortestShifting : Int := 50

/-- `for j := 0; j < maxSteps; j++ { … }` of `partialInsertionSortCmpFunc`, `i` carried along -/
def partialInsertionLoop (cmp : α → α → Int) (d : Array α) (a b i j : Int) : GoM (Array α × Bool) :=
  if j < maxSteps then do
    let i ← scanSorted cmp d i b
    if i = b then pure (d, true)
    else if b - a < shortestShifting then pure (d, false)
    else do
      let d ← swap d i (i - 1)
      let d ← (if i - a ≥ 2 then shiftLeft cmp d (i - 1) else pure d)
      let d ← (if b - i ≥ 2 then shiftRight cmp d (i + 1) b else pure d)
      partialInsertionLoop cmp d a b i (j + 1)
  else pure (d, false)
termination_by (maxSteps - j).toNat
decreasing_by simp only [maxSteps] at *; omega

def partialInsertionSort (cmp : α → α → Int) (d : Array α) (a b : Int) : GoM (Array α × Bool) :=
  partialInsertionLoop cmp d a b (a + 1) 0

/-! ### breakPatternsCmpFunc -/

/-- `(*xorshift).Next` -/
def xorshiftNext (r : UInt64) : UInt64 :=
  let r := r ^^^ (r <<< 13)
  let r := r ^^^ (r >>> 7)
  let r := r ^^^ (r <<< 17)
  r

/-- `nextPowerOfTwo` -/
def nextPowerOfTwo (length : Nat) : Nat := 1 <<< bitsLen length

/-- `for idx := …; idx <= last; idx++ { other := …; swap(idx, a+other) }` -/
def breakPatternsLoop (d : Array α) (a length : Int) (modulus : Nat) (random : UInt64) (idx last : Int) :
    GoM (Array α) :=
  if idx ≤ last then do
    let random := xorshiftNext random
    let other : Int := ((random.toNat &&& (modulus - 1) : Nat) : Int)
    let other := if other ≥ length then other - length else other
    let d ← swap d idx (a + other)
    breakPatternsLoop d a length modulus random (idx + 1) last
  else pure d
termination_by (last + 1 - idx).toNat
decreasing_by omega

def breakPatterns (d : Array α) (a b : Int) : GoM (Array α) :=
  let length := b - a
  if length ≥ 8 then
    let random : UInt64 := UInt64.ofNat length.toNat
    let modulus := nextPowerOfTwo length.toNat
    breakPatternsLoop d a length modulus random (a + (length.tdiv 4) * 2 - 1) (a + (length.tdiv 4) * 2 + 1)
  else pure d

/-! ### choosePivotCmpFunc -/

inductive SortedHint where
  | unknown | increasing | decreasing
  deriving DecidableEq, Repr

/-- `order2CmpFunc`; `swaps` is passed and returned instead of `*swaps` -/
def order2 (cmp : α → α → Int) (d : Array α) (a b : Int) (swaps : Int) : GoM (Int × Int × Int) := do
  let x ← get d b
  let y ← get d a
  if cmp x y < 0 then pure (b, a, swaps + 1) else pure (a, b, swaps)

/-- `medianCmpFunc` -/
def median (cmp : α → α → Int) (d : Array α) (a b c : Int) (swaps : Int) : GoM (Int × Int) := do
  let (a, b, swaps) ← order2 cmp d a b swaps
  let (b, c, swaps) ← order2 cmp d b c swaps
  let _ := c
  let (_, b, swaps) ← order2 cmp d a b swaps
  pure (b, swaps)

/-- `medianAdjacentCmpFunc` -/
def medianAdjacent (cmp : α → α → Int) (d : Array α) (a : Int) (swaps : Int) : GoM (Int × Int) :=
  median cmp d (a - 1) a (a + 1) swaps

def shortestNinther : Int := 50
def maxSwaps : Int := 4 * 3

def choosePivot (cmp : α → α → Int) (d : Array α) (a b : Int) : GoM (Int × SortedHint) := do
  let l := b - a
  let swaps : Int := 0
  let i := a + l.tdiv 4 * 1
  let j := a + l.tdiv 4 * 2
  let k := a + l.tdiv 4 * 3
  let (j, swaps) ←
    if l ≥ 8 then do
      let (i, j, k, swaps) ←
        if l ≥ shortestNinther then do
          let (i, swaps) ← medianAdjacent cmp d i swaps
          let (j, swaps) ← medianAdjacent cmp d j swaps
          let (k, swaps) ← medianAdjacent cmp d k swaps
          pure (i, j, k, swaps)
        else pure (i, j, k, swaps)
      median cmp d i j k swaps
    else pure (j, swaps)
  if swaps = 0 then pure (j, .increasing)
  else if swaps = maxSwaps then pure (j, .decreasing)
  else pure (j, .unknown)

/-! ### reverseRangeCmpFunc -/

/-- `for i < j { swap(i, j); i++; j-- }` -/
def reverseLoop (d : Array α) (i j : Int) : GoM (Array α) :=
  if i < j then do
    let d ← swap d i j
    reverseLoop d (i + 1) (j - 1)
  else pure d
termination_by (j - i).toNat
decreasing_by omega

def reverseRange (d : Array α) (a b : Int) : GoM (Array α) := reverseLoop d a (b - 1)

/-! ### pdqsortCmpFunc -/

def maxInsertion : Int := 12

/-- `if !wasBalanced { breakPatterns(data, a, b); limit-- }`: the new `data` and `limit` -/
def pdqBreak (d : Array α) (a b limit : Int) (wasBalanced : Bool) : GoM (Array α × Int) :=
  if !wasBalanced then do
    let d ← breakPatterns d a b
    pure (d, limit - 1)
  else pure (d, limit)

/-- `pivot, hint := choosePivot(data, a, b); if hint == decreasingHint { reverseRange(data, a, b);
pivot = (b - 1) - (pivot - a); hint = increasingHint }` -/
def pdqPivot (cmp : α → α → Int) (d : Array α) (a b : Int) : GoM (Array α × Int × SortedHint) := do
  let (pivot, hint) ← choosePivot cmp d a b
  if hint = .decreasing then do
    let d ← reverseRange d a b
    pure (d, (b - 1) - (pivot - a), SortedHint.increasing)
  else pure (d, pivot, hint)

/-- `if wasBalanced && wasPartitioned && hint == increasingHint { if partialInsertionSort(data, a, b)
{ return } }`: the new `data` and whether the function returns -/
def pdqPartial (cmp : α → α → Int) (d : Array α) (a b : Int) (wasBalanced wasPartitioned : Bool)
    (hint : SortedHint) : GoM (Array α × Bool) :=
  if wasBalanced && wasPartitioned && hint = .increasing then partialInsertionSort cmp d a b
  else pure (d, false)

/-- the condition `a > 0 && !(cmp(data[a-1], data[pivot]) < 0)` -/
def pdqEqTest (cmp : α → α → Int) (d : Array α) (a pivot : Int) : GoM Bool :=
  if a > 0 then do
    let x ← get d (a - 1)
    let y ← get d pivot
    pure !(cmp x y < 0)
  else pure false

/-- `pdqsortCmpFunc`: one call of this function is one iteration of the `for { … }`; the
`continue` of the `partitionEqual` branch and the end of the loop body are tail calls with the
updated `a`, `b`, `limit`, `wasBalanced`, `wasPartitioned`; the recursive call of the source is a
call with `wasBalanced = wasPartitioned = true`.  Every call works on a strictly shorter range,
so `fuel > b - a` suffices. -/
def pdqsort (cmp : α → α → Int) : Nat → Array α → Int → Int → Int → Bool → Bool → GoM (Array α)
  | 0, _, _, _, _, _, _ => .error fuelPanic
  | fuel + 1, d, a, b, limit, wasBalanced, wasPartitioned => do
    let length := b - a
    if length ≤ maxInsertion then insertionSort cmp d a b
    else if limit = 0 then heapSort cmp d a b
    else do
      let (d, limit) ← pdqBreak d a b limit wasBalanced
      let (d, pivot, hint) ← pdqPivot cmp d a b
      let (d, done) ← pdqPartial cmp d a b wasBalanced wasPartitioned hint
      if done then pure d
      else do
        let eq ← pdqEqTest cmp d a pivot
        if eq then do
          let (d, mid) ← partitionEqual cmp d a b pivot
          pdqsort cmp fuel d mid b limit wasBalanced wasPartitioned
        else do
          let (d, mid, alreadyPartitioned) ← partition cmp d a b pivot
          let leftLen := mid - a
          let rightLen := b - mid
          let balanceThreshold := length.tdiv 8
          if leftLen < rightLen then do
            let d ← pdqsort cmp fuel d a mid limit true true
            pdqsort cmp fuel d (mid + 1) b limit (leftLen ≥ balanceThreshold) alreadyPartitioned
          else do
            let d ← pdqsort cmp fuel d (mid + 1) b limit true true
            pdqsort cmp fuel d a mid limit (rightLen ≥ balanceThreshold) alreadyPartitioned

/-! ### slices.SortFunc -/

/-- `n := len(x); pdqsortCmpFunc(x, 0, n, bits.Len(uint(n)), cmp)` on an array -/
def sortFuncArray (cmp : α → α → Int) (d : Array α) : GoM (Array α) :=
  let n : Int := d.size
  pdqsort cmp (d.size + 1) d 0 n (bitsLen d.size) true true

/-- `slices.SortFunc(x, cmp)`: the contents of `x` afterwards -/
def sortFunc (cmp : α → α → Int) (l : List α) : GoM (List α) :=
  (sortFuncArray cmp l.toArray).map Array.toList

/-- the slice after `slices.SortFunc(x, cmp)` as a plain list: the value of `sortFunc`, which
always exists (`sortFunc_total` in `Theorems/C12Sort.lean`; `sortFunc_eq_val`) -/
def sortFuncVal (cmp : α → α → Int) (l : List α) : List α :=
  match sortFunc cmp l with
  | .ok r => r
  | .error _ => l

/-! ### slices.Sort

`zsortordered.go` is `zsortanyfunc.go` with `cmp.Less(x, y)` in place of `cmp(x, y) < 0` (the two
generated files differ in nothing else), and `Sort` calls `pdqsortOrdered(x, 0, n, bits.Len(uint(n)))`
as `SortFunc` calls `pdqsortCmpFunc`.  Hence `slices.Sort` is the model of `SortFunc` run with a
comparator that is negative exactly when `cmp.Less` holds. -/

/-- the comparator standing for `cmp.Less` -/
def lessCmp (less : α → α → Bool) (a b : α) : Int := if less a b then -1 else 0

/-- `slices.Sort(x)`, `less` being `cmp.Less` on the element type -/
def sortOrdered (less : α → α → Bool) (l : List α) : GoM (List α) := sortFunc (lessCmp less) l

/-! ### slices.BinarySearch, slices.BinarySearchFunc -/

/-- `for i < j { h := int(uint(i+j) >> 1); if cmp(x[h], target) < 0 { i = h + 1 } else { j = h } }`;
`lt e` is `cmp(e, target) < 0` resp. `cmp.Less(e, target)`; the loop returns `i`.
(`int(uint(i+j) >> 1)` is `(i + j) / 2` for the non-negative `i + j < 2^63` of a slice.) -/
def binarySearchLoop (lt : α → Bool) (d : Array α) (i j : Int) : GoM Int :=
  if i < j then do
    let h := (i + j) / 2
    let x ← get d h
    if lt x then binarySearchLoop lt d (h + 1) j else binarySearchLoop lt d i h
  else pure i
termination_by (j - i).toNat
decreasing_by all_goals omega

/-- `slices.BinarySearchFunc(x, target, cmp)`: `lt e = (cmp(e, target) < 0)`, `eq e =
(cmp(e, target) == 0)`; and `slices.BinarySearch(x, target)`: `lt e = cmp.Less(e, target)`,
`eq e = (e == target || (isNaN(e) && isNaN(target)))`.  Returns `(i, i < n && eq(x[i]))`. -/
def binarySearchBy (lt eq : α → Bool) (l : List α) : GoM (Int × Bool) := do
  let d := l.toArray
  let n : Int := d.size
  let i ← binarySearchLoop lt d 0 n
  if i < n then do
    let x ← get d i
    pure (i, eq x)
  else pure (i, false)

end GolibsVerif.Slices
