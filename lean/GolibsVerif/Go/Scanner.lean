/-
Go-semantics layer, part 5: `bufio.Scanner` (`$GOROOT/src/bufio/scan.go`, Go 1.24) — an
executable model of `(*Scanner).Scan`, `advance`, `setErr`, `Err`, `Buffer`, and of the split
function `ScanLines` (with `dropCR`), reading from a *scripted* reader.

The reader.  A reader is a byte stream plus a *fragmentation script*: a list of read results
`(n, err)`.  One call `r.Read(p)` with `len(p) = room` consumes the head `(n, err)`:
  * `n ≤ room`: it delivers the next `n` bytes of the stream together with `err`;
  * `n > room`: it delivers the next `room` bytes with a nil error and leaves `(n - room, err)`
    at the head (a reader cannot deliver more than `len(p)` bytes; what it still holds comes
    with the next call);
  * an exhausted script answers `(0, io.EOF)`; `len(p) = 0` answers `(0, nil)` (the `io.Reader`
    contract; `Scan` never asks for it).
Every run of any `io.Reader` against the scanner is the run of a script: take the results
`(n_i, err_i)` the reader actually returned (then `n_i ≤ room_i`, so no entry is split).
Theorems quantified over all scripts therefore cover every reader behaviour (that returns
`0 ≤ n ≤ len(p)`: the `ErrBadReadCount` branch is kept in `fill` but is dead for this reader).

The scanner state is what `Scan` reads and writes: `len(s.buf)`, `s.start`, the bytes
`s.buf[s.start:s.end]` (`s.end = start + data.length`; the bytes outside this window are never
read again, so they are not represented), `s.err`, `s.empties`, `s.done`, `s.maxTokenSize`.
`s.token` is returned by `scan` (`some` = non-nil) instead of being stored; `s.scanCalled`
only guards `Buffer` / `Split` and is not represented.  Buffer shifting and growth are
modelled on the lengths (`shift`, `grow`), which is all they can influence: the `room` of the
next `Read` and the `ErrTooLong` rule.
-/
import GolibsVerif.Go.Basic

namespace GolibsVerif.Bufio

/-- the `error` values that occur: `io.EOF`, an error of the reader, the scanner's own -/
inductive Err where
  | eof                     -- io.EOF
  | reader (id : Nat)       -- any other error value returned by the reader
  | tooLong                 -- bufio.ErrTooLong
  | negativeAdvance         -- bufio.ErrNegativeAdvance
  | advanceTooFar           -- bufio.ErrAdvanceTooFar
  | badReadCount            -- bufio.ErrBadReadCount
  | noProgress              -- io.ErrNoProgress
  | split (id : Nat)        -- an error returned by the split function (not `ErrFinalToken`)
  deriving Repr, DecidableEq

/-! ### the scripted reader -/

/-- a fragmentation script: the read results `(n, err)`, `none` = nil error -/
abbrev Script := List (Nat × Option Err)

structure Reader where
  rest : Bytes          -- the bytes not yet delivered
  script : Script
  deriving Repr

/-- `r.Read(p)` with `len(p) = room`: the bytes copied to `p`, the error, the reader after -/
def Reader.read (r : Reader) (room : Nat) : Bytes × Option Err × Reader :=
  if room = 0 then ([], none, r)
  else match r.script with
    | [] => ([], some .eof, r)
    | (n, e) :: tl =>
      if n ≤ room then (r.rest.take n, e, { rest := r.rest.drop n, script := tl })
      else (r.rest.take room, none, { rest := r.rest.drop room, script := (n - room, e) :: tl })

/-- termination measure of a script: every `Read` with `room > 0` makes it smaller -/
def scriptSize : Script → Nat
  | [] => 0
  | (n, _) :: tl => n + 1 + scriptSize tl

/-! ### split functions, `ScanLines` -/

/-- what a split function may return as `err` -/
inductive SplitErr where
  | finalToken            -- bufio.ErrFinalToken
  | other (id : Nat)
  deriving Repr, DecidableEq

/-- `(advance int, token []byte, err error)`; `token = none` is the nil slice -/
structure SplitResult where
  advance : Int
  token : Option Bytes
  err : Option SplitErr
  deriving Repr

/-- `bufio.SplitFunc` -/
abbrev SplitFunc := Bytes → Bool → SplitResult

/-- `dropCR`: `if len(data) > 0 && data[len(data)-1] == '\r' { return data[0 : len(data)-1] }` -/
def dropCR (data : Bytes) : Bytes :=
  if data.length > 0 ∧ data[data.length - 1]? = some 13 then data.take (data.length - 1) else data

/-- `bytes.IndexByte(data, c)`; `none` is −1 -/
def indexByte : Bytes → Nat → Option Nat
  | [], _ => none
  | b :: t, c => if b = c then some 0 else (indexByte t c).map (· + 1)

/-- `bufio.ScanLines` -/
def scanLinesSplit : SplitFunc := fun data atEOF =>
  if atEOF ∧ data.length = 0 then ⟨0, none, none⟩
  else match indexByte data 10 with
    | some i => ⟨((i + 1 : Nat) : Int), some (dropCR (data.take i)), none⟩   -- a full newline-terminated line
    | none =>
      if atEOF then ⟨(data.length : Int), some (dropCR data), none⟩          -- final, non-terminated line
      else ⟨0, none, none⟩                                                   -- request more data

/-! ### the scanner -/

def maxConsecutiveEmptyReads : Nat := 100
def maxScanTokenSize : Nat := 64 * 1024
def startBufSize : Nat := 4096
/-- `int(^uint(0) >> 1)` on a 64-bit platform -/
def maxInt : Nat := 2 ^ 63 - 1

structure Scanner where
  rd : Reader               -- s.r
  maxTokenSize : Nat        -- s.maxTokenSize
  bufLen : Nat              -- len(s.buf)
  start : Nat               -- s.start
  data : Bytes              -- s.buf[s.start:s.end]
  err : Option Err          -- s.err
  empties : Nat             -- s.empties
  done : Bool               -- s.done
  deriving Repr

/-- `s.end` -/
def Scanner.end_ (s : Scanner) : Nat := s.start + s.data.length

/-- `bufio.NewScanner(r)` followed by `s.Buffer(buf, max)` with `cap(buf) = bufCap` -/
def Scanner.new (rd : Reader) (bufCap max : Nat) : Scanner :=
  { rd := rd, maxTokenSize := max, bufLen := bufCap, start := 0, data := [], err := none, empties := 0,
    done := false }

/-- `setErr`: records the first error encountered (`io.EOF` may be overwritten) -/
def Scanner.setErr (s : Scanner) (e : Err) : Scanner :=
  if s.err = none ∨ s.err = some .eof then { s with err := some e } else s

/-- `(*Scanner).Err` -/
def Scanner.errValue (s : Scanner) : Option Err :=
  if s.err = some .eof then none else s.err

theorem Reader.read_zero (r : Reader) : r.read 0 = ([], none, r) := by
  simp [Reader.read]

theorem Reader.read_size (r : Reader) (room : Nat) :
    scriptSize (r.read room).2.2.script ≤ scriptSize r.script ∧
      ((r.read room).1 ≠ [] → scriptSize (r.read room).2.2.script < scriptSize r.script) ∧
      (room ≠ 0 → (r.read room).2.1 = none → scriptSize (r.read room).2.2.script < scriptSize r.script) := by
  obtain ⟨rest, script⟩ := r
  unfold Reader.read
  by_cases h0 : room = 0
  · simp [h0]
  · cases script with
    | nil => simp [h0]
    | cons hd tl =>
      obtain ⟨n, e⟩ := hd
      by_cases hn : n ≤ room
      · simp only [h0, if_false, hn, if_true, scriptSize]
        exact ⟨by omega, fun _ => by omega, fun _ _ => by omega⟩
      · simp only [h0, if_false, hn, scriptSize]
        exact ⟨by omega, fun _ => by omega, fun _ _ => by omega⟩

/-- the read loop of `Scan`
```
for loop := 0; ; {
    n, err := s.r.Read(s.buf[s.end:len(s.buf)])
    if n < 0 || len(s.buf)-s.end < n { s.setErr(ErrBadReadCount); break }
    s.end += n
    if err != nil { s.setErr(err); break }
    if n > 0 { s.empties = 0; break }
    loop++
    if loop > maxConsecutiveEmptyReads { s.setErr(io.ErrNoProgress); break }
}
```
entered with the given value of `loop` -/
def fill (s : Scanner) (loop : Nat) : Scanner :=
  let res := s.rd.read (s.bufLen - s.end_)            -- (bytes copied, err, reader after)
  if s.bufLen - s.end_ < res.1.length then { s with rd := res.2.2 }.setErr .badReadCount
  else
    let s' : Scanner := { s with rd := res.2.2, data := s.data ++ res.1 }
    match herr : res.2.1 with
    | some e => s'.setErr e
    | none =>
      if res.1.length > 0 then { s' with empties := 0 }
      else if loop + 1 > maxConsecutiveEmptyReads then s'.setErr .noProgress
      else fill s' (loop + 1)
termination_by (scriptSize s.rd.script, maxConsecutiveEmptyReads + 1 - loop)
decreasing_by
  all_goals simp_wf
  simp only [maxConsecutiveEmptyReads] at *
  have hr := Reader.read_size s.rd (s.bufLen - s.end_)
  by_cases h0 : s.bufLen - s.end_ = 0
  · have := Reader.read_zero s.rd
    rw [h0, this]
    exact Prod.Lex.right _ (by omega)
  · exact Prod.Lex.left _ _ (hr.2.2 h0 herr)

/-- the first part of the loop body of `Scan`: try to get a token out of what is held -/
inductive Try where
  | ret (r : GoM (Option Bytes × Scanner))    -- `Scan` returns: `some t` = true with token `t`, `none` = false
  | more (s : Scanner)                        -- fall through: a token cannot be generated yet

/--
```
if s.end > s.start || s.err != nil {
    advance, token, err := s.split(s.buf[s.start:s.end], s.err != nil)
    if err != nil {
        if err == ErrFinalToken { s.token = token; s.done = true; return token != nil }
        s.setErr(err); return false
    }
    if !s.advance(advance) { return false }
    s.token = token
    if token != nil {
        if s.err == nil || advance > 0 { s.empties = 0 } else {
            s.empties++
            if s.empties > maxConsecutiveEmptyReads { panic("bufio.Scan: too many empty tokens without progressing") }
        }
        return true
    }
}
```
with `advance` inlined (`ErrNegativeAdvance`, `ErrAdvanceTooFar`, `s.start += n`).  A `Scan`
that returns false with `ErrFinalToken` and a nil token is `ret (none, _)`. -/
def tryToken (split : SplitFunc) (s : Scanner) : Try :=
  if s.data.length > 0 ∨ s.err ≠ none then
    let r := split s.data (s.err ≠ none)
    match r.err with
    | some .finalToken => .ret (.ok (r.token, { s with done := true }))
    | some (.other id) => .ret (.ok (none, s.setErr (.split id)))
    | none =>
      if r.advance < 0 then .ret (.ok (none, s.setErr .negativeAdvance))
      else if r.advance > (s.data.length : Int) then .ret (.ok (none, s.setErr .advanceTooFar))
      else
        let s : Scanner := { s with start := s.start + r.advance.toNat, data := s.data.drop r.advance.toNat }
        match r.token with
        | some t =>
          if s.err = none ∨ r.advance > 0 then .ret (.ok (some t, { s with empties := 0 }))
          else
            let s : Scanner := { s with empties := s.empties + 1 }
            if s.empties > maxConsecutiveEmptyReads then
              .ret (.error (.explicit "bufio.Scan: too many empty tokens without progressing"))
            else .ret (.ok (some t, s))
        | none => .more s
  else .more s

/--
```
if s.start > 0 && (s.end == len(s.buf) || s.start > len(s.buf)/2) {
    copy(s.buf, s.buf[s.start:s.end]); s.end -= s.start; s.start = 0
}
``` -/
def shift (s : Scanner) : Scanner :=
  if s.start > 0 ∧ (s.end_ = s.bufLen ∨ s.start > s.bufLen / 2) then { s with start := 0 } else s

/--
```
if s.end == len(s.buf) {
    if len(s.buf) >= s.maxTokenSize || len(s.buf) > maxInt/2 { s.setErr(ErrTooLong); return false }
    newSize := len(s.buf) * 2
    if newSize == 0 { newSize = startBufSize }
    newSize = min(newSize, s.maxTokenSize)
    newBuf := make([]byte, newSize); copy(newBuf, s.buf[s.start:s.end]); s.buf = newBuf
    s.end -= s.start; s.start = 0
}
```
`none` = the `ErrTooLong` exit -/
def grow (s : Scanner) : Option Scanner :=
  if s.end_ = s.bufLen then
    if s.bufLen ≥ s.maxTokenSize ∨ s.bufLen > maxInt / 2 then none
    else
      let newSize := s.bufLen * 2
      let newSize := if newSize = 0 then startBufSize else newSize
      let newSize := min newSize s.maxTokenSize
      some { s with bufLen := newSize, start := 0 }
  else some s

/-- `fill` never makes the script longer; when it leaves `s.err` nil it has consumed some -/
theorem fill_size (s : Scanner) (loop : Nat) :
    scriptSize (fill s loop).rd.script ≤ scriptSize s.rd.script ∧
      (s.err = none → (fill s loop).err = none →
        scriptSize (fill s loop).rd.script < scriptSize s.rd.script) := by
  fun_induction fill s loop with
  | case1 s loop res hbad =>
    have := Reader.read_size s.rd (s.bufLen - s.end_)
    refine ⟨by unfold Scanner.setErr; split <;> exact this.1, ?_⟩
    intro he
    simp [Scanner.setErr, he]
  | case2 s loop res hbad s' e he' =>
    have := Reader.read_size s.rd (s.bufLen - s.end_)
    refine ⟨by unfold Scanner.setErr; split <;> exact this.1, ?_⟩
    intro he
    simp [Scanner.setErr, s', he]
  | case3 s loop res hbad s' he' hpos =>
    have := Reader.read_size s.rd (s.bufLen - s.end_)
    exact ⟨this.1, fun _ _ => this.2.1 (by intro hb; simp [res, hb] at hpos)⟩
  | case4 s loop res hbad s' he' hpos hloop =>
    have := Reader.read_size s.rd (s.bufLen - s.end_)
    refine ⟨by unfold Scanner.setErr; split <;> exact this.1, ?_⟩
    intro he
    simp [Scanner.setErr, s', he]
  | case5 s loop res hbad s' he' hpos hloop ih =>
    have := Reader.read_size s.rd (s.bufLen - s.end_)
    simp only [s', res] at ih ⊢
    refine ⟨Nat.le_trans ih.1 this.1, ?_⟩
    intro he h2
    have := ih.2 he h2
    omega

theorem tryToken_more (split : SplitFunc) (s s' : Scanner) (h : tryToken split s = .more s') :
    s'.rd = s.rd ∧ s'.err = s.err ∧ s'.data.length ≤ s.data.length := by
  unfold tryToken at h
  split at h
  · dsimp only at h
    generalize split s.data (decide (s.err ≠ none)) = r at h
    split at h
    · simp at h
    · simp at h
    · split at h
      · simp at h
      · split at h
        · simp at h
        · split at h
          · split at h
            · simp at h
            · split at h <;> simp at h
          · simp only [Try.more.injEq] at h
            subst h
            simp only [List.length_drop, true_and]
            omega
  · simp only [Try.more.injEq] at h
    subst h
    simp

theorem shift_frame (s : Scanner) : (shift s).rd = s.rd ∧ (shift s).err = s.err ∧ (shift s).data = s.data := by
  unfold shift; split <;> simp

theorem grow_frame (s s' : Scanner) (h : grow s = some s') :
    s'.rd = s.rd ∧ s'.err = s.err ∧ s'.data = s.data := by
  unfold grow at h
  split at h
  · split at h
    · simp at h
    · simp only [Option.some.injEq] at h; subst h; simp
  · simp only [Option.some.injEq] at h; subst h; simp

set_option linter.unusedVariables false in
/-- the loop `for { … }` of `Scan` -/
def scanLoop (split : SplitFunc) (s : Scanner) : GoM (Option Bytes × Scanner) :=
  match h : tryToken split s with
  | .ret r => r
  | .more s1 =>
    -- We cannot generate a token with what we are holding.
    if s1.err ≠ none then
      .ok (none, { s1 with start := 0, data := [] })           -- s.start = 0; s.end = 0; return false
    else
      match h2 : grow (shift s1) with
      | none => .ok (none, (shift s1).setErr .tooLong)          -- s.setErr(ErrTooLong); return false
      | some s2 => scanLoop split (fill s2 0)
termination_by 2 * scriptSize s.rd.script + (if s.err = none then 1 else 0)
decreasing_by
  rename_i herr
  have h1 := tryToken_more split _ _ h
  have h3 := shift_frame s1
  have h4 := grow_frame _ _ h2
  have hs1 : s1.err = none := by simpa using herr
  have hs2 : s2.err = none := by rw [h4.2.1, h3.2.1]; exact hs1
  have h5 := fill_size s2 0
  rw [h4.1, h3.1, h1.1] at h5
  have hs : s.err = none := by rw [← h1.2.1]; exact hs1
  simp only [hs, if_true]
  by_cases hf : (fill s2 0).err = none
  · have := h5.2 hs2 hf
    simp only [hf, if_true]
    omega
  · simp only [hf, if_false]
    have := h5.1
    omega

/-- `(*Scanner).Scan`: `some t` = true with `s.Bytes() = t`, `none` = false -/
def scan (split : SplitFunc) (s : Scanner) : GoM (Option Bytes × Scanner) :=
  if s.done then .ok (none, s) else scanLoop split s

/-! ### running a scanner to the end, as `for s.Scan() { … }; s.Err()` does -/

/-- termination measure of the `for s.Scan()` loop -/
def Scanner.weight (s : Scanner) : Nat :=
  2 * scriptSize s.rd.script + s.data.length + (if s.err = none then 1 else 0)

theorem Reader.read_length (r : Reader) (room : Nat) :
    (r.read room).1.length + scriptSize (r.read room).2.2.script ≤ scriptSize r.script ∧
      (r.read room).1.length ≤ room := by
  obtain ⟨rest, script⟩ := r
  unfold Reader.read
  by_cases h0 : room = 0
  · simp [h0]
  · cases script with
    | nil => simp [h0]
    | cons hd tl =>
      obtain ⟨n, e⟩ := hd
      by_cases hn : n ≤ room
      · simp only [h0, if_false, hn, if_true, scriptSize, List.length_take]
        omega
      · simp only [h0, if_false, hn, scriptSize, List.length_take]
        omega

theorem fill_weight (s : Scanner) (loop : Nat) (he : s.err = none) : (fill s loop).weight ≤ s.weight := by
  fun_induction fill s loop with
  | case1 s loop res hbad =>
    have := Reader.read_length s.rd (s.bufLen - s.end_)
    simp only [res] at hbad
    omega
  | case2 s loop res hbad s' e he' =>
    have := Reader.read_length s.rd (s.bufLen - s.end_)
    simp only [Scanner.weight, Scanner.setErr, he, true_or, if_true, s', List.length_append]
    simp only [reduceCtorEq, if_false, res]
    omega
  | case3 s loop res hbad s' he' hpos =>
    have := Reader.read_length s.rd (s.bufLen - s.end_)
    simp only [Scanner.weight, he, if_true, s', List.length_append]
    simp only [res] at hpos ⊢
    omega
  | case4 s loop res hbad s' he' hpos hloop =>
    have := Reader.read_length s.rd (s.bufLen - s.end_)
    simp only [Scanner.weight, Scanner.setErr, he, true_or, if_true, s', List.length_append]
    simp only [reduceCtorEq, if_false, res]
    omega
  | case5 s loop res hbad s' he' hpos hloop ih =>
    have := Reader.read_length s.rd (s.bufLen - s.end_)
    have ih := ih he
    simp only [Scanner.weight, he, if_true, s', List.length_append, res] at ih ⊢
    omega

theorem indexByte_lt (data : Bytes) (c i : Nat) (h : indexByte data c = some i) : i < data.length := by
  induction data generalizing i with
  | nil => simp [indexByte] at h
  | cons b t ih =>
    unfold indexByte at h
    split at h
    · simp only [Option.some.injEq] at h; subst h; simp
    · cases ht : indexByte t c with
      | none => simp [ht] at h
      | some j =>
        simp only [ht, Option.map_some, Option.some.injEq] at h
        subst h
        have := ih j ht
        simp only [List.length_cons]
        omega

/-! `tryToken` with `ScanLines`, by cases -/

/-- the held data contain a newline: the line before it is the token -/
theorem tryToken_lines_newline (s : Scanner) (i : Nat) (h : indexByte s.data 10 = some i) :
    tryToken scanLinesSplit s =
      .ret (.ok (some (dropCR (s.data.take i)),
        { s with start := s.start + (i + 1), data := s.data.drop (i + 1), empties := 0 })) := by
  have hi := indexByte_lt _ _ _ h
  have hlen : s.data.length > 0 := by omega
  have h1 : ¬ ((i : Int) + 1 < 0) := by omega
  have h2 : ¬ ((i : Int) + 1 > (s.data.length : Int)) := by omega
  have h3 : (i : Int) + 1 > 0 := by omega
  have h4 : ((i : Int) + 1).toNat = i + 1 := by omega
  have h5 : s.data ≠ [] := by intro hd; simp [hd] at hlen
  simp [tryToken, scanLinesSplit, h, hlen, h1, h2, h3, h4, h5]

/-- no newline and `s.err == nil`: more data are needed -/
theorem tryToken_lines_more (s : Scanner) (h : indexByte s.data 10 = none) (he : s.err = none) :
    tryToken scanLinesSplit s = .more s := by
  by_cases hd : s.data = []
  · simp [tryToken, he, hd]
  · have hlen : s.data.length > 0 := by
      cases hs : s.data with
      | nil => exact absurd hs hd
      | cons _ _ => simp
    have h1 : ¬ ((s.data.length : Int) < 0) := by omega
    obtain ⟨rd, mt, bl, st, data, err, em, dn⟩ := s
    simp only at h he hd hlen h1
    subst he
    simp [tryToken, scanLinesSplit, h, hd, hlen, h1]

/-- no newline, `s.err != nil`, non-empty data: the final, non-terminated line is the token -/
theorem tryToken_lines_final (s : Scanner) (h : indexByte s.data 10 = none) (he : s.err ≠ none)
    (hd : s.data ≠ []) :
    tryToken scanLinesSplit s =
      .ret (.ok (some (dropCR s.data),
        { s with start := s.start + s.data.length, data := [], empties := 0 })) := by
  have hlen : s.data.length > 0 := by
    cases hs : s.data with
    | nil => exact absurd hs hd
    | cons _ _ => simp
  simp [tryToken, scanLinesSplit, h, he, hd, hlen]

/-- `s.err != nil` and nothing held: no token -/
theorem tryToken_lines_end (s : Scanner) (he : s.err ≠ none) (hd : s.data = []) :
    tryToken scanLinesSplit s = .more s := by
  obtain ⟨rd, mt, bl, st, data, err, em, dn⟩ := s
  simp only at he hd
  subst hd
  simp [tryToken, scanLinesSplit, he]

/-- a `ScanLines` token always advances the input -/
theorem tryToken_lines_ret (s s' : Scanner) (t : Bytes)
    (h : tryToken scanLinesSplit s = .ret (.ok (some t, s'))) :
    s'.rd = s.rd ∧ s'.err = s.err ∧ s'.data.length < s.data.length := by
  cases hi : indexByte s.data 10 with
  | some i =>
    rw [tryToken_lines_newline s i hi] at h
    simp only [Try.ret.injEq, Except.ok.injEq, Prod.mk.injEq, Option.some.injEq] at h
    obtain ⟨_, rfl⟩ := h
    have := indexByte_lt _ _ _ hi
    simp only [List.length_drop, true_and]
    omega
  | none =>
    by_cases he : s.err = none
    · rw [tryToken_lines_more s hi he] at h; simp at h
    · by_cases hd : s.data = []
      · rw [tryToken_lines_end s he hd] at h; simp at h
      · rw [tryToken_lines_final s hi he hd] at h
        simp only [Try.ret.injEq, Except.ok.injEq, Prod.mk.injEq, Option.some.injEq] at h
        obtain ⟨_, rfl⟩ := h
        simp only [List.length_nil, true_and]
        cases hs : s.data with
        | nil => exact absurd hs hd
        | cons _ _ => simp

theorem scanLoop_lines_weight (s s' : Scanner) (t : Bytes)
    (h : scanLoop scanLinesSplit s = .ok (some t, s')) : s'.weight < s.weight := by
  fun_induction scanLoop scanLinesSplit s with
  | case1 s r hr =>
    subst h
    have := tryToken_lines_ret _ _ _ hr
    simp only [Scanner.weight, this.1, this.2.1]
    omega
  | case2 s s1 hm he => simp at h
  | case3 s s1 hm he hg => simp at h
  | case4 s s1 hm he s2 hg ih =>
    have ih := ih h
    have h1 := tryToken_more _ _ _ hm
    have h3 := shift_frame s1
    have h4 := grow_frame _ _ hg
    have hs1 : s1.err = none := by simpa using he
    have hs2 : s2.err = none := by rw [h4.2.1, h3.2.1]; exact hs1
    have h5 := fill_weight s2 0 hs2
    have hs : s.err = none := by rw [← h1.2.1]; exact hs1
    have : s2.weight ≤ s.weight := by
      simp only [Scanner.weight, h4.1, h4.2.1, h4.2.2, h3.1, h3.2.1, h3.2.2, h1.1, hs1, hs]
      omega
    omega

set_option linter.unusedVariables false in
/-- the loop `for s.Scan() { tokens = append(tokens, s.Bytes()) }` followed by `s.Err()`, with
`ScanLines` as the split function: the tokens and the final `Err()` (`none` = nil) -/
def scanAll (s : Scanner) : GoM (List Bytes × Option Err) :=
  match h : scan scanLinesSplit s with
  | .error p => .error p
  | .ok (none, s') => .ok ([], s'.errValue)
  | .ok (some t, s') =>
    match scanAll s' with
    | .error p => .error p
    | .ok (ts, e) => .ok (t :: ts, e)
termination_by s.weight
decreasing_by
  unfold scan at h
  split at h
  · simp at h
  · exact scanLoop_lines_weight _ _ _ h

/-- `bufio.NewScanner(src)`, `s.Buffer(buf, max)` and the scan loop, for a reader that holds
`stream` and answers by `script` -/
def scanStream (bufCap max : Nat) (stream : Bytes) (script : Script) : GoM (List Bytes × Option Err) :=
  scanAll (Scanner.new { rest := stream, script := script } bufCap max)

end GolibsVerif.Bufio
