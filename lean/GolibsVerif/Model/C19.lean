/-
C19 — executable model of `slogutil.JSONHybridHandler`
(`/repo/logutil/slogutil/jsonhybrid.go`; pooled `bufferedTextHandler` of `slogutil.go`).

What is modelled, as the code is written:

* Go slices of `slog.Attr` live on an explicit heap of backing arrays (`Heap`); a slice is
  `(array, len, cap)`.  `append` writes in place when capacity allows (that is what makes
  aliasing between sibling handlers / copies of one `slog.Record` expressible) and otherwise
  allocates a new array whose spare capacity is chosen by an arbitrary growth `Policy`.
  `slices.Clip`, `slices.Grow` as in the standard library.
* `slog.Record`'s attribute storage (`front [5]Attr`, `nFront`, shared `back []Attr`),
  `Record.Clone` and `Record.AddAttrs` including its "!BUG" detection branch.
* `JSONHybridHandler.WithAttrs`  = `append(slices.Clip(h.textAttrs), attrs...)`,
  `Enabled` (`level >= h.level.Level()` on the `slog.Leveler` field), `newJSONHybridMessage`
  (severity) and `Handle`
  (clone — see below —, `AddAttrs(h.textAttrs...)`, render through the text handler, strip
  the last byte with Go's slice bounds check, encode).
* `slog.TextHandler` is the parameter `text` (contract TEXT-1); `encoding/json` is the
  parameter `encode`, for which `goJsonEncode` below is the executable model of
  `json.Encoder.Encode` (escapeHTML off) of the two-field struct; the driver uses it and the
  harness compares it with the real encoder byte for byte on every case.

* The `slog.Leveler` of `HandlerOptions.Level` is a constant `slog.Level` or the one
  `*slog.LevelVar` of the world (`World.lvar`, changed by `Op.setLevel`).  `newHandler` is
  `NewJSONHybridHandler` as it is written: it asks the leveler *once* (`lvl =
  opts.Level.Level()`) and stores that `slog.Level` in the field, so a later `Set` is not seen
  by any handler of the tree.  `newHandlerDyn` (the leveler itself stored, asked on every
  `Enabled` call, as the handlers of log/slog do) is the other reading of "the configured
  level"; it is not what the driver runs.

`Handler.handle` is the model of the *minimally repaired* code (`r = r.Clone()` before
`r.AddAttrs`); `Handler.handleNoClone` is the code of the unchanged tree, kept for the
negative examples in `Theorems/C19.lean`.
-/
import GolibsVerif.Go.Basic

namespace GolibsVerif.C19

/-! ### Attributes, heap, slices -/

/-- A `slog.Attr` as far as this code can distinguish attributes: the zero `Attr` (what an
unwritten array cell holds, and what `slog.Attr{}` is), a caller-supplied attribute with an
identity and the answer of `a.Value.isEmptyGroup()`, and the `!BUG` attribute that
`Record.AddAttrs` fabricates. -/
inductive Attr where
  | zero
  | user (id : Nat) (emptyGroup : Bool)
  | bug
  deriving DecidableEq, Repr

/-- `a.Value.isEmptyGroup()` -/
def Attr.isEmptyGroup : Attr → Bool
  | .user _ eg => eg
  | _ => false

/-- `a.isEmpty()`: the zero Attr -/
def Attr.isEmpty : Attr → Bool
  | .zero => true
  | _ => false

/-- Backing arrays; array `i` has the fixed length it was allocated with. -/
abbrev Heap := List (List Attr)

/-- A Go slice header.  `arr` is irrelevant when `cap = 0` (nil / empty slice). -/
structure Slice where
  arr : Nat
  len : Nat
  cap : Nat
  deriving DecidableEq, Repr

def Slice.nil : Slice := { arr := 0, len := 0, cap := 0 }

/-- the backing array of a slice (memory lookup, not a Go indexing expression) -/
def arrayOf (hp : Heap) (i : Nat) : List Attr := (hp[i]?).getD []

/-- The elements a reader of the slice sees *now*. -/
def view (hp : Heap) (s : Slice) : List Attr := (arrayOf hp s.arr).take s.len

/-- Growth policy of `append`/`growslice`: the spare capacity (beyond what is needed) of a
newly allocated array, as an arbitrary function of the allocation index, the old length,
the old capacity and the number of appended elements. -/
abbrev Policy := Nat → Nat → Nat → Nat → Nat

/-- `append(s, xs...)`. -/
def append (pol : Policy) (hp : Heap) (s : Slice) (xs : List Attr) : Heap × Slice :=
  if s.len + xs.length ≤ s.cap then
    -- enough capacity: write in place into the (possibly shared) backing array
    let a := arrayOf hp s.arr
    (hp.set s.arr (a.take s.len ++ xs ++ a.drop (s.len + xs.length)),
     { s with len := s.len + xs.length })
  else
    let need := s.len + xs.length
    let newcap := need + pol hp.length s.len s.cap xs.length
    (hp ++ [view hp s ++ xs ++ List.replicate (newcap - need) Attr.zero],
     { arr := hp.length, len := need, cap := newcap })

/-- `slices.Clip(s)` = `s[:len(s):len(s)]` -/
def clip (s : Slice) : Slice := { s with cap := s.len }

/-- `slices.Grow(s, n)` (n ≥ 0):
`if n -= cap(s) - len(s); n > 0 { s = append(s[:cap(s)], make([]S, n)...)[:len(s)] }` -/
def grow (pol : Policy) (hp : Heap) (s : Slice) (n : Nat) : Heap × Slice :=
  if n ≤ s.cap - s.len then (hp, s)
  else
    let r := append pol hp { s with len := s.cap } (List.replicate (n - (s.cap - s.len)) Attr.zero)
    (r.1, { r.2 with len := s.len })

/-! ### slog.Record -/

/-- `nAttrsInline` of log/slog -/
def nAttrsInline : Nat := 5

/-- A `slog.Record`: `rid` stands for everything the text handler prints besides level and
attributes (time, message, pc); `front` is `front[:nFront]`. -/
structure Record where
  level : Int
  rid : Nat
  front : List Attr
  back : Slice
  deriving DecidableEq, Repr

def newRecord (level : Int) (rid : Nat) : Record :=
  { level := level, rid := rid, front := [], back := Slice.nil }

/-- `Record.Clone` -/
def Record.clone (r : Record) : Record := { r with back := clip r.back }

/-- All attributes of the record, in the order `Record.Attrs` yields them. -/
def Record.attrs (hp : Heap) (r : Record) : List Attr := r.front ++ view hp r.back

/-- first loop of `AddAttrs`: fill the inline array; returns the new front and `attrs[i:]` -/
def fillFront : List Attr → List Attr → List Attr × List Attr
  | front, [] => (front, [])
  | front, a :: rest =>
    if front.length < nAttrsInline then
      if a.isEmptyGroup then fillFront front rest else fillFront (front ++ [a]) rest
    else (front, a :: rest)

def countEmptyGroups (as : List Attr) : Nat := (as.filter (·.isEmptyGroup)).length

/-- last loop of `AddAttrs`: `for _, a := range rest { if !empty { back = append(back, a) } }` -/
def appendEach (pol : Policy) : Heap → Slice → List Attr → Heap × Slice
  | hp, s, [] => (hp, s)
  | hp, s, a :: rest =>
    if a.isEmptyGroup then appendEach pol hp s rest
    else
      let r := append pol hp s [a]
      appendEach pol r.1 r.2 rest

/-- `(*Record).AddAttrs(attrs...)` on the record value `r` (which may be a copy sharing
`back` with other copies). -/
def Record.addAttrs (pol : Policy) (hp : Heap) (r : Record) (attrs : List Attr) : Heap × Record :=
  let ff := fillFront r.front attrs
  let rest := ff.2
  -- "Check if a copy was modified by slicing past the end and seeing if the Attr there is
  -- non-zero": `r.back[:len+1][len]` is in range because `len < cap`.
  let chk : Heap × Slice :=
    if r.back.cap > r.back.len then
      let end_ := ((arrayOf hp r.back.arr)[r.back.len]?).getD Attr.zero
      if !end_.isEmpty then append pol hp (clip r.back) [Attr.bug] else (hp, r.back)
    else (hp, r.back)
  let ne := countEmptyGroups rest
  let g := grow pol chk.1 chk.2 (rest.length - ne)
  let fin := appendEach pol g.1 g.2 rest
  (fin.1, { r with front := ff.1, back := fin.2 })

/-! ### JSONHybridHandler -/

/-- A `slog.Leveler` as `HandlerOptions.Level` holds it: a constant `slog.Level`, or a pointer
to the one `*slog.LevelVar` of the world (whose current value lives in `World.lvar`; copying
the interface value copies the pointer, so all copies read the same variable). -/
inductive Leveler where
  | const (l : Int)   -- a `slog.Level` value
  | var               -- the `*slog.LevelVar` of the world
  deriving DecidableEq, Repr

/-- `lv.Level()` when the world's `*slog.LevelVar` currently holds `lvar` -/
def Leveler.get (lvar : Int) : Leveler → Int
  | .const l => l
  | .var => lvar

/-- `JSONHybridHandler`: the fields that vary between derived handlers (`encoder`, `mu`,
`bufTextPool` are shared pointers; see `Model/C19Lts.lean`). -/
structure Handler where
  level : Leveler
  attrs : Slice
  deriving DecidableEq, Repr

/-- `NewJSONHybridHandler`: `lvl := slog.LevelInfo; if opts.Level != nil { lvl =
opts.Level.Level() }`, then `level: lvl` — the leveler of the options is asked once, when the
`*slog.LevelVar` holds `lvar`, and the field holds the resulting constant (`level` is
`slog.LevelInfo` = `.const 0` when the options have none). -/
def newHandler (level : Leveler) (lvar : Int) : Handler :=
  { level := .const (level.get lvar), attrs := Slice.nil }

/-- the other reading (not the code): the options' leveler itself is stored, so `Enabled` asks
it on every call -/
def newHandlerDyn (level : Leveler) : Handler := { level := level, attrs := Slice.nil }

/-- `WithAttrs`: `textAttrs: append(slices.Clip(h.textAttrs), attrs...)` -/
def Handler.withAttrs (pol : Policy) (hp : Heap) (h : Handler) (as : List Attr) : Heap × Handler :=
  let r := append pol hp (clip h.attrs) as
  (r.1, { h with attrs := r.2 })

/-- `WithAttrs` of a handler that hands its children the level it sees *now* instead of its
leveler (a mutant; used for the negative example of tree consistency) -/
def Handler.withAttrsFrozen (pol : Policy) (hp : Heap) (h : Handler) (lvar : Int) (as : List Attr) :
    Heap × Handler :=
  let r := append pol hp (clip h.attrs) as
  (r.1, { level := .const (h.level.get lvar), attrs := r.2 })

/-- the same derivation without `slices.Clip` (a mutant; used for the negative example) -/
def Handler.withAttrsNoClip (pol : Policy) (hp : Heap) (h : Handler) (as : List Attr) : Heap × Handler :=
  let r := append pol hp h.attrs as
  (r.1, { h with attrs := r.2 })

/-- `Enabled`: `level >= h.level.Level()`; `lvar` is what the `*slog.LevelVar` holds now -/
def Handler.enabled (h : Handler) (lvar : Int) (l : Int) : Bool := decide (l ≥ h.level.get lvar)

/-- `slog.LevelError` -/
def levelError : Int := 8

/-- `newJSONHybridMessage`'s severity -/
def severity (l : Int) : Bytes := if l ≥ levelError then ascii "ERROR" else ascii "NORMAL"

/-- What the text handler is given and what comes out of the strip + encode steps. -/
def render (text : Int → Nat → List Attr → Bytes) (encode : Bytes → Bytes → Bytes)
    (hp : Heap) (r : Record) : GoM Bytes := do
  let line := text r.level r.rid (r.attrs hp)
  -- `msg = msg[:len(msg)-1]`
  let msg ← GoM.sliceTo line ((line.length : Int) - 1)
  pure (encode (severity r.level) msg)

/-- `Handle` with the repair (`r = r.Clone()` before `r.AddAttrs(h.textAttrs...)`).
Returns the heap afterwards and the bytes handed to the shared writer. -/
def Handler.handle (pol : Policy) (text : Int → Nat → List Attr → Bytes)
    (encode : Bytes → Bytes → Bytes) (hp : Heap) (h : Handler) (r : Record) : GoM (Heap × Bytes) := do
  let r1 := r.clone
  let a := r1.addAttrs pol hp (view hp h.attrs)
  let out ← render text encode a.1 a.2
  pure (a.1, out)

/-- `Handle` as in the unchanged tree: `r.AddAttrs` on the by-value copy, no clone. -/
def Handler.handleNoClone (pol : Policy) (text : Int → Nat → List Attr → Bytes)
    (encode : Bytes → Bytes → Bytes) (hp : Heap) (h : Handler) (r : Record) : GoM (Heap × Bytes) := do
  let a := r.addAttrs pol hp (view hp h.attrs)
  let out ← render text encode a.1 a.2
  pure (a.1, out)

/-! ### Worlds: a derivation tree being built while records are handled -/

inductive Op where
  | withAttrs (parent : Nat) (as : List Attr)   -- creates the next node
  | handle (node rec : Nat)
  | enabled (node : Nat) (lvl : Int)
  | setLevel (lvl : Int)                        -- `levelVar.Set(lvl)`
  deriving Repr

inductive Out where
  | derived
  | line (b : Bytes)
  | panic (p : GoPanic)
  | en (b : Bool)
  | set
  deriving Repr, DecidableEq

/-- `lvar` is the current value of the world's `*slog.LevelVar`. -/
structure World where
  heap : Heap
  handlers : List Handler
  lvar : Int
  deriving Repr

/-- One operation; `none` = the script refers to a node / record that does not exist (not a
behaviour of the Go code). -/
def World.step (pol : Policy) (text : Int → Nat → List Attr → Bytes)
    (encode : Bytes → Bytes → Bytes) (recs : List Record) (w : World) : Op → Option (World × Out)
  | .withAttrs p as => do
    let h ← w.handlers[p]?
    let r := h.withAttrs pol w.heap as
    pure ({ w with heap := r.1, handlers := w.handlers ++ [r.2] }, .derived)
  | .handle n ri => do
    let h ← w.handlers[n]?
    let r ← recs[ri]?
    match h.handle pol text encode w.heap r with
    | .ok (hp, out) => pure ({ w with heap := hp }, .line out)
    | .error p => pure (w, .panic p)
  | .enabled n l => do
    let h ← w.handlers[n]?
    pure (w, .en (h.enabled w.lvar l))
  | .setLevel l => pure ({ w with lvar := l }, .set)

def World.run (pol : Policy) (text : Int → Nat → List Attr → Bytes)
    (encode : Bytes → Bytes → Bytes) (recs : List Record) : World → List Op → Option (World × List Out)
  | w, [] => some (w, [])
  | w, op :: ops => do
    let (w1, o) ← w.step pol text encode recs op
    let (w2, os) ← World.run pol text encode recs w1 ops
    pure (w2, o :: os)

/-! ### `encoding/json`: the executable model of `Encoder.Encode(&jsonHybridMessage{…})`

`json.Encoder` with `SetEscapeHTML(false)`; `Severity string`, `Message byteString` (a
`TextMarshaler`, so encoded as a JSON string of its bytes).  This is `appendString` of
`encoding/json/encode.go`. -/

def hexDigit (n : Nat) : Nat := if n < 10 then 48 + n else 87 + n

def isCont (b : Nat) : Bool := 0x80 ≤ b && b ≤ 0xBF

/-- Length (2, 3 or 4) of the well-formed UTF-8 sequence at the head of the input, `0` when
there is none (`utf8.DecodeRuneInString` returns `(RuneError, 1)`).  Only called on a head
byte ≥ 0x80. -/
def utf8SeqLen : Bytes → Nat
  | b0 :: b1 :: rest =>
    if 0xC2 ≤ b0 ∧ b0 ≤ 0xDF then (if isCont b1 then 2 else 0)
    else if 0xE0 ≤ b0 ∧ b0 ≤ 0xEF then
      let lo := if b0 = 0xE0 then 0xA0 else 0x80
      let hi := if b0 = 0xED then 0x9F else 0xBF
      match rest with
      | b2 :: _ => if lo ≤ b1 ∧ b1 ≤ hi ∧ isCont b2 then 3 else 0
      | [] => 0
    else if 0xF0 ≤ b0 ∧ b0 ≤ 0xF4 then
      let lo := if b0 = 0xF0 then 0x90 else 0x80
      let hi := if b0 = 0xF4 then 0x8F else 0xBF
      match rest with
      | b2 :: b3 :: _ => if lo ≤ b1 ∧ b1 ≤ hi ∧ isCont b2 ∧ isCont b3 then 4 else 0
      | _ => 0
    else 0
  | _ => 0

/-- one ASCII byte (`b < utf8.RuneSelf`) -/
def escAscii (b : Nat) : Bytes :=
  if b = 34 ∨ b = 92 then [92, b]
  else if b = 8 then [92, 98]
  else if b = 12 then [92, 102]
  else if b = 10 then [92, 110]
  else if b = 13 then [92, 114]
  else if b = 9 then [92, 116]
  else if b < 0x20 then [92, 117, 48, 48, hexDigit (b / 16), hexDigit (b % 16)]
  else [b]

/-- the body of the JSON string literal for the bytes `s` -/
def jsonBody : Bytes → Bytes
  | [] => []
  | b :: rest =>
    if b < 0x80 then escAscii b ++ jsonBody rest
    else
      let n := utf8SeqLen (b :: rest)
      if n = 0 then
        [92, 117, 102, 102, 102, 100] ++ jsonBody rest                       -- \ufffd
      else if b = 0xE2 ∧ rest.take 2 = [0x80, 0xA8] then
        [92, 117, 50, 48, 50, 56] ++ jsonBody (rest.drop 2)                  -- \u2028
      else if b = 0xE2 ∧ rest.take 2 = [0x80, 0xA9] then
        [92, 117, 50, 48, 50, 57] ++ jsonBody (rest.drop 2)                  -- \u2029
      else
        (b :: rest.take (n - 1)) ++ jsonBody (rest.drop (n - 1))
termination_by s => s.length
decreasing_by all_goals (simp only [List.length_cons, List.length_drop]; omega)

def jsonString (s : Bytes) : Bytes := [34] ++ jsonBody s ++ [34]

/-- `{"severity":<sev>,"message":<msg>}` + newline -/
def goJsonEncode (sev msg : Bytes) : Bytes :=
  ascii "{\"severity\":" ++ jsonString sev ++ ascii ",\"message\":" ++ jsonString msg ++ ascii "}\n"

end GolibsVerif.C19
