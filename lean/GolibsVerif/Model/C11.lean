/-
C11 — executable models of `container.RingBuffer`, `container.SortedSliceSet` and
`container.MapSet` (`/repo/container/ringbuffer.go`, `sortedsliceset.go`, `mapset.go`).

* Go panics are values of `GoM`: every index / slice expression of the modelled code goes
  through `idx` / `setIdx` / `slice` below, a method call through a nil receiver that
  dereferences it is `GoPanic.nilDeref`.  A nil receiver is `none : Option _`.
* Callbacks (`Range`, `ReverseRange`) are arbitrary state machines `σ → T → σ × Bool`: Go
  closures may carry state, and the boolean is the `cont` result.
* The models are those of the *minimally repaired* code (DESIGN.md §9 #9, #10; the three
  one-line fixes are recorded in the C11 report / KNOWN_FINDINGS):
  `RingBuffer.Clear` zeroes the storage, `NewSortedSliceSet` compacts with
  `cmp.Compare(a, b) == 0` and `SortedSliceSet.Equal` compares elements the same way.  The
  pre-fix `Clear` and the `==`-based compaction are kept as `clearUnfixed` / `compactBy`
  so that the pre-fix behaviour can be stated (see the examples in `Theorems/C11.lean`).
* Stdlib: `slices.Sort` is insertion sort (any sort gives the same result on a linear
  order), `slices.BinarySearch` is the lower bound (number of leading elements `< v`) — both
  are proved equal to the models of the real functions of `Go/Sort.lean` in
  `Theorems/C11Sort.lean` (`sort_stdlib`, `binarySearch_lower_bound`);
  `slices.Insert/Delete/Clone/Compact/Equal`, `maps.Clone/Equal`, `clear` by their documented
  results.  Backing-array aliasing of slices is *not* modelled here (a
  set is the value of `elems`); it is modelled separately in `Model/C11Heap.lean`.
-/
import GolibsVerif.Go.Basic

namespace GolibsVerif.C11

/-! ### Checked slice expressions on `List T` -/

/-- `s[i]` -/
def idx {T} (s : List T) (i : Int) : GoM T :=
  if i < 0 then .error (.indexOutOfRange i s.length)
  else match s[i.toNat]? with
    | some b => .ok b
    | none => .error (.indexOutOfRange i s.length)

/-- `s[i] = e` -/
def setIdx {T} (s : List T) (i : Int) (e : T) : GoM (List T) :=
  if i < 0 then .error (.indexOutOfRange i s.length)
  else if i.toNat < s.length then .ok (s.set i.toNat e)
  else .error (.indexOutOfRange i s.length)

/-- `s[lo:hi]` -/
def slice {T} (s : List T) (lo hi : Int) : GoM (List T) :=
  if 0 ≤ lo ∧ lo ≤ hi ∧ hi ≤ s.length then .ok ((s.drop lo.toNat).take (hi.toNat - lo.toNat))
  else .error (.sliceOutOfRange lo hi s.length)

/-! ### Callbacks -/

/-- A Go callback `func(T) (cont bool)` closing over state of type `σ`. -/
abbrev Callback (σ T : Type) := σ → T → σ × Bool

/-- `for _, e := range xs { if !f(e) { return } }`; the boolean says whether the loop ran
to completion (the caller continues) or `f` returned false (the caller returns). -/
def forRange {σ T} (f : Callback σ T) : σ → List T → σ × Bool
  | s, [] => (s, true)
  | s, e :: rest =>
    let (s', cont) := f s e
    if cont then forRange f s' rest else (s', false)

/-- `for i := n - 1; i >= 0; i-- { if !f(xs[i]) { return } }` started with `n = len(xs)`. -/
def forDown {σ T} (f : Callback σ T) (xs : List T) : Nat → σ → GoM (σ × Bool)
  | 0, s => .ok (s, true)
  | i + 1, s => do
    let e ← idx xs (i : Nat)
    let (s', cont) := f s e
    if cont then forDown f xs i s' else .ok (s', false)

/-! ### RingBuffer -/

structure Ring (T : Type) where
  buf : List T
  cur : Nat
  full : Bool
  deriving Repr, DecidableEq

namespace Ring
variable {T : Type}

/-- `NewRingBuffer[T](size)`: `make([]T, size)` is `size` zero values; `zero` is `T`'s zero
value.  `cap(buf) = len(buf)` for a slice made this way and never re-sliced. -/
def new (zero : T) (size : Nat) : Ring T := { buf := List.replicate size zero, cur := 0, full := false }

def push (rb : Ring T) (e : T) : GoM (Ring T) :=
  if rb.buf.length = 0 then .ok rb
  else do
    let buf ← setIdx rb.buf (rb.cur : Nat) e
    let cur := (rb.cur + 1) % rb.buf.length
    .ok { buf := buf, cur := cur, full := if cur = 0 then true else rb.full }

def current (zero : T) (rb : Ring T) : GoM T :=
  if rb.buf.length = 0 then .ok zero else idx rb.buf (rb.cur : Nat)

def splitCur (rb : Ring T) : GoM (List T × List T) :=
  if rb.buf.length = 0 then .ok ([], [])
  else if !rb.full then do
    let before ← slice rb.buf 0 (rb.cur : Nat)
    .ok (before, [])
  else do
    let before ← slice rb.buf (rb.cur : Nat) (rb.buf.length : Nat)
    let after ← slice rb.buf 0 (rb.cur : Nat)
    .ok (before, after)

def range {σ} (rb : Ring T) (f : Callback σ T) (s : σ) : GoM σ := do
  let (before, after) ← rb.splitCur
  let (s1, cont) := forRange f s before
  if !cont then .ok s1
  else .ok (forRange f s1 after).1

def reverseRange {σ} (rb : Ring T) (f : Callback σ T) (s : σ) : GoM σ := do
  let (before, after) ← rb.splitCur
  let (s1, cont) ← forDown f after after.length s
  if !cont then .ok s1
  else do
    let (s2, _) ← forDown f before before.length s1
    .ok s2

def len (rb : Ring T) : Nat := if !rb.full then rb.cur else rb.buf.length

/-- `Clear` of the repaired code: `clear(rb.buf); rb.full = false; rb.cur = 0`. -/
def clear (zero : T) (rb : Ring T) : Ring T :=
  { buf := List.replicate rb.buf.length zero, cur := 0, full := false }

/-- `Clear` as it was before the fix: the storage keeps its old contents. -/
def clearUnfixed (rb : Ring T) : Ring T := { rb with cur := 0, full := false }

end Ring

/-- One method call on a `*RingBuffer[T]`. -/
inductive ROp (σ T : Type) where
  | push (e : T)
  | clear
  | current
  | len
  | range (f : Callback σ T) (s : σ)
  | reverseRange (f : Callback σ T) (s : σ)

/-- What a call returns (for the two ranges: the final state of the callback's closure,
which records everything the callback was called with). -/
inductive ROut (σ T : Type) where
  | unit
  | val (e : T)
  | len (n : Nat)
  | st (s : σ)
  deriving Repr, DecidableEq

/-- One call through a possibly nil receiver.  A panicking call leaves the receiver
unchanged (every panic of this code happens before its first store). -/
def Ring.step {σ T} (zero : T) : Option (Ring T) → ROp σ T → Option (Ring T) × GoM (ROut σ T)
  | none, .current => (none, .ok (.val zero))          -- `if rb == nil … return e`
  | none, _ => (none, .error .nilDeref)
  | some rb, .push e =>
    match rb.push e with
    | .ok rb' => (some rb', .ok .unit)
    | .error p => (some rb, .error p)
  | some rb, .clear => (some (rb.clear zero), .ok .unit)
  | some rb, .current => (some rb, (rb.current zero).map .val)
  | some rb, .len => (some rb, .ok (.len rb.len))
  | some rb, .range f s => (some rb, (rb.range f s).map .st)
  | some rb, .reverseRange f s => (some rb, (rb.reverseRange f s).map .st)

def Ring.run {σ T} (zero : T) : Option (Ring T) → List (ROp σ T) → Option (Ring T) × List (GoM (ROut σ T))
  | rb, [] => (rb, [])
  | rb, op :: rest =>
    let (rb', o) := Ring.step zero rb op
    let (rb'', os) := Ring.run zero rb' rest
    (rb'', o :: os)

/-! ### Ordered element types -/

/-- A Go `cmp.Ordered` type on which `==` agrees with `cmp.Compare(a, b) == 0` and
`cmp.Less` is a strict linear order: the integer and string types, and the floats without
NaN.  (`float64` *with* NaN is outside this class; the harness runs it against the direct
oracle and against this model through an order embedding.) -/
class GoOrdered (T : Type) where
  lt : T → T → Prop
  decLt : DecidableRel lt
  decEq : DecidableEq T
  irrefl : ∀ a, ¬ lt a a
  trans : ∀ a b c, lt a b → lt b c → lt a c
  total : ∀ a b, lt a b ∨ a = b ∨ lt b a

instance {T} [GoOrdered T] : DecidableRel (GoOrdered.lt (T := T)) := GoOrdered.decLt
instance {T} [GoOrdered T] : DecidableEq T := GoOrdered.decEq

instance : GoOrdered Int where
  lt a b := a < b
  decLt := fun a b => inferInstanceAs (Decidable (a < b))
  decEq := inferInstance
  irrefl := by intro a; omega
  trans := by intro a b c; omega
  total := by intro a b; omega

instance : GoOrdered Nat where
  lt a b := a < b
  decLt := fun a b => inferInstanceAs (Decidable (a < b))
  decEq := inferInstance
  irrefl := by intro a; omega
  trans := by intro a b c; omega
  total := by intro a b; omega

section Ordered
variable {T : Type} [GoOrdered T]

/-- `cmp.Less(a, b)` -/
def less (a b : T) : Bool := decide (GoOrdered.lt a b)

/-- `cmp.Compare(a, b) == 0` -/
def cmpEq (a b : T) : Bool := !less a b && !less b a

/-! ### stdlib `slices` on lists -/

/-- `slices.Sort`: insertion sort (stable; on a linear order every sort agrees). -/
def insertSorted (v : T) : List T → List T
  | [] => [v]
  | x :: xs => if less v x then v :: x :: xs else x :: insertSorted v xs

def sort : List T → List T
  | [] => []
  | x :: xs => insertSorted x (sort xs)

/-- `slices.CompactFunc(s, eq)` (and `slices.Compact` with `eq := (· == ·)`): element `k ≥ 1`
is kept iff `!eq(s[k], s[k-1])`, i.e. iff it differs from its predecessor in the input. -/
def compactAux {α} (eq : α → α → Bool) (prev : α) : List α → List α
  | [] => []
  | y :: rest => if eq y prev then compactAux eq y rest else y :: compactAux eq y rest

def compactBy {α} (eq : α → α → Bool) : List α → List α
  | [] => []
  | x :: rest => x :: compactAux eq x rest

/-- `slices.BinarySearch(s, v)` by its contract on a sorted slice: the position is the
number of leading elements `< v`; found iff the element there equals `v`. -/
def lowerBound (v : T) : List T → Nat
  | [] => 0
  | x :: xs => if less x v then lowerBound v xs + 1 else 0

def binarySearch (s : List T) (v : T) : Nat × Bool :=
  let i := lowerBound v s
  (i, match s[i]? with
      | some x => cmpEq x v      -- `x[i] == target`, NaN ≙ NaN: `cmp.Compare(x[i], target) == 0`
      | none => false)

end Ordered

/-- `slices.Insert(s, i, v)` (panics unless `0 ≤ i ≤ len(s)`). -/
def insertAt {T} (s : List T) (i : Nat) (v : T) : GoM (List T) :=
  if i ≤ s.length then .ok (s.take i ++ v :: s.drop i)
  else .error (.sliceOutOfRange i i s.length)

/-- `slices.Delete(s, i, j)` (panics unless `0 ≤ i ≤ j ≤ len(s)`). -/
def deleteRange {T} (s : List T) (i j : Nat) : GoM (List T) :=
  if i ≤ j ∧ j ≤ s.length then .ok (s.take i ++ s.drop j)
  else .error (.sliceOutOfRange i j s.length)

/-! ### SortedSliceSet -/

structure SSS (T : Type) where
  elems : List T
  deriving Repr, DecidableEq

namespace SSS
variable {T : Type} [GoOrdered T]

/-- `NewSortedSliceSet(elems...)` of the repaired code: `slices.Sort`, then
`slices.CompactFunc` with `cmp.Compare(a, b) == 0`. -/
def new (elems : List T) : SSS T := { elems := compactBy cmpEq (sort elems) }

def add (set : SSS T) (v : T) : GoM (SSS T) :=
  let (i, ok) := binarySearch set.elems v
  if !ok then do
    let e ← insertAt set.elems i v
    .ok { elems := e }
  else .ok set

def delete (set : SSS T) (v : T) : GoM (SSS T) :=
  let (i, ok) := binarySearch set.elems v
  if ok then do
    let e ← deleteRange set.elems i (i + 1)
    .ok { elems := e }
  else .ok set

/-- `clear(set.elems); set.elems = set.elems[:0]` -/
def clear (_ : SSS T) : SSS T := { elems := [] }

/-- `NewSortedSliceSet(slices.Clone(set.elems)...)` -/
def clone (set : SSS T) : SSS T := new set.elems

def has (set : SSS T) (v : T) : Bool := (binarySearch set.elems v).2

def len (set : SSS T) : Nat := set.elems.length

def values (set : SSS T) : List T := set.elems

def range {σ} (set : SSS T) (f : Callback σ T) (s : σ) : σ := (forRange f s set.elems).1

/-- element-wise comparison of the repaired `Equal`:
`slices.EqualFunc(a, b, func(x, y T) bool { return cmp.Compare(x, y) == 0 })` -/
def equalElems : List T → List T → Bool
  | [], [] => true
  | x :: xs, y :: ys => cmpEq x y && equalElems xs ys
  | _, _ => false

end SSS

/-! ### MapSet: the map is a duplicate-free list of keys (Go map trusted) -/

structure MS (T : Type) where
  keys : List T
  deriving Repr, DecidableEq

namespace MS
variable {T : Type} [DecidableEq T]

/-- `m[v] = unit{}` -/
def add (set : MS T) (v : T) : MS T := if v ∈ set.keys then set else { keys := set.keys ++ [v] }

/-- `NewMapSet(values...)`: `make(map)`, then `Add` each. -/
def new (values : List T) : MS T := values.foldl add { keys := [] }

/-- `delete(m, v)` -/
def delete (set : MS T) (v : T) : MS T := { keys := set.keys.erase v }

/-- `clear(m)` -/
def clear (_ : MS T) : MS T := { keys := [] }

/-- `maps.Clone(m)` -/
def clone (set : MS T) : MS T := set

def has (set : MS T) (v : T) : Bool := decide (v ∈ set.keys)

def len (set : MS T) : Nat := set.keys.length

/-- `Values`: the keys in the map's iteration order (undefined; observers must sort). -/
def values (set : MS T) : List T := set.keys

def range {σ} (set : MS T) (f : Callback σ T) (s : σ) : σ := (forRange f s set.keys).1

/-- `maps.Equal(m1, m2)`: `len(m1) == len(m2)` and every key of `m1` is in `m2` (the values
are `unit{}`). -/
def equalMaps (a b : MS T) : Bool := a.keys.length == b.keys.length && a.keys.all (fun k => decide (k ∈ b.keys))

end MS

/-! ### Method calls through possibly nil receivers (`*SortedSliceSet[T]`, `*MapSet[T]`) -/

namespace SSS
variable {T : Type} [GoOrdered T]

/-- `set.Add(v)`: dereferences `set`. -/
def addP : Option (SSS T) → T → GoM (Option (SSS T))
  | none, _ => .error .nilDeref
  | some s, v => (s.add v).map some

/-- `set.Delete(v)`: dereferences `set` (no nil guard in the code). -/
def deleteP : Option (SSS T) → T → GoM (Option (SSS T))
  | none, _ => .error .nilDeref
  | some s, v => (s.delete v).map some

def clearP : Option (SSS T) → Option (SSS T)
  | none => none
  | some s => some s.clear

def cloneP : Option (SSS T) → Option (SSS T)
  | none => none
  | some s => some s.clone

def hasP : Option (SSS T) → T → Bool
  | none, _ => false
  | some s, v => s.has v

def lenP : Option (SSS T) → Nat
  | none => 0
  | some s => s.len

/-- `none` is the nil slice. -/
def valuesP : Option (SSS T) → Option (List T)
  | none => none
  | some s => some s.values

def rangeP {σ} : Option (SSS T) → Callback σ T → σ → σ
  | none, _, s => s
  | some set, f, s => set.range f s

def equalP : Option (SSS T) → Option (SSS T) → Bool
  | none, none => true
  | none, some _ => false
  | some _, none => false
  | some a, some b => equalElems a.elems b.elems

end SSS

namespace MS
variable {T : Type} [DecidableEq T]

/-- `set.Add(v)`: dereferences `set`. -/
def addP : Option (MS T) → T → GoM (Option (MS T))
  | none, _ => .error .nilDeref
  | some s, v => .ok (some (s.add v))

def deleteP : Option (MS T) → T → Option (MS T)
  | none, _ => none
  | some s, v => some (s.delete v)

def clearP : Option (MS T) → Option (MS T)
  | none => none
  | some s => some s.clear

def cloneP : Option (MS T) → Option (MS T)
  | none => none
  | some s => some s.clone

def hasP : Option (MS T) → T → Bool
  | none, _ => false
  | some s, v => s.has v

def lenP : Option (MS T) → Nat
  | none => 0
  | some s => s.len

def valuesP : Option (MS T) → Option (List T)
  | none => none
  | some s => some s.values

def rangeP {σ} : Option (MS T) → Callback σ T → σ → σ
  | none, _, s => s
  | some set, f, s => set.range f s

def equalP : Option (MS T) → Option (MS T) → Bool
  | none, none => true
  | none, some _ => false
  | some _, none => false
  | some a, some b => equalMaps a b

end MS

/-! ### Mutation scripts on one set (the histories the set theorems quantify over) -/

inductive SetOp (T : Type) where
  | add (v : T)
  | delete (v : T)
  | clear
  deriving Repr, DecidableEq

def SSS.run {T} [GoOrdered T] : SSS T → List (SetOp T) → GoM (SSS T)
  | s, [] => .ok s
  | s, .add v :: rest => do let s' ← s.add v; SSS.run s' rest
  | s, .delete v :: rest => do let s' ← s.delete v; SSS.run s' rest
  | s, .clear :: rest => SSS.run s.clear rest

def MS.run {T} [DecidableEq T] : MS T → List (SetOp T) → MS T
  | s, [] => s
  | s, .add v :: rest => MS.run (s.add v) rest
  | s, .delete v :: rest => MS.run (s.delete v) rest
  | s, .clear :: rest => MS.run s.clear rest

end GolibsVerif.C11
