/-
C09 — the transition system of `Model/C09.lean` refined with *frames*: the pending `Set`
calls, each remembering where it stands in the code of `cache.Set` (`/repo/cache/data.go`).

In `CStep` a pending `Set` is visible only through the guards of its sections, and the label
`onDelete k v` is unconstrained.  Here a `Set(key, val)` call is a frame
`{key, val, phase}`; one step of a frame is one critical section of `Set` (the code between a
`Lock` and the next `Unlock`), or the `OnDelete` call it makes between two sections:

    phase `start`   the call has been made, nothing has run
    section 1       `addSize > MaxElementSize` / `!EnableLRU && full`  →  refuse, `done`
                    otherwise this section IS the first pass through the loop head below
                    (the size check, the refusal test and the first loop test are under one
                    lock, so no other call can run between them)
    loop head       `for full { … }` is evaluated on the cache as it is NOW:
                      full      → `evictOne` (drop the list head `(k, v)`), unlock:
                                  phase `cb k v` if `OnDelete != nil`, else back to `loop`
                      not full  → `setCommit`, unlock, `done`
    phase `cb k v`  the frame calls `OnDelete(k, v)` (no lock held, the cache is untouched by
                    the call itself) and is then at the loop head again: phase `loop`

Frames are created at any time (`call`) and interleave arbitrarily *between* sections: other
goroutines, and the calls a callback makes (a callback's calls are frames that happen to run
while the calling frame sits between its `onDelete` label and its next section).  `Get`,
`Del`, `Clear`, `Stats` are one-section calls and need no frame.

Over-approximation kept from `CStep`: when `OnDelete == nil` the Go code does not release
the lock between iterations; the framed system allows other sections there too.  Everything
proved for all framed executions holds a fortiori for the executions of the code.
-/
import GolibsVerif.Model.C09

namespace GolibsVerif.C09

/-- where a pending `Set` call stands -/
inductive Phase where
  | start
  | cb (k v : Bytes)
  | loop
  | done
  deriving Repr, DecidableEq

/-- a pending (or finished) `Set(key, val)` call -/
structure Frame where
  key : Bytes
  val : Bytes
  phase : Phase
  deriving Repr, DecidableEq

/-- `addSize` of the call -/
def Frame.add (f : Frame) : Nat := f.key.length + f.val.length

/-- the cache and all `Set` calls made so far; a frame is identified by its position -/
structure FSt where
  cache : St
  frames : List Frame
  deriving Repr, DecidableEq

def FSt.init : FSt := { cache := St.init, frames := [] }

/-- frame `i` moves to phase `p`, the cache becomes `s` -/
def FSt.move (σ : FSt) (i : Nat) (f : Frame) (p : Phase) (s : St) : FSt :=
  { cache := s, frames := σ.frames.set i { f with phase := p } }

/-- the frame is at the head of the `for full` loop with the lock about to be taken: either
it has come back from a callback (or from an iteration without callback), or it is in its
first section and has passed the two refusal tests on the cache as it is now -/
def Frame.atLoopHead (c : Conf) (s : St) (f : Frame) : Prop :=
  (f.phase = .start ∧ setCheck c s f.key f.val = .proceed) ∨ f.phase = .loop

/-- labels: a `Set` call is made and becomes frame `i`; or a section runs — of frame `i`
(`who = some i`) or a one-section call (`who = none`) — with the event of `Model/C09.lean` -/
inductive FEv where
  | call (i : Nat) (k v : Bytes)
  | sec (who : Option Nat) (ev : Ev)
  deriving Repr, DecidableEq

inductive FStep (c : Conf) : FSt → FEv → FSt → Prop where
  | call (σ : FSt) (k v : Bytes) :
      FStep c σ (.call σ.frames.length k v) { σ with frames := σ.frames ++ [⟨k, v, .start⟩] }
  | refuse (σ : FSt) (i : Nat) (f : Frame) :
      σ.frames[i]? = some f → f.phase = .start → setCheck c σ.cache f.key f.val ≠ .proceed →
      FStep c σ (.sec (some i) (.refused f.key f.val)) (σ.move i f .done σ.cache)
  | evict (σ : FSt) (i : Nat) (f : Frame) (s' : St) (e : Entry) :
      σ.frames[i]? = some f → f.atLoopHead c σ.cache → full c σ.cache f.add = true →
      evictOne σ.cache = .ok (s', e) →
      FStep c σ (.sec (some i) (.evict e.key e.val))
        (σ.move i f (if c.hasCb then .cb e.key e.val else .loop) s')
  | onDelete (σ : FSt) (i : Nat) (f : Frame) (k v : Bytes) :
      σ.frames[i]? = some f → f.phase = .cb k v →
      FStep c σ (.sec (some i) (.onDelete k v)) (σ.move i f .loop σ.cache)
  | commit (σ : FSt) (i : Nat) (f : Frame) (s' : St) (r : Bool) :
      σ.frames[i]? = some f → f.atLoopHead c σ.cache → full c σ.cache f.add = false →
      setCommit c σ.cache f.key f.val = .ok (s', r) →
      FStep c σ (.sec (some i) (.commit f.key f.val r)) (σ.move i f .done s')
  | get (σ : FSt) (s' : St) (k : Bytes) (r : Option Bytes) :
      get c σ.cache k = .ok (s', r) → FStep c σ (.sec none (.get k r)) { σ with cache := s' }
  | del (σ : FSt) (s' : St) (k : Bytes) :
      del c σ.cache k = .ok s' → FStep c σ (.sec none (.del k)) { σ with cache := s' }
  | clear (σ : FSt) : FStep c σ (.sec none .clear) { σ with cache := clear σ.cache }
  | stats (σ : FSt) : FStep c σ (.sec none (.stats (stats σ.cache))) σ

/-- a log record of a framed execution: the label and the state right after it -/
structure FRec where
  ev : FEv
  after : FSt
  deriving Repr, DecidableEq

/-- a framed execution -/
inductive FTrace (c : Conf) : FSt → List FRec → FSt → Prop where
  | nil (σ : FSt) : FTrace c σ [] σ
  | cons {σ σ' σ'' : FSt} {ev : FEv} {rest : List FRec} :
      FStep c σ ev σ' → FTrace c σ' rest σ'' → FTrace c σ (⟨ev, σ'⟩ :: rest) σ''

/-! ### projections of a framed log -/

/-- forget the frames: a section becomes a record of the frameless system, a `call` label
(which runs no code of the cache) disappears -/
def FRec.proj (r : FRec) : Option Rec :=
  match r.ev with
  | .call .. => none
  | .sec _ ev => some ⟨ev, r.after.cache⟩

def projLog (l : List FRec) : List Rec := l.filterMap FRec.proj

/-- the event of a record if it is a section of frame `i` -/
def FRec.secOf (i : Nat) (r : FRec) : Option Ev :=
  match r.ev with
  | .sec (some j) ev => if j = i then some ev else none
  | _ => none

/-- the sections of frame `i`, in order -/
def secsOf (i : Nat) (l : List FRec) : List Ev := l.filterMap (FRec.secOf i)

/-- the phase of frame `i`, if that call has been made -/
def FSt.phaseAt (σ : FSt) (i : Nat) : Option Phase := σ.frames[i]?.map (·.phase)

/-- the `OnDelete` call a frame in this phase still owes -/
def owedOf : Option Phase → List Ev
  | some (.cb k v) => [.onDelete k v]
  | _ => []

/-- the `OnDelete` call frame `i` still owes in state `σ` -/
def owed (σ : FSt) (i : Nat) : List Ev := owedOf (σ.phaseAt i)

/-- the eviction frame `i` has made in state `σ` without having called `OnDelete` yet -/
def pendOf : Option Phase → Option (Bytes × Bytes)
  | some (.cb k v) => some (k, v)
  | _ => none

end GolibsVerif.C09
