/-
C08 — `hostsfile.Parse` over the model of `bufio.Scanner` (`Go/Scanner.lean`) instead of over
the token function `scanLines`: the reader is a byte stream with a fragmentation script, the
scanner is created as `Parse` creates it (`bufio.NewScanner(src)`,
`s.Buffer(buf, bufio.MaxScanTokenSize)`), the loop `for lineNum := 1; s.Scan(); lineNum++`
is `parseLoop` over the tokens the scanner yields, and `s.Err()` decides between
`"scanning: %w"` and the joined line errors.
-/
import GolibsVerif.Go.Scanner
import GolibsVerif.Model.C08

namespace GolibsVerif.C08
open GolibsVerif GolibsVerif.Bufio

/-- `Parse(dst, src, buf)` with `cap(buf) = bufCap`, for a reader `src` that holds `stream` and
answers `Read` by `script` -/
def parseScan (toASCII : Bytes → Option Bytes) (isHandleSet : Bool) (srcName : Bytes) (bufCap : Nat)
    (stream : Bytes) (script : Script) : GoM (List Call × Ret) := do
  let (tokens, err) ← scanStream bufCap maxScanTokenSize stream script
  let st ← parseLoop toASCII isHandleSet srcName tokens 1 { calls := [], errs := [] }
  if err.isSome then return (st.calls, .scanning)
  if st.errs.length = 0 then return (st.calls, .nil)
  return (st.calls, .parsing st.errs)

end GolibsVerif.C08
