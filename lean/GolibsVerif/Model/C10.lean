/-
C10 — the cache under concurrent use: API calls with invocation and response events on top of
the framed transition system of `Model/C09Frames.lean`.

`FStep` already lets the critical sections of pending `Set` frames and of one-section calls
(`Get`, `Del`, `Clear`, `Stats`) interleave arbitrarily.  Here every API call gets a call id,
an *invocation* event and a *response* event:

    inv id op      the call is made (any time; for a `Set` this is `FStep.call`: its frame is
                   created).  Calls made from inside an `OnDelete` callback are calls like any
                   other, so a "thread" may have several calls in flight: histories are over
                   call ids.
    sec id ev      one critical section of call `id` (or the `OnDelete` call a `Set` makes between
                   two sections) — a step of `FStep` with the same event.  The section that fixes
                   the result of the call (`commit`/`refused` for `Set`, the only section of the
                   others) makes the call `finished`.
    ret id r       a finished call returns its result (any time later).

`KStep`/`CTrace` is that system; `historyOf` keeps the invocation/response events.

The second half is the *scheduled-script interpreter* tied to the Go code with real goroutines
(`harness/c10.go`, `C10.sched`): a `Set` runs until it is parked inside its `OnDelete` callback
or returns; a parked `Set` is resumed explicitly; `Get/Del/Clear/Stats` run to completion.  It is
built from the executable step functions `KSt.inv`, `doSec`, `doRet`, each of which is a `KStep`
(`Theorems/C10.lean`, `sched_is_ctrace`).
-/
import GolibsVerif.Model.C09Frames
import GolibsVerif.Spec.C10

namespace GolibsVerif.C10
open GolibsVerif.C09

/-- where a call stands -/
inductive Status where
  | running (frame : Option Nat)   -- invoked, result not fixed yet; a `Set` owns frame `frame`
  | finished (r : Res)             -- its last section has run; not returned yet
  | returned (r : Res)
  deriving Repr, DecidableEq

structure CallSt where
  op : Call
  st : Status
  deriving Repr, DecidableEq

/-- the framed cache state and all calls made so far; a call is identified by its position -/
structure KSt where
  f : FSt
  calls : List CallSt
  deriving Repr, DecidableEq

def KSt.init : KSt := { f := FSt.init, calls := [] }

inductive KEv where
  | inv (id : Nat) (op : Call)
  | sec (id : Nat) (ev : Ev)
  | ret (id : Nat) (r : Res)
  deriving Repr, DecidableEq

/-- the result a section fixes, if it is the last section of its call -/
def resOf : Ev → Option Res
  | .refused .. => some (.set false)
  | .commit _ _ r => some (.set r)
  | .get _ r => some (.get r)
  | .del _ => some .del
  | .clear => some .clear
  | .stats st => some (.stats st)
  | .evict .. => none
  | .onDelete .. => none

/-- status of a call after one of its sections -/
def statusAfter (fr : Option Nat) (ev : Ev) : Status :=
  match resOf ev with
  | some r => .finished r
  | none => .running fr

/-- `ev` is the section of the one-section call `op` -/
def IsSecOf : Call → Ev → Prop
  | .get k, .get k' _ => k' = k
  | .del k, .del k' => k' = k
  | .clear, .clear => True
  | .stats, .stats _ => True
  | _, _ => False

inductive KStep (c : Conf) : KSt → KEv → KSt → Prop where
  | invSet (σ : KSt) (k v : Bytes) (f' : FSt) :
      FStep c σ.f (.call σ.f.frames.length k v) f' →
      KStep c σ (.inv σ.calls.length (.set k v))
        { f := f', calls := σ.calls ++ [⟨.set k v, .running (some σ.f.frames.length)⟩] }
  | inv (σ : KSt) (op : Call) : (∀ k v, op ≠ .set k v) →
      KStep c σ (.inv σ.calls.length op) { σ with calls := σ.calls ++ [⟨op, .running none⟩] }
  | secSet (σ : KSt) (id i : Nat) (k v : Bytes) (ev : Ev) (f' : FSt) :
      σ.calls[id]? = some ⟨.set k v, .running (some i)⟩ →
      FStep c σ.f (.sec (some i) ev) f' →
      KStep c σ (.sec id ev) { f := f', calls := σ.calls.set id ⟨.set k v, statusAfter (some i) ev⟩ }
  | secOne (σ : KSt) (id : Nat) (op : Call) (ev : Ev) (f' : FSt) :
      σ.calls[id]? = some ⟨op, .running none⟩ → IsSecOf op ev →
      FStep c σ.f (.sec none ev) f' →
      KStep c σ (.sec id ev) { f := f', calls := σ.calls.set id ⟨op, statusAfter none ev⟩ }
  | ret (σ : KSt) (id : Nat) (op : Call) (r : Res) :
      σ.calls[id]? = some ⟨op, .finished r⟩ →
      KStep c σ (.ret id r) { σ with calls := σ.calls.set id ⟨op, .returned r⟩ }

/-- a log record: the label and the state right after it -/
structure KRec where
  ev : KEv
  after : KSt
  deriving Repr, DecidableEq

/-- a concurrent execution -/
inductive CTrace (c : Conf) : KSt → List KRec → KSt → Prop where
  | nil (σ : KSt) : CTrace c σ [] σ
  | cons {σ σ' σ'' : KSt} {ev : KEv} {rest : List KRec} :
      KStep c σ ev σ' → CTrace c σ' rest σ'' → CTrace c σ (⟨ev, σ'⟩ :: rest) σ''

/-! ### projections -/

def KEv.hist : KEv → Option HEv
  | .inv id op => some (.inv id op)
  | .ret id r => some (.ret id r)
  | .sec .. => none

/-- the history of an execution: its invocation and response events -/
def historyOf (log : List KRec) : History := log.filterMap (·.ev.hist)

/-- the frame a section of call `id` belongs to, in the state BEFORE the section -/
def KSt.frameOf (σ : KSt) (id : Nat) : Option Nat :=
  match σ.calls[id]? with
  | some ⟨_, .running fr⟩ => fr
  | _ => none

/-- the framed log of an execution (records need the state before: fold from `σ0`) -/
def flogFrom : KSt → List KRec → List FRec
  | _, [] => []
  | σ, r :: rest =>
    (match r.ev with
      | .inv _ (.set k v) => [⟨.call σ.f.frames.length k v, r.after.f⟩]
      | .sec id ev => [⟨.sec (σ.frameOf id) ev, r.after.f⟩]
      | _ => []) ++ flogFrom r.after rest

/-! ### executable steps -/

/-- `inv`: the call is made -/
def KSt.inv (σ : KSt) : Call → KSt
  | .set k v =>
    { f := { σ.f with frames := σ.f.frames ++ [⟨k, v, .start⟩] }
      calls := σ.calls ++ [⟨.set k v, .running (some σ.f.frames.length)⟩] }
  | op => { σ with calls := σ.calls ++ [⟨op, .running none⟩] }

/-- frame `i` (= `f`) at the head of the `for full` loop: evict the list head or store -/
def frameHead (c : Conf) (σ : FSt) (i : Nat) (f : Frame) : GoM (FSt × Ev) :=
  if full c σ.cache f.add then
    match evictOne σ.cache with
    | .ok (s', e) =>
      .ok (σ.move i f (if c.hasCb then .cb e.key e.val else .loop) s', .evict e.key e.val)
    | .error p => .error p
  else
    match setCommit c σ.cache f.key f.val with
    | .ok (s', r) => .ok (σ.move i f .done s', .commit f.key f.val r)
    | .error p => .error p

/-- the next section of frame `i`, decided by its phase and the cache as it is now -/
def frameSec (c : Conf) (σ : FSt) (i : Nat) : GoM (FSt × Ev) :=
  match σ.frames[i]? with
  | none => .error (.explicit "no such frame")
  | some f =>
    match f.phase with
    | .start =>
      if setCheck c σ.cache f.key f.val = .proceed then frameHead c σ i f
      else .ok (σ.move i f .done σ.cache, .refused f.key f.val)
    | .loop => frameHead c σ i f
    | .cb k v => .ok (σ.move i f .loop σ.cache, .onDelete k v)
    | .done => .error (.explicit "frame has returned")

/-- the section of a one-section call -/
def oneSec (c : Conf) (σ : FSt) : Call → GoM (FSt × Ev)
  | .get k =>
    match get c σ.cache k with
    | .ok (s', r) => .ok ({ σ with cache := s' }, .get k r)
    | .error p => .error p
  | .del k =>
    match del c σ.cache k with
    | .ok s' => .ok ({ σ with cache := s' }, .del k)
    | .error p => .error p
  | .clear => .ok ({ σ with cache := clear σ.cache }, .clear)
  | .stats => .ok (σ, .stats (stats σ.cache))
  | .set .. => .error (.explicit "Set is not a one-section call")

/-- `sec`: call `id` runs its next section -/
def doSec (c : Conf) (σ : KSt) (id : Nat) : GoM (KSt × Ev) :=
  match σ.calls[id]? with
  | some ⟨.set k v, .running (some i)⟩ =>
    match frameSec c σ.f i with
    | .ok (f', ev) =>
      .ok ({ f := f', calls := σ.calls.set id ⟨.set k v, statusAfter (some i) ev⟩ }, ev)
    | .error p => .error p
  | some ⟨op, .running none⟩ =>
    match oneSec c σ.f op with
    | .ok (f', ev) => .ok ({ f := f', calls := σ.calls.set id ⟨op, statusAfter none ev⟩ }, ev)
    | .error p => .error p
  | _ => .error (.explicit "call is not running")

/-- `ret`: a finished call returns -/
def doRet (σ : KSt) (id : Nat) : GoM (KSt × Res) :=
  match σ.calls[id]? with
  | some ⟨op, .finished r⟩ => .ok ({ σ with calls := σ.calls.set id ⟨op, .returned r⟩ }, r)
  | _ => .error (.explicit "call has not finished")

/-! ### the scheduled-script interpreter -/

/-- a step of a script -/
inductive SStep where
  | set (k v : Bytes)    -- start the next `Set` and let it run until it parks in `OnDelete` or returns
  | resume (n : Nat)     -- let parked `Set` number `n` leave its callback and run on likewise
  | get (k : Bytes)
  | del (k : Bytes)
  | clear
  | stats
  deriving Repr, DecidableEq

/-- what a step of a script shows -/
inductive SOut where
  | parked (resumed : Bool) (n : Nat) (k v : Bytes)   -- `Set` n sits in `OnDelete(k, v)`
  | setRet (resumed : Bool) (n : Nat) (r : Bool)      -- `Set` n returned
  | notParked (n : Nat)                               -- `R n` for a `Set` that is not parked
  | one (r : Res)                                     -- a one-section call returned
  deriving Repr, DecidableEq

/-- interpreter state: the concurrent state, the log so far, the call id of `Set` number `n`,
what the steps have shown (each with the cache right after it) -/
structure Sched where
  σ : KSt
  log : List KRec
  sets : List Nat
  out : List (SOut × St)
  deriving Repr, DecidableEq

def Sched.init : Sched := { σ := KSt.init, log := [], sets := [], out := [] }

def Sched.push (s : Sched) (ev : KEv) (σ' : KSt) : Sched :=
  { s with σ := σ', log := s.log ++ [⟨ev, σ'⟩] }

def Sched.show (s : Sched) (o : SOut) : Sched := { s with out := s.out ++ [(o, s.σ.f.cache)] }

/-- call `id` (= `Set` number `n`) runs sections until it has made an `OnDelete` call — it is then
parked inside the callback — or has returned.  `fuel` bounds the number of sections; every
eviction removes an entry, so `count + 2` is enough. -/
def runSet (c : Conf) (resumed : Bool) (n id : Nat) : Nat → Sched → GoM Sched
  | 0, _ => .error (.explicit "runSet: out of fuel")
  | fuel + 1, s =>
    match doSec c s.σ id with
    | .error p => .error p
    | .ok (σ1, ev) =>
      let s1 := s.push (.sec id ev) σ1
      match ev with
      | .onDelete k v => .ok (s1.show (.parked resumed n k v))
      | .evict _ _ => runSet c resumed n id fuel s1
      | _ =>
        match doRet σ1 id with
        | .error p => .error p
        | .ok (σ2, .set b) => .ok ((s1.push (.ret id (.set b)) σ2).show (.setRet resumed n b))
        | .ok _ => .error (.explicit "runSet: not a Set")

def fuelFor (s : Sched) : Nat := s.σ.f.cache.lru.length + 2

/-- is `Set` number `n` parked in a callback?  (its `OnDelete` call has been made: phase `loop`) -/
def parkedId (s : Sched) (n : Nat) : Option Nat :=
  match s.sets[n]? with
  | none => none
  | some id =>
    match s.σ.calls[id]? with
    | some ⟨_, .running (some i)⟩ =>
      match s.σ.f.frames[i]? with
      | some f => if f.phase = .loop then some id else none
      | none => none
    | _ => none

/-- a one-section call from invocation to response -/
def runOne (c : Conf) (op : Call) (s : Sched) : GoM Sched :=
  let id := s.σ.calls.length
  let s0 := s.push (.inv id op) (s.σ.inv op)
  match doSec c s0.σ id with
  | .error p => .error p
  | .ok (σ1, ev) =>
    let s1 := s0.push (.sec id ev) σ1
    match doRet σ1 id with
    | .error p => .error p
    | .ok (σ2, r) => .ok ((s1.push (.ret id r) σ2).show (.one r))

def schedStep (c : Conf) (s : Sched) : SStep → GoM Sched
  | .set k v =>
    let id := s.σ.calls.length
    let n := s.sets.length
    let s0 := { s.push (.inv id (.set k v)) (s.σ.inv (.set k v)) with sets := s.sets ++ [id] }
    runSet c false n id (fuelFor s0) s0
  | .resume n =>
    match parkedId s n with
    | some id => runSet c true n id (fuelFor s) s
    | none => .ok (s.show (.notParked n))
  | .get k => runOne c (.get k) s
  | .del k => runOne c (.del k) s
  | .clear => runOne c .clear s
  | .stats => runOne c .stats s

def schedSteps (c : Conf) : List SStep → Sched → GoM Sched
  | [], s => .ok s
  | st :: rest, s =>
    match schedStep c s st with
    | .ok s1 => schedSteps c rest s1
    | .error p => .error p

/-- resume `Set` number `n` until it has returned -/
def drain (c : Conf) (n : Nat) : Nat → Sched → GoM Sched
  | 0, s =>
    match parkedId s n with
    | none => .ok s
    | some _ => .error (.explicit "drain: out of fuel")
  | fuel + 1, s =>
    match parkedId s n with
    | none => .ok s
    | some id =>
      match runSet c true n id (fuelFor s) s with
      | .ok s1 => drain c n fuel s1
      | .error p => .error p

/-- at the end of a script: all still-parked `Set`s are resumed, in index order, until all have
returned -/
def drainAll (c : Conf) : List Nat → Sched → GoM Sched
  | [], s => .ok s
  | n :: rest, s =>
    match drain c n (s.σ.f.cache.lru.length + 2) s with
    | .ok s1 => drainAll c rest s1
    | .error p => .error p

/-- a whole script against a fresh cache made by `New(conf)` -/
def runSched (r : RawConf) (steps : List SStep) : GoM Sched :=
  match schedSteps (newConf r) steps Sched.init with
  | .ok s => drainAll (newConf r) (List.range s.sets.length) s
  | .error p => .error p

end GolibsVerif.C10
