/-
C10, package L — lock discipline (race freedom) of `cache/data.go` from a regenerated IR.

The translator `/verif/gen/cachelock.go` re-emits, on every run of `./check`, every method of
`*cache` as a term of the small statement language `Stmt` below (`Gen/CacheLockIR.lean`):
the memory accesses to the fields of the shared `cache` object in Go evaluation order, the
`Lock`/`Unlock` calls on `c.lock`, the `OnDelete` callback, `return`s, and the control
structure (`if` / `for`).  This file defines

* the path semantics of the language (`Exec`: every control path, data-independent),
* the checker `analyse` (an abstract interpretation over `{held, published}`),
* the per-path property `WellLocked`, the thread system (`ThreadOf`, `MutexOK`) and the
  combined machine `grun` used by the race-freedom theorems (`Theorems/C10Lock.lean`),
* the projection `sectionsOf` (critical-section decomposition) compared with a hand-written
  expectation.

Core Lean only.
-/

namespace GolibsVerif.C10.Lock

/-! ## The IR -/

/-- Abstract memory locations of one shared `cache` object.
`usage` stands for the sentinel `c.usage` AND every `item.used` link (the whole intrusive
list).  `itemKV true` = fields `key`/`value` of a local variable of struct type `item`
(not yet reachable from the cache); `itemKV false` = the same fields through a `*item`. -/
inductive Loc where
  | items | usage | size | hit | miss | conf
  | itemKV (fresh : Bool)
  deriving DecidableEq, Repr

/-- Access modes: plain read, plain write, `sync/atomic` operation. -/
inductive Acc where
  | read | write | atomic
  deriving DecidableEq, Repr

/-- Statements.  `publish` = the local item becomes reachable from the shared object
(`listAppend(&it.used, …)` or `c.items[…] = &it`).  Conditions are statement lists (the
accesses of evaluating the condition; `a && b` is `a`'s accesses followed by
`ite [] b's accesses []`). -/
inductive Stmt where
  | lock | unlock
  | acc (a : Acc) (l : Loc)
  | publish
  | callOnDelete
  | ret
  | ite (cond thn els : List Stmt)
  | loop (cond body : List Stmt)
  deriving Repr

structure Method where
  name : String
  body : List Stmt
  deriving Repr

/-- Events of one thread. -/
inductive Ev where
  | lock | unlock
  | acc (a : Acc) (l : Loc)
  | publish
  | callOnDelete
  | ret
  deriving DecidableEq, Repr

/-! ## Path semantics

`Exec b p o`: `p` is the event sequence of one control path through the statement list `b`;
`o = true` iff the path ended in a `return` (then the rest of `b` is not executed), `false`
iff it fell off the end of `b`.  Branches are taken non-deterministically (paths
over-approximate data-dependent control flow); the condition's accesses happen before the
branch; a loop runs any number of iterations. -/
inductive Exec : List Stmt → List Ev → Bool → Prop where
  | nil : Exec [] [] false
  | lock {r p o} : Exec r p o → Exec (.lock :: r) (.lock :: p) o
  | unlock {r p o} : Exec r p o → Exec (.unlock :: r) (.unlock :: p) o
  | acc {a l r p o} : Exec r p o → Exec (.acc a l :: r) (.acc a l :: p) o
  | publish {r p o} : Exec r p o → Exec (.publish :: r) (.publish :: p) o
  | callOnDelete {r p o} : Exec r p o → Exec (.callOnDelete :: r) (.callOnDelete :: p) o
  | ret {r} : Exec (.ret :: r) [.ret] true
  | iteThen {c t e r p o} : Exec (c ++ (t ++ r)) p o → Exec (.ite c t e :: r) p o
  | iteElse {c t e r p o} : Exec (c ++ (e ++ r)) p o → Exec (.ite c t e :: r) p o
  | loopExit {c b r p o} : Exec (c ++ r) p o → Exec (.loop c b :: r) p o
  | loopIter {c b r p o} : Exec (c ++ (b ++ .loop c b :: r)) p o → Exec (.loop c b :: r) p o

/-- `p` is a complete control path of the method body `b` (ended by `return` or by the end
of the body). -/
def Path (b : List Stmt) (p : List Ev) : Prop := ∃ o, Exec b p o

/-! ## The discipline, as a walk over events -/

/-- Per-call abstract state: does this thread hold `c.lock`; has the local item of this call
been published. -/
structure St where
  held : Bool
  published : Bool
  deriving DecidableEq, Repr

def init : St := ⟨false, false⟩

/-- Locations that must only be touched with the lock held. -/
def Loc.protected : Loc → Bool
  | .items | .usage | .size => true
  | _ => false

/-- Is an access permitted in the given state?
* `items`/`usage`/`size`: plain accesses, only with the lock held;
* `hit`/`miss`: only `sync/atomic`;
* `conf`: never written (set in `newCache` before the object is shared);
* `itemKV false`: never written (published items are immutable);
* `itemKV true`: read freely; written only while the item is not yet published. -/
def accOK (held published : Bool) : Acc → Loc → Bool
  | a, .items => a != .atomic && held
  | a, .usage => a != .atomic && held
  | a, .size => a != .atomic && held
  | a, .hit => a == .atomic
  | a, .miss => a == .atomic
  | a, .conf => a == .read
  | a, .itemKV false => a == .read
  | a, .itemKV true => a == .read || (a == .write && !published)

/-- One event from a state; `none` = the discipline is violated:
`lock` only when not held (`sync.Mutex` is not re-entrant), `unlock` only when held,
`publish` only with the lock held, `callOnDelete` only WITHOUT the lock (the callback may
re-enter the cache), `ret` only without the lock. -/
def St.step (s : St) : Ev → Option St
  | .lock => if s.held then none else some { s with held := true }
  | .unlock => if s.held then some { s with held := false } else none
  | .acc a l => if accOK s.held s.published a l then some s else none
  | .publish => if s.held then some { s with published := true } else none
  | .callOnDelete => if s.held then none else some s
  | .ret => if s.held then none else some s

def walk (s : St) : List Ev → Option St
  | [] => some s
  | e :: p => (s.step e).bind fun s' => walk s' p

/-- A complete path of one call is well locked: walking it from "not held, not published"
every event is permitted, and the call ends without the lock. -/
def WellLocked (p : List Ev) : Prop := ∃ s', walk init p = some s' ∧ s'.held = false

/-! ## The checker

Abstract interpretation in continuation-passing style: `anaB b k s` = "every path through `b`
from state `s` is permitted, every `return` happens without the lock, and every state in
which control falls off the end of `b` satisfies `k`".  Both branches of an `ite` are
analysed with the same continuation (so they may end in different states as long as the
rest of the method is fine from both); a `loop` body must bring the state back to the state
at loop entry on every path that reaches its end (loop invariant). -/
mutual
def anaS : Stmt → (St → Bool) → St → Bool
  | .lock, k, s => match s.step .lock with | some s' => k s' | none => false
  | .unlock, k, s => match s.step .unlock with | some s' => k s' | none => false
  | .acc a l, k, s => match s.step (.acc a l) with | some s' => k s' | none => false
  | .publish, k, s => match s.step .publish with | some s' => k s' | none => false
  | .callOnDelete, k, s => match s.step .callOnDelete with | some s' => k s' | none => false
  | .ret, _, s => match s.step .ret with | some _ => true | none => false
  | .ite c t e, k, s => anaB c (fun s1 => anaB t k s1 && anaB e k s1) s
  | .loop c b, k, s => anaB c (fun s1 => anaB b (fun s2 => s2 == s) s1 && k s1) s
def anaB : List Stmt → (St → Bool) → St → Bool
  | [], k, s => k s
  | x :: r, k, s => anaS x (fun s' => anaB r k s') s
end

/-- The lock-discipline check of one method. -/
def analyse (m : Method) : Bool := anaB m.body (fun s => !s.held) init

/-! ### Diagnostics (not used by any theorem)

The same traversal as `anaB`, but collecting a message for every rejected event, so that a
broken `lock_discipline` obligation can say which method and which event is at fault.  The
generated file prints `report methods` when it is not empty. -/

def Loc.show : Loc → String
  | .items => "items" | .usage => "usage" | .size => "size" | .hit => "hit" | .miss => "miss"
  | .conf => "conf" | .itemKV true => "local item key/value" | .itemKV false => "published item key/value"

def Ev.show : Ev → String
  | .lock => "Lock" | .unlock => "Unlock" | .publish => "publication of the local item"
  | .callOnDelete => "OnDelete call" | .ret => "return"
  | .acc .read l => "plain read of " ++ l.show
  | .acc .write l => "plain write of " ++ l.show
  | .acc .atomic l => "atomic access to " ++ l.show

def St.show (s : St) : String :=
  (if s.held then "lock held" else "lock NOT held") ++ (if s.published then ", item published" else "")

def vioStep (e : Ev) (k : St → List String) (s : St) : List String :=
  match s.step e, e with
  | some s', _ => k s'
  | none, .acc _ _ => (e.show ++ " with " ++ s.show) :: k s   -- go on, to report every bad access
  | none, _ => [e.show ++ " with " ++ s.show]

mutual
def vioS : Stmt → (St → List String) → St → List String
  | .lock, k, s => vioStep .lock k s
  | .unlock, k, s => vioStep .unlock k s
  | .acc a l, k, s => vioStep (.acc a l) k s
  | .publish, k, s => vioStep .publish k s
  | .callOnDelete, k, s => vioStep .callOnDelete k s
  | .ret, _, s => vioStep .ret (fun _ => []) s
  | .ite c t e, k, s => vioB c (fun s1 => vioB t k s1 ++ vioB e k s1) s
  | .loop c b, k, s =>
    vioB c (fun s1 => vioB b (fun s2 => if s2 == s then [] else
      ["loop body ends with " ++ s2.show ++ " but started with " ++ s.show]) s1 ++ k s1) s
def vioB : List Stmt → (St → List String) → St → List String
  | [], k, s => k s
  | x :: r, k, s => vioS x (fun s' => vioB r k s') s
end

def violations (m : Method) : List String :=
  (vioB m.body (fun s => if s.held then ["end of method with lock held"] else []) init).eraseDups

def report (ms : List Method) : List String :=
  ms.flatMap fun m => (violations m).map fun v => "lock discipline violated in cache." ++ m.name ++ ": " ++ v

/-! ## Threads and the mutex -/

abbrev Tid := Nat
abbrev Trace := List (Tid × Ev)

/-- The events of thread `t`, in order. -/
def proj (t : Tid) : Trace → List Ev
  | [] => []
  | (u, e) :: r => if u = t then e :: proj t r else proj t r

/-- What one thread does, over whole calls: a concatenation of complete paths of methods of the
program — the thread calls any methods, any number of times, in any order (arguments are
abstracted by the path semantics) — where, in addition, every `OnDelete` callback may itself
call methods of the cache on the same thread before it returns (`reenter`: a whole thread
trace is inserted right after a `callOnDelete` event, to any depth). -/
inductive ThreadTrace (prog : List Method) : List Ev → Prop where
  | nil : ThreadTrace prog []
  | call {m p q} : m ∈ prog → Path m.body p → ThreadTrace prog q → ThreadTrace prog (p ++ q)
  | reenter {a b q} : ThreadTrace prog (a ++ .callOnDelete :: b) → ThreadTrace prog q →
      ThreadTrace prog (a ++ .callOnDelete :: (q ++ b))

/-- What one thread has done so far: a prefix of such a concatenation (the last call may be
in progress). -/
def ThreadOf (prog : List Method) (evs : List Ev) : Prop := ∃ rest, ThreadTrace prog (evs ++ rest)

/-- `sync.Mutex` semantics (assumption MEM-1), state = who locked it last, if locked:
`Lock` returns only when the mutex is free. -/
def mstep (o : Option Tid) (t : Tid) : Ev → Option (Option Tid)
  | .lock => if o = none then some (some t) else none
  | .unlock => some none
  | _ => some o

def mrun (o : Option Tid) : Trace → Option (Option Tid)
  | [] => some o
  | (t, e) :: r => (mstep o t e).bind fun o' => mrun o' r

/-- The global trace respects mutex semantics. -/
def MutexOK (tr : Trace) : Prop := (mrun none tr).isSome = true

/-- Thread-level walk: only the `held` flag (the `published` flag is per call). -/
def stepH (h : Bool) : Ev → Option Bool
  | .lock => if h then none else some true
  | .unlock => if h then some false else none
  | .acc a l => if accOK h false a l then some h else none
  | .publish => if h then some h else none
  | .callOnDelete => if h then none else some h
  | .ret => if h then none else some h

def walkH (h : Bool) : List Ev → Option Bool
  | [] => some h
  | e :: p => (stepH h e).bind fun h' => walkH h' p

/-- Thread `t` is inside a critical section after the events `evs` of its own. -/
def Holds (evs : List Ev) : Prop := walkH false evs = some true

/-- The combined machine: state = owner of the mutex; an event of thread `t` is permitted iff
it is permitted for a thread whose `held` flag is "`t` is the owner", `lock` needs a free
mutex and `unlock` is by the owner. -/
def gstep (o : Option Tid) (t : Tid) : Ev → Option (Option Tid)
  | .lock => if o = none then some (some t) else none
  | .unlock => if o = some t then some none else none
  | e => if (stepH (decide (o = some t)) e).isSome then some o else none

def grun (o : Option Tid) : Trace → Option (Option Tid)
  | [] => some o
  | (t, e) :: r => (gstep o t e).bind fun o' => grun o' r

/-- Two accesses to the same location are a data-race candidate: not both atomic, and at
least one of them is not a plain read. -/
def RaceCandidate (a1 a2 : Acc) : Prop := ¬(a1 = .atomic ∧ a2 = .atomic) ∧ (a1 ≠ .read ∨ a2 ≠ .read)

/-! ## Critical-section decomposition (`sections`)

A flat, normalised view of a method: where the lock is taken and released, what is accessed
in between (as a sorted set), where the callback is called.  Control structure that contains
no `lock`/`unlock`/`callOnDelete` is flattened into the surrounding access set ("may
access"); the `sync/atomic` accesses are collected per method without position; a trailing
`ret` of the method is dropped.  So the view is insensitive to statement order inside a
section, to restructuring of lock-free control flow, and to the position of the atomics. -/

inductive Item where
  | acc (a : Acc) (l : Loc)
  | publish
  deriving DecidableEq, Repr

inductive Tok where
  | lock | unlock
  | accs (is : List Item)
  | callOnDelete
  | ret
  | ifBegin | elseBegin | endIf
  | loopBegin | loopDo | loopEnd
  deriving DecidableEq, Repr

structure MethodSections where
  name : String
  /-- the `sync/atomic` accesses of the method, wherever they are -/
  atomics : List Item
  toks : List Tok
  deriving DecidableEq, Repr

def Loc.code : Loc → Nat
  | .items => 0 | .usage => 1 | .size => 2 | .hit => 3 | .miss => 4 | .conf => 5
  | .itemKV true => 6 | .itemKV false => 7

def Acc.code : Acc → Nat
  | .read => 0 | .write => 1 | .atomic => 2

def Item.code : Item → Nat
  | .acc a l => 3 * l.code + a.code
  | .publish => 100

def insertItem (x : Item) : List Item → List Item
  | [] => [x]
  | y :: r => if x.code < y.code then x :: y :: r else if x.code = y.code then y :: r else y :: insertItem x r

/-- sort by code, drop duplicates -/
def normItems (l : List Item) : List Item := l.foldr insertItem []

mutual
/-- does the statement contain `lock`/`unlock`/`callOnDelete`? -/
def syncS : Stmt → Bool
  | .lock | .unlock | .callOnDelete => true
  | .acc _ _ | .publish | .ret => false
  | .ite c t e => syncB c || syncB t || syncB e
  | .loop c b => syncB c || syncB b
def syncB : List Stmt → Bool
  | [] => false
  | x :: r => syncS x || syncB r
end

mutual
/-- all accesses (and `publish`) inside a statement -/
def itemsS : Stmt → List Item
  | .acc a l => [.acc a l]
  | .publish => [.publish]
  | .lock | .unlock | .callOnDelete | .ret => []
  | .ite c t e => itemsB c ++ itemsB t ++ itemsB e
  | .loop c b => itemsB c ++ itemsB b
def itemsB : List Stmt → List Item
  | [] => []
  | x :: r => itemsS x ++ itemsB r
end

def Item.isAtomic : Item → Bool
  | .acc .atomic _ => true
  | _ => false

/-- one access run (atomics are reported separately) -/
def accsTok (is : List Item) : List Tok :=
  match is.filter (fun i => !i.isAtomic) with
  | [] => []
  | l => [.accs l]

mutual
def toksS : Stmt → List Tok
  | .lock => [.lock]
  | .unlock => [.unlock]
  | .callOnDelete => [.callOnDelete]
  | .ret => [.ret]
  | .acc a l => accsTok [.acc a l]
  | .publish => accsTok [.publish]
  | .ite c t e =>
    if syncB c || syncB t || syncB e then
      toksB c ++ [.ifBegin] ++ toksB t ++ [.elseBegin] ++ toksB e ++ [.endIf]
    else accsTok (itemsB c ++ itemsB t ++ itemsB e)
  | .loop c b =>
    if syncB c || syncB b then
      [.loopBegin] ++ toksB c ++ [.loopDo] ++ toksB b ++ [.loopEnd]
    else accsTok (itemsB c ++ itemsB b)
def toksB : List Stmt → List Tok
  | [] => []
  | .ret :: _ => [.ret]   -- what follows a `return` in the same block is dead
  | x :: r => toksS x ++ toksB r
end

/-- merge adjacent access runs and normalise them -/
def mergeToks : List Tok → List Tok
  | [] => []
  | .accs a :: r =>
    match mergeToks r with
    | .accs b :: r' => .accs (normItems (a ++ b)) :: r'
    | r' => .accs (normItems a) :: r'
  | t :: r => t :: mergeToks r

def dropTrailingRet (l : List Tok) : List Tok :=
  match l.reverse with
  | .ret :: r => r.reverse
  | _ => l

def sectionsOf (m : Method) : MethodSections :=
  { name := m.name
    atomics := normItems ((itemsB m.body).filter Item.isAtomic)
    toks := dropTrailingRet (mergeToks (toksB m.body)) }

/-! ## The expected decomposition (written by hand)

This is the critical-section structure `Model/C09.lean` / `Model/C09Frames.lean` were written
against: `Set` = a check section that may refuse and return, then a loop of {evict section;
unlock; `OnDelete`; lock}, then the commit section; `Get`, `Del`, `Clear`, `Stats` = one
section each (`Get` reads the found item's value after the section; `Clear`, `Get`, `Stats`
touch the hit/miss counters atomically).  `Theorems/C10Lock.lean`, `sections_expected`,
compares it with the projection of the regenerated IR. -/
namespace Expected

private def r (l : Loc) : Item := .acc .read l
private def w (l : Loc) : Item := .acc .write l
private def counters : List Item := [.acc .atomic .hit, .acc .atomic .miss]

def clear : MethodSections :=
  { name := "Clear", atomics := counters
    toks := [.lock, .accs [w .items, w .usage, w .size], .unlock] }

def set : MethodSections :=
  { name := "Set", atomics := []
    toks := [
      -- size check against MaxElementSize, filling of the local item
      .accs [r .conf, w (.itemKV true)],
      -- check section: refuse when full and LRU is off
      .lock, .accs [r .items, r .size, r .conf],
      .ifBegin, .unlock, .ret, .elseBegin, .endIf,
      -- eviction loop: one evict section per iteration, the callback runs outside the lock
      .loopBegin, .accs [r .items, r .size, r .conf], .loopDo,
        .accs [w .items, r .usage, w .usage, r .size, w .size, r .conf, r (.itemKV false)],
        .ifBegin, .unlock, .accs [r .conf, r (.itemKV false)], .callOnDelete, .lock, .elseBegin, .endIf,
      .loopEnd,
      -- commit section: link the new item, replace the old one, publish
      .accs [r .items, w .items, r .usage, w .usage, r .size, w .size, r .conf, r (.itemKV false), .publish],
      .unlock] }

def get : MethodSections :=
  { name := "Get", atomics := counters
    toks := [.lock, .accs [r .items, r .usage, w .usage, r .conf], .unlock, .accs [r (.itemKV false)]] }

def del : MethodSections :=
  { name := "Del", atomics := []
    toks := [.lock, .accs [r .items], .ifBegin, .unlock, .ret, .elseBegin, .endIf,
      .accs [w .items, w .usage, r .size, w .size, r .conf, r (.itemKV false)], .unlock] }

def stats : MethodSections :=
  { name := "Stats", atomics := counters
    toks := [.lock, .accs [r .items, r .size], .unlock] }

def sections : List MethodSections := [clear, set, get, del, stats]

end Expected

end GolibsVerif.C10.Lock
