/-
C10, package L — lock discipline (race freedom) of `cache/data.go` from a regenerated IR.

The translator `/verif/gen/cachelock.go` re-emits, on every run of `./check`, every method of
`*cache` as a term of the small statement language `Stmt` below (`Gen/CacheLockIR.lean`):
the memory accesses to the fields of the shared `cache` object in Go evaluation order, the
`Lock`/`Unlock` calls on `c.lock`, the `OnDelete` callback, `return`s, the control
structure (`if` / `for`) and the calls of helper methods/functions of the package (as `call`
nodes carrying the translated body of the callee: inlining).  This file defines

* the path semantics of the language (`Exec`: every control path, data-independent),
* the checker `analyse` (an abstract interpretation over `{held, published}`),
* the per-path property `WellLocked`, the thread system (`ThreadOf`, `MutexOK`) and the
  combined machine `grun` used by the race-freedom theorems (`Theorems/C10Lock.lean`),
* the critical-section profile `sectionsOf` (a semantic normal form of the paths, computed by
  a second abstract interpretation `flowB`) compared with a hand-written expectation.

Core Lean only.
-/

namespace GolibsVerif.C10.Lock

/-! ## The IR -/

/-- Abstract memory locations of one shared `cache` object.
`usage` stands for the sentinel `c.usage` AND every `item.used` link (the whole intrusive
list).  `itemKV true` = fields `key`/`value` of a local variable of struct type `item`
(not yet reachable from the cache); `itemKV false` = the same fields through a `*item`. -/
inductive Loc where
  | items | usage | size | hit | miss | conf
  | itemKV (fresh : Bool)
  deriving DecidableEq, Repr

/-- Access modes: plain read, plain write, `sync/atomic` operation. -/
inductive Acc where
  | read | write | atomic
  deriving DecidableEq, Repr

/-- Statements.  `publish` = the local item becomes reachable from the shared object
(`listAppend(&it.used, …)` or `c.items[…] = &it`).  Conditions are statement lists (the
accesses of evaluating the condition; `a && b` is `a`'s accesses followed by
`ite [] b's accesses []`; a helper called in a condition is a `call` there). -/
inductive Stmt where
  | lock | unlock
  | acc (a : Acc) (l : Loc)
  | publish
  | callOnDelete
  | ret
  | ite (cond thn els : List Stmt)
  | loop (cond body : List Stmt)
  /-- an inlined call of a helper (`c.isFull(…)`, `it.size()`, `itemOf(…)`): executes the
  translated body of the callee; a `ret` inside `body` ends the CALL (control continues after
  it in the caller), not the enclosing method; the lock state and the publication state flow
  through.  `name` is only used in diagnostics. -/
  | call (name : String) (body : List Stmt)
  deriving Repr

structure Method where
  name : String
  body : List Stmt
  deriving Repr

/-- Events of one thread. -/
inductive Ev where
  | lock | unlock
  | acc (a : Acc) (l : Loc)
  | publish
  | callOnDelete
  | ret
  deriving DecidableEq, Repr

/-! ## Path semantics

`Exec b p o`: `p` is the event sequence of one control path through the statement list `b`;
`o = true` iff the path ended in a `return` (then the rest of `b` is not executed), `false`
iff it fell off the end of `b`.  Branches are taken non-deterministically (paths
over-approximate data-dependent control flow); the condition's accesses happen before the
branch; a loop runs any number of iterations.  A `call` runs one path of the callee's body —
whether that path ends in a `return` of the callee or falls off its end — and then the caller
continues.  `return` itself emits no event here; `Path` appends the `ret` event of the method. -/
inductive Exec : List Stmt → List Ev → Bool → Prop where
  | nil : Exec [] [] false
  | lock {r p o} : Exec r p o → Exec (.lock :: r) (.lock :: p) o
  | unlock {r p o} : Exec r p o → Exec (.unlock :: r) (.unlock :: p) o
  | acc {a l r p o} : Exec r p o → Exec (.acc a l :: r) (.acc a l :: p) o
  | publish {r p o} : Exec r p o → Exec (.publish :: r) (.publish :: p) o
  | callOnDelete {r p o} : Exec r p o → Exec (.callOnDelete :: r) (.callOnDelete :: p) o
  | ret {r} : Exec (.ret :: r) [] true
  | iteThen {c t e r p o} : Exec (c ++ (t ++ r)) p o → Exec (.ite c t e :: r) p o
  | iteElse {c t e r p o} : Exec (c ++ (e ++ r)) p o → Exec (.ite c t e :: r) p o
  | loopExit {c b r p o} : Exec (c ++ r) p o → Exec (.loop c b :: r) p o
  | loopIter {c b r p o} : Exec (c ++ (b ++ .loop c b :: r)) p o → Exec (.loop c b :: r) p o
  | call {n b r p q o' o} : Exec b p o' → Exec r q o → Exec (.call n b :: r) (p ++ q) o

/-- `p` is a complete control path of the method body `b`: it fell off the end of the body, or
it ended in a `return` of the method (the last event is then `ret`; the `return`s of inlined
helpers are not events). -/
def Path (b : List Stmt) (p : List Ev) : Prop :=
  Exec b p false ∨ ∃ p', Exec b p' true ∧ p = p' ++ [.ret]

/-! ## The discipline, as a walk over events -/

/-- Per-call abstract state: does this thread hold `c.lock`; has the local item of this call
been published. -/
structure St where
  held : Bool
  published : Bool
  deriving DecidableEq, Repr

def init : St := ⟨false, false⟩

/-- Locations that must only be touched with the lock held. -/
def Loc.protected : Loc → Bool
  | .items | .usage | .size => true
  | _ => false

/-- Is an access permitted in the given state?
* `items`/`usage`/`size`: plain accesses, only with the lock held;
* `hit`/`miss`: only `sync/atomic`;
* `conf`: never written (set in `newCache` before the object is shared);
* `itemKV false`: never written (published items are immutable);
* `itemKV true`: read freely; written only while the item is not yet published. -/
def accOK (held published : Bool) : Acc → Loc → Bool
  | a, .items => a != .atomic && held
  | a, .usage => a != .atomic && held
  | a, .size => a != .atomic && held
  | a, .hit => a == .atomic
  | a, .miss => a == .atomic
  | a, .conf => a == .read
  | a, .itemKV false => a == .read
  | a, .itemKV true => a == .read || (a == .write && !published)

/-- One event from a state; `none` = the discipline is violated:
`lock` only when not held (`sync.Mutex` is not re-entrant), `unlock` only when held,
`publish` only with the lock held, `callOnDelete` only WITHOUT the lock (the callback may
re-enter the cache), `ret` only without the lock. -/
def St.step (s : St) : Ev → Option St
  | .lock => if s.held then none else some { s with held := true }
  | .unlock => if s.held then some { s with held := false } else none
  | .acc a l => if accOK s.held s.published a l then some s else none
  | .publish => if s.held then some { s with published := true } else none
  | .callOnDelete => if s.held then none else some s
  | .ret => if s.held then none else some s

def walk (s : St) : List Ev → Option St
  | [] => some s
  | e :: p => (s.step e).bind fun s' => walk s' p

/-- A complete path of one call is well locked: walking it from "not held, not published"
every event is permitted, and the call ends without the lock. -/
def WellLocked (p : List Ev) : Prop := ∃ s', walk init p = some s' ∧ s'.held = false

/-! ## The checker

Abstract interpretation in continuation-passing style: `anaB b kr k s` = "every path through
`b` from state `s` is permitted, every state in which a `return` is executed satisfies `kr`, and
every state in which control falls off the end of `b` satisfies `k`".  At method level `kr` is
"the lock is not held"; inside an inlined `call` both continuations are the rest of the caller
(the set of possible exit states of the callee — falling off its end or any `return` inside —
all continue after the call).  Both branches of an `ite` are analysed with the same
continuation (so they may end in different states as long as the rest of the method is fine
from both); a `loop` body must bring the state back to the state at loop entry on every path
that reaches its end (loop invariant). -/
mutual
def anaS : Stmt → (St → Bool) → (St → Bool) → St → Bool
  | .lock, _, k, s => match s.step .lock with | some s' => k s' | none => false
  | .unlock, _, k, s => match s.step .unlock with | some s' => k s' | none => false
  | .acc a l, _, k, s => match s.step (.acc a l) with | some s' => k s' | none => false
  | .publish, _, k, s => match s.step .publish with | some s' => k s' | none => false
  | .callOnDelete, _, k, s => match s.step .callOnDelete with | some s' => k s' | none => false
  | .ret, kr, _, s => kr s
  | .ite c t e, kr, k, s => anaB c kr (fun s1 => anaB t kr k s1 && anaB e kr k s1) s
  | .loop c b, kr, k, s => anaB c kr (fun s1 => anaB b kr (fun s2 => s2 == s) s1 && k s1) s
  | .call _ b, _, k, s => anaB b k k s
def anaB : List Stmt → (St → Bool) → (St → Bool) → St → Bool
  | [], _, k, s => k s
  | x :: r, kr, k, s => anaS x kr (fun s' => anaB r kr k s') s
end

/-- The lock-discipline check of one method: every path is permitted and the method is left —
by `return` or at the end of its body — without the lock. -/
def analyse (m : Method) : Bool := anaB m.body (fun s => !s.held) (fun s => !s.held) init

/-! ### Diagnostics (not used by any theorem)

The same traversal as `anaB`, but collecting a message for every rejected event, so that a
broken `lock_discipline` obligation can say which method and which event is at fault.  The
generated file prints `report methods` when it is not empty. -/

def Loc.show : Loc → String
  | .items => "items" | .usage => "usage" | .size => "size" | .hit => "hit" | .miss => "miss"
  | .conf => "conf" | .itemKV true => "local item key/value" | .itemKV false => "published item key/value"

def Ev.show : Ev → String
  | .lock => "Lock" | .unlock => "Unlock" | .publish => "publication of the local item"
  | .callOnDelete => "OnDelete call" | .ret => "return"
  | .acc .read l => "plain read of " ++ l.show
  | .acc .write l => "plain write of " ++ l.show
  | .acc .atomic l => "atomic access to " ++ l.show

def St.show (s : St) : String :=
  (if s.held then "lock held" else "lock NOT held") ++ (if s.published then ", item published" else "")

mutual
/-- where `Lock`/`Unlock` are written: "the method body" and/or the helpers (diagnostics) -/
def lockSitesS : Stmt → String → List String
  | .lock, w => [w] | .unlock, w => [w]
  | .acc _ _, _ => [] | .publish, _ => [] | .callOnDelete, _ => [] | .ret, _ => []
  | .ite c t e, w => lockSitesB c w ++ lockSitesB t w ++ lockSitesB e w
  | .loop c b, w => lockSitesB c w ++ lockSitesB b w
  | .call n b, _ => lockSitesB b ("helper " ++ n)
def lockSitesB : List Stmt → String → List String
  | [], _ => []
  | x :: r, w => lockSitesS x w ++ lockSitesB r w
end

def vioStep (ctx : String) (e : Ev) (k : St → List String) (s : St) : List String :=
  match s.step e, e with
  | some s', _ => k s'
  | none, .acc _ _ => (ctx ++ e.show ++ " with " ++ s.show) :: k s   -- go on, to report every bad access
  | none, _ => [ctx ++ e.show ++ " with " ++ s.show]

mutual
/-- `ctx` = the chain of inlined helpers the statement is in (`"makeRoom → notifyDeleted: "`) -/
def vioS : Stmt → String → (St → List String) → (St → List String) → St → List String
  | .lock, ctx, _, k, s => vioStep ctx .lock k s
  | .unlock, ctx, _, k, s => vioStep ctx .unlock k s
  | .acc a l, ctx, _, k, s => vioStep ctx (.acc a l) k s
  | .publish, ctx, _, k, s => vioStep ctx .publish k s
  | .callOnDelete, ctx, _, k, s => vioStep ctx .callOnDelete k s
  | .ret, _, kr, _, s => kr s
  | .ite c t e, ctx, kr, k, s => vioB c ctx kr (fun s1 => vioB t ctx kr k s1 ++ vioB e ctx kr k s1) s
  | .loop c b, ctx, kr, k, s =>
    vioB c ctx kr (fun s1 => vioB b ctx kr (fun s2 => if s2 == s then [] else
      [ctx ++ "loop body ends with " ++ s2.show ++ " but started with " ++ s.show ++
        " (Lock/Unlock in the loop are in: " ++ ", ".intercalate (lockSitesB (c ++ b) "the loop itself").eraseDups ++ ")"]) s1 ++ k s1) s
  | .call n b, ctx, _, k, s => vioB b (ctx ++ "in helper " ++ n ++ ": ") k k s
def vioB : List Stmt → String → (St → List String) → (St → List String) → St → List String
  | [], _, _, k, s => k s
  | x :: r, ctx, kr, k, s => vioS x ctx kr (fun s' => vioB r ctx kr k s') s
end

def violations (m : Method) : List String :=
  let sites := " (Lock/Unlock are in: " ++ ", ".intercalate (lockSitesB m.body "the method body").eraseDups ++ ")"
  (vioB m.body "" (fun s => if s.held then ["return with lock held" ++ sites] else [])
    (fun s => if s.held then ["end of method with lock held" ++ sites] else []) init).eraseDups

def report (ms : List Method) : List String :=
  ms.flatMap fun m => (violations m).map fun v => "lock discipline violated in cache." ++ m.name ++ ": " ++ v

/-! ## Threads and the mutex -/

abbrev Tid := Nat
abbrev Trace := List (Tid × Ev)

/-- The events of thread `t`, in order. -/
def proj (t : Tid) : Trace → List Ev
  | [] => []
  | (u, e) :: r => if u = t then e :: proj t r else proj t r

/-- What one thread does, over whole calls: a concatenation of complete paths of methods of the
program — the thread calls any methods, any number of times, in any order (arguments are
abstracted by the path semantics) — where, in addition, every `OnDelete` callback may itself
call methods of the cache on the same thread before it returns (`reenter`: a whole thread
trace is inserted right after a `callOnDelete` event, to any depth). -/
inductive ThreadTrace (prog : List Method) : List Ev → Prop where
  | nil : ThreadTrace prog []
  | call {m p q} : m ∈ prog → Path m.body p → ThreadTrace prog q → ThreadTrace prog (p ++ q)
  | reenter {a b q} : ThreadTrace prog (a ++ .callOnDelete :: b) → ThreadTrace prog q →
      ThreadTrace prog (a ++ .callOnDelete :: (q ++ b))

/-- What one thread has done so far: a prefix of such a concatenation (the last call may be
in progress). -/
def ThreadOf (prog : List Method) (evs : List Ev) : Prop := ∃ rest, ThreadTrace prog (evs ++ rest)

/-- `sync.Mutex` semantics (assumption MEM-1), state = who locked it last, if locked:
`Lock` returns only when the mutex is free. -/
def mstep (o : Option Tid) (t : Tid) : Ev → Option (Option Tid)
  | .lock => if o = none then some (some t) else none
  | .unlock => some none
  | _ => some o

def mrun (o : Option Tid) : Trace → Option (Option Tid)
  | [] => some o
  | (t, e) :: r => (mstep o t e).bind fun o' => mrun o' r

/-- The global trace respects mutex semantics. -/
def MutexOK (tr : Trace) : Prop := (mrun none tr).isSome = true

/-- Thread-level walk: only the `held` flag (the `published` flag is per call). -/
def stepH (h : Bool) : Ev → Option Bool
  | .lock => if h then none else some true
  | .unlock => if h then some false else none
  | .acc a l => if accOK h false a l then some h else none
  | .publish => if h then some h else none
  | .callOnDelete => if h then none else some h
  | .ret => if h then none else some h

def walkH (h : Bool) : List Ev → Option Bool
  | [] => some h
  | e :: p => (stepH h e).bind fun h' => walkH h' p

/-- Thread `t` is inside a critical section after the events `evs` of its own. -/
def Holds (evs : List Ev) : Prop := walkH false evs = some true

/-- The combined machine: state = owner of the mutex; an event of thread `t` is permitted iff
it is permitted for a thread whose `held` flag is "`t` is the owner", `lock` needs a free
mutex and `unlock` is by the owner. -/
def gstep (o : Option Tid) (t : Tid) : Ev → Option (Option Tid)
  | .lock => if o = none then some (some t) else none
  | .unlock => if o = some t then some none else none
  | e => if (stepH (decide (o = some t)) e).isSome then some o else none

def grun (o : Option Tid) : Trace → Option (Option Tid)
  | [] => some o
  | (t, e) :: r => (gstep o t e).bind fun o' => grun o' r

/-- Two accesses to the same location are a data-race candidate: not both atomic, and at
least one of them is not a plain read. -/
def RaceCandidate (a1 a2 : Acc) : Prop := ¬(a1 = .atomic ∧ a2 = .atomic) ∧ (a1 ≠ .read ∨ a2 ≠ .read)

/-! ## Critical-section profile (`sections`)

A SEMANTIC normal form of a method, defined on its control paths and computed by a second
abstract interpretation (`flowB`).  Every path is cut into regions: `pre` (before the first
`Lock`), `held` (between a `Lock` and the next `Unlock`: a critical section) and `free` (after
an `Unlock`).  The profile records

* per region kind, the MAY-access set: which of the lock-protected locations (`items`, `usage`,
  `size`) are read / written there on some path (a write subsumes the read of the same
  location), where the item is published, where `OnDelete` is called.  Accesses to `conf`, to
  published items and to the goroutine's own fresh item are NOT part of the profile: they are
  permitted anywhere (`accOK`), so moving them across an `Unlock` is a harmless rewrite;
* the `sync/atomic` accesses of the method, wherever they are;
* how many critical sections a single path can enter: `0`, `1`, or `2` = two or more
  (`Fact.sections n`: some path takes the lock for the `n`-th time, saturating at 2);
* `relockBare`: some path takes the lock again after an `Unlock` WITHOUT an `OnDelete` call in
  between (the lock is given up in the middle of a call only to run the callback).

Being a property of the set of paths, the profile is insensitive to everything that keeps that
set's regions: statement order inside a region, `defer` vs explicit `Unlock`, extraction of
helpers (calls are flattened by `Exec`), early-return forms, `if c {unlock; return}` in front of
a loop vs. inside it, `if`/`else` restructuring, reading an immutable field before or after the
`Unlock`.  It changes when a protected access moves from one kind of region to another or changes
its mode, when a method gets a second critical section, when the callback or the publication
moves, when a method touches another counter. -/

inductive Item where
  | acc (a : Acc) (l : Loc)
  | publish
  | callOnDelete
  deriving DecidableEq, Repr

/-- region kinds -/
inductive RegKind where
  | pre | held | free
  deriving DecidableEq, Repr

/-- where a path is: `free cb` = after an `Unlock`, `cb` = `OnDelete` was called since. -/
inductive Reg where
  | pre | held
  | free (cb : Bool)
  deriving DecidableEq, Repr

def Reg.kind : Reg → RegKind
  | .pre => .pre | .held => .held | .free _ => .free

/-- number of critical sections entered so far: none, one, two or more -/
inductive NSec where
  | zero | one | many
  deriving DecidableEq, Repr

def NSec.succ : NSec → NSec
  | .zero => .one
  | _ => .many

def NSec.toNat : NSec → Nat
  | .zero => 0 | .one => 1 | .many => 2

/-- profile state of a path prefix: region and number of sections entered (12 states) -/
structure PSt where
  reg : Reg
  nsec : NSec
  deriving DecidableEq, Repr

def pinit : PSt := ⟨.pre, .zero⟩

inductive Fact where
  | item (r : RegKind) (i : Item)
  | atomic (i : Item)
  | sections (n : Nat)
  | relockBare
  deriving DecidableEq, Repr

def PSt.step (s : PSt) : Ev → PSt
  | .lock => ⟨.held, s.nsec.succ⟩
  | .unlock => ⟨.free false, s.nsec⟩
  | .callOnDelete => match s.reg with
    | .free _ => ⟨.free true, s.nsec⟩
    | _ => s
  | _ => s

/-- what one event contributes to the profile -/
def PSt.facts (s : PSt) : Ev → List Fact
  | .lock => (if s.reg = .free false then [.relockBare] else []) ++ [.sections s.nsec.succ.toNat]
  | .acc a l =>
    if a = .atomic then [.atomic (.acc .atomic l)]
    else if l.protected then [.item s.reg.kind (.acc a l)] else []
  | .publish => [.item s.reg.kind .publish]
  | .callOnDelete => [.item s.reg.kind .callOnDelete]
  | .unlock => []
  | .ret => []

/-- the facts of one path (semantic definition; `profile_sound` relates it to `flowB`) -/
def pathFacts (s : PSt) : List Ev → List Fact
  | [] => []
  | e :: p => s.facts e ++ pathFacts (s.step e) p

def pwalk (s : PSt) : List Ev → PSt
  | [] => s
  | e :: p => pwalk (s.step e) p

/-- remove duplicates -/
def dedup {α} [DecidableEq α] : List α → List α
  | [] => []
  | x :: r => if x ∈ dedup r then dedup r else x :: dedup r

/-- result of the forward analysis of a statement list from one state: the states in which
control falls off its end, the states in which a `return` is executed, the facts collected -/
structure Res where
  falls : List PSt
  rets : List PSt
  facts : List Fact
  deriving Repr

def Res.prim (s : PSt) (e : Ev) : Res := ⟨[s.step e], [], s.facts e⟩

/-- `a ++ b` without duplicates -/
def union {α} [DecidableEq α] (a b : List α) : List α := dedup (a ++ b)

/-- componentwise union (every component of both arguments is used exactly once, so that
evaluation never repeats a sub-analysis) -/
def Res.join : Res → Res → Res
  | ⟨f1, r1, a1⟩, ⟨f2, r2, a2⟩ => ⟨union f1 f2, union r1 r2, union a1 a2⟩

/-- run `g` from every state in `S` -/
def Res.from (S : List PSt) (g : PSt → Res) : Res :=
  S.foldr (fun s acc => (g s).join acc) ⟨[], [], []⟩

/-- sequencing: `g` runs from every fall-through state of `r` -/
def Res.bind (r : Res) (g : PSt → Res) : Res :=
  match r with
  | ⟨f, rt, fa⟩ =>
    match Res.from f g with
    | ⟨f2, r2, a2⟩ => ⟨f2, union rt r2, union fa a2⟩

/-- least set of states containing `S` and closed under `f`: iterate until nothing new appears.
There are 12 states, so fuel 13 always suffices (`lfp_closed`, Lemmas/C10Profile.lean). -/
def lfp (f : PSt → List PSt) : Nat → List PSt → List PSt
  | 0, S => S
  | n + 1, S =>
    if (S.flatMap f).all (fun x => decide (x ∈ S)) then S else lfp f n (union S (S.flatMap f))

/-- a loop, given the analysis of "condition, then body" (`iter`) and of the condition alone
(`exit`) from every state of the invariant -/
def Res.loop : Res → Res → Res
  | ⟨_, r1, a1⟩, ⟨f2, r2, a2⟩ => ⟨f2, union r1 r2, union a1 a2⟩

mutual
def flowS : Stmt → PSt → Res
  | .lock, s => .prim s .lock
  | .unlock, s => .prim s .unlock
  | .acc a l, s => .prim s (.acc a l)
  | .publish, s => .prim s .publish
  | .callOnDelete, s => .prim s .callOnDelete
  | .ret, s => ⟨[], [s], []⟩
  | .ite c t e, s => (flowB c s).bind fun s1 => (flowB t s1).join (flowB e s1)
  | .loop c b, s =>
    -- invariant: the states at the loop head; closed under "condition, then body"
    let inv := lfp (fun s0 => ((flowB c s0).bind (flowB b)).falls) 13 [s]
    Res.loop (Res.from inv fun s0 => (flowB c s0).bind (flowB b)) (Res.from inv (flowB c))
  | .call _ b, s =>
    match flowB b s with
    | ⟨f, r, fa⟩ => ⟨union f r, [], fa⟩
def flowB : List Stmt → PSt → Res
  | [], s => ⟨[s], [], []⟩
  | x :: r, s => (flowS x s).bind (flowB r)
end

def Loc.code : Loc → Nat
  | .items => 0 | .usage => 1 | .size => 2 | .hit => 3 | .miss => 4 | .conf => 5
  | .itemKV true => 6 | .itemKV false => 7

def Acc.code : Acc → Nat
  | .read => 0 | .write => 1 | .atomic => 2

def Item.code : Item → Nat
  | .acc a l => 3 * l.code + a.code
  | .publish => 100
  | .callOnDelete => 101

def insertItem (x : Item) : List Item → List Item
  | [] => [x]
  | y :: r => if x.code < y.code then x :: y :: r else if x.code = y.code then y :: r else y :: insertItem x r

/-- a read is subsumed by a write of the same location in the same set -/
def Item.subsumedIn (l : List Item) : Item → Bool
  | .acc .read loc => l.contains (.acc .write loc)
  | _ => false

/-- sort by code, drop duplicates, drop reads subsumed by writes -/
def normItems (l : List Item) : List Item :=
  let s := l.foldr insertItem []
  s.filter fun i => !i.subsumedIn s

structure Profile where
  name : String
  /-- the `sync/atomic` accesses of the method, wherever they are -/
  atomics : List Item
  /-- may-access set before the first `Lock` -/
  pre : List Item
  /-- may-access set of the critical sections -/
  held : List Item
  /-- may-access set after an `Unlock`, outside the critical sections -/
  free : List Item
  /-- critical sections one path can enter: 0, 1, 2 (= two or more) -/
  sections : Nat
  relockBare : Bool
  deriving DecidableEq, Repr

def factsOf (m : Method) : List Fact :=
  let r := flowB m.body pinit
  r.facts

def profileOfFacts (name : String) (fs : List Fact) : Profile :=
  { name := name
    atomics := normItems (fs.filterMap fun | .atomic i => some i | _ => none)
    pre := normItems (fs.filterMap fun | .item .pre i => some i | _ => none)
    held := normItems (fs.filterMap fun | .item .held i => some i | _ => none)
    free := normItems (fs.filterMap fun | .item .free i => some i | _ => none)
    sections := fs.foldl (fun n f => match f with | .sections k => max n k | _ => n) 0
    relockBare := fs.contains .relockBare }

def sectionsOf (m : Method) : Profile := profileOfFacts m.name (factsOf m)

/-! ### Diagnostics (not used by any theorem): what differs from the expectation -/

def Item.show : Item → String
  | .acc .read l => "read " ++ l.show
  | .acc .write l => "write " ++ l.show
  | .acc .atomic l => "atomic " ++ l.show
  | .publish => "publish"
  | .callOnDelete => "OnDelete call"

def showItems (l : List Item) : String := "{" ++ ", ".intercalate (l.map Item.show) ++ "}"

def diffField (what : String) (got want : List Item) : List String :=
  if got = want then [] else [what ++ ": source has " ++ showItems got ++ ", documented " ++ showItems want]

def Profile.diff (got want : Profile) : List String :=
  (diffField "atomic accesses" got.atomics want.atomics ++
   diffField "accesses before the first Lock" got.pre want.pre ++
   diffField "accesses inside critical sections" got.held want.held ++
   diffField "accesses after an Unlock (outside sections)" got.free want.free ++
   (if got.sections = want.sections then [] else
     ["critical sections on one path: source " ++ toString got.sections ++ ", documented " ++ toString want.sections ++ " (2 = two or more)"]) ++
   (if got.relockBare = want.relockBare then [] else
     ["re-Lock after an Unlock without an OnDelete call in between: source " ++ toString got.relockBare ++ ", documented " ++ toString want.relockBare])).map
    fun d => "critical-section profile of cache." ++ got.name ++ " differs: " ++ d

def profileReport (got want : List Profile) : List String :=
  (if got.map (·.name) = want.map (·.name) then [] else
    ["exported methods of cache: source has " ++ toString (got.map (·.name)) ++ ", documented " ++ toString (want.map (·.name))]) ++
  (got.zip want).flatMap fun (g, w) => if g.name = w.name then g.diff w else []

/-! ## The expected profile (written by hand)

This is the critical-section structure `Model/C09.lean` / `Model/C09Frames.lean` were written
against: `Get`, `Del`, `Clear`, `Stats` are ONE critical section each (`Get` reads the found
item's value after its section; `Clear`, `Get`, `Stats` touch the hit/miss counters atomically);
`Set` runs two or more sections — check / evict / commit — giving up the lock in between only
around an `OnDelete` call, and publishes its item inside a section.  `Theorems/C10Lock.lean`,
`sections_expected`, compares it with the profile of the regenerated IR. -/
namespace Expected

private def r (l : Loc) : Item := .acc .read l
private def w (l : Loc) : Item := .acc .write l
private def counters : List Item := [.acc .atomic .hit, .acc .atomic .miss]

def clear : Profile :=
  { name := "Clear", atomics := counters, pre := [], held := [w .items, w .usage, w .size], free := [],
    sections := 1, relockBare := false }

def set : Profile :=
  { name := "Set", atomics := [], pre := []
    -- check / evict / commit sections
    held := [w .items, w .usage, w .size, .publish]
    -- the callback runs outside the lock, between two sections
    free := [.callOnDelete]
    sections := 2, relockBare := false }

def get : Profile :=
  { name := "Get", atomics := counters, pre := [], held := [r .items, w .usage], free := [],
    sections := 1, relockBare := false }

def del : Profile :=
  { name := "Del", atomics := [], pre := [], held := [w .items, w .usage, w .size], free := [],
    sections := 1, relockBare := false }

def stats : Profile :=
  { name := "Stats", atomics := counters, pre := [], held := [r .items, r .size], free := [],
    sections := 1, relockBare := false }

def sections : List Profile := [clear, set, get, del, stats]

end Expected

end GolibsVerif.C10.Lock
