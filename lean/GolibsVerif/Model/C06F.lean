/-
C06 — the formula language the `gen/subnets.go` translator reifies the Go code into, its
evaluator, the reflective equivalence checker (`check`, DESIGN.md Appendix A), the
counterexample finder (`cex`), the formula of a prefix (`prefixF`) and the tiny dispatch
language of `IsLocallyServed` / `IsSpecialPurpose`.

Core Lean only (linked into the driver).  `Gen/Subnets.lean` (regenerated on every run from
`/repo/netutil/subnetset.go`) imports this file and defines terms of `F`, `D` and `Pfx`.
-/
import GolibsVerif.Go.Basic

namespace GolibsVerif.C06

/-- Boolean formulas over the bytes `ip[0] … ip[W-1]` of a Go `[W]byte` array. -/
inductive F where
  | tt | ff
  /-- `ip[i] & m == v` (`ip[i] == v` is `atom i 0xFF v`) -/
  | atom (i m v : Nat)
  /-- `ip[i] >= c` -/
  | ge (i c : Nat)
  | and (a b : F)
  | or (a b : F)
  /-- `if c then t else e`: `switch` arms, `if`/`else`, `!c` as `ite c ff tt` -/
  | ite (c t e : F)
  deriving DecidableEq, Repr

/-- a byte list as the index function `F.eval` reads (`F.inScope` shows that the formulas
only read indices inside the array, as the Go compiler checks for constant indices) -/
def ipOf (bs : List Nat) : Nat → Nat := fun i => bs.getD i 0

namespace F

/-- Value of a formula on the byte vector `ip` (a function of the index). -/
def eval (ip : Nat → Nat) : F → Bool
  | tt => true
  | ff => false
  | atom i m v => (ip i &&& m) == v
  | ge i c => decide (ip i ≥ c)
  | and a b => eval ip a && eval ip b
  | or a b => eval ip a || eval ip b
  | ite c t e => if eval ip c then eval ip t else eval ip e

/-- every byte index a formula reads is `< w` (Go checks constant array indices at compile
time; this is the same check on the reified term, so the default of `ipOf` is never used) -/
def inScope (w : Nat) : F → Bool
  | tt => true
  | ff => true
  | atom i _ _ => decide (i < w)
  | ge i _ => decide (i < w)
  | and a b => inScope w a && inScope w b
  | or a b => inScope w a && inScope w b
  | ite c t e => inScope w c && inScope w t && inScope w e

def mkAnd : F → F → F
  | tt, b => b
  | ff, _ => ff
  | a, tt => a
  | _, ff => ff
  | a, b => and a b

def mkOr : F → F → F
  | tt, _ => tt
  | ff, b => b
  | _, tt => tt
  | a, ff => a
  | a, b => or a b

def mkIte : F → F → F → F
  | tt, t, _ => t
  | ff, _, e => e
  | c, t, e => if t = e then t else ite c t e

def ofBool (b : Bool) : F := if b then tt else ff

/-- fix byte `k := x` and constant-fold -/
def subst (k x : Nat) : F → F
  | tt => tt
  | ff => ff
  | atom i m v => if i = k then ofBool ((x &&& m) == v) else atom i m v
  | ge i c => if i = k then ofBool (decide (x ≥ c)) else ge i c
  | and a b => mkAnd (subst k x a) (subst k x b)
  | or a b => mkOr (subst k x a) (subst k x b)
  | ite c t e => mkIte (subst k x c) (subst k x t) (subst k x e)

def mentions (k : Nat) : F → Bool
  | tt => false
  | ff => false
  | atom i _ _ => i == k
  | ge i _ => i == k
  | and a b => mentions k a || mentions k b
  | or a b => mentions k a || mentions k b
  | ite c t e => mentions k c || mentions k t || mentions k e

/-- `check fuel k f g`: are `f` and `g` equal on every byte vector?  Byte-wise Shannon
expansion from byte `k` on, with de-duplication of the residual pairs.  Sound for every
fuel (`check_sound`); complete when `fuel ≥` number of bytes mentioned. -/
def check : Nat → Nat → F → F → Bool
  | 0, _, f, g => decide (f = g)
  | n+1, k, f, g =>
    if f = g then true
    else if !(mentions k f || mentions k g) then check n (k+1) f g
    else (((List.range 256).map fun x => (subst k x f, subst k x g)).eraseDups).all
           fun p => check n (k+1) p.1 p.2

/-- first `x < 256` (searching upwards from `256 - fuel`) for which `p x` is `some` -/
def firstSome {α} (p : Nat → Option α) : Nat → Option α
  | 0 => none
  | n+1 => match p (255 - n) with
    | some a => some a
    | none => firstSome p n

/-- Counterexample search mirroring `check`: the list of `(byte index, value)` choices that
leads to two syntactically different residuals.  The caller validates the vector with
`eval` (see `cexVec`), so nothing is trusted here. -/
def cexAux : Nat → Nat → F → F → Option (List (Nat × Nat))
  | 0, _, f, g => if f = g then none else some []
  | n+1, k, f, g =>
    if f = g then none
    else if !(mentions k f || mentions k g) then cexAux n (k+1) f g
    else firstSome (fun x => (cexAux n (k+1) (subst k x f) (subst k x g)).map ((k, x) :: ·)) 256

def lookup (asg : List (Nat × Nat)) (i : Nat) : Nat :=
  match asg.find? (·.1 == i) with
  | some p => p.2
  | none => 0

/-- A byte vector of length `w` on which `f` and `g` differ (validated by evaluation), if the
search finds one. -/
def cexVec (w : Nat) (f g : F) : Option (List Nat) :=
  match cexAux w 0 f g with
  | none => none
  | some asg =>
    let v := (List.range w).map (lookup asg)
    if eval (ipOf v) f != eval (ipOf v) g then some v else none

/-- disjunction of a list of formulas -/
def anyF : List F → F
  | [] => ff
  | f :: fs => or f (anyF fs)

end F

/-! ### Byte vectors and numbers -/

/-- big-endian number of a byte list -/
def beNat : List Nat → Nat
  | [] => 0
  | b :: bs => b * 2 ^ (8 * bs.length) + beNat bs

/-- the `w` low-order bytes of `n`, most significant first (`byteorder.BEPutUint32/64`) -/
def toBytes : Nat → Nat → List Nat
  | 0, _ => []
  | w+1, n => n / 2 ^ (8 * w) % 256 :: toBytes w n

/-! ### Prefixes -/

/-- A documented network: the address bytes (4 or 16, big-endian) and the prefix length. -/
structure Pfx where
  bytes : List Nat
  bits : Nat
  deriving DecidableEq, Repr

/-- mask of the `r` leading bits of a byte (`0 < r < 8`): `0x80, 0xC0, …, 0xFE` -/
def leadMask (r : Nat) : Nat := 256 - 2 ^ (8 - r)

/-- formula "the first `rem` bits of `ip[i:]` equal those of `bs`" -/
def prefixFAux : Nat → List Nat → Nat → F
  | _, [], _ => .tt
  | i, b :: bs, rem =>
    if rem ≥ 8 then .and (.atom i 255 b) (prefixFAux (i+1) bs (rem - 8))
    else if rem = 0 then .tt
    else .atom i (leadMask rem) (b &&& leadMask rem)

/-- the byte formula of a prefix -/
def prefixF (p : Pfx) : F := prefixFAux 0 p.bytes p.bits

/-- the numeric address of a prefix -/
def Pfx.addr (p : Pfx) : Nat := beNat p.bytes

/-- executable containment test: the `bits` leading bits of the `8*w`-bit number `n` equal
those of the prefix address -/
def Pfx.containsB (w : Nat) (p : Pfx) (n : Nat) : Bool :=
  decide (n / 2 ^ (8 * w - p.bits) = p.addr / 2 ^ (8 * w - p.bits))

/-- well-formed prefix of a `w`-byte family -/
def Pfx.wf (w : Nat) (p : Pfx) : Bool :=
  p.bytes.length == w && p.bytes.all (· < 256) && decide (p.bits ≤ 8 * w)

/-- the entries of a documented list that belong to the `w`-byte family -/
def family (w : Nat) (doc : List Pfx) : List Pfx := doc.filter (·.bytes.length == w)

/-- the formula "lies in one of the documented networks of the `w`-byte family" -/
def docF (w : Nat) (doc : List Pfx) : F := F.anyF ((family w doc).map prefixF)

/-! ### Dispatch on `netip.Addr` -/

/-- the conditions on a `netip.Addr` the dispatchers may branch on -/
inductive Cond where
  | isValid | is4 | is6 | is4In6
  deriving DecidableEq, Repr

/-- Reified body of `IsLocallyServed` / `IsSpecialPurpose`: a decision tree over the kind of
address whose leaves return a constant or call a byte-array function. -/
inductive D where
  /-- `return b` -/
  | ret (b : Bool)
  /-- `return f(ip.As4())` -/
  | on4 (f : F)
  /-- `return f(ip.As16())` -/
  | on16 (f : F)
  /-- `if c { t }; e`  /  `if c { t } else { e }`  /  one arm of a tagless `switch` -/
  | ite (c : Cond) (t e : D)
  /-- `ip = ip.Unmap(); d`: the rest of the body runs on the unmapped address -/
  | unmap (d : D)
  deriving DecidableEq, Repr

/-- the four kinds of `netip.Addr` (a 4in6 address `::ffff:a.b.c.d` is an IPv6 address for
`Is4`/`Is6`, but `Is4In6` and `As4` see the embedded IPv4) -/
inductive Kind where
  | invalid | v4 | v4in6 | v6
  deriving DecidableEq, Repr

def Cond.holds : Cond → Kind → Bool
  | .isValid, k => k != .invalid
  | .is4, k => k == .v4
  | .is6, k => k == .v4in6 || k == .v6
  | .is4In6, k => k == .v4in6

/-- the leaf reached for an address of kind `k`.  `Addr.Unmap` turns a 4in6 address into the
embedded IPv4 address and is the identity on every other kind, so below an `unmap` a 4in6
address continues as kind `v4` and the leaf it reaches is evaluated on the UNMAPPED address
(the `unmap` marker is kept around that leaf); for the other kinds the marker disappears. -/
def D.reach (k : Kind) : D → D
  | .ite c t e => if c.holds k then D.reach k t else D.reach k e
  | .unmap d => if k = .v4in6 then .unmap (D.reach .v4 d) else D.reach k d
  | d => d

end GolibsVerif.C06
