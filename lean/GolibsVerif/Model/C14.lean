/-
C14 — executable models for "text and JSON encodings of Duration, HostPort, Prefix and URL
are lossless".

golibs code modelled (as it is written, panics as `GoM` errors):
  * `timeutil.Duration.String / MarshalText / UnmarshalText`      (`/repo/timeutil/duration.go`)
  * `netutil.JoinHostPort / SplitHostPort`                         (`/repo/netutil/addr.go`)
  * `netutil.HostPort.String / ParseHostPort / UnmarshalText`      (`/repo/netutil/hostport.go`)
  * `netutil.Prefix.UnmarshalText`                                 (`/repo/netutil/prefix.go`)
  * `urlutil.Parse`, `URL.MarshalText / UnmarshalText / UnmarshalJSON` (`/repo/netutil/urlutil/url.go`)

Standard-library functions modelled in Lean (validated against the real ones by the
`C14.std.*` ops on every run):
  `time.Duration.String` (`format`, `fmtFrac`, `fmtInt`), `strconv.FormatUint(·,10)`,
  `strconv.ParseUint(·,10,16)`, `strings.Trim(·,"[]")`, `net.JoinHostPort`,
  `net.SplitHostPort`, `bytes.Contains(·,"/")`, `netip.PrefixFrom(a, a.BitLen())`.

Standard-library functions that are *parameters* (oracle fields on the case line):
  `time.ParseDuration`, `netip.ParsePrefix`, `netip.ParseAddr`, `url.Parse`,
  `(*url.URL).String`, `encoding/json` string encoding / decoding.

The URL model is that of the *repaired* code (two defects of the unchanged tree, see
REPORT.md): `UnmarshalJSON` decodes the JSON string instead of stripping the quotes, and
`Parse` refuses a URL whose text form is empty.
-/
import GolibsVerif.Go.Basic

namespace GolibsVerif.C14

/-! ## Decimal digits (shared by `time.fmtInt` and `strconv.FormatUint`) -/

/-- The loop `for v > 0 { w--; buf[w] = byte(v%10) + '0'; v /= 10 }`: the digits of `v` are
put in front of `tail`. -/
def decLoop (v : Nat) (tail : Bytes) : Bytes :=
  if v = 0 then tail else decLoop (v / 10) ((v % 10 + 48) :: tail)
termination_by v
decreasing_by omega

/-- `time.fmtInt(buf[:w], v)`: `tail` is what is already in the buffer behind `w`. -/
def fmtInt (tail : Bytes) (v : Nat) : Bytes :=
  if v = 0 then 48 :: tail else decLoop v tail

/-- The loop of `time.fmtFrac`: `prec` iterations, state `(v, print, buffer tail)`. -/
def fmtFracLoop : Nat → Nat → Bool → Bytes → Bytes × Nat × Bool
  | 0, v, print, tail => (tail, v, print)
  | prec + 1, v, print, tail =>
    let digit := v % 10
    let print := print || digit != 0
    fmtFracLoop prec (v / 10) print (if print then (digit + 48) :: tail else tail)

/-- `time.fmtFrac(buf[:w], v, prec)`: returns the new buffer tail and `v / 10^prec`. -/
def fmtFrac (tail : Bytes) (v : Nat) (prec : Nat) : Bytes × Nat :=
  let r := fmtFracLoop prec v false tail
  (if r.2.2 then 46 :: r.1 else r.1, r.2.1)

def second : Nat := 1000000000

/-- `-` for a negative duration (written last by `format`). -/
def signBytes (d : Int) : Bytes := if d < 0 then [45] else []

/-- `time.Duration(d).String()`.  `u` is `uint64(d)`, negated when `d < 0`, which for an
`int64` is `|d|` (also for `-2^63`). -/
def stdString (d : Int) : Bytes :=
  let u := d.natAbs
  if u < second then
    if u = 0 then [48, 115]                                   -- "0s", returned before the sign
    else
      let tp : Bytes × Nat :=
        if u < 1000 then ([110, 115], 0)                      -- "ns"
        else if u < 1000000 then ([0xC2, 0xB5, 115], 3)       -- "µs"
        else ([109, 115], 6)                                  -- "ms"
      let r := fmtFrac tp.1 u tp.2
      signBytes d ++ fmtInt r.1 r.2
  else
    let r := fmtFrac [115] u 9
    let t := fmtInt r.1 (r.2 % 60)
    let m := r.2 / 60
    if m > 0 then
      let t := fmtInt (109 :: t) (m % 60)
      let h := m / 60
      if h > 0 then signBytes d ++ fmtInt (104 :: t) h else signBytes d ++ t
    else signBytes d ++ t

/-! ## `timeutil.Duration` -/

def inInt64 (d : Int) : Prop := -9223372036854775808 ≤ d ∧ d ≤ 9223372036854775807

instance (d : Int) : Decidable (inInt64 d) := by unfold inInt64; exact inferInstance

/-- two's-complement wrap of an `int64` result -/
def wrap64 (x : Int) : Int := (x + 9223372036854775808) % 18446744073709551616 - 9223372036854775808

/-- `Duration.String`: `tailMin = len("0s") = 2`, `tailMinSec = len("0m0s") = 4`,
`secsInHour = 3600`, `minsInHour = 60`; `/` and `%` truncate (`Int.tdiv`, `Int.tmod`). -/
def durationString (d : Int) : GoM Bytes :=
  let str := stdString d
  let rounded := d.tdiv 1000000000
  if rounded = 0 ∨ wrap64 (rounded * 1000000000) ≠ d ∨ rounded.tmod 60 ≠ 0 then pure str
  else if ((rounded.tmod 3600).tdiv 60) ≠ 0 then GoM.sliceTo str ((str.length : Int) - 2)
  else GoM.sliceTo str ((str.length : Int) - 4)

/-- `Duration.MarshalText` -/
def durationMarshalText (d : Int) : GoM Bytes := durationString d

/-- `(*Duration).UnmarshalText` over `time.ParseDuration` (`none` = error, passed through). -/
def durationUnmarshalText (parseDuration : Bytes → Option Int) (b : Bytes) : Option Int :=
  parseDuration b

/-! ## `strconv` -/

/-- `strconv.FormatUint(n, 10)` -/
def formatUint (n : Nat) : Bytes := fmtInt [] n

inductive NumErr where
  | syntax
  | range
  deriving Repr, DecidableEq

def maxUint64 : Nat := 18446744073709551615

/-- the loop of `strconv.ParseUint(s, 10, 16)`: `cutoff = maxUint64/10 + 1`,
`maxVal = 1<<16 - 1`, `uint64` arithmetic wraps -/
def parseUintLoop (maxVal : Nat) : Bytes → Nat → Except NumErr Nat
  | [], n => .ok n
  | c :: rest, n =>
    if 48 ≤ c ∧ c ≤ 57 then
      let d := c - 48
      if n ≥ maxUint64 / 10 + 1 then .error .range
      else
        let n10 := n * 10
        let n1 := (n10 + d) % (maxUint64 + 1)
        if n1 < n10 ∨ n1 > maxVal then .error .range
        else parseUintLoop maxVal rest n1
    else .error .syntax     -- letters are digits ≥ 10 = base, `_` needs base 0: all syntax errors

/-- `strconv.ParseUint(s, 10, 16)` -/
def parseUint16 (s : Bytes) : Except NumErr Nat :=
  if s = [] then .error .syntax else parseUintLoop 65535 s 0

/-! ## `net.JoinHostPort`, `net.SplitHostPort` -/

def indexByteAux (c : Nat) : Bytes → Nat → Int
  | [], _ => -1
  | b :: rest, n => if b = c then (n : Int) else indexByteAux c rest (n + 1)

/-- `bytealg.IndexByteString(s, c)` -/
def indexByte (s : Bytes) (c : Nat) : Int := indexByteAux c s 0

def lastIndexByteAux (c : Nat) : Bytes → Nat → Int → Int
  | [], _, last => last
  | b :: rest, n, last => lastIndexByteAux c rest (n + 1) (if b = c then (n : Int) else last)

/-- `bytealg.LastIndexByteString(s, c)` -/
def lastIndexByte (s : Bytes) (c : Nat) : Int := lastIndexByteAux c s 0 (-1)

/-- `net.JoinHostPort` (go1.24: brackets iff the host contains a colon) -/
def netJoinHostPort (host port : Bytes) : Bytes :=
  if indexByte host 58 ≥ 0 then [91] ++ host ++ [93, 58] ++ port
  else host ++ [58] ++ port

/-- the `Err` field of the `*net.AddrError` returned by `net.SplitHostPort` -/
inductive SplitErr where
  | missingPort          -- "missing port in address"
  | tooManyColons        -- "too many colons in address"
  | missingBracket       -- "missing ']' in address"
  | unexpectedLB         -- "unexpected '[' in address"
  | unexpectedRB         -- "unexpected ']' in address"
  deriving Repr, DecidableEq

/-- the common tail of `net.SplitHostPort` after `host`, `j`, `k` are known -/
def splitTail (hp host : Bytes) (j k i : Int) : GoM (Except SplitErr (Bytes × Bytes)) :=
  GoM.sliceFrom hp j >>= fun sj =>
  if indexByte sj 91 ≥ 0 then pure (.error .unexpectedLB) else
  GoM.sliceFrom hp k >>= fun sk =>
  if indexByte sk 93 ≥ 0 then pure (.error .unexpectedRB) else
  GoM.sliceFrom hp (i + 1) >>= fun port => pure (.ok (host, port))

/-- `net.SplitHostPort`; every index and slice expression is checked (`GoM`). -/
def netSplitHostPort (hp : Bytes) : GoM (Except SplitErr (Bytes × Bytes)) :=
  let i := lastIndexByte hp 58
  if i < 0 then pure (.error .missingPort) else
  GoM.idx hp 0 >>= fun c0 =>
  if c0 = 91 then
    let e := indexByte hp 93
    if e < 0 then pure (.error .missingBracket)
    else if e + 1 = hp.length then pure (.error .missingPort)
    else if e + 1 = i then
      GoM.slice hp 1 e >>= fun host => splitTail hp host 1 (e + 1) i
    else
      GoM.idx hp (e + 1) >>= fun c =>
      if c = 58 then pure (.error .tooManyColons) else pure (.error .missingPort)
  else
    GoM.sliceTo hp i >>= fun host =>
    if indexByte host 58 ≥ 0 then pure (.error .tooManyColons) else splitTail hp host 0 0 i

/-! ## `netutil.JoinHostPort`, `SplitHostPort`, `HostPort` -/

def isBracket (b : Nat) : Bool := b == 91 || b == 93

/-- `strings.Trim(s, "[]")` -/
def trimBrackets (s : Bytes) : Bytes :=
  ((s.dropWhile isBracket).reverse.dropWhile isBracket).reverse

/-- `netutil.JoinHostPort(host, port)`, `port : uint16` -/
def joinHostPort (host : Bytes) (port : Nat) : Bytes :=
  netJoinHostPort (trimBrackets host) (formatUint port)

inductive HPErr where
  | split (e : SplitErr)       -- the `*net.AddrError` of `net.SplitHostPort`
  | port (e : NumErr)          -- "parsing port: %w" around the `*strconv.NumError`
  deriving Repr, DecidableEq

/-- `netutil.SplitHostPort` -/
def splitHostPort (hp : Bytes) : GoM (Except HPErr (Bytes × Nat)) :=
  netSplitHostPort hp >>= fun r =>
  match r with
  | .error e => pure (.error (.split e))
  | .ok (host, portStr) =>
    match parseUint16 portStr with
    | .error e => pure (.error (.port e))
    | .ok p => pure (.ok (host, p))

structure HostPort where
  host : Bytes
  port : Nat
  deriving Repr, DecidableEq

/-- `HostPort.String` (= `MarshalText`) -/
def HostPort.string (hp : HostPort) : Bytes := joinHostPort hp.host hp.port

/-- `netutil.ParseHostPort` (= `(*HostPort).UnmarshalText`); an error is wrapped into an
`*AddrError` of kind `hostport` around the cause, which is what `HPErr` records. -/
def parseHostPort (addr : Bytes) : GoM (Except HPErr HostPort) :=
  splitHostPort addr >>= fun r =>
  match r with
  | .error e => pure (.error e)
  | .ok (h, p) => pure (.ok ⟨h, p⟩)

/-! ## `netutil.Prefix.UnmarshalText` -/

/-- A `netip.Addr` as far as this property looks at it: the zero `Addr`, or an IPv4 / IPv6
address with its 16-byte value and zone. -/
structure Addr where
  kind : Nat            -- 0 = zero Addr, 4 = IPv4, 6 = IPv6
  bytes : Bytes
  zone : Bytes
  deriving Repr, DecidableEq

def Addr.zero : Addr := ⟨0, [], []⟩

/-- `Addr.BitLen` -/
def Addr.bitLen (a : Addr) : Nat := if a.kind = 4 then 32 else if a.kind = 6 then 128 else 0

def Addr.withoutZone (a : Addr) : Addr := { a with zone := [] }

/-- A `netip.Prefix`: address and `Bits()` (`-1` for an invalid prefix). -/
structure Prefix where
  addr : Addr
  bits : Int
  deriving Repr, DecidableEq

def Prefix.zero : Prefix := ⟨Addr.zero, -1⟩

/-- `netip.PrefixFrom(ip, bits)` -/
def prefixFrom (ip : Addr) (bits : Int) : Prefix :=
  if ip.kind ≠ 0 ∧ 0 ≤ bits ∧ bits ≤ ip.bitLen then ⟨ip.withoutZone, bits⟩
  else ⟨ip.withoutZone, -1⟩

/-- `bytes.Contains(b, []byte("/"))` -/
def containsSlash (b : Bytes) : Bool := indexByte b 47 ≥ 0

/-- the two `netip` parsers the code delegates to (`none` = error) -/
structure NetipStd where
  parsePrefix : Bytes → Option Prefix
  parseAddr : Bytes → Option Addr

/-- `netip.Prefix.UnmarshalText` -/
def NetipStd.prefixUnmarshalText (S : NetipStd) (b : Bytes) : Option Prefix :=
  if b = [] then some Prefix.zero else S.parsePrefix b

/-- `netip.Addr.UnmarshalText` -/
def NetipStd.addrUnmarshalText (S : NetipStd) (b : Bytes) : Option Addr :=
  if b = [] then some Addr.zero else S.parseAddr b

/-- `netutil.Prefix.UnmarshalText`; `none` = the error of the `netip` parser, passed through
(the receiver is then left unchanged). -/
def prefixUnmarshalText (S : NetipStd) (b : Bytes) : Option Prefix :=
  if containsSlash b then S.prefixUnmarshalText b
  else
    match S.addrUnmarshalText b with
    | none => none
    | some ip => some (prefixFrom ip ip.bitLen)

/-! ## `urlutil.URL` -/

/-- `net/url` as seen by `urlutil`: `U` stands for `url.URL` values. -/
structure UrlStd (U : Type) where
  parse : Bytes → Option U      -- `url.Parse` (`none` = `*url.Error`)
  str : U → Bytes               -- `(*url.URL).String`

/-- `encoding/json` as seen by `urlutil`. -/
structure JsonStd where
  quote : Bytes → Bytes             -- `json.Marshal` of a `TextMarshaler`'s text
  unquote : Bytes → Option Bytes    -- `json.Unmarshal(token, &s)` for `s string` (`none` = error)

inductive UrlErr where
  | emptyURL          -- `ErrEmpty` / "empty url"
  | emptyJSON         -- "empty json value for url"
  | typeErr           -- `*json.UnmarshalTypeError`
  | jsonSyntax        -- error of decoding the JSON string
  | parse             -- `*url.Error` from `url.Parse`
  deriving Repr, DecidableEq

variable {U : Type}

/-- `urlutil.Parse` (repaired: a URL whose text form is empty is `ErrEmpty`, too) -/
def urlParse (S : UrlStd U) (raw : Bytes) : Except UrlErr U :=
  if raw = [] then .error .emptyURL
  else match S.parse raw with
    | none => .error .parse
    | some u => if S.str u = [] then .error .emptyURL else .ok u

/-- `(*URL).MarshalText` = `url.URL.MarshalBinary` = `[]byte(u.String())` -/
def urlMarshalText (S : UrlStd U) (u : U) : Bytes := S.str u

/-- `(*URL).UnmarshalText` = empty check + `url.URL.UnmarshalBinary` = `url.Parse` -/
def urlUnmarshalText (S : UrlStd U) (b : Bytes) : Except UrlErr U :=
  if b.length = 0 then .error .emptyURL
  else match S.parse b with
    | none => .error .parse
    | some u => .ok u

/-- `(*URL).UnmarshalJSON` (repaired: the string token is decoded by `encoding/json`).
`.ok none` is the `null` case, which leaves the receiver untouched.  The two index
expressions `b[0]`, `b[l-1]` are checked. -/
def urlUnmarshalJSON (S : UrlStd U) (J : JsonStd) (b : Bytes) : GoM (Except UrlErr (Option U)) :=
  if b = [110, 117, 108, 108] then pure (.ok none)
  else
    let l : Int := b.length
    if l = 0 then pure (.error .emptyJSON)
    else
      GoM.idx b 0 >>= fun first =>
      GoM.idx b (l - 1) >>= fun last =>
      if first ≠ 34 ∨ last ≠ 34 then pure (.error .typeErr)
      else match J.unquote b with
        | none => pure (.error .jsonSyntax)
        | some s => pure ((urlUnmarshalText S s).map some)

/-- `json.Marshal(u)` for `u *URL`: the text of `MarshalText` as a JSON string -/
def urlMarshalJSON (S : UrlStd U) (J : JsonStd) (u : U) : Bytes := J.quote (urlMarshalText S u)

/-- the pre-fix `UnmarshalJSON` of the unchanged tree (quotes stripped, no unescaping); kept
to state the defect as a theorem -/
def urlUnmarshalJSONUnfixed (S : UrlStd U) (b : Bytes) : GoM (Except UrlErr (Option U)) :=
  if b = [110, 117, 108, 108] then pure (.ok none)
  else
    let l : Int := b.length
    if l = 0 then pure (.error .emptyJSON)
    else
      GoM.idx b 0 >>= fun first =>
      GoM.idx b (l - 1) >>= fun last =>
      if first ≠ 34 ∨ last ≠ 34 then pure (.error .typeErr)
      else GoM.slice b 1 (l - 1) >>= fun inner => pure ((urlUnmarshalText S inner).map some)

end GolibsVerif.C14
