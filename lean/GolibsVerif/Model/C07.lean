/-
C07 — executable model of `/repo/hostsfile/record.go`: `cutField`, `cutStringField`,
`(*Record).UnmarshalText` (both passes, as written) and `Record.MarshalText`.

Parameters: `toASCII` (golang.org/x/net/idna.ToASCII, consumed by the C03 model of
`netutil.ValidateDomainName`), `formatAddr` (`netip.Addr.MarshalText`; the theorems and the
driver instantiate it with the model `Netip.addrMarshalText` of `Go/NetipFmt.lean`, which is
`Addr.String()` for every valid address and is proved to be inverted by the parser model —
the former contract ADDR-RT).  `netip.ParseAddr` is the Lean model of `Go/Netip.lean`.

`bytes.IndexAny`, `bytes.Trim`, `bytes.TrimLeft` (and their `strings` twins) are modelled
byte-wise, which is what the Go functions do for an ASCII-only cutset (`gen/c07.go` checks
that `hostsfile.spaces` is ASCII-only and regenerates it into `Gen/C07.lean`).

Index and slice expressions go through `GoM`.  The validation loop is a well-founded
recursion on the length of the remaining tail; the measure decreases because a non-empty
field was cut off (`cut_tail_lt`, proved below from the normal form `cutField_eq`).
-/
import GolibsVerif.Go.Netip
import GolibsVerif.Model.NetAddr
import GolibsVerif.Lemmas.GoM
import GolibsVerif.Gen.C07

namespace GolibsVerif.C07
open GolibsVerif GolibsVerif.Str GolibsVerif.Netutil GolibsVerif.Netip

/-! ### `bytes` / `strings` functions over an ASCII cutset -/

/-- membership in a cutset -/
def inSet (cs : Bytes) (b : Nat) : Bool := cs.contains b

/-- `bytes.IndexAny(s, cs)` / `strings.IndexAny` for an ASCII-only `cs` (−1 when absent) -/
def indexAnyFrom (cs : Bytes) : Bytes → Nat → Int
  | [], _ => -1
  | b :: rest, i => if inSet cs b then (i : Int) else indexAnyFrom cs rest (i + 1)

def indexAny (s cs : Bytes) : Int := indexAnyFrom cs s 0

/-- `bytes.TrimLeft(s, cs)` for an ASCII-only `cs` -/
def trimLeft (s cs : Bytes) : Bytes := s.dropWhile (inSet cs)

/-- `bytes.TrimRight(s, cs)` for an ASCII-only `cs` -/
def trimRight (s cs : Bytes) : Bytes := (s.reverse.dropWhile (inSet cs)).reverse

/-- `bytes.Trim(s, cs)` for an ASCII-only `cs` (`trimRightASCII(trimLeftASCII(s))`) -/
def trim (s cs : Bytes) : Bytes := trimRight (trimLeft s cs) cs

/-- `hostsfile.spaces`, regenerated from the source -/
def spaces : Bytes := GolibsVerif.Gen.C07.spaces

def isSpace (b : Nat) : Bool := inSet spaces b

/-- the comment character `'#'` -/
def hash : Nat := 35

/-! ### `cutField` / `cutStringField` -/

/-- `cutField(data)`.  (`tail` is `nil` in the first branch; the callers only look at
`len(tail)`, so `nil` and the empty slice are the same value here.) -/
def cutField (data : Bytes) : GoM (Bytes × Bytes) :=
  let endIdx := indexAny data spaces
  if endIdx < 0 then pure (data, [])
  else do
    let field ← GoM.sliceTo data endIdx
    let rest ← GoM.sliceFrom data endIdx
    pure (field, trimLeft rest spaces)

/-- `cutStringField(data)`: the same code on a `string`. -/
def cutStringField (data : Bytes) : GoM (Bytes × Bytes) :=
  let endIdx := indexAny data spaces
  if endIdx < 0 then pure (data, [])
  else do
    let field ← GoM.sliceTo data endIdx
    let rest ← GoM.sliceFrom data endIdx
    pure (field, trimLeft rest spaces)

/-! #### normal form of the cut (needed for the termination of the validation loop) -/

theorem take_length_takeWhile (p : Nat → Bool) (s : Bytes) :
    s.take (s.takeWhile p).length = s.takeWhile p := by
  induction s with
  | nil => rfl
  | cons b r ih => by_cases h : p b <;> simp [List.takeWhile, h, ih]

theorem drop_length_takeWhile (p : Nat → Bool) (s : Bytes) :
    s.drop (s.takeWhile p).length = s.dropWhile p := by
  induction s with
  | nil => rfl
  | cons b r ih => by_cases h : p b <;> simp [List.takeWhile, List.dropWhile, h, ih]

theorem length_takeWhile_le (p : Nat → Bool) (s : Bytes) : (s.takeWhile p).length ≤ s.length := by
  induction s with
  | nil => simp
  | cons b r ih => by_cases h : p b <;> simp [List.takeWhile, h]; omega

theorem indexAnyFrom_spec (cs : Bytes) (s : Bytes) (i : Nat) :
    (indexAnyFrom cs s i = -1 ∧ s.takeWhile (fun b => !inSet cs b) = s) ∨
    (indexAnyFrom cs s i = ((i + (s.takeWhile (fun b => !inSet cs b)).length : Nat) : Int)) := by
  induction s generalizing i with
  | nil => left; simp [indexAnyFrom]
  | cons b r ih =>
    unfold indexAnyFrom
    by_cases h : inSet cs b = true
    · right; simp [h, List.takeWhile]
    · simp only [h]
      have hb : inSet cs b = false := by simpa using h
      rcases ih (i + 1) with ⟨h1, h2⟩ | h1
      · left; exact ⟨h1, by simp [List.takeWhile, hb, h2]⟩
      · right; rw [h1]; simp [List.takeWhile, hb]; omega

/-- the non-blank predicate -/
def nsp (b : Nat) : Bool := !isSpace b

theorem cut_eq (data : Bytes) :
    cutField data = .ok (data.takeWhile nsp, trimLeft (data.dropWhile nsp) spaces) := by
  unfold cutField indexAny
  have hfun : (fun b => !inSet spaces b) = nsp := rfl
  rcases indexAnyFrom_spec spaces data 0 with ⟨h1, h2⟩ | h1
  · rw [hfun] at h2
    have hd : data.dropWhile nsp = [] := by
      have := drop_length_takeWhile nsp data
      rw [h2] at this; simpa using this.symm
    simp [h1, h2, hd, trimLeft, pure, Except.pure]
  · rw [hfun] at h1
    rw [h1]
    have hle := length_takeWhile_le nsp data
    have hnn : ¬ (((0 + (data.takeWhile nsp).length : Nat) : Int) < 0) := by omega
    simp only [hnn, if_false]
    have e1 : GoM.sliceTo data ((0 + (data.takeWhile nsp).length : Nat) : Int) = .ok (data.takeWhile nsp) := by
      unfold GoM.sliceTo
      have := GoM.slice_ofNat data 0 (0 + (data.takeWhile nsp).length) (by omega) (by omega)
      rw [show ((0 : Nat) : Int) = 0 from rfl] at this
      rw [this]; simp [take_length_takeWhile]
    have e2 : GoM.sliceFrom data ((0 + (data.takeWhile nsp).length : Nat) : Int) = .ok (data.dropWhile nsp) := by
      unfold GoM.sliceFrom
      have := GoM.slice_ofNat data (0 + (data.takeWhile nsp).length) data.length (by omega) (by omega)
      rw [this]
      simp only [Nat.zero_add, drop_length_takeWhile]
      congr 1
      apply List.take_of_length_le
      have := congrArg List.length (drop_length_takeWhile nsp data)
      simp at this; omega
    rw [e1, e2]; rfl

theorem cutString_eq (data : Bytes) :
    cutStringField data = .ok (data.takeWhile nsp, trimLeft (data.dropWhile nsp) spaces) :=
  cut_eq data

theorem length_dropWhile_le (p : Nat → Bool) (s : Bytes) : (s.dropWhile p).length ≤ s.length := by
  induction s with
  | nil => simp
  | cons b r ih => by_cases h : p b <;> simp [List.dropWhile, h]; omega

/-- cutting a non-empty field off makes the tail strictly shorter -/
theorem cut_tail_lt {t f t' : Bytes} (h : cutStringField t = .ok (f, t')) (hf : f ≠ []) :
    t'.length < t.length := by
  rw [cutString_eq] at h
  injection h with h
  injection h with h1 h2
  subst h1 h2
  have h1 := length_dropWhile_le (inSet spaces) (t.dropWhile nsp)
  have h2 := congrArg List.length (List.takeWhile_append_dropWhile (p := nsp) (l := t))
  have h3 : 0 < (t.takeWhile nsp).length := List.length_pos_iff.2 hf
  simp only [List.length_append] at h2
  unfold trimLeft
  omega

/-! ### `Record` and its errors -/

/-- `hostsfile.Record` -/
structure Record where
  addr : Addr
  source : Bytes
  names : List Bytes
  deriving Repr

/-- the errors `UnmarshalText` returns -/
inductive RecErr where
  | emptyLine                       -- ErrEmptyLine
  | noHosts                         -- ErrNoHosts
  | addrParse                       -- whatever netip.ParseAddr returned
  | name (idx : Nat) (e : Err)      -- fmt.Errorf("name at index %d: %w", idx, e)
  deriving Repr

/-- `(*netip.Addr).UnmarshalText(text)`: the new value of `*ip` and whether an error was
returned. -/
def addrUnmarshalText (text : Bytes) : Addr × Bool :=
  if text.length = 0 then (.invalid, false)
  else match parseAddr text with
    | some a => (a, false)
    | none => (.invalid, true)

set_option linter.unusedVariables false in
/-- The first pass,
`for f, t := cutStringField(hosts); f != ""; f, t = cutStringField(t) { … n++ }`,
entered with the current tail; returns `n`, the error, and (ghost) the fields that passed
validation, in order. -/
def validateLoop (toASCII : Bytes → Option Bytes) (t : Bytes) (n : Nat) (seen : List Bytes) :
    GoM (Nat × Option RecErr × List Bytes) :=
  match h : cutStringField t with
  | .error p => .error p
  | .ok (f, t') =>
    if hf : f = [] then pure (n, none, seen)
    else
      match validateDomainName toASCII f with
      | .error p => .error p
      | .ok (some e) => pure (n, some (.name n e), seen)
      | .ok none => validateLoop toASCII t' (n + 1) (seen ++ [f])
termination_by t.length
decreasing_by exact cut_tail_lt h hf

/-- The second pass, `for i := range rec.Names { rec.Names[i], hosts = cutStringField(hosts) }`
with `len(rec.Names) = n`. -/
def fillNames : Nat → Bytes → GoM (List Bytes)
  | 0, _ => pure []
  | n + 1, hosts => do
    let (f, t) ← cutStringField hosts
    let rest ← fillNames n t
    pure (f :: rest)

/-- `if commIdx := bytes.IndexByte(data, '#'); commIdx >= 0 { data = data[:commIdx] }` -/
def cutComment (data : Bytes) : GoM Bytes :=
  let commIdx := indexByte data hash
  if commIdx ≥ 0 then GoM.sliceTo data commIdx else pure data

/-- `(*Record).UnmarshalText(data)`: the record after the call and the returned error. -/
def unmarshalText (toASCII : Bytes → Option Bytes) (r : Record) (data : Bytes) :
    GoM (Record × Option RecErr) := do
  let data ← cutComment data
  let (field, data) ← cutField (trim data spaces)
  if field.length = 0 then return (r, some .emptyLine)
  if data.length = 0 then return (r, some .noHosts)
  let (a, bad) := addrUnmarshalText field
  let r := { r with addr := a }
  if bad then return (r, some .addrParse)
  let hosts := data
  let (n, err, _) ← validateLoop toASCII hosts 0 []
  let names ← fillNames n hosts
  return ({ r with names := names }, err)

/-- `Record.MarshalText()` (`slices.Grow` / `slices.Clip` only touch the capacity; the grown
size is a sum of lengths, never negative, so `Grow` does not panic). -/
def marshalText (formatAddr : Addr → Bytes) (r : Record) : Bytes :=
  r.names.foldl (fun data name => data ++ [32] ++ name) (formatAddr r.addr)

end GolibsVerif.C07
