/-
Executable models of the name validators of `/repo/netutil/addr.go` and the error
constructors of `/repo/netutil/error.go`.  Shared by C01, C02, C03, C04, C05, C07.

Conventions: `none : Option Err` is Go's `nil` error; functions that index or slice are in
`GoM`; `toASCII` (golang.org/x/net/idna.ToASCII) is a parameter.  The Go loops
`label, tail, found := strings.Cut(name, "."); for ; found; …` are folds over
`Str.splitOn 46 name` (lemma `Str.splitOn_cut` in `Lemmas/Strings.lean` relates the two).
-/
import GolibsVerif.Go.Strings
import GolibsVerif.Gen.Consts

namespace GolibsVerif.Netutil
open GolibsVerif.Str GolibsVerif.Gen.Consts

/-- `AddrKind` / `LabelKind` strings of `error.go`. -/
inductive Kind where
  | arpa | cidr | hostport | ip | ipport | ipv4 | mac | name | domainName | srvName
  | lblDomain | lblHost | lblSRV | lblTLD
  deriving Repr, DecidableEq

/-- sentinel / opaque errors -/
inductive ConstErr where
  | notAReversedIP | notAReversedSubnet | allNumeric | leadingZero
  | idna          -- whatever idna.ToASCII returned
  | parseAddr     -- whatever netip.ParseAddr returned
  | parseUint     -- whatever strconv.ParseUint returned
  deriving Repr, DecidableEq

/-- the error values the netutil validators build -/
inductive Err where
  | addr (kind : Kind) (addr : Bytes) (inner : Option Err)   -- *AddrError
  | label (kind : Kind) (label : Bytes) (inner : Err)         -- *LabelError
  | length (kind : Kind) (allowed : List Nat) (max len : Nat) -- *LengthError
  | rune (kind : Kind) (r : Nat)                              -- *RuneError
  | const (c : ConstErr)
  deriving Repr

/-- `errors.Unwrap`: the wrapped error of an `*AddrError` / `*LabelError`, `nil` for the
other types (they have no `Unwrap` method). -/
def Err.unwrap : Err → Option Err
  | .addr _ _ inner => inner
  | .label _ _ inner => some inner
  | _ => none

/-- `replaceKind(err, newKind)`; it panics on `nil` and on any other error type. -/
def replaceKind (e : Option Err) (k : Kind) : GoM Err :=
  match e with
  | some (.label _ l i) => .ok (.label k l i)
  | some (.addr _ a i) => .ok (.addr k a i)
  | some (.length _ al m n) => .ok (.length k al m n)
  | some (.rune _ r) => .ok (.rune k r)
  | _ => .error (.explicit "netutil: unexpected error type")

def isValidHostOuterRune (r : Nat) : Bool := isLower r || isUpper r || isDigit r
def isValidHostInnerRune (r : Nat) : Bool := r == 45 || isValidHostOuterRune r

/-- `ValidateDomainNameLabel` -/
def validateDomainNameLabel (label : Bytes) : Option Err :=
  if label = [] then some (.label .lblDomain label (.length .lblDomain [] 0 0))
  else if label.length > MaxDomainLabelLen then
    some (.label .lblDomain label (.length .lblDomain [] MaxDomainLabelLen label.length))
  else none

/-- `ValidateHostnameLabel` -/
def validateHostnameLabel (label : Bytes) : GoM (Option Err) := do
  match validateDomainNameLabel label with
  | some e =>
    let inner ← replaceKind e.unwrap .lblHost
    return some (.label .lblHost label inner)
  | none =>
    let l : Int := label.length
    let r ← GoM.idx label 0
    if !isValidHostOuterRune r then return some (.label .lblHost label (.rune .lblHost r))
    if l = 1 then return none
    let mid ← GoM.slice label 1 (l - 1)
    match mid.find? (fun r => !isValidHostInnerRune r) with
    | some r => return some (.label .lblHost label (.rune .lblHost r))
    | none =>
      let r ← GoM.idx label (l - 1)
      if !isValidHostOuterRune r then return some (.label .lblHost label (.rune .lblHost r))
      return none

/-- `IsValidHostnameLabel` -/
def isValidHostnameLabel (label : Bytes) : GoM Bool := do
  if label = [] then return false
  let l : Int := label.length
  if label.length > MaxDomainLabelLen then return false
  let r ← GoM.idx label 0
  if !isValidHostOuterRune r then return false
  if l = 1 then return true
  let mid ← GoM.slice label 1 (l - 1)
  if mid.any (fun r => !isValidHostInnerRune r) then return false
  let r ← GoM.idx label (l - 1)
  return isValidHostOuterRune r

/-- `hasValidTLDChars`: some rune is not a decimal digit (digits are ASCII, so this is a
statement about bytes) -/
def hasValidTLDChars (tld : Bytes) : Bool := tld.any (fun r => !isDigit r)

/-- `ValidateTLDLabel` -/
def validateTLDLabel (tld : Bytes) : GoM (Option Err) := do
  match ← validateHostnameLabel tld with
  | some e =>
    let inner ← replaceKind e.unwrap .lblTLD
    return some (.label .lblTLD tld inner)
  | none =>
    if !hasValidTLDChars tld then return some (.label .lblTLD tld (.const .allNumeric))
    return none

/-- `isValidTLDLabel` -/
def isValidTLDLabel (tld : Bytes) : GoM Bool := do
  return (← isValidHostnameLabel tld) && hasValidTLDChars tld

/-- `ValidateServiceNameLabel` -/
def validateServiceNameLabel (label : Bytes) : GoM (Option Err) := do
  if label = [] ∨ label = [95] then
    return some (.label .lblSRV label (.length .lblSRV [] 0 0))
  let r ← GoM.idx label 0
  if r ≠ 95 then return some (.label .lblSRV label (.rune .lblSRV r))
  if label.length > MaxServiceLabelLen then
    return some (.label .lblSRV label (.length .lblSRV [] MaxServiceLabelLen label.length))
  let rest ← GoM.sliceFrom label 1
  match ← validateHostnameLabel rest with
  | some e =>
    let inner ← replaceKind e.unwrap .lblSRV
    return some (.label .lblSRV label inner)
  | none => return none

/-- the body of the `for ; found; …` loop followed by `return ValidateTLDLabel(label)`:
every label but the last goes through `f`, the last through `ValidateTLDLabel` -/
def validateLabels (f : Bytes → GoM (Option Err)) : List Bytes → GoM (Option Err)
  | [] => return none
  | [last] => validateTLDLabel last
  | l :: rest => do
    match ← f l with
    | some e => return some e
    | none => validateLabels f rest

/-- common shape of `ValidateDomainName` / `ValidateHostname` / `ValidateSRVDomainName` -/
def validateName (kind : Kind) (f : Bytes → GoM (Option Err))
    (toASCII : Bytes → Option Bytes) (name : Bytes) : GoM (Option Err) := do
  let wrap (e : Err) : Option Err := some (.addr kind name (some e))   -- makeAddrError
  match toASCII name with
  | none => return wrap (.const .idna)
  | some n =>
    if n = [] then return wrap (.length kind [] 0 0)
    if n.length > MaxDomainNameLen then return wrap (.length kind [] MaxDomainNameLen n.length)
    match ← validateLabels f (splitOn 46 n) with
    | some e => return wrap e
    | none => return none

def validateDomainName := validateName .domainName (fun l => pure (validateDomainNameLabel l))
def validateHostname := validateName .name validateHostnameLabel
def validateSRVDomainName := validateName .srvName fun l =>
  if hasPrefix l [95] then validateServiceNameLabel l else validateHostnameLabel l

/-- `IsValidHostname` -/
def isValidLabels : List Bytes → GoM Bool
  | [] => return false
  | [last] => isValidTLDLabel last
  | l :: rest => do
    if !(← isValidHostnameLabel l) then return false
    isValidLabels rest

def isValidHostname (toASCII : Bytes → Option Bytes) (name : Bytes) : GoM Bool := do
  match toASCII name with
  | none => return false
  | some n =>
    if n = [] then return false
    if n.length > MaxDomainNameLen then return false
    isValidLabels (splitOn 46 n)

end GolibsVerif.Netutil
