/-
C11 — storage-level model of `*SortedSliceSet[T]` objects that may share backing arrays,
used for the clone-independence theorem.

In `Model/C11.lean` a set is the *value* of its `elems` slice, so "a clone and its origin
never affect each other" cannot even be asked there.  Here the state is a heap of backing
arrays plus a register file of set objects; an object is the slice header of its `elems`
field (backing array id and length; the offset is always 0 in this code, the capacity is the
length of the array).  Every method is modelled with the in-place behaviour the stdlib
documents:

* `slices.Insert(s, i, v)` writes into the backing array when `len(s)+1 ≤ cap(s)` and
  allocates a new array otherwise (the old one is left untouched);
* `slices.Delete(s, i, i+1)` shifts inside the backing array and zeroes the vacated slot;
* `clear(s); s = s[:0]` zeroes in place and keeps the array;
* `slices.Clone(s)` allocates; `NewSortedSliceSet(elems...)` sorts and compacts *the array it
  is given* in place (`CompactFunc` zeroes the tail) and keeps it.

What is proved about it (`Lemmas/C11Heap.lean`, `Theorems/C11.lean`): as long as the
registers were produced by `New…`/`Clone`/nil assignment, the observable value of every
register evolves exactly as in the value model where registers are independent mathematical
values — i.e. no call on one object ever changes what another object holds.
-/
import GolibsVerif.Model.C11

namespace GolibsVerif.C11.Heap
open GolibsVerif.C11

/-- header of `set.elems` -/
structure Hdr where
  arr : Nat
  len : Nat
  deriving Repr, DecidableEq

/-- the heap of backing arrays (never freed; a garbage collector only removes unreachable
ones) and the register file; `none` is the nil pointer -/
structure St (T : Type) where
  arrays : List (List T)
  regs : Nat → Option Hdr

variable {T : Type} [GoOrdered T]

def setReg (regs : Nat → Option Hdr) (i : Nat) (h : Option Hdr) : Nat → Option Hdr :=
  fun k => if k = i then h else regs k

/-- the backing array with id `a` -/
def arrAt (arrays : List (List T)) (a : Nat) : List T := arrays.getD a []

/-- the elements a header denotes -/
def view (arrays : List (List T)) (h : Hdr) : List T := (arrAt arrays h.arr).take h.len

/-- `NewSortedSliceSet(elems...)` on a freshly allocated argument slice holding `vals`
(`slices.Clone`, or the slice the compiler builds for a variadic call) -/
def newSet (zero : T) (arrays : List (List T)) (vals : List T) : List (List T) × Hdr :=
  (arrays ++ [(SSS.new vals).elems ++ List.replicate (vals.length - (SSS.new vals).elems.length) zero],
   ⟨arrays.length, (SSS.new vals).elems.length⟩)

/-- `slices.Insert(s, i, v)` as a list -/
def inserted (s : List T) (i : Nat) (v : T) : List T := s.take i ++ v :: s.drop i

/-- `slices.Delete(s, i, i+1)` as a list -/
def removed (s : List T) (i : Nat) : List T := s.take i ++ s.drop (i + 1)

def add (zero : T) (arrays : List (List T)) (h : Hdr) (v : T) : List (List T) × Hdr :=
  if (binarySearch (view arrays h) v).2 then (arrays, h)
  else if h.len + 1 ≤ (arrAt arrays h.arr).length then
    -- room in the backing array: shift in place
    (arrays.set h.arr (inserted (view arrays h) (binarySearch (view arrays h) v).1 v
        ++ (arrAt arrays h.arr).drop (h.len + 1)), ⟨h.arr, h.len + 1⟩)
  else
    -- `append` grows: a new array (its spare capacity is immaterial), the old one untouched
    (arrays ++ [inserted (view arrays h) (binarySearch (view arrays h) v).1 v
        ++ List.replicate (h.len + 1) zero], ⟨arrays.length, h.len + 1⟩)

def delete (zero : T) (arrays : List (List T)) (h : Hdr) (v : T) : List (List T) × Hdr :=
  if (binarySearch (view arrays h) v).2 then
    (arrays.set h.arr (removed (view arrays h) (binarySearch (view arrays h) v).1
        ++ zero :: (arrAt arrays h.arr).drop h.len), ⟨h.arr, h.len - 1⟩)
  else (arrays, h)

def clear (zero : T) (arrays : List (List T)) (h : Hdr) : List (List T) × Hdr :=
  (arrays.set h.arr (List.replicate h.len zero ++ (arrAt arrays h.arr).drop h.len), ⟨h.arr, 0⟩)

/-- `NewSortedSliceSet(slices.Clone(set.elems)...)` -/
def clone (zero : T) (arrays : List (List T)) (h : Hdr) : List (List T) × Hdr :=
  newSet zero arrays (view arrays h)

/-- the calls of a script that involve storage -/
inductive Op (T : Type) where
  | new (i : Nat) (vals : List T)      -- register i := NewSortedSliceSet(vals...)
  | nil (i : Nat)                      -- register i := nil
  | add (i : Nat) (v : T)
  | delete (i : Nat) (v : T)
  | clear (i : Nat)
  | clone (i j : Nat)                  -- register j := register i .Clone()

/-- one call on the heap; calls that panic on a nil receiver leave everything unchanged -/
def step (zero : T) (s : St T) : Op T → St T
  | .new i vals => let r := newSet zero s.arrays vals; ⟨r.1, setReg s.regs i (some r.2)⟩
  | .nil i => ⟨s.arrays, setReg s.regs i none⟩
  | .add i v =>
    match s.regs i with
    | none => s
    | some h => let r := add zero s.arrays h v; ⟨r.1, setReg s.regs i (some r.2)⟩
  | .delete i v =>
    match s.regs i with
    | none => s
    | some h => let r := delete zero s.arrays h v; ⟨r.1, setReg s.regs i (some r.2)⟩
  | .clear i =>
    match s.regs i with
    | none => s
    | some h => let r := clear zero s.arrays h; ⟨r.1, setReg s.regs i (some r.2)⟩
  | .clone i j =>
    match s.regs i with
    | none => ⟨s.arrays, setReg s.regs j none⟩
    | some h => let r := clone zero s.arrays h; ⟨r.1, setReg s.regs j (some r.2)⟩

def run (zero : T) (s : St T) (ops : List (Op T)) : St T := ops.foldl (step zero) s

/-- the register a call is applied to, or, for the three assignments, assigned to -/
def Op.target : Op T → Nat
  | .new i _ => i
  | .nil i => i
  | .add i _ => i
  | .delete i _ => i
  | .clear i => i
  | .clone _ j => j

/-- all registers nil, empty heap: the start of every script -/
def init : St T := ⟨[], fun _ => none⟩

/-! ### the value-level register file: registers are independent mathematical values -/

/-- what register `k` observably holds -/
def valueOf (s : St T) (k : Nat) : Option (SSS T) := (s.regs k).map fun h => ⟨view s.arrays h⟩

def setVal (regs : Nat → Option (SSS T)) (i : Nat) (v : Option (SSS T)) : Nat → Option (SSS T) :=
  fun k => if k = i then v else regs k

/-- one call in the value model of `Model/C11.lean`: it touches the receiver's (or, for
`new`/`nil`/`clone`, the destination's) register and nothing else -/
def vstep (regs : Nat → Option (SSS T)) : Op T → Nat → Option (SSS T)
  | .new i vals => setVal regs i (some (SSS.new vals))
  | .nil i => setVal regs i none
  | .add i v =>
    match SSS.addP (regs i) v with
    | .ok r => setVal regs i r
    | .error _ => regs
  | .delete i v =>
    match SSS.deleteP (regs i) v with
    | .ok r => setVal regs i r
    | .error _ => regs
  | .clear i => setVal regs i (SSS.clearP (regs i))
  | .clone i j => setVal regs j (SSS.cloneP (regs i))

def vrun (regs : Nat → Option (SSS T)) (ops : List (Op T)) : Nat → Option (SSS T) :=
  ops.foldl vstep regs

end GolibsVerif.C11.Heap
